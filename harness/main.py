"""./check entry point."""
from __future__ import annotations
import argparse, importlib, json, os, sys, traceback
from . import common


def main() -> int:
    ap = argparse.ArgumentParser()
    ap.add_argument("prop")
    ap.add_argument("--tier", default=os.environ.get("VERIF_TIER", "quick"), choices=["quick", "thorough"])
    ap.add_argument("--replay", default=None)
    ap.add_argument("--explore", type=int, default=0)
    a = ap.parse_args()
    os.environ["VERIF_TIER"] = a.tier
    pid = a.prop.upper()
    mod = importlib.import_module(f"harness.{pid.lower()}")
    out = common.Outcome(pid, mod.LEVEL)
    try:
        if a.replay:
            out.replay_mode = True
            replay = json.loads(open(a.replay).read())
            mod.replay(out, replay)
        else:
            mod.run(out, explore=a.explore)
    except Exception:  # a crashing check must not look like a pass
        out.violation({"kind": "harness-error", "traceback": traceback.format_exc()}, no_failing_input=True)
    return out.finish()


if __name__ == "__main__":
    sys.exit(main())
