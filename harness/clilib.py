"""Driving the real CLI entry point (python -m tel2puml ...) in separate processes."""
from __future__ import annotations

import json
import os
import subprocess
from pathlib import Path

from . import common, storelib as S


def write_dataset(d: Path, evs, fname="data.json", ty_name=None, wf_name=None) -> Path:
    data = d / "data"
    data.mkdir(exist_ok=True)
    ty_name = ty_name or S.s_ty
    wf_name = wf_name or S.s_name
    spans = [dict(job_name=wf_name(e["name"]), job_id=S.s_job(e["job"]), event_type=ty_name(e["ty"]), event_id=S.s_id(e["id"]),
                  start_timestamp=e["st"], end_timestamp=e["en"], application_name=S.s_app(e["app"]),
                  parent_event_id=("" if e["par"] == 0 else S.s_id(e["par"])) if e["par"] is not None else None) for e in evs]
    (data / fname).write_text(json.dumps({"spans": spans}))
    return data


def write_config(d: Path, data_dir: Path, db_path: Path | None, bs=1000, buf=0, sequencer: dict | None = None, name="config.yaml") -> Path:
    import yaml
    cfg = {
        "ingest_data": {"data_source": "json", "data_holder": "sql"},
        "data_holders": {"sql": {"db_uri": f"sqlite:///{db_path}" if db_path else "sqlite:///:memory:", "batch_size": bs, "time_buffer": buf}},
        "data_sources": {"json": {"dirpath": str(data_dir), "filepath": None, "json_per_line": False, "jq_query": ".spans[]"}},
    }
    if sequencer:
        cfg["sequencer"] = sequencer
    p = d / name
    p.write_text(yaml.safe_dump(cfg))
    return p


def run_cli(args: list[str], cwd: Path, hashseed=0, timeout=300):
    """returns (returncode, combined output tail)"""
    try:
        r = subprocess.run([common.PY, "-m", "tel2puml"] + args, cwd=cwd, env=common.impl_env(hashseed),
                           capture_output=True, text=True, timeout=timeout)
        return r.returncode, (r.stdout + r.stderr)[-3000:]
    except subprocess.TimeoutExpired:
        return 124, "timeout"


def read_pv_dir(outdir: Path):
    """{job_name: sorted list of canonical jobs}, a canonical job = sorted tuple of event tuples"""
    res = {}
    if not outdir.exists():
        return res
    for jd in sorted(p for p in outdir.iterdir() if p.is_dir()):
        jobs = []
        for f in sorted(jd.glob("pv_event_sequence_*.json")):
            evs = json.loads(f.read_text())
            jobs.append(sorted((e["eventId"], e["eventType"], tuple(sorted(e.get("previousEventIds", []))), e["timestamp"],
                                e["jobId"], e["jobName"], e["applicationName"]) for e in evs))
        res[jd.name] = sorted(jobs)
    return res


def read_pumls(outdir: Path):
    return {p.stem: p.read_text() for p in sorted(outdir.glob("*.puml"))}
