"""One-off generator of the frozen pool of fragment-F definitions (harness/pool/F.jsonl).
   /venv/bin/python -m harness.poolgen <count> <master_seed>
The pool is committed and never extended at check time (DESIGN 3.4)."""
import hashlib, json, random, sys
from . import pumllib as P

def main():
    n, master = int(sys.argv[1]), int(sys.argv[2])
    out, seen, k = [], set(), 0
    while len(out) < n and k < 200 * n:
        k += 1
        rnd = random.Random(master * 1000003 + k)
        g = P.GenF(rnd, max_events=rnd.choice([6, 10, 16, 24, 30]))
        d = g.definition()
        if g.n < 2 or g.n > 32:
            continue
        try:
            jobs = P.dedup_jobs(P.jobs_of(2, d, cap=3000))
        except OverflowError:
            continue
        if len(jobs) > 250:
            continue
        h = hashlib.sha256(json.dumps(d).encode()).hexdigest()[:16]
        shape = json.dumps(_shape(d))
        if shape in seen:
            continue
        seen.add(shape)
        out.append(dict(id=h, events=g.n, jobs=len(jobs), d=d))
    out.sort(key=lambda r: (r["events"], r["jobs"], r["id"]))
    with open(P.__file__.replace("pumllib.py", "pool/F.jsonl"), "w") as f:
        for r in out:
            f.write(json.dumps(r) + "\n")
    print(len(out), "definitions")

def _shape(d):
    return [("e" if b[0] == "ev" else b[0] if b[0] in ("break", "detach") else ("loop", _shape(b[1])) if b[0] == "loop"
             else (b[1], [_shape(s) for s in b[2]])) for b in d]

if __name__ == "__main__":
    main()
