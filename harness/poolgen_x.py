import hashlib, json, random, sys
sys.path.insert(0, '/verif')
from harness import pumllib as P, poolgen
class GenX(P.GenF):
    """beyond F: dispatchers - an XOR whose branches may begin with a nested XOR (merges of merges) and may end the job
    (detach) or, inside a loop, leave it (break)"""
    def branch(self, depth, inloop):
        r = self.r.random()
        if depth < 2 and r < 0.45:
            return [("fork", "XOR", [self.branch(depth + 1, inloop) for _ in range(self.r.choice([2, 2, 3]))]), self.ev()]
        return [self.ev()] + ([self.ev()] if self.r.random() < 0.3 else [])
    def dispatcher(self, inloop):
        brs = [self.branch(0, inloop) for _ in range(self.r.choice([2, 3, 4]))]
        if self.r.random() < 0.7:
            brs.append([self.ev(), ("break",) if inloop else ("detach",)])
        self.r.shuffle(brs)
        return ("fork", "XOR", brs)
    def definition(self):
        out = [self.ev()]
        if self.r.random() < 0.5:
            out.append(("loop", [self.ev(), self.dispatcher(True), self.ev()]))
        else:
            out.append(self.dispatcher(False))
        out.append(self.ev())
        if self.r.random() < 0.4:
            out.append(self.ev())
        return out
out, seen, k = [], set(), 0
while len(out) < 150 and k < 20000:
    k += 1
    rnd = random.Random(4242 * 1000003 + k)
    g = GenX(rnd)
    d = g.definition()
    if g.n > 22: continue
    try: jobs = P.dedup_jobs(P.jobs_of(2, d, cap=3000))
    except Exception as e:
        print("ERR", type(e).__name__, e); break
    if len(jobs) > 150 or len(jobs) < 2: continue
    shape = json.dumps(poolgen._shape(d))
    if shape in seen: continue
    seen.add(shape)
    out.append(dict(id=hashlib.sha256(json.dumps(d).encode()).hexdigest()[:16], events=g.n, jobs=len(jobs), d=d))
out.sort(key=lambda r: (r["events"], r["jobs"], r["id"]))
open('/verif/harness/pool/X.jsonl','w').write("".join(json.dumps(r)+"\n" for r in out))
print(len(out)); print(P.show(out[40]['d'])); print(out[40]['jobs'])
