"""C08 - call trees are sequenced exactly as the sequencing rules specify.

Theorems: coq/theories/Properties/C08.v about V.Otel.Sequencer.  Correspondence: the real
sequence_otel_job_id_streams vs `to_pv` evaluated in coqc.  Failing-input search: an independent
Python oracle written from docs/user/sequencer_HOWTO.md (union-find components, recursive link rule)."""
from __future__ import annotations

import itertools
import random
from . import common
from .common import coq_z, coq_list, coq_string

LEVEL = "proof"

# ----------------------------------------------------------------------------- trees
# tree node: dict(id:int, ty:int, st:int, en:int, pl:int, kids:[...])  kids in child_event_ids order


def tree_shapes(n):
    """all rooted ordered-forest shapes with n nodes, as nested tuples"""
    if n == 1:
        return [()]
    out = []
    for parts in _compositions(n - 1):
        for combo in itertools.product(*[tree_shapes(k) for k in parts]):
            out.append(tuple(combo))
    return out


def _compositions(n):
    if n == 0:
        return [[]]
    res = []
    for first in range(1, n + 1):
        for rest in _compositions(n - first):
            res.append([first] + rest)
    return res


def unordered(shape):
    return tuple(sorted(unordered(k) for k in shape))


def build(shape, intervals, types, counter):
    i = next(counter)
    st, en = intervals[i - 1]
    return dict(id=i, ty=types[i - 1], st=st, en=en, pl=1 + (i % 2), kids=[build(k, intervals, types, counter) for k in shape])


def sibling_starts_distinct(t):
    ss = [k["st"] for k in t["kids"]]
    return len(set(ss)) == len(ss) and all(sibling_starts_distinct(k) for k in t["kids"])


def all_nodes(t):
    yield t
    for k in t["kids"]:
        yield from all_nodes(k)


def random_tree(rnd, n, ntypes, tmax, style):
    nodes = [dict(id=1, ty=rnd.randint(1, ntypes), st=0, en=tmax, pl=1, kids=[])]
    for i in range(2, n + 1):
        if style == "wide":
            par = nodes[rnd.randrange(min(len(nodes), 3))]
        elif style == "deep":
            par = nodes[-1] if rnd.random() < 0.7 else rnd.choice(nodes)
        else:
            par = rnd.choice(nodes)
        used = {k["st"] for k in par["kids"]}
        free = [x for x in range(tmax) if x not in used]
        while not free:
            par = rnd.choice(nodes)
            used = {k["st"] for k in par["kids"]}
            free = [x for x in range(tmax) if x not in used]
        st = rnd.choice(free)
        r = rnd.random()
        if r < 0.15:
            en = st                       # touching / instantaneous
        elif r < 0.35:
            en = min(tmax, st + rnd.randrange(tmax // 2, tmax))   # long span covering later ones
        else:
            en = min(tmax, st + rnd.randrange(0, max(2, tmax // 6)))
        nd = dict(id=i, ty=rnd.randint(1, ntypes), st=st, en=en, pl=1 + rnd.randrange(3), kids=[])
        par["kids"].append(nd)
        nodes.append(nd)
    for nd in nodes:
        rnd.shuffle(nd["kids"])
    return nodes[0]


def random_cfg(rnd, ntypes):
    gmap = {}
    for pty in range(1, ntypes + 1):
        if rnd.random() < 0.5:
            g = {}
            for cty in rnd.sample(range(1, ntypes + 1), rnd.randint(1, ntypes)):
                g[cty] = rnd.randint(1, 2)
            gmap[pty] = g
    rules = {}
    for ty in range(1, ntypes + 1):
        if rnd.random() < 0.35:
            # respect the rename theorem's side condition most of the time: listed child types are
            # neither keys nor mapped types
            rules[ty] = (ntypes + 10 + ty, sorted(rnd.sample(range(1, ntypes + 1), rnd.randint(1, 2))))
    if rnd.random() < 0.8:
        keys = set(rules)
        rules = {k: (m, [c for c in cts if c not in keys]) for k, (m, cts) in rules.items()}
        rules = {k: v for k, v in rules.items() if v[1]}
    elif len(rules) >= 2 and rnd.random() < 0.6:
        # layered map: a rule lists the MAPPED type of another rule (a type that exists only after renaming); outside the
        # documented rule's side condition, exercised for the model correspondence (in-place renaming in stream order)
        ks = sorted(rules)
        a, b = rnd.sample(ks, 2)
        rules[a] = (rules[a][0], sorted(set(rules[a][1]) | {rules[b][0]}))
    return gmap, rules


def side_condition(rules):
    keys = set(rules)
    mapped = {m for m, _ in rules.values()}
    return all(c not in keys and c not in mapped for _, cts in rules.values() for c in cts)


# ----------------------------------------------------------------------------- implementation

def run_impl(case):
    from tel2puml.otel_to_pv.otel_to_pv_types import OTelEvent, OTelEventTypeMap
    from tel2puml.otel_to_pv.sequence_otel import sequence_otel_job_id_streams
    t, order = case["tree"], case["order"]
    par = {}
    for nd in all_nodes(t):
        for k in nd["kids"]:
            par[k["id"]] = nd["id"]
    byid = {nd["id"]: nd for nd in all_nodes(t)}
    sid = lambda i: f"e{i}"   # noqa
    evs = []
    for i in order:
        nd = byid[i]
        evs.append(OTelEvent(job_name=f"name{nd['pl']}", job_id=f"job{nd['pl']}", event_type=f"T{nd['ty']}", event_id=sid(i),
                             start_timestamp=nd["st"] * case["scale"], end_timestamp=nd["en"] * case["scale"],
                             application_name=f"app{nd['pl']}", parent_event_id=sid(par[i]) if i in par else None,
                             child_event_ids=[sid(k["id"]) for k in nd["kids"]]))
    gmap = {f"T{p}": {f"T{c}": f"g{g}" for c, g in m.items()} for p, m in case["gmap"].items()}
    rules = {f"T{k}": OTelEventTypeMap(mapped_event_type=f"T{m}", child_event_types={f"T{c}" for c in cts})
             for k, (m, cts) in case["rules"].items()}
    try:
        jobs = list(sequence_otel_job_id_streams([evs], case["async"], gmap, rules or None))
        rows = [list(j) for j in jobs]
        assert len(rows) == 1
        out = []
        for r in rows[0]:
            out.append((int(r["eventId"][1:]), int(r["eventType"][1:]), [int(x[1:]) for x in r["previousEventIds"]],
                        r["timestamp"], r["jobId"], r["jobName"], r["applicationName"]))
        return out
    except Exception as e:  # noqa
        return "ERR:" + type(e).__name__


# ----------------------------------------------------------------------------- independent oracle

def oracle(case):
    """Links per the documented rules, computed independently of the code's sweep."""
    t = case["tree"]
    byid = {nd["id"]: nd for nd in all_nodes(t)}
    # rename on ORIGINAL types (documented rule)
    ty = {}
    for nd in all_nodes(t):
        ty[nd["id"]] = nd["ty"]
        r = case["rules"].get(nd["ty"])
        if r and any(k["ty"] in r[1] for k in nd["kids"]):
            ty[nd["id"]] = r[0]
    links = {}

    def groups_of(nd):
        kids = nd["kids"]
        gm = case["gmap"].get(ty[nd["id"]], {})
        # prior-information classes
        units = {}
        singles = []
        for k in kids:
            g = gm.get(ty[k["id"]])
            if g is None:
                singles.append([k])
            else:
                units.setdefault(g, []).append(k)
        units = list(units.values()) + singles
        if case["async"]:
            # connected components of closed-interval overlap between units' members
            parent = list(range(len(units)))

            def find(x):
                while parent[x] != x:
                    parent[x] = parent[parent[x]]
                    x = parent[x]
                return x
            win = [(min(k["st"] for k in u), max(k["en"] for k in u)) for u in units]
            for a in range(len(units)):
                for b in range(a + 1, len(units)):
                    if win[a][0] <= win[b][1] and win[b][0] <= win[a][1]:
                        parent[find(a)] = find(b)
            comp = {}
            for a in range(len(units)):
                comp.setdefault(find(a), []).extend(units[a])
            units = list(comp.values())
        units.sort(key=lambda u: min(k["st"] for k in u))
        return units

    def go(nd, prev):
        for g in groups_of(nd):
            for k in g:
                go(k, prev)
            prev = sorted(k["id"] for k in g)
        links[nd["id"]] = sorted(prev)
    go(t, [])
    return ty, links


def check_against_oracle(case, impl):
    """returns None if the implementation's output satisfies the documented rules, else a reason"""
    if isinstance(impl, str):
        return f"implementation raised {impl}"
    t = case["tree"]
    byid = {nd["id"]: nd for nd in all_nodes(t)}
    ids = sorted(byid)
    if sorted(r[0] for r in impl) != ids:
        return "span ids emitted differ from the trace's spans (lost/duplicated)"
    ty, links = oracle(case)
    strict_rename = side_condition(case["rules"])
    for (i, ety, prev, ts, job, name, app) in impl:
        nd = byid[i]
        if (job, name, app) != (f"job{nd['pl']}", f"name{nd['pl']}", f"app{nd['pl']}"):
            return f"span {i}: job id / workflow / application not copied"
        if strict_rename and ety != ty[i]:
            return f"span {i}: type {ety}, documented rename rule gives {ty[i]}"
        if strict_rename and sorted(prev) != links[i]:
            return f"span {i}: predecessors {sorted(prev)}, documented rules give {links[i]}"
    # acyclic + after all descendants (holds whatever the rename did)
    preds = {r[0]: r[2] for r in impl}
    anc = {}

    def reach(i, seen):
        for q in preds[i]:
            if q not in seen:
                seen.add(q)
                reach(q, seen)
        return seen
    for i in ids:
        anc[i] = reach(i, set())
        if i in anc[i]:
            return f"cycle through span {i}"
    for nd in all_nodes(t):
        for d in all_nodes(nd):
            if d is not nd and d["id"] not in anc[nd["id"]]:
                return f"span {nd['id']} does not follow its descendant {d['id']}"
    return None


# ----------------------------------------------------------------------------- Coq terms

def coq_tree(t, scale):
    return (f"(Span {t['id']} {t['ty']} {coq_z(t['st'] * scale)} {coq_z(t['en'] * scale)} {t['pl']} "
            + coq_list([coq_tree(k, scale) for k in t["kids"]]) + ")")


def coq_case(case, impl):
    gm = coq_list([f"({p}%positive, {coq_list([f'({c}%positive, {g}%positive)' for c, g in m.items()])})"
                   for p, m in case["gmap"].items()])
    rs = coq_list([f"({k}%positive, ({m}%positive, {coq_list([f'{c}%positive' for c in cts])}))"
                   for k, (m, cts) in case["rules"].items()])
    order = coq_list([f"{i}%positive" for i in case["order"]])
    if isinstance(impl, str):
        res = "None"
    else:
        res = "Some " + coq_list([
            f"({i}%positive, {ty}%positive, {coq_list([f'{q}%positive' for q in prev])}, {coq_string(ts)}, {byid_pl(case, i)}%positive)"
            for (i, ty, prev, ts, *_rest) in impl])
    a = "true" if case["async"] else "false"
    return f"(({a}, {gm}, {rs}, {order}, {coq_tree(case['tree'], case['scale'])}), {res})"


def byid_pl(case, i):
    for nd in all_nodes(case["tree"]):
        if nd["id"] == i:
            return nd["pl"]
    return 1


def cases_v(pairs) -> str:
    body = ";\n ".join(coq_case(c, r) for c, r in pairs)
    return f"""From Coq Require Import ZArith String List Bool. Import ListNotations.
From V Require Import Otel.Span Otel.Sequencer Otel.SeqCheck.
Open Scope positive_scope.
Definition inp := (bool * gmap * rules * list positive * span)%type.
Definition cases : list (inp * option (list pvrow)) := [
 {body}].
Definition run (c : inp) := let '(a, m, rs, o, t) := c in to_pv a m rs o t.
Definition run0 (c : inp) := let '(a, m, rs, o, t) := c in to_pv_v0 a m rs o t.
Eval vm_compute in (1%nat, idx (fun p => orows_eqb (Some (run (fst p))) (snd p)) cases).
Eval vm_compute in (2%nat, idx (fun p => orows_eqb (run0 (fst p)) (snd p)) cases).
"""


# ----------------------------------------------------------------------------- run

def gen_cases(out, explore):
    rnd = random.Random(out.seed * 104729 + 8)
    cases = []
    quick = out.tier == "quick"
    # exhaustive family: all shapes <= nmax spans, interval endpoints on a grid
    nmax = 3 if quick else 4
    grid = range(0, 4) if quick else range(0, 5)
    pairs = [(a, b) for a in grid for b in grid if a <= b]
    cfgs = [({}, {}), ({1: {2: 1, 3: 1, 4: 2}}, {}), ({1: {2: 1, 3: 1}}, {1: (9, [3])})]
    n_exh = 0
    for n in range(1, nmax + 1):
        for shape in tree_shapes(n):
            for iv in itertools.product(pairs, repeat=n - 1):
                intervals = [(0, max(grid))] + list(iv)
                types = [1] + [2 + (k % 2) for k in range(n - 1)]
                t = build(shape, intervals, types, itertools.count(1))
                if not sibling_starts_distinct(t):
                    continue
                order = list(range(1, n + 1))
                for asy in (False, True):
                    for ci, (gm, rs) in enumerate(cfgs):
                        if n == 1 and ci:
                            continue
                        cases.append(dict(tree=t, order=order, scale=1000, gmap=gm, rules=rs, exhaustive=True, **{"async": asy}))
                        n_exh += 1
    n_rand = explore or (1500 if quick else 40000)
    for k in range(n_rand):
        n = rnd.choice([2, 3, 4, 5, 6, 8, 10, 14, 20, 30])
        ntypes = rnd.choice([2, 3, 4])
        t = random_tree(rnd, n, ntypes, rnd.choice([6, 12, 40, 1000]), rnd.choice(["wide", "deep", "any"]))
        gm, rs = random_cfg(rnd, ntypes)
        if rnd.random() < 0.3:
            gm = {}
        if rnd.random() < 0.5:
            rs = {}
        order = [nd["id"] for nd in all_nodes(t)]
        rnd.shuffle(order)
        cases.append(dict(tree=t, order=order, scale=rnd.choice([1, 1000, 10**9 + 7]), gmap=gm, rules=rs,
                          exhaustive=False, **{"async": rnd.random() < 0.5}))
    # layered rename chains: span types 1 > 2 > 3 nested, rule 2 -> 12 when a child of type 3 is present, rule 1 -> 11 when a
    # child of the MAPPED type 12 is present; children-first, parents-first and shuffled stream orders (model correspondence:
    # the renaming is done in place, in stream order)
    for k in range(12 if out.tier == "quick" else 120):
        g3 = dict(id=3, ty=3, st=2, en=3, pl=1, kids=[])
        g2 = dict(id=2, ty=2, st=1, en=4, pl=1, kids=[g3])
        extra = dict(id=4, ty=rnd.choice([2, 3, 4]), st=5, en=6, pl=1, kids=[])
        t = dict(id=1, ty=1, st=0, en=8, pl=1, kids=[g2, extra])
        order = [[3, 2, 4, 1], [1, 2, 3, 4], [2, 3, 1, 4], [4, 3, 2, 1]][k % 4]
        rs = {2: (12, [3]), 1: (11, [12] + ([4] if k % 3 == 0 else []))}
        if k % 5 == 4:
            rs[4] = (14, [12])
        cases.append(dict(tree=t, order=order, scale=1000, gmap={}, rules=rs, exhaustive=False, **{"async": k % 2 == 1}))
    return cases, n_exh, n_rand


def shrink(case, bad):
    """greedy: drop leaves / configs while the predicate still fails"""
    import copy
    cur = copy.deepcopy(case)
    changed = True
    while changed:
        changed = False
        for nd in list(all_nodes(cur["tree"])):
            for k in list(nd["kids"]):
                if not k["kids"]:
                    cand = copy.deepcopy(cur)
                    for nd2 in all_nodes(cand["tree"]):
                        nd2["kids"] = [x for x in nd2["kids"] if x["id"] != k["id"]]
                    cand["order"] = [i for i in cand["order"] if i != k["id"]]
                    if bad(cand):
                        cur = cand
                        changed = True
                        break
            if changed:
                break
        if not changed:
            for key in ("rules", "gmap"):
                if cur[key]:
                    cand = copy.deepcopy(cur)
                    cand[key] = {}
                    if bad(cand):
                        cur = cand
                        changed = True
    return cur


def run(out: common.Outcome, explore: int = 0) -> None:
    common.setup_impl_path()
    ok = common.proof_obligations(out, "C08")
    import tel2puml.events  # noqa: F401
    import logging
    logging.disable(logging.CRITICAL)
    cases, n_exh, n_rand = gen_cases(out, explore)
    impl = [run_impl(c) for c in cases]
    # oracle on the implementation's outputs (always)
    oracle_bad = []
    for k, (c, r) in enumerate(zip(cases, impl)):
        why = check_against_oracle(c, r)
        if why:
            oracle_bad.append((k, why))
    shard = 250
    files = [(f"S{k}", cases_v(list(zip(cases[k:k + shard], impl[k:k + shard])))) for k in range(0, len(cases), shard)]
    res = common.coq_eval_many(files) if ok else []
    dis, dis0, coq_fail = [], [], []
    for (name, _), (okc, o) in zip(files, res):
        base = int(name[1:])
        l1, l2 = common.parse_nat_list(o, "1"), common.parse_nat_list(o, "2")
        if not okc or l1 is None or l2 is None:
            coq_fail.append((name, o[-800:]))
            continue
        dis += [base + i for i in l1]
        dis0 += [base + i for i in l2]

    reported = set()
    for k, why in oracle_bad:
        sig = why.split(":")[0][:40] + str(cases[k]["async"])
        if sig in reported or len(reported) >= 4:
            continue
        reported.add(sig)
        small = shrink(cases[k], lambda c: check_against_oracle(c, run_impl(c)) is not None)
        r = run_impl(small)
        out.violation({"kind": "sequencing differs from the documented rules", "why": check_against_oracle(small, r),
                       "case": small, "implementation_output": r, "oracle": oracle(small)[1] if not isinstance(r, str) else None,
                       "agrees_with_pinned_tree_model_v0": k not in dis0})
    if ok and not out.violations and (dis or coq_fail):
        out.violation({"kind": "correspondence-broken",
                       "relation": "sequence_otel_job_id_streams == V.Otel.SeqCheck.to_pv (model of the sequencing rules, theorems in Properties/C08.v)",
                       "first_disagreements": [{"case": cases[k], "implementation_output": impl[k]} for k in dis[:3]],
                       "coq_failures": coq_fail[:2]}, no_failing_input=True)

    # ---- leg P: the glue around the sequencer (dict of events, root finding, rename on the dict, recursion over child
    #      id lists, row emission; skipped / error outcome classes) on regular and irregular streamed jobs
    from . import c08_pipeline
    pl = c08_pipeline.run_leg(out.seed, 1200 if out.tier == "quick" else 20000, 60 if out.tier == "quick" else 1000) if ok else None
    if pl and not out.violations and (any(pl["disagreements"].values()) or pl["coq_failures"]):
        out.violation({"kind": "correspondence-broken",
                       "relation": "sequence_otel_job_id_streams outcome (rows / exception / skipped job) == V.Otel.Pipeline.sequence_job; "
                                   "otel_to_pv generator expression == otel_to_pv_model",
                       "disagreements": {k: v[:5] for k, v in pl["disagreements"].items()}, "first": pl["first"],
                       "coq_failures": pl["coq_failures"][:2]}, no_failing_input=True)

    # ---- leg G: the configuration path (config.sequencer -> otel_to_pv -> sequencer)
    from . import c08_config
    import logging
    logging.disable(logging.CRITICAL)
    gl = c08_config.leg(out, 30 if out.tier == "quick" else 400) if ok else None
    if gl:
        for b in gl["bad"][:2]:
            out.violation(b)
        out.coverage["config_leg"] = dict(cases=gl["cases"], with_single_child_type_group=gl["with_single_child_type_group"], rejected=len(gl["bad"]))

    def nontrivial(c):
        return any(len(nd["kids"]) >= 2 for nd in all_nodes(c["tree"]))
    keys = {repr((c["tree"], c["async"], sorted(c["gmap"].items()), sorted(c["rules"].items()))) for c in cases if nontrivial(c)}
    out.coverage.update({
        "evaluations": len(cases), "distinct_nontrivial": len(keys),
        "rule": f"exhaustive: every rooted span tree with <= {3 if out.tier == 'quick' else 4} spans, child intervals on the integer grid, "
                "distinct sibling starts, x {sync, async} x 3 prior-information/rename configurations; random: trees up to 30 spans "
                "(wide/deep, long spans covering later short ones, touching endpoints), random group and rename maps, shuffled "
                "stream and child order; non-trivial = some span has >= 2 children; distinct by (tree, mode, maps)",
        "exhaustive_cases": n_exh, "random_cases": n_rand,
        "samples": [{"case": cases[i], "implementation_output": impl[i]} for i in (min(40, len(cases) - 1), len(cases) - 1)],
        "traces_validated_against_impl": len(cases) - len(coq_fail) * shard + (pl["n_jobs"] + pl["n_streams"] if pl else 0),
        "model_impl_disagreements": len(dis), "pinned_model_v0_disagreements": len(dis0),
        "oracle_rejections": len(oracle_bad),
        "pipeline_leg": None if not pl else dict(jobs=pl["n_jobs"], streams=pl["n_streams"], outcomes=pl["outcomes"],
                                                 disagreements={k: len(v) for k, v in pl["disagreements"].items()}),
        "rename_side_condition_false_cases": sum(1 for c in cases if not side_condition(c["rules"])),
        "trusted_base": common.std_trusted_base([
            "Python oracle written from docs/user/sequencer_HOWTO.md is only the failing-input search, not part of the proof",
            "nano_to_pv (C16's model) for the timestamp field",
        ]),
    })
    out.assumptions += ["sibling start times are distinct (the property's quantifier); ties are still modelled (stable sorts)",
                        "rename rule compared with the documented one only when no listed child type is itself a key or a mapped type "
                        "(rename_spec_correct's hypothesis); outside it the result depends on stream order and is reported for information"]


def replay(out: common.Outcome, rp: dict) -> None:
    common.setup_impl_path()
    import tel2puml.events  # noqa
    case = rp["case"]
    case["gmap"] = {int(k): {int(c): g for c, g in v.items()} for k, v in case["gmap"].items()}
    case["rules"] = {int(k): (v[0], v[1]) for k, v in case["rules"].items()}
    r = run_impl(case)
    why = check_against_oracle(case, r)
    print("implementation:", r)
    print("oracle verdict:", why)
    if why:
        out.violation(rp)
    out.coverage.update({"evaluations": 1, "distinct_nontrivial": 0, "rule": "replay", "samples": [rp]})
