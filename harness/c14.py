"""C14 - otel2puml equals otel2pv followed by pv2puml through saved files.

Proved (Properties/C14.v about V.Pv.PvEvent): loading a saved PV event file with the same
(injective) field-name mapping returns exactly the saved events.  Per instance through the real CLI:
route A `otel2puml`, route B `otel2pv -se [-mc]` then `pv2puml -fp <job dir> -jn <job> [-mc]`;
per workflow the two diagrams are language-equivalent (certified in coqc) and the saved files,
mapped back, equal the PV stream obtained in-process from otel_to_pv."""
from __future__ import annotations

import json
import random
from concurrent.futures import ThreadPoolExecutor
from pathlib import Path
from . import common, learnlib as L, pumllib as P, clilib as C, storelib as S

LEVEL = "proof"
DEFAULT = dict(jobId="jobId", eventId="eventId", timestamp="timestamp", previousEventIds="previousEventIds",
               applicationName="applicationName", jobName="jobName", eventType="eventType")
# injective custom mappings (c14_load_save's hypothesis): all-new names, a swap of two PV field names, a chain that
# reuses a PV field name, a partial mapping
MAPPINGS = [
    dict(jobId="jobIdNew", eventId="eventIdNew", timestamp="timestampNew", previousEventIds="previousEventIdsNew",
         applicationName="applicationNameNew", jobName="jobNameNew", eventType="eventTypeNew"),
    dict(DEFAULT, applicationName="jobName", jobName="applicationName"),
    dict(DEFAULT, jobName="eventType", eventType="eventName"),
    dict(DEFAULT, timestamp="time", previousEventIds="prev"),
    dict(DEFAULT, eventId="jobId", jobId="eventId"),
]


def gen_scenario(rnd, k):
    """multi-workflow trace set: per workflow a template call tree with optional / alternative children"""
    evs, nid, job = [], 1, 1
    t0 = 1_700_000_000 * 10**9
    for wf in range(1, rnd.choice([1, 2, 3]) + 1):
        nchild = rnd.choice([2, 3, 4])
        shared = (k % 4 == 1 or k % 8 == 6)   # (async mostly) workflows using the SAME event type names (shared services), some calls repeated in a trace
        tb = 0 if shared else wf * 10
        template = [(1 + tb + c, rnd.choice(["always", "always", "optional", "alt"])) for c in range(nchild)]
        if shared:      # every workflow runs the same two calls concurrently after its root
            template = [(1, "always"), (2, "always"), (3, "always")]
        base_template = template
        any_order = rnd.random() < 0.5 and not shared      # siblings of this workflow run in a different temporal order from trace to trace
        for _ in range(rnd.choice([3, 5, 8, 12])):
            if any_order:                   # (same span tree up to sibling order, different PV sequence)
                template = list(base_template)
                rnd.shuffle(template)
            root = dict(id=nid, par=None, job=job, name=wf, ty=(7 if shared else wf * 10), st=t0, en=t0 + 10**9, app=1)
            nid += 1
            evs.append(root)
            t = t0 + 1000
            alt_taken = False
            for ty, mode in template:
                if mode == "optional" and rnd.random() < 0.5:
                    continue
                if mode == "alt":
                    if alt_taken or rnd.random() < 0.5:
                        continue
                    alt_taken = True
                overlap = (ty == 2) if shared else rnd.random() < 0.4
                st = t - (1500 if overlap else 0)      # t = previous end + 1000: starts 500 before the previous sibling ends
                en = st + 800
                ch = dict(id=nid, par=root["id"], job=job, name=wf, ty=ty, st=st, en=en, app=1 + wf % 2)
                nid += 1
                evs.append(ch)
                if rnd.random() < 0.3 and not shared:
                    evs.append(dict(id=nid, par=ch["id"], job=job, name=wf, ty=ty + 100, st=st + 10, en=st + 20, app=1))
                    nid += 1
                if shared and wf == 1 and ty == 1 and rnd.random() < 0.5:      # the same call made twice at once (a repeated event type)
                    evs.append(dict(ch, id=nid, st=st + 1, en=en + 1))
                    nid += 1
                t = en + 1000
            job += 1
            t0 += 5 * 10**9
    rnd.shuffle(evs)
    return dict(events=evs, async_flag=(k % 2 == 1), custom=(k % 4 >= 2), mapping=MAPPINGS[(k // 4) % len(MAPPINGS)] if k % 4 >= 2 else None,
                bs=rnd.choice([3, 1000]), padded=(k % 5 == 4), spaced=(k % 3 == 1), globby=(k % 6 == 3))


def ty_namer(sc):
    """event type strings; in 'padded' scenarios some types carry leading/trailing whitespace and one padded name
    collides with an unpadded one once stripped (values must survive the file boundary byte for byte)"""
    if not sc.get("padded"):
        return S.s_ty

    def f(i):
        return {0: f"T{i} ", 1: f" T{i}", 2: f"T{i}"}[i % 3] if i % 10 != 3 else f"T{i - 1} "
    return f


SPACED = {1: "Order Processing", 2: "pay ments v2", 3: "Checkout"}


def wf_namer(sc):
    """workflow names; in 'spaced' scenarios they contain blanks (the tool derives file names from them)"""
    if sc.get("globby"):        # characters that are wildcards to glob / fnmatch; "etl[12]" as a pattern matches "etl1"
        return lambda i: {1: "etl[12]", 2: "etl1", 3: "ingest[kafka]"}[i]
    return (lambda i: SPACED[i]) if sc.get("spaced") else S.s_name


def run_scenario(sc, hashseed=0):
    import yaml
    res = dict(errors=[])
    with common.Scratch("c14") as d:
        data = C.write_dataset(d, sc["events"], ty_name=ty_namer(sc), wf_name=wf_namer(sc))
        seqcfg = {"async_flag": sc["async_flag"]}
        cfg = C.write_config(d, data, None, bs=sc["bs"], sequencer=seqcfg)
        mc = []
        if sc["custom"]:
            (d / "map.yaml").write_text(yaml.safe_dump(sc["mapping"]))
            mc = ["-mc", str(d / "map.yaml")]
        rc, tail = C.run_cli(["-o", str(d / "A"), "otel2puml", "-c", str(cfg)], d, hashseed=hashseed)
        res["A_rc"] = rc
        if rc:
            res["errors"].append("otel2puml: " + tail[-300:])
        rc, tail = C.run_cli(["-o", str(d / "B"), "otel2pv", "-c", str(cfg), "-se"] + mc, d, hashseed=hashseed)
        res["B1_rc"] = rc
        if rc:
            res["errors"].append("otel2pv: " + tail[-300:])
        res["A"] = C.read_pumls(d / "A")
        res["B"] = {}
        res["files"] = {}
        jobdirs = sorted(p for p in (d / "B").iterdir() if p.is_dir()) if (d / "B").exists() else []
        for jd in jobdirs:
            stem = jd.name.replace(" ", "_")
            res["files"][stem] = [json.loads(f.read_text()) for f in sorted(jd.glob("*.json"))]
            res.setdefault("file_names", {})[stem] = sorted(p.name for p in jd.iterdir())
            rc, tail = C.run_cli(["-o", str(d / "B2"), "pv2puml", "-fp", str(jd), "-jn", jd.name] + mc, d, hashseed=hashseed)
            if rc:
                res["errors"].append(f"pv2puml {jd.name}: " + tail[-300:])
        res["B"] = C.read_pumls(d / "B2")
    return res


def in_memory_stream(sc):
    """the PV stream obtained in-process from otel_to_pv with the same configuration"""
    from tel2puml.otel_to_pv.config import IngestDataConfig
    from tel2puml.otel_to_pv.otel_to_pv import otel_to_pv
    import yaml
    with common.Scratch("c14m") as d:
        data = C.write_dataset(d, sc["events"], ty_name=ty_namer(sc), wf_name=wf_namer(sc))
        cfg = yaml.safe_load(C.write_config(d, data, None, bs=sc["bs"], sequencer={"async_flag": sc["async_flag"]}).read_text())
        out = {}
        import contextlib, io
        with contextlib.redirect_stdout(io.StringIO()), contextlib.redirect_stderr(io.StringIO()):
            for name, jobs in otel_to_pv(IngestDataConfig(**cfg), ingest_data=True):
                out[name.replace(" ", "_")] = [[dict(e) for e in job] for job in jobs]
    return out


def canon_job(evs, keymap=None):
    inv = {v: k for k, v in (keymap or {}).items()}
    out = []
    for e in evs:
        e = {inv.get(k, k): v for k, v in e.items()}
        out.append((e["eventId"], e["eventType"], tuple(sorted(e.get("previousEventIds", []))), e["timestamp"], e["jobId"],
                    e["jobName"], e["applicationName"]))
    return sorted(out)


def run(out: common.Outcome, explore: int = 0) -> None:
    common.setup_impl_path()
    okp = common.proof_obligations(out, "C14")
    import logging
    logging.disable(logging.CRITICAL)
    import tel2puml.events  # noqa: F401
    rnd = random.Random(out.seed * 32452843 + 14)
    n = explore or (20 if out.tier == "quick" else 160)
    scs = [gen_scenario(rnd, k) for k in range(n)]
    with ThreadPoolExecutor(max_workers=common.NPROC) as ex:
        results = list(ex.map(run_scenario, scs))
    first = judge(scs, results, okp)
    problems, both_failed, n_files, n_pairs = first["problems"], first["both_failed"], first["n_files"], first["n_pairs"]
    # The learner is not deterministic (uuid-keyed containers): on some data sets it succeeds in one process and fails, or
    # learns another language, in the next - whichever route it is called from (that is C03's subject).  A difference between
    # the routes therefore counts only if it is there in every one of four independent attempts on the same data set.
    flaky = []
    suspects = sorted({k for k, _, _ in problems})
    stable = set(suspects)
    for attempt in (1, 2, 3):
        if not stable:
            break
        ks = sorted(stable)
        with ThreadPoolExecutor(max_workers=common.NPROC) as ex:
            again = list(ex.map(lambda k: run_scenario(scs[k], hashseed=attempt), ks))
        j = judge([scs[k] for k in ks], again, okp)
        bad_now = {ks[i] for i, _, _ in j["problems"]}
        for k in ks:
            if k not in bad_now:
                stable.discard(k)
                flaky.append(dict(scenario_index=k, first_attempt=[w for kk, w, _ in problems if kk == k][:2], passed_on_attempt=attempt + 1))
    problems = [p for p in problems if p[0] in stable]
    for k, why, info in problems[:4]:
        r = results[k]
        out.violation({"kind": "routes differ", "why": why + " (in each of 4 attempts)", "info": info, "scenario": scs[k],
                       "otel2puml": r.get("A"), "otel2pv+pv2puml": r.get("B"), "errors": r.get("errors")})
    finish(out, scs, results, problems, both_failed, n_files, n_pairs, flaky)


def judge(scs, results, okp):
    pairs, where, problems = [], [], []
    names_checks, names_where = [], []
    both_failed = []
    n_files = 0
    for k, (sc, r) in enumerate(zip(scs, results)):
        skip = set()
        if r["errors"]:
            # The learner itself may fail on a workflow (a learner matter, not C14's).  That is consistent with C14 only if BOTH
            # routes fail on that workflow with the same message; otel2puml stops there, so later workflows are not compared.
            import re as _re
            a_err = next((e for e in r["errors"] if e.startswith("otel2puml:")), None)
            b_errs = {e.split(":")[0][len("pv2puml "):]: e for e in r["errors"] if e.startswith("pv2puml ")}
            other = [e for e in r["errors"] if not e.startswith(("otel2puml:", "pv2puml "))]
            w = None
            if a_err:
                m = _re.findall(r"Converting (.+?) to PUML\.\.\.", a_err)
                w = m[-1] if m else None

            def reason(e):
                m2 = _re.search(r"An unexpected error occurred\s+(.*?)\s+Please raise an issue", e, _re.S)
                return m2.group(1) if m2 else None
            consistent = (not other and a_err is not None and w is not None and set(b_errs) == {w}
                          and reason(a_err) is not None and reason(a_err) == reason(b_errs[w]))
            if not consistent:
                problems.append((k, "cli-error (not the same learner failure on the same workflow in both routes)", r["errors"][0][:200]))
                continue
            both_failed.append((k, w, reason(a_err)))
            wstem = w.replace(" ", "_")
            skip = {wstem} | {n for n in set(r["B"]) if n not in r["A"]}        # the failing workflow and those otel2puml never reached
        mem = in_memory_stream(sc)
        for name in sorted(set(r["A"]) | set(r["B"]) | set(mem)):
            if name in skip:
                continue
            if name not in r["A"] or name not in r["B"]:
                problems.append((k, f"workflow {name} produced by one route only", ""))
                continue
            try:
                saved = sorted(canon_job(j, sc["mapping"] if sc["custom"] else None) for j in r["files"].get(name, []))
            except KeyError as e:
                saved = f"saved file lacks field {e}"
            want = sorted(canon_job(j) for j in mem.get(name, []))
            n_files += len(saved)
            if saved != want:
                problems.append((k, f"saved PV files of {name} differ from the in-memory stream", ""))
            names_checks.append((len(mem.get(name, [])), r.get("file_names", {}).get(name, [])))
            names_where.append((k, name))
            if sc["custom"] and any(set(e) != set(sc["mapping"].values()) for j in r["files"].get(name, []) for e in j):
                problems.append((k, f"saved PV files of {name} do not use the custom field names", ""))
            try:
                pairs.append((P.tokenize(r["A"][name]), P.tokenize(r["B"][name])))
                where.append((k, name))
            except ValueError as e:
                if r["A"][name] != r["B"][name]:
                    problems.append((k, f"unlexable output for {name}: {e}", ""))
    # the folder of every workflow holds exactly the files V.Pv.Files.save_jobs names for that many jobs
    if okp and names_checks:
        body = ";\n ".join("(%d%%nat, %s)" % (n, common.coq_list(['"%s"%%string' % x for x in fs])) for n, fs in names_checks)
        okc, o = common.coq_eval("C14names", f"""From Coq Require Import List Bool Arith String. Import ListNotations.
From V Require Import Pv.Files.
Definition cases : list (nat * list string) := [
 {body}].
Definition sub (a b : list string) := forallb (fun x => existsb (String.eqb x) b) a.
Definition idx {{A}} (f : A -> bool) (l : list A) : list nat := map fst (filter (fun p => negb (f (snd p))) (combine (seq 0 (List.length l)) l)).
Eval vm_compute in (1%nat, idx (fun c => let ns := map fst (save_jobs nat (repeat 0%nat (fst c))) in
                                          sub ns (snd c) && sub (snd c) ns && Nat.eqb (List.length ns) (List.length (snd c))) cases).
""")
        l = common.parse_nat_list(o, "1") if okc else None
        if l is None:
            problems.append((names_where[0][0], "certificate evaluation failed (file names)", o[-200:]))
        else:
            for i in l:
                problems.append((names_where[i][0], f"folder of {names_where[i][1]} does not hold exactly pv_event_sequence_1..{names_checks[i][0]}.json", str(names_checks[i][1])[:200]))
    eq = L.coq_equiv(pairs) if okp and pairs else []
    for (k, name), e in zip(where, eq):
        if e is None:
            problems.append((k, "certificate evaluation failed", name))
        elif e["a_ok"] != e["b_ok"]:
            problems.append((k, f"{name}: one route emits a well-formed diagram, the other does not", ""))
        elif e["a_ok"] and (not e["same_events"] or e["e1"] or e["e2"]):
            problems.append((k, f"{name}: diagrams of the two routes are not language-equivalent", json.dumps(e)[:200]))
    return dict(problems=problems, both_failed=both_failed, n_files=n_files, n_pairs=len(pairs))


def finish(out, scs, results, problems, both_failed, n_files, n_pairs, flaky):
    out.coverage.update({
        "evaluations": len(scs), "distinct_nontrivial": len({json.dumps(s["events"], sort_keys=True) for s in scs}),
        "rule": "random multi-workflow trace sets (1-3 workflows, 3-8 traces each from a template call tree with optional / alternative / "
                "overlapping children and grandchildren; in half of the workflows the siblings run in a different temporal order from "
                "trace to trace) through the real CLI: {default, custom} field-name mapping x {sync, async} "
                "sequencing; a third of the scenarios use workflow names containing blanks, a sixth names containing [ ]; non-trivial = distinct data set",
        "samples": [dict(scenario={k: v for k, v in scs[0].items() if k != "events"}, n_events=len(scs[0]["events"]),
                         otel2puml=results[0].get("A"))],
        "traces_validated_against_impl": n_files, "workflow_diagram_pairs": n_pairs, "saved_job_files": n_files,
        "data_sets_on_which_the_learner_is_not_deterministic": flaky,
        "problems": len(problems),
        "workflows_on_which_both_routes_hit_the_same_learner_error": [dict(scenario=k, workflow=w, error=e) for k, w, e in both_failed],
        "trusted_base": common.std_trusted_base([
            "diagram equivalence is certified per instance (bounded two-way language inclusion), not proved for the learner",
            "CLI driven with a jq_query mapping over one JSON file and an in-memory database",
        ]),
    })
    out.assumptions += ["custom mappings are injective (c14_load_save's hypothesis; c14_collision_breaks shows it is needed): all-new names, swaps and chains reusing PV field names, partial"]


def replay(out, rp):
    r = run_scenario(rp["scenario"])
    print(json.dumps({k: r[k] for k in ("A", "B", "errors")})[:3000])
    out.coverage.update({"evaluations": 1, "distinct_nontrivial": 0, "rule": "replay", "samples": [rp]})
