"""Regenerates /verif/seeded/README.md from the meta.json files:  /venv/bin/python -m harness.seedreadme"""
import json
from pathlib import Path

root = Path(__file__).resolve().parent.parent / "seeded"
rows = []
for d in sorted(p for p in root.iterdir() if p.is_dir()):
    m = json.loads((d / "meta.json").read_text()) if (d / "meta.json").exists() else {}
    rows.append((d.name, m.get("property", "?"), m.get("needs_to_manifest", ""), m.get("check_result", "")))
out = ["# Seeded changes", "",
       "Each directory holds `patch.diff` (applies to /repo's HEAD with `git -C /repo apply`), `demo.py` (fails with the change, passes",
       "without), `notes.md` (the sub-agent's own account) and `meta.json`. All keep the 120 pinned tests passing. They were written by",
       "independent sub-agents that saw only the property text and a scratch worktree. To re-run one:",
       "`git -C /repo apply seeded/<id>/patch.diff && ./check <Cxx> --tier quick ; git -C /repo checkout -- .`\nThe `demo.py` scripts put `/tmp/janus_shim` on `sys.path` (a scratch copy of `/verif/shim`, removed with the other scratch\nfiles): to run one, `cp -r /verif/shim /tmp/janus_shim` first and remove it afterwards.", "",
       "| id | property | needs, to manifest | result of the check |", "|----|----------|--------------------|---------------------|"]
for r in rows:
    out.append("| " + " | ".join(x.replace("|", "/").replace("\n", " ") for x in r) + " |")
caught = sum(1 for r in rows if "MISSED" not in r[3])
out += ["", f"{len(rows)} changes; {caught} caught by the check as it stood when the change arrived, "
            f"{len(rows) - caught} missed at first and caught after the check was strengthened (each miss pointed at an input family the "
            "generator did not produce; none required loosening anything)."]
(root / "README.md").write_text("\n".join(out) + "\n")
print(len(rows), "entries")
