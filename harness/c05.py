"""C05 - emitted PlantUML is well-formed and names exactly the observed events (translation validation)."""
from . import common, learnlib as L

LEVEL = "translation_validation"


def verdict(it, cert):
    if not cert["c05"]:
        return "malformed-or-wrong-events"
    return None


def run(out, explore=0):
    L.standard_run(out, "C05", explore or 150, want=("c05",), verdict=verdict, with_multi_start=True)


def replay(out, rp):
    out.coverage.update({"programs": 1, "disagreements_checked": 0, "samples": [rp]})
    print(rp.get("definition"))
    print(rp.get("output"))
