"""C05 - emitted PlantUML is well-formed and names exactly the observed events (translation validation)."""
from . import common, learnlib as L

LEVEL = "translation_validation"


def verdict(it, cert):
    if not cert["c05"]:
        return "malformed-or-wrong-events"
    return None


def run(out, explore=0):
    items, certs = L.standard_run(out, "C05", explore or 150, want=("c05",), verdict=verdict, with_multi_start=True)
    # correspondence leg: the printer model (V.Puml.Linearise: networkx dfs_successors, reversed successor order, PATH nodes,
    # operator/event/kill rendering) applied to the PUMLGraph captured at write_puml_string must give exactly the emitted tokens
    if out.coverage.get("discharged"):
        n, mism, badhead, fails = L.coq_linearise(items)
        out.coverage["printer_leg"] = dict(graphs=n, model_mismatches=len(mism), bad_heads=len(badhead), coq_failures=len(fails))
        out.coverage["traces_validated_against_impl"] = n
        if (mism or badhead or fails) and not out.violations:
            k = (mism or badhead or [None])[0]
            out.violation({"kind": "correspondence-broken",
                           "relation": "tokens of PUMLGraph.write_puml_string == V.Puml.Linearise.linearise (exported graph)",
                           "first": L.describe(items[k]) if k is not None else None, "coq_failures": fails[:2]}, no_failing_input=True)


def replay(out, rp):
    L.replay_item(out, rp, ("c05",), verdict)
