"""C05 - emitted PlantUML is well-formed and names exactly the observed events (translation validation)."""
from . import common, learnlib as L

LEVEL = "translation_validation"


def verdict(it, cert):
    if not cert["c05"]:
        return "malformed-or-wrong-events"
    return None


def run(out, explore=0):
    items, certs = L.standard_run(out, "C05", explore or 150, want=("c05",), verdict=verdict, with_multi_start=True, subsets=True,
                                    extra_pools=(("X", 40),))
    # correspondence leg: the printer model (V.Puml.Linearise: networkx dfs_successors, reversed successor order, PATH nodes,
    # operator/event/kill rendering) applied to the PUMLGraph captured at write_puml_string must give exactly the emitted tokens
    if out.coverage.get("discharged"):
        cl = cli_leg(out, 8 if out.tier == "quick" else 80)
        out.coverage["cli_leg"] = dict(otel2puml_runs=len(cl["scs"]), files_checked=cl["files"], rejected=len(cl["bad"]),
                                       runs_in_which_the_learner_failed=len(cl["failed_runs"]))
        if len(cl["failed_runs"]) * 2 > len(cl["scs"]) and not out.violations:
            out.violation({"kind": "otel2puml fails on most multi-workflow data sets", "first": cl["results"][cl["failed_runs"][0]]["tail"]},
                          no_failing_input=True)
        for k, name, why in cl["bad"][:3]:
            out.violation({"kind": "emitted file wrong (CLI)", "workflow": name, "why": why, "scenario": cl["scs"][k],
                           "output": cl["results"][k]["pumls"].get(name) if name else None})
        if cl["coq_failure"] and not out.violations:
            out.violation({"kind": "certificate-evaluation-failed", "leg": "cli", "coq": cl["coq_failure"]}, no_failing_input=True)
    if out.coverage.get("discharged"):
        n, mism, badhead, fails = L.coq_linearise(items)
        out.coverage["printer_leg"] = dict(graphs=n, model_mismatches=len(mism), bad_heads=len(badhead), coq_failures=len(fails))
        out.coverage["traces_validated_against_impl"] = n
        if (mism or badhead or fails) and not out.violations:
            k = (mism or badhead or [None])[0]
            out.violation({"kind": "correspondence-broken",
                           "relation": "tokens of PUMLGraph.write_puml_string == V.Puml.Linearise.linearise (exported graph)",
                           "first": L.describe(items[k]) if k is not None else None, "coq_failures": fails[:2]}, no_failing_input=True)


def cli_leg(out, n):
    """Every FILE the CLI emits: one otel2puml run over a data set with 2-3 workflows (disjoint event types) must write one
    .puml per workflow, each well-formed (V.Puml.Check.c05_ok evaluated in coqc) and naming exactly the event types of its
    own workflow."""
    import random
    from concurrent.futures import ThreadPoolExecutor
    from . import c14, clilib as C, storelib as S, pumllib as P
    from .common import coq_list
    rnd = random.Random(out.seed * 6151 + 5)
    scs = []
    while len(scs) < n:
        sc = c14.gen_scenario(rnd, 2 * len(scs))       # k even: sync, default mapping, no padding every fifth
        sc["padded"] = False
        if len({e["name"] for e in sc["events"]}) >= 2:
            scs.append(sc)

    def one(sc):
        with common.Scratch("c05c") as d:
            data = C.write_dataset(d, sc["events"])
            cfg = C.write_config(d, data, None, bs=sc["bs"], sequencer={"async_flag": sc["async_flag"]})
            rc, tail = C.run_cli(["-o", str(d / "A"), "otel2puml", "-c", str(cfg)], d)
            return dict(rc=rc, tail=tail[-300:] if rc else "", pumls=C.read_pumls(d / "A"))
    with ThreadPoolExecutor(max_workers=common.NPROC) as ex:
        results = list(ex.map(one, scs))
    bad, rows, where, failed_runs = [], [], [], []
    for k, (sc, r) in enumerate(zip(scs, results)):
        want = {}
        for e in sc["events"]:
            want.setdefault(S.s_name(e["name"]), set()).add(S.s_ty(e["ty"]))
        if r["rc"]:
            # no file is emitted for the workflow the learner failed on (C05 is about emitted files; the learner is not
            # deterministic on some of these call-tree workloads, see DESIGN 9.5): counted, the files written before are checked
            failed_runs.append(k)
        if not r["rc"] and set(r["pumls"]) != set(want):
            bad.append((k, None, f"files written {sorted(r['pumls'])}, workflows in the input {sorted(want)}"))
        for name, text in r["pumls"].items():
            try:
                toks = P.tokenize(text)
            except ValueError as e:
                bad.append((k, name, f"unlexable: {e}"))
                continue
            got = {a for t, a in toks if t == "TEvent"}
            if name in want and got != want[name]:
                bad.append((k, name, f"names {sorted(got)}, event types of the workflow {sorted(want[name])}"))
            inter = P.Interner()
            inter(name)
            obs = coq_list([f"{inter(t)}%positive" for t in sorted(want.get(name, got))])
            rows.append(f"({P.coq_tokens(toks, inter)}, {obs})")
            where.append((k, name))
    body = ";\n ".join(rows)
    ok, o = common.coq_eval("C05cli", f"""From Coq Require Import List PArith Bool Arith. Import ListNotations.
From V Require Import Puml.Ast Puml.Syntax Puml.Parse Puml.Check.
Open Scope positive_scope.
Definition cases : list (list token * list evt) := [
 {body}].
Definition idx {{A}} (f : A -> bool) (l : list A) : list nat := map fst (filter (fun p => negb (f (snd p))) (combine (seq 0 (length l)) l)).
Eval vm_compute in (1%nat, idx (fun c => c05_ok 1 (snd c) (fst c)) cases).
""") if rows else (True, "(1, [])")
    l = common.parse_nat_list(o, "1") if ok else None
    if l is None:
        return dict(scs=scs, results=results, bad=bad, files=len(rows), coq_failure=o[-500:], failed_runs=failed_runs)
    for i in l:
        bad.append((where[i][0], where[i][1], "c05_ok fails (not one partition / ill-nested block / wrong or leaked event names)"))
    return dict(scs=scs, results=results, bad=bad, files=len(rows), coq_failure=None, failed_runs=failed_runs)


def replay(out, rp):
    if rp.get("kind") == "emitted file wrong (CLI)":
        print(rp["why"]); print(rp.get("output"))
        out.coverage.update({"programs": 1, "disagreements_checked": 0, "samples": [rp["why"]]})
        return
    L.replay_item(out, rp, ("c05",), verdict)
