"""C13 - field-mapping extraction follows the documented path semantics.

Theorems: coq/theories/Properties/C13.v (compile_exact for every document; agreement with the
documented flattening on `regular` inputs; refutations with witnesses outside them).  Correspondence
(three legs, every run): (1) print_jq (compile m) == field_mapping_to_jq_query(m) byte for byte;
(2) flatten_code m doc == records the real compiled jq program yields; (3) extract_lines == events
JSONDataSource yields for whole-file and one-JSON-per-line files.  Failing-input search: the DOCUMENTED
flattening (FlattenSpec.flatten_spec) evaluated against the real records."""
from __future__ import annotations

import copy
import json
import logging
import os
import random

from . import common
from .common import coq_list

LEVEL = "proof"
KEY_FALSE = "priority-list-fallback-skips-false"
KEY_KV = "key-value-lookup-nulled-by-unrelated-attribute"

HDR = """From Coq Require Import ZArith List String Bool.
From V Require Import Json.Json Json.Jq Json.JqPrint Json.Mapping Json.FlattenSpec Json.FlattenCode Json.OtelRecord Json.Check.
Import ListNotations.
Open Scope string_scope.
Fixpoint approx_eqb (a b : json) {struct a} : bool :=
  match a, b with
  | JNum x, JNum y => ((x =? y) || ((2^53 <? Z.abs x) && (Z.abs (x - y) * 2^52 <=? Z.abs x)))%Z
  | JArr l1, JArr l2 => (fix go (l1 l2 : list json) := match l1, l2 with [], [] => true | x :: xs, y :: ys => approx_eqb x y && go xs ys | _, _ => false end) l1 l2
  | JObj l1, JObj l2 => (fix go (l1 l2 : list (string * json)) := match l1, l2 with [], [] => true | (k, x) :: xs, (k', y) :: ys => String.eqb k k' && approx_eqb x y && go xs ys | _, _ => false end) l1 l2
  | _, _ => json_eqb a b
  end.
Fixpoint list_eqb (l1 l2 : list json) : bool := match l1, l2 with [], [] => true | x :: xs, y :: ys => approx_eqb x y && list_eqb xs ys | _, _ => false end.
Definition recs_eqb (rs : list record) (expected : list json) : bool := list_eqb (map record_to_json rs) expected.
Definition event_view (r : record) : json :=
  let g k := match assoc_lookup k r with Some v => v | None => JNull end in
  JObj (map (fun k => (k, g k)) ["job_name"; "job_id"; "event_type"; "event_id"; "application_name"; "parent_event_id"; "child_event_ids"]).
Definition idx {A} (f : A -> bool) (l : list A) : list nat :=
  map fst (filter (fun p => negb (f (snd p))) (combine (seq 0 (List.length l)) l)).
(* the two halves of `regular` *)
Definition kv_regular (m : mapping) (doc : json) : bool :=
  forallb (fun s => forallb (fun nf => forallb (fun c => forallb (alt_regular s) c) (fs_comps (snd nf))) m) (selections m doc).
"""


def run(out: common.Outcome, explore: int = 0) -> None:
    common.setup_impl_path()
    okp = common.proof_obligations(out, "C13")
    logging.disable(logging.CRITICAL)
    import tel2puml.events  # noqa: F401
    from . import c13_gen as gen, c13_emit as emit
    from tel2puml.otel_to_pv.data_sources.json_data_source.json_jq_converter import (
        field_mapping_to_compiled_jq, field_mapping_to_jq_query, generate_records_from_compiled_jq)
    from tel2puml.otel_to_pv.data_sources.json_data_source.json_config import (
        field_spec_mapping_to_jq_field_spec_mapping, JSONDataSourceConfig)
    from tel2puml.otel_to_pv.data_sources.json_data_source.json_datasource import JSONDataSource
    quick = out.tier == "quick"
    rng = random.Random(out.seed * 15485863 + 13)
    n1, n3, nc = (explore or 200, explore or 300, 40) if quick else (3000, 5000, 400)

    # ---- leg 1: program text
    leg1 = []
    for k in range(n1):
        m = gen.next_mapping(rng, otel=(k % 3 == 0), allow_root_array=(k % 6 == 0))
        try:
            txt = field_mapping_to_jq_query(copy.deepcopy(m))
        except Exception as e:  # noqa
            txt = None
        if txt is not None:
            leg1.append((m, txt))
    # ---- leg 2/oracle: records
    legA = []
    while len(legA) < n3:
        k = len(legA)
        m = gen.next_mapping(rng, otel=(k % 3 == 0), allow_root_array=(k % 6 == 0))
        jm = field_spec_mapping_to_jq_field_spec_mapping(copy.deepcopy(m))
        doc = gen.rand_doc(rng, jm, perturb=rng.choice([0.0, 0.05, 0.15, 0.3]))
        try:
            recs = list(generate_records_from_compiled_jq(doc, field_mapping_to_compiled_jq(copy.deepcopy(m))))
        except Exception as e:  # noqa
            recs = None
        if recs is not None and len(recs) <= 40:
            legA.append((m, doc, recs))
    # ---- leg 3: end to end, whole-file and one-JSON-per-line, with invalid records
    ev_fields = ["job_name", "job_id", "event_type", "event_id", "application_name", "parent_event_id", "child_event_ids"]
    legC, skip_bad = [], []
    gen.NUMERIC_MODE = True
    gen.FRIENDLY = True
    with common.Scratch("c13") as tmp:
        while len(legC) < nc:
            m = gen.next_mapping(rng, otel=True)
            jm = field_spec_mapping_to_jq_field_spec_mapping(copy.deepcopy(m))
            per_line = len(legC) % 2 == 1
            docs = [gen.rand_doc(rng, jm, perturb=rng.choice([0.0, 0.02, 0.05])) for _ in range(rng.randint(2, 4) if per_line else 1)]
            path = os.path.join(tmp, f"f{len(legC)}.json")
            raw_unicode = len(legC) % 4 >= 2
            if raw_unicode:
                # an unmapped string attribute containing characters str.splitlines() splits on, written raw (legal JSON)
                for dd in docs:
                    if isinstance(dd, dict):
                        dd["zz_note"] = "a" + rng.choice(["\u2028", "\u2029", "\x85", "\x0b", "\x0c", "\x1c", "\x1e"]) + "b"
            with open(path, "w", encoding="utf-8") as f:
                if per_line:
                    f.write("\n".join(json.dumps(d, ensure_ascii=not raw_unicode) for d in docs))
                else:
                    json.dump(docs[0], f, indent=1, ensure_ascii=not raw_unicode)
            cfg = JSONDataSourceConfig(filepath=path, dirpath=None, json_per_line=per_line,
                                       field_mapping=copy.deepcopy(m), jq_query=None)
            try:
                events = list(JSONDataSource(cfg))
                evs = [{k: getattr(e, k) for k in ev_fields} for e in events]
            except Exception as e:  # noqa
                evs = [{"error": type(e).__name__}]
            # the skipping clause, stated directly: the events are exactly the records that validate, in order
            from tel2puml.otel_to_pv.otel_to_pv_types import OTelEvent
            want = []
            comp = field_mapping_to_compiled_jq(copy.deepcopy(m))
            for dd in docs:
                for rec in generate_records_from_compiled_jq(json.loads(json.dumps(dd)), comp):
                    try:
                        ev = OTelEvent(**rec)
                        want.append({k: getattr(ev, k) for k in ev_fields})
                    except Exception:  # noqa
                        pass
            if evs != want:
                skip_bad.append(dict(mapping=m, documents=docs, per_line=per_line, events=evs, expected=want))
            legC.append((m, docs, evs, per_line))
    gen.NUMERIC_MODE = False
    gen.FRIENDLY = False

    files = []
    sh = 100
    for s in range(0, len(leg1), sh):
        body = ";\n".join(f"({emit.coq_mapping(copy.deepcopy(m))}, {emit.coq_str(t)})" for m, t in leg1[s:s + sh])
        files.append((f"T{s}", HDR + f"Definition cases : list (mapping * string) := [\n{body}].\n"
                      "Eval vm_compute in (1%nat, idx (fun c => String.eqb (compile_text (fst c)) (snd c)) cases).\n"
                      "Eval vm_compute in (6%nat, idx (fun c => wf_mapping (fst c)) cases).\n"))
    sh = 50
    for s in range(0, len(legA), sh):
        body = ";\n".join(f"({emit.coq_mapping(copy.deepcopy(m))}, {emit.coq_json(d)}, {coq_list([emit.coq_json(o) for o in recs])})"
                          for m, d, recs in legA[s:s + sh])
        files.append((f"A{s}", HDR + f"Definition cases : list (mapping * json * list json) := [\n{body}].\n"
                      "Eval vm_compute in (2%nat, idx (fun c => let '(m, d, o) := c in recs_eqb (code_records m d) o && recs_eqb (raw m d) o) cases).\n"
                      "Eval vm_compute in (3%nat, idx (fun c => let '(m, d, o) := c in recs_eqb (spec_records m d) o) cases).\n"
                      "Eval vm_compute in (4%nat, idx (fun c => let '(m, d, o) := c in regular m d) cases).\n"
                      "Eval vm_compute in (5%nat, idx (fun c => let '(m, d, o) := c in kv_regular m d) cases).\n"))
    sh = 10
    for s in range(0, len(legC), sh):
        body = ";\n".join(f"({emit.coq_mapping(copy.deepcopy(m))}, {coq_list([emit.coq_json(d) for d in docs])}, {coq_list([emit.coq_json(e) for e in evs])})"
                          for m, docs, evs, pl in legC[s:s + sh])
        files.append((f"C{s}", HDR + f"Definition cases : list (mapping * list json * list json) := [\n{body}].\n"
                      "Eval vm_compute in (7%nat, idx (fun c => let '(m, ds, evs) := c in list_eqb (map event_view (extract_lines m ds)) evs) cases).\n"))
    res = common.coq_eval_many(files, timeout=1500) if okp else []
    t_bad, not_wf, code_bad, spec_bad, irregular, kv_irregular, c_bad, coq_fail = [], [], [], [], set(), set(), [], []
    for (name, _), (okc, o) in zip(files, res):
        base = int(name[1:])

        def got(tag):
            l = common.parse_nat_list(o, tag)
            return None if (not okc or l is None) else [base + i for i in l]
        if name[0] == "T":
            a, b = got("1"), got("6")
            if a is None or b is None:
                coq_fail.append((name, o[-500:]))
            else:
                t_bad += a
                not_wf += b
        elif name[0] == "A":
            r = [got(t) for t in "2345"]
            if any(x is None for x in r):
                coq_fail.append((name, o[-500:]))
            else:
                code_bad += r[0]
                spec_bad += r[1]
                irregular |= set(r[2])
                kv_irregular |= set(r[3])
        else:
            a = got("7")
            if a is None:
                coq_fail.append((name, o[-500:]))
            else:
                c_bad += a
    # ---- verdicts: the documented semantics on the implementation's records
    n_new, n_false, n_kv = 0, 0, 0
    for i in spec_bad:
        m, d, recs = legA[i]
        if i in irregular:
            if i in kv_irregular:
                n_kv += 1
            else:
                n_false += 1
            continue
        n_new += 1
        if n_new <= 3:
            out.violation({"kind": "records differ from the documented flattening", "mapping": m, "document": d,
                           "implementation_records": recs,
                           "note": "input is `regular` (no false-valued priority alternative, attribute arrays with string keys and "
                                   "followable value paths): the documented and the coded semantics provably agree there"})
    for b in skip_bad[:2]:
        out.violation(dict(kind="events differ from 'the records that form a valid span, in order' (a skipped record affected the others)", **b))
    for key, n, what in ((KEY_FALSE, n_false, "a priority list falls through a `false` value (jq `//`)"),
                         (KEY_KV, n_kv, "a key/value lookup yields null because ANOTHER element of the attribute array has a non-string key or lacks the value path")):
        if n:
            if out.match_finding(key):
                out.known_finding(f"{key}: {what} ({n} of {len(legA)} generated inputs of this run)")
            else:
                i = next(j for j in spec_bad if j in irregular and ((j in kv_irregular) == (key == KEY_KV)))
                out.violation({"kind": "records differ from the documented flattening", "class": key, "mapping": legA[i][0],
                               "document": legA[i][1], "implementation_records": legA[i][2]})
    if okp and not out.violations and (t_bad or code_bad or c_bad or coq_fail):
        out.violation({"kind": "correspondence-broken",
                       "relation": "print_jq(compile m) == field_mapping_to_jq_query(m); flatten_code == compiled jq on the document; "
                                   "extract_lines == JSONDataSource",
                       "text_mismatch": [dict(mapping=leg1[i][0], python_text=leg1[i][1]) for i in t_bad[:2]],
                       "record_mismatch": [dict(mapping=legA[i][0], document=legA[i][1], implementation_records=legA[i][2]) for i in code_bad[:2]],
                       "event_mismatch": [dict(mapping=legC[i][0], documents=legC[i][1], events=legC[i][2], per_line=legC[i][3]) for i in c_bad[:2]],
                       "coq_failures": coq_fail[:2]}, no_failing_input=True)
    nontriv = {json.dumps([m, d], sort_keys=True, default=str) for m, d, r in legA if len(r) >= 2}
    out.coverage.update({
        "evaluations": len(leg1) + len(legA) + len(legC), "distinct_nontrivial": len(nontriv),
        "rule": "random mappings built from the documented forms (dotted paths through up to 4 array levels, header values, key/value "
                "lookups, '_' concatenation, priority lists, string and array value types) and OTel-shaped documents instantiated from "
                "the mapping's own schema with perturbations (missing keys, empty arrays, a non-array where an array is expected, "
                "duplicate / non-string attribute keys, false/numeric values, 19-digit integers); end-to-end files half whole-file half "
                "one-JSON-per-line with invalid records; non-trivial = at least two records produced; distinct by (mapping, document)",
        "samples": [dict(mapping=legA[0][0], document=legA[0][1], records=legA[0][2])],
        "traces_validated_against_impl": len(leg1) + len(legA) + len(legC),
        "text_cases": len(leg1), "record_cases": len(legA), "end_to_end_files": len(legC),
        "events_end_to_end": sum(len(c[2]) for c in legC), "mappings_outside_wf": len(not_wf),
        "text_mismatches": len(t_bad), "code_model_mismatches": len(code_bad), "end_to_end_mismatches": len(c_bad),
        "documented_semantics_differs": len(spec_bad), "of_which_irregular_inputs": len([i for i in spec_bad if i in irregular]),
        "regular_inputs": len(legA) - len(irregular),
        "trusted_base": common.std_trusted_base([
            "libjq 1.7.1 semantics for the emitted fragment as modelled in Json/Jq.v (tied by leg 2 on every run)",
            "pydantic v2 validation of OTelEvent as modelled in Json/OtelRecord.v (tied by leg 3)",
            "integers only (floats are outside the model); JSON text decoding is Python's",
        ]),
    })
    out.assumptions += ["mappings satisfy wf_mapping (at most ten alternatives per priority list: beyond that jq variable names collide - "
                        "c13_name_collision_refuted)", "documents contain no floats"]


def replay(out, rp):
    common.setup_impl_path()
    import tel2puml.events  # noqa
    from tel2puml.otel_to_pv.data_sources.json_data_source.json_jq_converter import (
        field_mapping_to_compiled_jq, generate_records_from_compiled_jq)
    recs = list(generate_records_from_compiled_jq(rp["document"], field_mapping_to_compiled_jq(copy.deepcopy(rp["mapping"]))))
    print("records now:", recs)
    print("records then:", rp.get("implementation_records"))
    out.coverage.update({"evaluations": 1, "distinct_nontrivial": 0, "rule": "replay", "samples": [rp]})
