import hashlib, json, random, sys
sys.path.insert(0, '/verif')
from harness import pumllib as P, poolgen
class GenTail(P.GenF):
    """fragment-F definitions in which a loop body ENDS with a nested loop (optionally with a break branch)"""
    def loopbody(self, depth, loopdepth):
        body = super().loopbody(depth, loopdepth)
        if depth + 1 < 3 and loopdepth < 2 and body[-1][0] == "ev" and self.r.random() < 0.8:
            body.append(("loop", self.loopbody(depth + 1, loopdepth + 1)))
        return body
out, seen, k = [], set(), 0
while len(out) < 80 and k < 20000:
    k += 1
    rnd = random.Random(777 * 1000003 + k)
    g = GenTail(rnd, max_events=rnd.choice([6, 10, 16]))
    d = g.definition()
    def tail(d):
        for it in d:
            if it[0]=='fork' and any(tail(b) for b in it[2]): return True
            if it[0]=='loop' and (it[1][-1][0]=='loop' or tail(it[1])): return True
        return False
    if g.n < 3 or g.n > 20 or not tail(d): continue
    try: jobs = P.dedup_jobs(P.jobs_of(2, d, cap=3000))
    except OverflowError: continue
    if len(jobs) > 120: continue
    shape = json.dumps(poolgen._shape(d))
    if shape in seen: continue
    seen.add(shape)
    out.append(dict(id=hashlib.sha256(json.dumps(d).encode()).hexdigest()[:16], events=g.n, jobs=len(jobs), d=d))
out.sort(key=lambda r: (r["events"], r["jobs"], r["id"]))
open('/verif/harness/pool/T.jsonl','w').write("".join(json.dumps(r)+"\n" for r in out))
print(len(out)); print(P.show(out[5]['d'])); print(sum(1 for r in out if 'break' in json.dumps(r['d'])))
