"""C12 - every stored trace is streamed once, whole, under one workflow name.

Theorems: coq/theories/Properties/C12.v about V.Store.Stream (stated for every key-sorted
arrangement of the filtered rows).  Correspondence: the real SQLDataHolder.stream_data generators,
consumed in nesting order exactly as sequence_otel_jobs does, vs `stream` evaluated in coqc, modulo
the order of spans inside a trace and of child ids (both unspecified by SQL).  Failing-input search:
the property itself evaluated in Python on the streamed result."""
from __future__ import annotations

import os
import random
from . import common, storelib as S
from .common import coq_list

LEVEL = "proof"


def gen_cases(out, explore):
    rnd = random.Random(out.seed * 6151 + 12)
    quick = out.tier == "quick"
    n_cases = explore or (400 if quick else 4000)
    cases = []
    for _ in range(n_cases):
        nnames = rnd.choice([1, 2, 3, 5])
        ntraces = rnd.choice([1, 2, 4, 7, 12])
        evs, nid = [], 1
        # job ids: sometimes the same trace id is used under two workflow names
        for t in range(ntraces):
            job = 1 + (rnd.randrange(max(1, ntraces // 2)) if rnd.random() < 0.25 else t)
            name = 1 + rnd.randrange(nnames)
            n = rnd.choice([1, 2, 3, 5, 8])
            tr = S.gen_trace(rnd, job, name, nid, n, dangling=rnd.random() < 0.1,
                             names_inconsistent=rnd.random() < 0.15)
            nid += n
            if rnd.random() < 0.3 and tr[0]["par"] is None:
                tr[0]["par"] = 0        # the root's missing parent delivered as "" (OTLP JSON) instead of null
            evs.append(tr)
        # interleaved ingestion order
        flat = []
        pools = [list(t) for t in evs]
        while any(pools):
            p = rnd.choice([q for q in pools if q])
            flat.append(p.pop(0))
        bs = rnd.choice([1, 2, 3, 7, 10**6])
        fm = None
        if rnd.random() < 0.5:
            fm = {}
            for name in rnd.sample(range(1, nnames + 2), rnd.randint(1, nnames)):
                jobs = sorted({e["job"] for e in flat if rnd.random() < 0.5} | ({999} if rnd.random() < 0.2 else set()))
                fm[name] = jobs
            if rnd.random() < 0.1:
                fm = {}
        fn = sorted(rnd.sample(range(1, nnames + 2), rnd.randint(1, nnames))) if rnd.random() < 0.3 else None
        cases.append(dict(events=flat, bs=bs, fm=fm, fn=fn))
    return cases


def run_impl(case, path):
    h = S.holder(f"sqlite:///{path}", case["bs"])
    st = S.ingest(h, case["events"])
    if st != "ok":
        return st, None
    fm = None
    if case["fm"] is not None:
        fm = {S.s_name(k): {S.s_job(j) for j in v} for k, v in case["fm"].items()}
    try:
        out = []
        fnames = {S.s_name(k) for k in case["fn"]} if case.get("fn") else None
        for name, jobs in h.stream_data(fm, fnames):
            js = []
            for job in jobs:
                js.append([(S.un(e.event_id), S.un(e.job_id), S.un_name(e.job_name),
                            None if e.parent_event_id is None else (0 if e.parent_event_id == "" else S.un(e.parent_event_id)),
                            S.un(e.event_type), e.start_timestamp, e.end_timestamp, S.un(e.application_name),
                            sorted(S.un(c) for c in e.child_event_ids)) for e in job])
            out.append((S.un_name(name), js))
    except Exception as e:  # noqa
        return "ERR:" + type(e).__name__, None
    finally:
        h.session.close()
        h.engine.dispose()
    return "ok", out


def default_config_leg(n, seed):
    """two stores built with the DEFAULT db_uri (only batch_size given) in one process, the first still open: each must stream
    its own traces only"""
    import random
    from tel2puml.otel_to_pv.data_holders import SQLDataHolder
    from tel2puml.otel_to_pv.config import SQLDataHolderConfig
    rnd = random.Random(seed * 6007 + 12)
    bad = []
    for k in range(n):
        bs = rnd.choice([1, 2, 1000])
        a = S.gen_trace(rnd, job=1, name=1, first_id=1, n=rnd.choice([1, 2, 3])) + S.gen_trace(rnd, job=2, name=2, first_id=10, n=2)
        b = S.gen_trace(rnd, job=3, name=1, first_id=20, n=rnd.choice([1, 2, 3])) + S.gen_trace(rnd, job=4, name=3, first_id=30, n=2)
        ha = SQLDataHolder(SQLDataHolderConfig(batch_size=bs))
        sa = S.ingest(ha, a)
        hb = SQLDataHolder(SQLDataHolderConfig(batch_size=bs))
        sb = S.ingest(hb, b)
        try:
            got = sorted(S.un(e.event_id) for _, jobs in hb.stream_data(None) for job in jobs for e in job)
        except Exception as e:  # noqa
            got = "ERR:" + type(e).__name__
        want = sorted(e["id"] for e in b)
        if sa != "ok" or sb != "ok" or got != want:
            bad.append(dict(kind="a store built with the default configuration streams spans that were never saved into it (or loses its own)",
                            batch_size=bs, first_store=a, second_store=b, ingest_status=[sa, sb], second_store_streams_ids=got, expected_ids=want))
        for h in (ha, hb):
            try:
                h.session.close(); h.engine.dispose()
            except Exception:  # noqa
                pass
    return bad


def oracle(case, nodes, assoc, streamed):
    """the property, on the streamed result"""
    fm = case["fm"]

    fn = case.get("fn")

    def keep(e):
        if fn and e["name"] not in fn:
            return False
        if not fm:
            return True
        return e["name"] in fm and e["job"] in fm[e["name"]]
    want = sorted(e["id"] for e in nodes if keep(e))
    names = [n for n, _ in streamed]
    if len(set(names)) != len(names):
        return "a workflow name is yielded more than once"
    got = []
    ids = {e["id"] for e in nodes}
    byid = {e["id"]: e for e in nodes}
    for name, jobs in streamed:
        seen_jobs = []
        for job in jobs:
            if not job:
                return "empty trace group"
            jids = {ev[1] for ev in job}
            if len(jids) != 1:
                return "one group mixes several trace ids"
            seen_jobs.append(next(iter(jids)))
            for ev in job:
                if ev[3] == 0:
                    return f"span {ev[0]} is streamed with the empty string as its parent id (neither the root marker None nor a span id)"
                if ev[2] != name:
                    return f"span {ev[0]} attributed to workflow {name} but stored under {ev[2]}"
                e = byid.get(ev[0])
                if e is None or (e["job"], e["name"], e["par"], e["ty"], e["st"], e["en"], e["app"]) != tuple(ev[1:8]):
                    return f"span {ev[0]} streamed with fields differing from the stored row"
                kids = sorted(c for p, c in assoc if p == ev[0] and c in ids)
                if ev[8] != kids:
                    return f"span {ev[0]}: children {ev[8]} but the store links {kids}"
                got.append(ev[0])
        if len(set(seen_jobs)) != len(seen_jobs):
            return f"a trace is yielded more than once (or split) under workflow {name}"
    if sorted(got) != want:
        return "streamed spans differ from the stored (filtered) spans: dropped or duplicated"
    return None


def coq_stream(streamed) -> str:
    def ev(e):
        d = dict(id=e[0], job=e[1], name=e[2], par=e[3], ty=e[4], st=e[5], en=e[6], app=e[7])
        return f"({S.coq_node(d)}, {coq_list([f'{c}%positive' for c in e[8]])})"
    return coq_list([f"({n}%positive, {coq_list([coq_list([ev(e) for e in sorted(j)]) for j in jobs])})" for n, jobs in streamed])


def cases_v(items) -> str:
    rows = []
    for case, nodes, assoc, streamed in items:
        fm = coq_list([f"({k}%positive, {coq_list([f'{j}%positive' for j in v])})" for k, v in (case["fm"] or {}).items()])
        fn = coq_list([f"{k}%positive" for k in (case.get("fn") or [])])
        rows.append(f"(({fm}, {fn}, {S.coq_store(nodes, assoc)}), {coq_stream(streamed)})")
    body = ";\n ".join(rows)
    return f"""From Coq Require Import ZArith List Bool. Import ListNotations.
From V Require Import Store.Rel Store.Stream Store.StreamCheck.
Open Scope positive_scope.
Definition cases : list ((list (positive * list positive) * list positive * store) * list (positive * list (list oevent))) := [
 {body}].
Eval vm_compute in (1%nat, idx (fun c => let '((fm, fn, st), r) := c in stream_eqb (canon_stream (stream fm fn st)) r) cases).
"""


def run(out: common.Outcome, explore: int = 0) -> None:
    common.setup_impl_path()
    ok = common.proof_obligations(out, "C12")
    import tel2puml.events  # noqa: F401
    import logging
    logging.disable(logging.CRITICAL)
    cases = gen_cases(out, explore)
    items, bad, skipped = [], [], 0
    with common.Scratch("c12") as d:
        for k, case in enumerate(cases):
            path = str(d / f"s{k}.db")
            st, streamed = run_impl(case, path)
            nodes, assoc, _ = S.read_tables(path)
            os.remove(path)
            if st != "ok":
                bad.append((k, f"stream_data raised {st}", None))
                continue
            why = oracle(case, nodes, assoc, streamed)
            if why:
                bad.append((k, why, streamed))
            items.append((case, nodes, assoc, streamed))
    shard = 40
    files = [(f"S{k}", cases_v(items[k:k + shard])) for k in range(0, len(items), shard)]
    res = common.coq_eval_many(files) if ok else []
    dis, coq_fail = [], []
    for (name, _), (okc, o) in zip(files, res):
        l = common.parse_nat_list(o, "1")
        if not okc or l is None:
            coq_fail.append((name, o[-800:]))
            continue
        dis += [int(name[1:]) + i for i in l]
    for k, why, streamed in bad[:3]:
        out.violation({"kind": "streamed result violates the property", "why": why, "case": cases[k], "streamed": streamed})
    dflt = default_config_leg(10 if out.tier == "quick" else 100, out.seed)
    for b in dflt[:2]:
        out.violation(b)
    out.coverage["default_config_pairs"] = 10 if out.tier == "quick" else 100
    if ok and not out.violations and (dis or coq_fail):
        out.violation({"kind": "correspondence-broken",
                       "relation": "stream_data (consumed in nesting order) == V.Store.Stream.stream modulo intra-trace order",
                       "first_disagreements": [{"case": items[k][0], "streamed": items[k][3]} for k in dis[:3]],
                       "coq_failures": coq_fail[:2]}, no_failing_input=True)

    def nontrivial(c):
        return len({(e["name"], e["job"]) for e in c["events"]}) >= 3
    keys = {repr(c) for c in cases if nontrivial(c)}
    out.coverage.update({
        "evaluations": len(cases), "distinct_nontrivial": len(keys),
        "rule": "random stores: 1-5 workflow names, 1-12 traces of 1-8 spans, interleaved ingestion, the same trace id under two "
                "names (25%), inconsistent names inside a trace (15%), dangling parents (10%); batch sizes {1,2,3,7,10^6}; "
                "half with a name->trace-ids filter (incl. unknown names/ids and the empty dict), 30% with a filter_job_names set; non-trivial = >= 3 (name, trace) pairs",
        "samples": [{"case": cases[i]} for i in (0, len(cases) - 1)],
        "traces_validated_against_impl": len(items) - len(coq_fail) * shard,
        "model_impl_disagreements": len(dis), "oracle_rejections": len(bad),
        "trusted_base": common.std_trusted_base([
            "SQLite ORDER BY on (job_name, job_id) = byte order of the strings (interned order-preservingly); order inside a trace "
            "and of child ids is unspecified and compared as sets",
            "the nested lazy generators are consumed in nesting order (as sequence_otel_jobs does)",
        ]),
    })


def replay(out: common.Outcome, rp: dict) -> None:
    if "second_store" in rp:
        print(rp["kind"], rp["second_store_streams_ids"], "expected", rp["expected_ids"])
        out.coverage.update({"evaluations": 1, "distinct_nontrivial": 0, "rule": "replay", "samples": [rp]})
        return
    common.setup_impl_path()
    import tel2puml.events  # noqa
    case = rp["case"]
    if case.get("fm") is not None:
        case["fm"] = {int(k): v for k, v in case["fm"].items()}
    with common.Scratch("c12r") as d:
        path = str(d / "r.db")
        st, streamed = run_impl(case, path)
        nodes, assoc, _ = S.read_tables(path)
    why = f"raised {st}" if st != "ok" else oracle(case, nodes, assoc, streamed)
    print("streamed:", streamed)
    print("verdict:", why)
    if why:
        out.violation(rp)
    out.coverage.update({"evaluations": 1, "distinct_nontrivial": 0, "rule": "replay", "samples": [rp]})
