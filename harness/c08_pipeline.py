"""Correspondence leg for the OTel pipeline glue (V.Otel.Pipeline: dict construction, rename pass, recursion from the
root over child id lists, row emission, outcome classes) used by the C08 check.  Adapted from the validation script
written while the model was developed: regular AND irregular streamed jobs (missing parent, several/no roots, bogus or
duplicated child ids, cycles, duplicated event ids, ...) through the real sequence_otel_job_id_streams and through
sequence_job / otel_to_pv_model evaluated in coqc."""
import collections
import copy
import random
import sys

from . import common


def _imports():
    global OTelEvent, OTelEventTypeMap, sequence_otel_job_id_streams
    import tel2puml.events  # noqa: F401
    from tel2puml.otel_to_pv.otel_to_pv_types import OTelEvent, OTelEventTypeMap
    from tel2puml.otel_to_pv.sequence_otel import sequence_otel_job_id_streams


# ------------------------------------------------------------------ generation
# event: dict(id, par, job, name, ty, st, en, app, kids)


def random_tree_job(rnd, n, ntypes, tmax, scale, jobid=1, name=1, idbase=0):
    evs = []
    for i in range(1, n + 1):
        par = None if i == 1 else rnd.randint(1, i - 1)
        st = rnd.randrange(tmax)
        r = rnd.random()
        en = st if r < 0.15 else min(tmax, st + rnd.randrange(0, max(2, tmax // (2 if r < 0.4 else 6))))
        evs.append(dict(id=idbase + i, par=None if par is None else idbase + par, job=jobid, name=name,
                        ty=rnd.randint(1, ntypes), st=st * scale, en=en * scale, app=1 + rnd.randrange(3), kids=[]))
    for e in evs:
        if e["par"] is not None:
            evs[e["par"] - idbase - 1]["kids"].append(e["id"])
    for e in evs:
        rnd.shuffle(e["kids"])
    rnd.shuffle(evs)
    return evs


MUTATIONS = ["missing_parent_ptr", "drop_event", "drop_leaf", "second_root", "second_root_unlisted", "no_root",
             "bogus_child", "unlist_child", "dup_child", "cycle", "self_loop", "dag", "dup_event_id", "empty",
             "wrong_parent_ptr", "root_in_childlist"]


def mutate(rnd, evs, kind):
    evs = copy.deepcopy(evs)
    if not evs:
        return evs
    ids = [e["id"] for e in evs]
    byid = {e["id"]: e for e in evs}
    nonroot = [e for e in evs if e["par"] is not None]
    fresh = max(ids) + 1 + rnd.randrange(3)
    if kind == "missing_parent_ptr":
        rnd.choice(evs)["par"] = fresh
    elif kind == "drop_event":
        evs.remove(rnd.choice(evs))
    elif kind == "drop_leaf":
        leaves = [e for e in evs if not e["kids"]]
        evs.remove(rnd.choice(leaves))
    elif kind == "second_root" and nonroot:
        rnd.choice(nonroot)["par"] = None
    elif kind == "second_root_unlisted" and nonroot:
        e = rnd.choice(nonroot)
        byid[e["par"]]["kids"].remove(e["id"])
        e["par"] = None
    elif kind == "no_root":
        for e in evs:
            if e["par"] is None:
                e["par"] = rnd.choice(ids)
    elif kind == "bogus_child":
        e = rnd.choice(evs)
        e["kids"].insert(rnd.randrange(len(e["kids"]) + 1), fresh)
    elif kind == "unlist_child" and nonroot:
        e = rnd.choice(nonroot)
        byid[e["par"]]["kids"].remove(e["id"])
    elif kind == "dup_child" and nonroot:
        e = rnd.choice(nonroot)
        k = byid[e["par"]]["kids"]
        k.insert(rnd.randrange(len(k) + 1), e["id"])
    elif kind == "cycle" and nonroot:
        e = rnd.choice(nonroot)
        # add an ancestor to e's child list
        a = byid[e["par"]]
        while a["par"] is not None and rnd.random() < 0.5:
            a = byid[a["par"]]
        e["kids"].insert(rnd.randrange(len(e["kids"]) + 1), a["id"])
    elif kind == "self_loop":
        e = rnd.choice(evs)
        e["kids"].append(e["id"])
    elif kind == "dag":
        a, b = rnd.choice(evs), rnd.choice(evs)
        a["kids"].insert(rnd.randrange(len(a["kids"]) + 1), b["id"])
    elif kind == "dup_event_id":
        e = copy.deepcopy(rnd.choice(evs))
        e["ty"] = rnd.randint(1, 4)
        e["st"] += rnd.randrange(3)
        e["en"] = max(e["en"], e["st"]) + rnd.randrange(3)
        if rnd.random() < 0.3:
            e["kids"] = []
        if rnd.random() < 0.3:
            e["par"] = rnd.choice([None, fresh, rnd.choice(ids)])
        evs.insert(rnd.randrange(len(evs) + 1), e)
    elif kind == "empty":
        return []
    elif kind == "wrong_parent_ptr" and nonroot:
        rnd.choice(nonroot)["par"] = rnd.choice(ids)
    elif kind == "root_in_childlist":
        root = [e for e in evs if e["par"] is None]
        if root:
            rnd.choice(evs)["kids"].append(root[0]["id"])
    return evs


def random_cfg(rnd, ntypes):
    gmap = {}
    for pty in list(range(1, ntypes + 1)) + [ntypes + 11, ntypes + 12]:
        if rnd.random() < 0.5:
            g = {}
            for cty in rnd.sample(range(1, ntypes + 1), rnd.randint(1, ntypes)):
                g[cty] = rnd.randint(1, 2)
            gmap[pty] = g
    rules = {}
    for ty in range(1, ntypes + 1):
        if rnd.random() < 0.4:
            rules[ty] = (ntypes + 10 + ty if rnd.random() < 0.8 else rnd.randint(1, ntypes),
                         sorted(rnd.sample(range(1, ntypes + 1), rnd.randint(1, 2))))
    return gmap, rules


# ------------------------------------------------------------------ implementation side

def to_otel(evs):
    return [OTelEvent(job_name=f"name{e['name']}", job_id=f"job{e['job']}", event_type=f"T{e['ty']}",
                      event_id=f"e{e['id']}", start_timestamp=e["st"], end_timestamp=e["en"],
                      application_name=f"app{e['app']}",
                      parent_event_id=None if e["par"] is None else f"e{e['par']}",
                      child_event_ids=[f"e{k}" for k in e["kids"]]) for e in evs]


def py_cfg(gmap, rules):
    g = {f"T{p}": {f"T{c}": f"g{x}" for c, x in m.items()} for p, m in gmap.items()}
    r = {f"T{k}": OTelEventTypeMap(mapped_event_type=f"T{m}", child_event_types={f"T{c}" for c in cts})
         for k, (m, cts) in rules.items()}
    return g, r


def conv_rows(rows):
    return [(int(r["eventId"][1:]), int(r["eventType"][1:]), [int(x[1:]) for x in r["previousEventIds"]],
             r["timestamp"], int(r["jobId"][3:]), int(r["jobName"][4:]), int(r["applicationName"][3:])) for r in rows]


def run_impl_job(evs, asy, gmap, rules, none_cfg=False):
    g, r = py_cfg(gmap, rules)
    if none_cfg:
        g, r = (g or None), (r or None)
    sys.setrecursionlimit(1000)
    try:
        gens = list(sequence_otel_job_id_streams([to_otel(evs)], asy, g, r))
        if not gens:
            return "SKIP"
        assert len(gens) == 1
        return conv_rows(list(gens[0]))
    except Exception as ex:  # noqa
        return "ERR:" + type(ex).__name__


def run_impl_stream(stream, asy, ag, rn):
    """mirror of otel_to_pv.py:85-100 + the sequential consumption of handle_save_events"""
    async_event_groups = {f"name{n}": py_cfg(g, {})[0] for n, g in ag.items()}
    event_name_map_information = {f"name{n}": py_cfg({}, r)[1] for n, r in rn.items()}
    pv_event_gen = (
        (job_name, sequence_otel_job_id_streams(
            job_id_streams, async_flag=asy,
            event_to_async_group_map=async_event_groups.get(job_name, None),
            event_types_map_information=event_name_map_information.get(job_name, None)))
        for job_name, job_id_streams in ((f"name{n}", [to_otel(j) for j in jobs]) for n, jobs in stream))
    obs, ok = [], True
    try:
        for job_name, streams in pv_event_gen:
            cur = []
            obs.append((int(job_name[4:]), cur))
            for s in streams:
                cur.append(conv_rows(list(s)))
    except Exception:  # noqa
        ok = False
    return obs, ok


# independent tree predicates (for build_tree / tree_jobb)
def py_is_tree(evs):
    ids = [e["id"] for e in evs]
    if len(set(ids)) != len(ids):
        return False
    roots = [e for e in evs if e["par"] is None]
    if len(roots) != 1:
        return False
    byid = {e["id"]: e for e in evs}
    seen = []
    stack = [(roots[0]["id"], 0)]
    while stack:
        i, depth = stack.pop()
        if i not in byid or depth > len(evs):
            return False
        seen.append(i)
        if len(seen) > len(evs):
            return False
        for k in byid[i]["kids"]:
            stack.append((k, depth + 1))
    return sorted(seen) == sorted(ids)


def py_tree_job(evs):
    if not py_is_tree(evs):
        return False
    byid = {e["id"]: e for e in evs}
    return all(byid[k]["par"] == e["id"] for e in evs for k in e["kids"])


# ------------------------------------------------------------------ Coq terms

def cz(n):
    return f"({n})%Z" if n < 0 else f"{n}%Z"


def cl(xs):
    return "[" + "; ".join(xs) + "]"


def cev(e):
    par = "None" if e["par"] is None else f"(Some {e['par']})"
    return (f"(ev {e['id']} {par} {e['job']} {e['name']} {e['ty']} {cz(e['st'])} {cz(e['en'])} {e['app']} "
            + cl([str(k) for k in e["kids"]]) + ")")


def cgmap(gmap):
    return cl([f"({p}, {cl([f'({c}, {g})' for c, g in m.items()])})" for p, m in gmap.items()])


def crules(rules):
    return cl([f"({k}, ({m}, {cl([str(c) for c in cts])}))" for k, (m, cts) in rules.items()])


def crow(r):
    i, ty, prev, ts, job, name, app = r
    return f'({i}, {ty}, {cl([str(q) for q in prev])}, "{ts}"%string, {job}, {name}, {app})'


def coutcome(o):
    if o == "SKIP":
        return "ISkip"
    if isinstance(o, str):
        return "IErr"
    return "IOk " + cl([crow(r) for r in o])


HEADER = """From Coq Require Import String ZArith List Bool. Import ListNotations.
From V Require Import Store.Rel Store.Stream Otel.Span Otel.Sequencer Otel.SeqCheck Otel.Pipeline Otel.PipelineCheck.
Open Scope positive_scope.
"""


def job_cases_v(cases):
    body = ";\n ".join(
        f"(({'true' if c['async'] else 'false'}, {cgmap(c['gmap'])}, {crules(c['rules'])}, {cl([cev(e) for e in c['evs']])}), "
        f"({coutcome(c['impl'])}, ({'true' if c['is_tree'] else 'false'}, {'true' if c['tree_job'] else 'false'})))"
        for c in cases)
    return HEADER + f"""Definition inp := (bool * gmap * rules * list oevent)%type.
Definition cases : list (inp * (impl_outcome * (bool * bool))) := [
 {body}].
Definition run (c : inp) := let '(a, m, rs, j) := c in sequence_job a m rs j.
Definition jobof (c : inp) := let '(a, m, rs, j) := c in j.
Eval vm_compute in (1%nat, PipelineCheck.idx (fun p => result_eqb (run (fst p)) (fst (snd p))) cases).
Eval vm_compute in (2%nat, PipelineCheck.idx (fun p => Bool.eqb (is_some (build_tree (jobof (fst p)))) (fst (snd (snd p)))) cases).
Eval vm_compute in (3%nat, PipelineCheck.idx (fun p => Bool.eqb (tree_jobb (jobof (fst p))) (snd (snd (snd p)))) cases).
"""


def stream_cases_v(cases):
    def cstream(s):
        return cl([f"({n}, {cl([cl([cev(e) for e in j]) for j in jobs])})" for n, jobs in s])

    def cobs(o):
        obs, ok = o
        return ("(" + cl([f"({n}, {cl([cl([crow(r) for r in rows]) for rows in jl])})" for n, jl in obs])
                + f", {'true' if ok else 'false'})")
    body = ";\n ".join(
        f"(({'true' if c['async'] else 'false'}, {cl([f'({n}, {cgmap(g)})' for n, g in c['ag'].items()])}, "
        f"{cl([f'({n}, {crules(r)})' for n, r in c['rn'].items()])}, {cstream(c['stream'])}), {cobs(c['impl'])})"
        for c in cases)
    return HEADER + f"""Definition inp := (bool * list (positive * gmap) * list (positive * rules) * list (positive * list (list oevent)))%type.
Definition obs := (list (positive * list (list pvrow3)) * bool)%type.
Definition cases : list (inp * obs) := [
 {body}].
Definition run (c : inp) := let '(a, ag, rn, s) := c in observed (otel_to_pv_model a (cfg_of ag rn) s).
Definition obs_eqb (x y : obs) : bool :=
  Bool.eqb (snd x) (snd y) &&
  list_eqb (fun u v => Pos.eqb (fst u) (fst v) && list_eqb (list_eqb row3_eqb) (snd u) (snd v)) (fst x) (fst y).
Eval vm_compute in (4%nat, PipelineCheck.idx (fun p => obs_eqb (run (fst p)) (snd p)) cases).
"""




def run_leg(seed, n_jobs, n_streams):
    """returns dict(cases=..., disagreements={1..4: [...]}, coq_failures=[...], outcomes=Counter, first=...)"""
    _imports()
    rnd = random.Random(seed * 613 + 8)
    cases = []
    for k in range(n_jobs):
        n = rnd.choice([1, 2, 3, 4, 5, 6, 8, 10, 14])
        ntypes = rnd.choice([2, 3, 4])
        scale = rnd.choice([1, 1000, 10**9 + 7, 10**15 + 3])
        evs = random_tree_job(rnd, n, ntypes, rnd.choice([4, 12, 40]), scale)
        muts = []
        r = rnd.random()
        nm = 0 if r < 0.25 else (1 if r < 0.75 else (2 if r < 0.93 else 3))
        for _ in range(nm):
            kind = rnd.choice(MUTATIONS)
            try:
                evs = mutate(rnd, evs, kind)
                muts.append(kind)
            except (KeyError, ValueError, IndexError):
                pass
        gmap, rules = random_cfg(rnd, ntypes)
        if rnd.random() < 0.3:
            gmap = {}
        if rnd.random() < 0.4:
            rules = {}
        asy = rnd.random() < 0.5
        c = dict(evs=evs, gmap=gmap, rules=rules, muts=muts, **{"async": asy})
        c["impl"] = run_impl_job(evs, asy, gmap, rules, none_cfg=rnd.random() < 0.5)
        c["is_tree"] = py_is_tree(evs)
        c["tree_job"] = py_tree_job(evs)
        cases.append(c)
    scases = []
    for k in range(n_streams):
        stream, ag, rn = [], {}, {}
        idbase = 0
        for name in sorted(rnd.sample(range(1, 6), rnd.randint(1, 3))):
            jobs = []
            for jid in range(rnd.randint(1, 4)):
                n = rnd.choice([1, 2, 3, 5, 8])
                evs = random_tree_job(rnd, n, 3, 12, 1000, jobid=10 * name + jid, name=name, idbase=idbase)
                idbase += n + 3
                if rnd.random() < 0.25:
                    try:
                        evs = mutate(rnd, evs, rnd.choice(MUTATIONS))
                    except (KeyError, ValueError, IndexError):
                        pass
                if evs:
                    jobs.append(evs)
            if jobs:
                stream.append((name, jobs))
            g, r = random_cfg(rnd, 3)
            if rnd.random() < 0.6:
                ag[name] = g
            if rnd.random() < 0.6:
                rn[name] = r
        ag[9] = {1: {2: 1}}
        asy = rnd.random() < 0.5
        sc = dict(stream=stream, ag=ag, rn=rn, **{"async": asy})
        sc["impl"] = run_impl_stream(stream, asy, ag, rn)
        scases.append(sc)
    shard = 120
    files = [(f"J{k}", job_cases_v(cases[k:k + shard])) for k in range(0, len(cases), shard)]
    files += [(f"S{k}", stream_cases_v(scases[k:k + 40])) for k in range(0, len(scases), 40)]
    res = common.coq_eval_many(files)
    dis = {1: [], 2: [], 3: [], 4: []}
    fails = []
    for (name, _), (ok, o) in zip(files, res):
        base = int(name[1:])
        marks = ["1", "2", "3"] if name[0] == "J" else ["4"]
        for mk in marks:
            l = common.parse_nat_list(o, mk)
            if not ok or l is None:
                fails.append((name, o[-800:]))
                break
            dis[int(mk)] += [base + i for i in l]
    outc = collections.Counter("OK" if not isinstance(c["impl"], str) else c["impl"] for c in cases)
    first = None
    if dis[1]:
        c = cases[dis[1][0]]
        first = dict(events=c["evs"], mutations=c["muts"], gmap=c["gmap"], rules=c["rules"], implementation=c["impl"], **{"async": c["async"]})
    elif dis[4]:
        c = scases[dis[4][0]]
        first = dict(stream=c["stream"], implementation=c["impl"])
    return dict(n_jobs=len(cases), n_streams=len(scases), disagreements=dis, coq_failures=fails, outcomes=dict(outc), first=first)
