#!/bin/bash
# usage: harness/seedtest.sh <worktree> <prop-to-check> [seed-id]
# Confirms a seeded change (tests still pass, demo FAIL with / PASS without), runs ./check <prop> against the
# worktree with the change applied (VERIF_REPO), and files it under /verif/seeded/<seed-id>/.
WT=$1; PROP=$2; SID=${3:-$PROP-$(basename $WT)}
set -u
cd /verif
PATCH=$WT/_seeded/patch.diff
[ -f "$PATCH" ] || { echo "no patch"; exit 2; }
git -C $WT checkout -q -- tel2puml
echo "== demo on pristine:"; (cd $WT && timeout 600 /venv/bin/python _seeded/demo.py $WT 2>&1 | tail -2; echo "exit=${PIPESTATUS[0]}")
git -C $WT apply $PATCH || { echo "patch does not apply"; exit 2; }
echo "== demo with change:"; (cd $WT && timeout 600 /venv/bin/python _seeded/demo.py $WT 2>&1 | tail -3; echo "exit=${PIPESTATUS[0]}")
echo "== pinned tests with change:"; (cd $WT && /venv/bin/python -m pytest -q -p no:cacheprovider --timeout=900 --continue-on-collection-errors 2>&1 | grep -E "passed|failed" | tail -1)
echo "== ./check $PROP (quick) against the changed tree:"
VERIF_REPO=$WT VERIF_SEED=${VERIF_SEED:-1} timeout 3000 ./check $PROP --tier quick 2>&1 | grep -E "VIOLATION|KNOWN-FINDING" | cut -c1-200 | head -6
echo "check exit=${PIPESTATUS[0]}"
mkdir -p seeded/$SID && cp $PATCH seeded/$SID/patch.diff && cp $WT/_seeded/demo.py seeded/$SID/ && cp $WT/_seeded/notes.md seeded/$SID/ 2>/dev/null
