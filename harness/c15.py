"""C15 - re-running against a persisted store is repeatable.

Theorems: coq/theories/Properties/C15.v about V.Store.Runs (histories of any length).
Correspondence: real separate-process CLI runs (python -m tel2puml otel2pv ...) sharing one SQLite
file vs `history` evaluated in coqc, compared per run as (completed?, {workflow: trace ids emitted}).
Failing-input search: the property itself on the CLI outputs (every run completes; runs with the
same unique-graph flag emit identical PV files)."""
from __future__ import annotations

import itertools
import random
from concurrent.futures import ThreadPoolExecutor
from pathlib import Path
from . import common, storelib as S, clilib as C
from .common import coq_z, coq_list

LEVEL = "proof"
MIN = 60 * 10**9
FLAGS = [(i, u, s) for i in (True, False) for u in (False, True) for s in (True, False)]


def gen_dataset(rnd, buf):
    t0 = 1_700_000_000 * 10**9
    extent = max(4 * buf + 3, 6) * MIN
    evs = [dict(id=1, par=None, job=900, name=9, ty=1, st=t0, en=t0 + 1, app=1),
           dict(id=2, par=None, job=901, name=9, ty=1, st=t0 + extent - 1, en=t0 + extent, app=1)]
    nid = 3
    base = [None, None]
    for t in range(rnd.choice([3, 4, 6])):
        kind = rnd.choice(["in", "in", "in", "dangling", "out", "twin", "spanning", "edge"])
        n = rnd.choice([1, 2, 3, 4])
        tr = S.gen_trace(rnd, job=1 + t, name=1 + rnd.randrange(2), first_id=nid, n=n, dangling=(kind == "dangling"))
        for e in tr:
            if kind == "out" and buf > 0:
                e["st"] = t0 + rnd.randrange(0, buf * MIN // 2)
                e["en"] = e["st"] + 1
            else:
                e["st"] = t0 + buf * MIN + rnd.randrange(0, extent - 2 * buf * MIN)
                e["en"] = min(t0 + extent - buf * MIN, e["st"] + rnd.randrange(0, MIN))
        if kind == "edge" and buf > 0:
            # every span of the trace straddles the lower window bound: it ends (or starts) inside, none lies wholly inside
            lo_b = t0 + buf * MIN
            for e in tr:
                e["st"] = lo_b - rnd.randrange(1, MIN // 4)
                e["en"] = lo_b + rnd.randrange(0, MIN // 4)
        if kind == "spanning" and buf > 0 and len(tr) >= 1:
            # a long-running job: the root spans the whole retained window, no span starts or ends inside it
            for k, e in enumerate(tr):
                if k == 0:
                    e["st"], e["en"] = t0 + rnd.randrange(1, buf * MIN // 2), t0 + extent - rnd.randrange(1, buf * MIN // 2)
                else:
                    e["st"] = t0 + rnd.randrange(1, buf * MIN // 2) if k % 2 else t0 + extent - rnd.randrange(2, buf * MIN // 2)
                    e["en"] = e["st"] + 1
        if kind == "in" and len(tr) >= 3 and rnd.random() < 0.5:
            # siblings started in the same clock tick (fan-out; coarse timestamps): their order is a tie
            for e in tr[1:]:
                e["st"] = tr[1]["st"]
                e["en"] = max(e["en"], e["st"])
        if kind == "twin" and base[0]:
            # same shape as an earlier trace (so that -ug has something to merge)
            src = base[0]
            tr = [dict(e, id=nid + k, job=1 + t, par=(nid + (e["par"] - src[0]["id"]) if e["par"] is not None else None))
                  for k, e in enumerate(src)]
        elif kind == "in":
            base[0] = tr
        nid += len(tr)
        evs += tr
    if base[0] and rnd.random() < 0.6:
        # a trace that lost a span (one extra span whose parent was never exported) but whose part reachable from the root
        # has the shape of a complete trace; listed before or after it, with a smaller or larger trace id
        src = base[0]
        job = rnd.choice([50, 950])         # sorts before / after every other trace id
        tw = [dict(e, id=nid + k, job=job, par=(nid + (e["par"] - src[0]["id"]) if e["par"] is not None else None)) for k, e in enumerate(src)]
        tw.append(dict(tw[-1], id=nid + len(src), par=990000 + nid, ty=1 + rnd.randrange(3)))
        nid += len(tw)
        pos = 2 if rnd.random() < 0.5 else len(evs)
        evs[pos:pos] = tw
    if rnd.random() < 0.3:      # a duplicate span id inside the files
        evs.append(dict(evs[rnd.randrange(2, len(evs))]))
    return evs


def gen_cases(out, explore):
    rnd = random.Random(out.seed * 2477 + 15)
    quick = out.tier == "quick"
    cases = []
    n = explore or (28 if quick else 400)
    for k in range(n):
        buf = rnd.choice([0, 1, 1])
        evs = gen_dataset(rnd, buf)
        L = rnd.choice([2, 3, 4])
        first = (True, rnd.random() < 0.5, True)
        hist = [first] + [rnd.choice(FLAGS) for _ in range(L - 1)]
        if k % 7 == 0:
            hist = [(True, True, True), (False, True, True)][:L] + hist[2:]      # the job_hashes history
        if k % 7 == 1:
            hist = [(True, False, True), (True, False, True)] + hist[2:]         # the re-ingest history
        cases.append(dict(events=evs, bs=rnd.choice([2, 1000]), buf=buf, history=hist,
                          hashseeds=[rnd.choice([0, 1, 7, 99, 12345, 4242]) for _ in hist]))
    if not quick:   # all histories of length <= 3 after an ingesting first run on two fixed data sets
        for seed in (1, 2):
            evs = gen_dataset(random.Random(seed), 0)
            for L in (1, 2):
                for tail in itertools.product(FLAGS, repeat=L):
                    cases.append(dict(events=evs, bs=1000, buf=0, history=[(True, False, True)] + list(tail)))
    return cases


def run_history(case):
    with common.Scratch("c15") as d:
        data = C.write_dataset(d, case["events"])
        cfg = C.write_config(d, data, d / "store.db", bs=case["bs"], buf=case["buf"])
        res = []
        for k, (ing, ug, save) in enumerate(case["history"]):
            outd = d / f"run{k}"
            args = ["-o", str(outd), "otel2pv", "-c", str(cfg)] + (["-se"] if save else []) + ([] if ing else ["-ni"]) + (["-ug"] if ug else [])
            rc, tail = C.run_cli(args, d, hashseed=case.get("hashseeds", [0] * 9)[k])       # every process its own hash seed
            pv = C.read_pv_dir(outd) if save else None
            res.append(dict(rc=rc, pv=pv, tail=tail if rc else ""))
        return res


def emitted(pv):
    """{name: sorted trace ids}"""
    return {S.un_name(n): sorted({S.un(j[0][4]) for j in jobs if j}) for n, jobs in pv.items()}


def oracle(case, res):
    ref = {}
    for k, ((ing, ug, save), r) in enumerate(zip(case["history"], res)):
        if r["rc"] != 0:
            return f"run {k} (ingest={ing}, unique={ug}, save={save}) exited with status {r['rc']}"
        if save:
            if ug in ref and ref[ug][1] != r["pv"]:
                return f"run {k} emits PV sequences different from run {ref[ug][0]} (same unique-graph flag {ug})"
            ref.setdefault(ug, (k, r["pv"]))
    return None


def cases_v(items) -> str:
    rows = []
    for case, res in items:
        h = coq_list([f"(mkflags {str(i).lower()} {str(u).lower()} {str(s).lower()})" for i, u, s in case["history"]])
        exp = []
        for (i, u, s), r in zip(case["history"], res):
            if r["rc"] != 0:
                exp.append("None")
            elif s:
                em = emitted(r["pv"])
                exp.append("Some (Some " + coq_list([f"({n}%positive, {coq_list([f'{j}%positive' for j in js])})" for n, js in sorted(em.items())]) + ")")
            else:
                exp.append("Some None")
        rows.append(f"(({case['bs']}%nat, {coq_z(case['buf'])}, {S.coq_nodes(case['events'])}, {h}), {coq_list(exp)})")
    body = ";\n ".join(rows)
    return f"""From Coq Require Import ZArith List Bool. Import ListNotations.
From V Require Import Store.Rel Store.Stream Store.Runs.
Open Scope positive_scope.
Definition proj (o : output) : list (positive * list positive) :=
  map (fun nj => (fst nj, map (fun j => match j with (n, _) :: _ => njob n | [] => 1 end) (snd nj))) o.
Definition exp_t := option (option (list (positive * list positive))).
Definition pl_eqb := list_eqb (fun (a b : positive * list positive) => Pos.eqb (fst a) (fst b) && list_eqb Pos.eqb (snd a) (snd b)).
Definition agree (m : option output) (e : exp_t) : bool :=
  match m, e with
  | None, None => true
  | Some o, Some None => true
  | Some o, Some (Some l) => pl_eqb (proj o) l
  | _, _ => false
  end.
Definition check (c : (nat * Z * list node * list flags) * list exp_t) : bool :=
  let '((bs, buf, files, h), e) := c in
  let m := history bs buf files h empty_store in
  Nat.eqb (length m) (length e) && forallb (fun p => agree (fst p) (snd p)) (combine m e).
Definition cases : list ((nat * Z * list node * list flags) * list exp_t) := [
 {body}].
Eval vm_compute in (1%nat, idx check cases).
"""


def run(out: common.Outcome, explore: int = 0) -> None:
    common.setup_impl_path()
    ok = common.proof_obligations(out, "C15")
    cases = gen_cases(out, explore)
    with ThreadPoolExecutor(max_workers=common.NPROC) as ex:
        results = list(ex.map(run_history, cases))
    bad = [(k, why) for k, (c, r) in enumerate(zip(cases, results)) if (why := oracle(c, r))]
    items = list(zip(cases, results))
    shard = 20
    files = [(f"S{k}", cases_v(items[k:k + shard])) for k in range(0, len(items), shard)]
    res = common.coq_eval_many(files) if ok else []
    dis, coq_fail = [], []
    for (name, _), (okc, o) in zip(files, res):
        l = common.parse_nat_list(o, "1")
        if not okc or l is None:
            coq_fail.append((name, o[-800:]))
            continue
        dis += [int(name[1:]) + i for i in l]
    for k, why in bad[:3]:
        out.violation({"kind": "history not repeatable", "why": why, "case": cases[k],
                       "runs": [dict(rc=r["rc"], emitted=emitted(r["pv"]) if r["pv"] is not None else None, tail=r["tail"][-600:]) for r in results[k]]})
    if ok and not out.violations and (dis or coq_fail):
        out.violation({"kind": "correspondence-broken",
                       "relation": "per run (completed?, {workflow: trace ids emitted}) of the CLI == V.Store.Runs.history",
                       "first_disagreements": [{"case": cases[k], "runs": [dict(rc=r["rc"], emitted=emitted(r["pv"]) if r["pv"] is not None else None) for r in results[k]]} for k in dis[:3]],
                       "coq_failures": coq_fail[:2]}, no_failing_input=True)
    nruns = sum(len(c["history"]) for c in cases)
    keys = {repr((c["events"], c["history"])) for c in cases if len(c["history"]) >= 2}
    out.coverage.update({
        "evaluations": nruns, "distinct_nontrivial": len(keys),
        "rule": "data sets of 3-6 traces (complete, dangling parent, outside the buffered window, equal-shape twins, an occasional duplicate "
                "span id) x batch size {2,1000} x time_buffer {0,1}; histories of 2-4 separate-process CLI runs, first run ingesting, "
                "later flags drawn from {ingest,no-ingest} x {unique on/off} x {save on/off}; the two histories that failed on the "
                "pinned tree are always included; thorough adds all histories of length <= 3 on two fixed data sets; "
                "non-trivial = history of >= 2 runs, distinct by (data set, history)",
        "histories": len(cases), "cli_runs": nruns,
        "samples": [{"history": cases[0]["history"], "events": cases[0]["events"][:4]}],
        "traces_validated_against_impl": len(items) - len(coq_fail) * shard,
        "model_impl_disagreements": len(dis), "oracle_rejections": len(bad),
        "trusted_base": common.std_trusted_base([
            "the CLI is driven with a jq_query mapping over one JSON file; event-level equality of what is emitted is C08/C12's business, "
            "this correspondence compares completion and which traces are emitted per workflow",
            "SQLite file persistence between processes",
        ]),
    })
    out.assumptions += ["parent links stay inside their own trace or dangle (TraceClosed) and timestamps are far from 0 and 2^63 "
                        "(so that a --no-ingest run's default window contains everything kept)"]


def replay(out: common.Outcome, rp: dict) -> None:
    case = rp["case"]
    case["history"] = [tuple(x) for x in case["history"]]
    res = run_history(case)
    why = oracle(case, res)
    print([dict(rc=r["rc"], emitted=emitted(r["pv"]) if r["pv"] is not None else None) for r in res])
    print("verdict:", why)
    if why:
        out.violation(rp)
    out.coverage.update({"evaluations": 1, "distinct_nontrivial": 0, "rule": "replay", "samples": [rp]})
