"""Random mappings in the documented forms and OTel-shaped documents for them."""
import random

IDENTS = ["a", "b", "c", "rs", "scope_spans", "spans", "attributes", "key", "value", "Value",
          "StringValue", "IntValue", "name", "scope", "k1", "_x", "and", "if", "not_here", "resource",
          "trace_id", "X9"]
KEY_VALUES = ["http.method", "service.name", "x", "k v", "app-1", "café", "a:b", "0", "", ""]
FIELD_NAMES = ["job_name", "job_id", "event_type", "event_id", "start_timestamp", "end_timestamp",
               "application_name", "parent_event_id", "child_event_ids", "field_1", "f 2", "z-3"]


def rand_segment(rng, lo=1, hi=2):
    return [rng.choice(IDENTS) for _ in range(rng.randint(lo, hi))]


class PrefixPool:
    """A growing set of array prefixes (lists of segments) so that fields share levels."""

    def __init__(self, rng, allow_root_array=False):
        self.rng = rng
        self.prefixes = [[]]
        self.allow_root_array = allow_root_array

    def pick(self, maxdepth=4):
        rng = self.rng
        p = rng.choice(self.prefixes)
        while len(p) < maxdepth and rng.random() < 0.45:
            # extend: reuse an existing child or make a new one
            kids = [q for q in self.prefixes if len(q) == len(p) + 1 and q[:len(p)] == p]
            if kids and rng.random() < 0.6:
                p = rng.choice(kids)
            else:
                if self.allow_root_array and len(p) == 0 and rng.random() < 0.3:
                    seg = []
                else:
                    seg = rand_segment(rng)
                p = p + [seg]
                if p not in self.prefixes:
                    self.prefixes.append(p)
        return p


def seg_str(seg):
    return ".".join(seg)


def path_str(segs):
    return ".[].".join(seg_str(s) for s in segs)


def rand_alt(rng, pool):
    """returns (key_path_string, key_value|None, value_path|None)"""
    prefix = pool.pick()
    if rng.random() < 0.35:
        attr = rand_segment(rng)
        kseg = rand_segment(rng) if rng.random() < 0.3 else ["key"]
        vseg = rand_segment(rng, 1, 3) if rng.random() < 0.3 else ["value", "Value", rng.choice(["StringValue", "IntValue"])]
        return path_str(prefix + [attr, kseg]), rng.choice(KEY_VALUES), seg_str(vseg)
    last = rand_segment(rng, 1, 3)
    return path_str(prefix + [last]), None, None


def rand_field_spec(rng, pool, value_type=None):
    ncomp = rng.choice([1, 1, 1, 2, 2, 3])
    key_paths, key_value, value_paths = [], [], []
    for _ in range(ncomp):
        nalt = rng.choice([1, 1, 1, 2, 2, 3])
        alts = [rand_alt(rng, pool) for _ in range(nalt)]
        if nalt == 1 and rng.random() < 0.7:
            key_paths.append(alts[0][0]); key_value.append(alts[0][1]); value_paths.append(alts[0][2])
        else:
            key_paths.append([a[0] for a in alts])
            if all(a[1] is None for a in alts) and rng.random() < 0.5:
                key_value.append(None); value_paths.append(None)
            else:
                key_value.append([a[1] for a in alts]); value_paths.append([a[2] for a in alts])
    spec = {"key_paths": key_paths,
            "value_type": value_type or rng.choice(["string", "string", "string", "array"])}
    if not (all(k is None for k in key_value) and rng.random() < 0.5):
        spec["key_value"] = key_value
        spec["value_paths"] = value_paths
    if ncomp == 1 and isinstance(key_paths[0], str) and "key_value" not in spec and rng.random() < 0.3:
        spec["key_paths"] = key_paths[0]
    return spec


def rand_mapping(rng, otel=False, allow_root_array=False):
    pool = PrefixPool(rng, allow_root_array)
    if otel:
        names = FIELD_NAMES[:8] + (["child_event_ids"] if rng.random() < 0.6 else [])
    else:
        names = rng.sample(FIELD_NAMES, rng.randint(1, 5))
    m = {}
    for n in names:
        vt = None
        if otel:
            vt = "array" if n == "child_event_ids" else "string"
        m[n] = rand_field_spec(rng, pool, vt)
    # two fields looked up in the SAME attribute array through the same value path but under different keys (job_name from
    # service.name, application_name from service.namespace): only the key value tells them apart
    import copy as _copy

    def swap_keys(kv):
        if isinstance(kv, list):
            return [swap_keys(x) for x in kv]
        return None if kv is None else rng.choice([k for k in KEY_VALUES if k != kv])
    donors = [n for n in m if "key_value" in m[n] and any(k is not None for k in _flat(m[n]["key_value"]))]
    if donors and len(m) >= 2 and rng.random() < 0.5:
        src = rng.choice(donors)
        dst = rng.choice([n for n in m if n != src])
        if m[dst].get("value_type") == m[src].get("value_type"):
            twin = _copy.deepcopy(m[src])
            twin["key_value"] = swap_keys(twin["key_value"])
            m[dst] = twin
    return m


_PENDING = []


def next_mapping(rng, **kw):
    """rand_mapping, except that 30% of the mappings with a key/value lookup are followed, as the very next mapping, by a copy
    whose key values are different (same paths, same types): anything the tool keeps between two mappings shows"""
    import copy as _copy
    if _PENDING:
        return _PENDING.pop()
    m = rand_mapping(rng, **kw)

    def swap(kv):
        if isinstance(kv, list):
            return [swap(x) for x in kv]
        return None if kv is None else rng.choice([k for k in KEY_VALUES if k != kv])
    if any("key_value" in f and any(k is not None for k in _flat(f["key_value"])) for f in m.values()) and rng.random() < 0.3:
        m2 = _copy.deepcopy(m)
        for f in m2.values():
            if "key_value" in f:
                f["key_value"] = swap(f["key_value"])
        _PENDING.append(m2)
    return m


def _flat(x):
    if isinstance(x, list):
        for y in x:
            yield from _flat(y)
    else:
        yield x


# ---------------------------------------------------------------- documents
class Schema:
    def __init__(self):
        self.keys = {}      # key -> Schema
        self.arr = None     # Schema of elements if this node is iterated
        self.leaf = False
        self.attrs = []     # (kseg, vseg, key_value) lookups done on this node as an attribute array


def schema_of(jq_mapping):
    root = Schema()

    def walk(node, keys):
        for k in keys:
            node = node.keys.setdefault(k, Schema())
        return node

    for fs in jq_mapping.values():
        for kps, kvs, vps in zip(fs.key_paths, fs.key_values, fs.value_paths):
            for kp, kv, vp in zip(kps, kvs, vps):
                segs = [s.split(".") if s else [] for s in kp.split(".[].")]
                node = root
                levels = segs[:-1] if kv is None else segs[:-2]
                for seg in levels:
                    node = walk(node, seg)
                    if node.arr is None:
                        node.arr = Schema()
                    node = node.arr
                if kv is None:
                    walk(node, segs[-1]).leaf = True
                else:
                    walk(node, segs[-2]).attrs.append((segs[-1], vp.split("."), kv))
    return root


BIGS = [1723544132228102912, 9223372036854775807, 12345678901234567890, -1723544132228102912,
        100000000000000000000]


def rand_scalar(rng, raw_ok=True):
    r = rng.random()
    if r < 0.35:
        return rng.choice(["x", "span001", "GET", "", "a_b", "quo\"te", "café", "200", "tab\there", "back\\slash"])
    if r < 0.5:
        return rng.randint(-5, 500)
    if r < 0.6:
        return rng.choice(BIGS)
    if r < 0.7:
        return False
    if r < 0.77:
        return True
    if r < 0.9:
        return None
    return rng.choice(["x", 0])


def rand_leaf(rng):
    r = rng.random() * (0.72 if FRIENDLY else 1.0)
    if r < 0.7:
        return rand_scalar(rng)
    if r < 0.8:
        return [rand_scalar(rng) for _ in range(rng.randint(0, 3))]
    if r < 0.85:
        return [[rand_scalar(rng)], rand_scalar(rng), []]
    if r < 0.95:
        return {"StringValue": rand_scalar(rng)}
    return {"b": [1, {"c": None}], "a": "z"}


def nest(keys, val):
    for k in reversed(keys):
        val = {k: val}
    return val


FRIENDLY = False


def rand_attr_array(rng, attrs):
    """an attribute array for the lookups `attrs`, with the documented shape and perturbations"""
    if FRIENDLY and rng.random() < 0.93:
        elems = []
        for kseg, vseg, kv in attrs:
            e = {}
            merge_into(e, nest(kseg, kv))
            merge_into(e, nest(vseg, rand_scalar(rng)))
            elems.append(e)
        rng.shuffle(elems)
        return elems
    n = rng.randint(0, 5)
    elems = []
    for _ in range(n):
        kseg, vseg, kv = rng.choice(attrs)
        r = rng.random()
        if r < 0.55:
            key = rng.choice([kv, kv, rng.choice(KEY_VALUES)])
        elif r < 0.65:
            key = rng.choice([5, True, False, None, {"o": 1}, ["l"], 0, ""])
        else:
            key = rng.choice(KEY_VALUES)
        e = {}
        if rng.random() < 0.9:
            merge_into(e, nest(kseg, key))
        r = rng.random()
        if r < 0.8:
            merge_into(e, nest(vseg, rand_leaf(rng)))
        elif r < 0.9:
            # value path blocked by a scalar part-way
            merge_into(e, nest(vseg[:1], rng.choice(["plain", 7, None, [1]])))
        if rng.random() < 0.06:
            e = rng.choice(["str_elem", 3, None, [1, 2], False])
        elems.append(e)
    r = rng.random()
    if r < 0.85:
        return elems
    if r < 0.9:
        return {f"k{i}": e for i, e in enumerate(elems)}   # object instead of array
    return rng.choice([None, "attrs", 4, False])


def merge_into(dst, src):
    for k, v in src.items():
        if k in dst and isinstance(dst[k], dict) and isinstance(v, dict):
            merge_into(dst[k], v)
        else:
            dst[k] = v


def instantiate(rng, node, perturb=0.12):
    """a random value for a schema node"""
    if rng.random() < perturb:
        return rng.choice([None, "scalar", 3, False, [], {}, [None], [1, "s"]])
    if node.arr is not None and not node.keys:
        n = rng.choice([0, 1, 1, 2, 2, 3])
        r = rng.random()
        elems = [instantiate(rng, node.arr, perturb) for _ in range(n)]
        if r < 0.06:
            return {f"m{i}": e for i, e in enumerate(elems)}      # object where an array is expected
        return elems
    if node.attrs and not node.keys and node.arr is None:
        return rand_attr_array(rng, node.attrs)
    if not node.keys:
        return rand_leaf(rng)
    obj = {}
    ks = list(node.keys.items())
    rng.shuffle(ks)
    for k, child in ks:
        if rng.random() < (0.02 if FRIENDLY else 0.1):
            continue     # missing key
        obj[k] = instantiate(rng, child, perturb)
    if rng.random() < 0.3:
        obj["extra"] = rand_scalar(rng)
    return obj


def rand_doc(rng, jq_mapping, perturb=0.12):
    return instantiate(rng, schema_of(jq_mapping), perturb)


# ---- a leaf mode that makes many records valid OTelEvents (timestamps numeric) ----
NUMERIC_MODE = False
_orig_rand_scalar = rand_scalar


def rand_scalar(rng, raw_ok=True):  # noqa: F811
    if NUMERIC_MODE and rng.random() < 0.9:
        # decimal strings of different lengths (a later instant can be the lexicographically smaller string), ints, and
        # strings pydantic does / does not accept as integers
        return rng.choice([1723544132228102912, 17, "1723544132228219285", "42", 0, "1_000", " 7 ", "+5", "12.0",
                           "999", "1000", "99999999999", "100000000000", "5", "1723544132228219285", "999"])
    return _orig_rand_scalar(rng, raw_ok)
