"""C06 - gate inference explains all observed successor sets; exact without mixed OR.

Translation validation, exhaustive over the property's finite domain: the domain is enumerated by the
Coq function enum_trees (proved sound and complete), each tree's outcome family is fed to the real
calculate_logic_gates, the returned ProcessTree is translated and certified in coqc with c06_check
(sound_b always, exact_b on the stated sub-class)."""
from __future__ import annotations

import ast
import json
import random
import re
import subprocess
from . import common
from .common import coq_list

LEVEL = "translation_validation"

# ----------------------------------------------------------------------------- domain from Coq

ENC = """From Coq Require Import List PArith Arith. Import ListNotations.
From V Require Import Gate.GateTree Gate.GateEnum.
Fixpoint enc (t : gtree) : list nat :=
  match t with
  | Leaf e => [0; Pos.to_nat e]
  | Tau => [1]
  | Node op cs => (match op with GAnd => 2 | GOr => 3 | GXor => 4 end) :: length cs :: flat_map enc cs
  end.
Eval vm_compute in map enc (enum_trees %d).
"""


def domain(n):
    ok, o = common.coq_eval(f"D{n}", ENC % n, timeout=600)
    flat = re.sub(r"\s+", " ", o)
    m = re.search(r"= (\[.*\]) : list", flat)
    rows = ast.literal_eval(re.sub(r"%\w+", "", m.group(1)).replace(";", ","))
    out = []
    for r in rows:
        t, rest = _dec(r)
        assert not rest
        out.append(t)
    return out


def _dec(l):
    if l[0] == 0:
        return ("leaf", l[1]), l[2:]
    if l[0] == 1:
        return ("tau",), l[1:]
    op = {2: "AND", 3: "OR", 4: "XOR"}[l[0]]
    n, rest, cs = l[1], l[2:], []
    for _ in range(n):
        c, rest = _dec(rest)
        cs.append(c)
    return (op, cs), rest


def outcomes(t):
    if t[0] == "leaf":
        return {frozenset([t[1]])}
    if t[0] == "tau":
        return {frozenset()}
    op, cs = t
    oc = [outcomes(c) for c in cs]
    if op == "XOR":
        return set().union(*oc)
    res = set()
    import itertools
    idxsets = [tuple(range(len(cs)))] if op == "AND" else [c for k in range(1, len(cs) + 1) for c in itertools.combinations(range(len(cs)), k)]
    for idx in idxsets:
        for combo in itertools.product(*[oc[i] for i in idx]):
            res.add(frozenset().union(*combo))
    return res


def coq_tree(t):
    if t[0] == "leaf":
        return f"Leaf {t[1]}"
    if t[0] == "tau":
        return "Tau"
    return f"Node {'G' + t[0].capitalize()} {coq_list([coq_tree(c) for c in t[1]])}"


# ----------------------------------------------------------------------------- implementation

WORKER = r"""
import sys, json, random, uuid
seed = int(sys.argv[1]); _r = random.Random(seed)
uuid.uuid4 = lambda: uuid.UUID(int=_r.getrandbits(128), version=4)
import logging; logging.disable(logging.CRITICAL)
import copy
import tel2puml.events as ev
import tel2puml.logic_detection as ld
from tel2puml.logic_detection import calculate_logic_gates
cap = {}
_orig = ld.discover_process_tree_inductive
def _disc(*a, **k):
    t = _orig(*a, **k)
    cap["root"] = copy.deepcopy(t)      # the miner's tree BEFORE the post-processing mutates it
    return t
ld.discover_process_tree_inductive = _disc
def conv(n):
    if n.operator is None:
        return ["tau"] if n.label is None else ["leaf", n.label]
    return [n.operator.value, [conv(c) for c in n.children]]
for line in sys.stdin:
    fam = json.loads(line)
    cap.clear()
    try:
        t = calculate_logic_gates({ev.EventSet(s) for s in fam})
        out = {"ok": conv(t)}
    except BaseException as e:
        out = {"err": type(e).__name__ + ": " + str(e)[:120]}
    if "root" in cap and len(cap["root"].children) > 1:
        out["miner"] = conv(cap["root"].children[1])
    sys.stdout.write(json.dumps(out) + "\n"); sys.stdout.flush()
"""


def infer_many(fams, hashseed=0, uuid_seed=1):
    n = len(fams)
    nproc = min(common.NPROC, max(1, n))
    chunks = [list(range(i, n, nproc)) for i in range(nproc)]
    import threading
    results = [None] * n

    def drive(idxs):
        p = subprocess.Popen([common.PY, "-c", WORKER, str(uuid_seed)], stdin=subprocess.PIPE, stdout=subprocess.PIPE,
                             stderr=subprocess.DEVNULL, env=common.impl_env(hashseed), text=True)
        data = "".join(json.dumps(fams[i]) + "\n" for i in idxs)
        try:
            outp, _ = p.communicate(data, timeout=60 + 2 * len(idxs))
            lines = outp.strip().split("\n") if outp.strip() else []
        except subprocess.TimeoutExpired:
            p.kill()
            lines = []
        for k, i in enumerate(idxs):
            results[i] = json.loads(lines[k]) if k < len(lines) else {"err": "worker died"}
    ths = [threading.Thread(target=drive, args=(c,)) for c in chunks if c]
    [t.start() for t in ths]
    [t.join() for t in ths]
    return results


def to_gtree(r):
    if r[0] == "leaf":
        return ("leaf", int(r[1][1:]))
    if r[0] == "tau":
        return ("tau",)
    op = {"+": "AND", "O": "OR", "X": "XOR"}.get(r[0])
    if op is None:
        raise ValueError(f"operator {r[0]} outside the gate-tree model")
    return (op, [to_gtree(c) for c in r[1]])


def coq_ptree(r):
    if r[0] == "leaf":
        return f"(PLeaf {int(r[1][1:])})"
    if r[0] == "tau":
        return "PTau"
    op = {"->": "PSeq", "X": "PXor", "+": "PAnd", "O": "POr", "*": "PLoop"}.get(r[0], "POther")
    return f"(PNode {op} {coq_list([coq_ptree(c) for c in r[1]])})"


def post_leg(fams, results):
    """V.Gate.PostProcess.post (transcription of reduce_process_tree_to_preferred_logic_gates) applied to the captured
    miner tree must equal the implementation's final tree modulo child order"""
    rows = []
    for i, (fam, r) in enumerate(zip(fams, results)):
        if "ok" in r and "miner" in r:
            F = coq_list([coq_list([str(int(e[1:])) for e in s]) for s in fam])
            rows.append(f"({i}%nat, {F}, {coq_ptree(r['miner'])}, {coq_ptree(r['ok'])})")
    files = []
    for s in range(0, len(rows), 200):
        body = ";\n ".join(rows[s:s + 200])
        files.append((f"P{s}", f"""From Coq Require Import List PArith Bool. Import ListNotations.
From V Require Import Gate.GateTree Gate.Cover Gate.PostProcess Gate.PostCheck.
Open Scope positive_scope.
Definition cases : list (nat * list eset * ptree * ptree) := [
 {body}].
Eval vm_compute in (1%nat, map (fun c => fst (fst (fst c))) (filter (fun c => let '(i, F, m, f) := c in negb (post_agrees F m f)) cases)).
Eval vm_compute in (2%nat, map (fun c => fst (fst (fst c))) (filter (fun c => let '(i, F, m, f) := c in post_hyps_b F m && negb (post_sound_b F f)) cases)).
Eval vm_compute in (3%nat, map (fun c => fst (fst (fst c))) (filter (fun c => let '(i, F, m, f) := c in post_hyps_b F m) cases)).
"""))
    res = common.coq_eval_many(files)
    dis, thm_bad, hyps, fails = [], [], 0, []
    for (name, _), (okc, o) in zip(files, res):
        l1, l2, l3 = (common.parse_nat_list(o, k) for k in "123")
        if not okc or l1 is None or l2 is None or l3 is None:
            fails.append((name, o[-500:]))
            continue
        dis += l1
        thm_bad += l2
        hyps += len(l3)
    return dict(cases=len(rows), disagreements=dis, theorem_instances=hyps, theorem_instance_failures=thm_bad, coq_failures=fails)


def tree_key(t):
    if t[0] in ("leaf", "tau"):
        return repr(t)
    return t[0] + "(" + ",".join(sorted(tree_key(c) for c in t[1])) + ")"


def run(out: common.Outcome, explore: int = 0) -> None:
    okp = common.proof_obligations(out, "C06")
    quick = out.tier == "quick"
    rnd = random.Random(out.seed * 9973 + 6)
    dom, exhaustive_upto = [], 4 if quick else 6
    sizes = {}
    for n in range(1, (5 if quick else 6) + 1):
        ts = domain(n)
        sizes[n] = len(ts)
        if quick and n == 5:
            ts = rnd.sample(ts, explore or 500)
        dom += ts
    if quick:       # the thorough tier's size, sampled: the three flat 6-leaf trees and a seeded sample of the 27099 trees over 6 events
        ts6 = domain(6)
        sizes[6] = len(ts6)
        flat6 = [t for t in ts6 if all(c[0] == "leaf" for c in t[1])]
        dom += flat6 + rnd.sample(ts6, 60)
    seeds = [(0, 1)] if quick else [(0, 1), (1, 2), (12345, 3)]
    cases = []
    for t in dom:
        nleaves = tree_key(t).count("leaf")
        for (hs, us) in (seeds if nleaves <= 5 else seeds[:1]):
            cases.append((t, hs, us))
    res = [None] * len(cases)
    for (hs, us) in seeds:
        idxs = [i for i, c in enumerate(cases) if (c[1], c[2]) == (hs, us)]
        fams = [[[f"E{e}" for e in sorted(s)] for s in sorted(outcomes(cases[i][0]), key=sorted)] for i in idxs]
        for i, r in zip(idxs, infer_many(fams, hs, us)):
            res[i] = r
    # ---- correspondence leg: the post-processing model on the captured miner trees (domain families + random families)
    all_fams = [[[f"E{e}" for e in sorted(s)] for s in sorted(outcomes(c[0]), key=sorted)] for c in cases if (c[1], c[2]) == seeds[0]]
    all_res = [res[i] for i, c in enumerate(cases) if (c[1], c[2]) == seeds[0]]
    nrand = 300 if quick else 3000
    rfams = []
    for _ in range(nrand):
        nev = rnd.choice([3, 4, 5, 6])
        fam = {frozenset(rnd.sample(range(1, nev + 1), rnd.randint(1, nev))) for _ in range(rnd.randint(1, 6))}
        rfams.append([[f"E{e}" for e in sorted(s)] for s in sorted(fam, key=sorted)])
    rres = infer_many(rfams, seeds[0][0], seeds[0][1])
    pl = post_leg(all_fams + rfams, all_res + rres) if okp else None
    rows, pre = [], {}
    for i, ((t, hs, us), r) in enumerate(zip(cases, res)):
        if "err" in r:
            pre[i] = "error:" + r["err"].split(":")[0]
            continue
        try:
            g = to_gtree(r["ok"])
        except ValueError as e:
            pre[i] = "outside-model:" + str(e)
            continue
        rows.append((i, t, g))
    shard = 250
    files = []
    for s in range(0, len(rows), shard):
        body = ";\n ".join(f"({i}%nat, {coq_tree(t)}, {coq_tree(g)})" for i, t, g in rows[s:s + shard])
        files.append((f"G{s}", f"""From Coq Require Import List PArith Bool. Import ListNotations.
From V Require Import Gate.GateTree Gate.GateEnum.
Open Scope positive_scope.
Definition cases : list (nat * gtree * gtree) := [
 {body}].
Definition bad := filter (fun c => let '(i, t, r) := c in negb (c06_check t r)) cases.
Eval vm_compute in (1%nat, map (fun c => fst (fst c)) bad).
Eval vm_compute in (2%nat, map (fun c => fst (fst c)) (filter (fun c => let '(i, t, r) := c in negb (sound_b r (outcomes t))) bad)).
Eval vm_compute in (3%nat, map (fun c => fst (fst c)) (filter (fun c => let '(i, t, r) := c in negb (in_domain (length (leaves t)) t)) cases)).
"""))
    cres = common.coq_eval_many(files) if okp else []
    bad, unsound, notdom, coq_fail = [], set(), [], []
    for (name, _), (okc, o) in zip(files, cres):
        l1, l2, l3 = (common.parse_nat_list(o, k) for k in "123")
        if not okc or l1 is None or l2 is None or l3 is None:
            coq_fail.append((name, o[-600:]))
            continue
        bad += l1
        unsound |= set(l2)
        notdom += l3
    n_viol, kinds, failing = 0, {}, []
    for i in sorted(set(bad) | set(pre)):
        t, hs, us = cases[i]
        kind = pre.get(i) or ("observed-set-not-admitted" if i in unsound else "admits-more-than-observed")
        kinds[kind.split(":")[0]] = kinds.get(kind.split(":")[0], 0) + 1
        key = f"C06:{tree_key(t)}:{kind.split(':')[0]}"
        failing.append(key)
        f = out.match_finding(key)
        if f:
            out.known_finding(f"{key}")
        elif n_viol < 4:
            n_viol += 1
            out.violation(dict(kind=kind, key=key, source_tree=tree_key(t), family=[sorted(s) for s in sorted(outcomes(t), key=sorted)],
                               inferred=res[i].get("ok"), error=res[i].get("err"), PYTHONHASHSEED=hs, uuid_seed=us))
    if okp and pl and (pl["disagreements"] or pl["theorem_instance_failures"] or pl["coq_failures"]) and not out.violations:
        k = (pl["disagreements"] or pl["theorem_instance_failures"] or [0])[0]
        fam = (all_fams + rfams)[k]
        out.violation({"kind": "correspondence-broken",
                       "relation": "reduce_process_tree_to_preferred_logic_gates on the captured miner tree == V.Gate.PostProcess.post (modulo child order)",
                       "family": fam, "implementation": (all_res + rres)[k], "leg": {k2: (v if not isinstance(v, list) else v[:5]) for k2, v in pl.items()}},
                      no_failing_input=True)
    if okp and (coq_fail or notdom) and not out.violations:
        out.violation({"kind": "certificate-evaluation-failed", "coq_failures": coq_fail[:2], "not_in_domain": notdom[:5]}, no_failing_input=True)
    out.coverage.update({
        "programs": len(rows), "disagreements_checked": len(set(bad) | set(pre)),
        "samples": [dict(source_tree=tree_key(cases[k][0]), inferred=res[k].get("ok")) for k in (min(30, len(cases) - 1), len(cases) - 1)],
        "exhaustive": True, "exhaustive_up_to_events": exhaustive_upto,
        "domain_sizes": sizes, "trees_run": len(dom), "inferences": len(cases), "hash_seeds": [s[0] for s in seeds],
        "failure_kinds": kinds, "failing_keys": sorted(set(failing)),
        "post_processing_leg": None if not pl else {k2: (v if not isinstance(v, list) else len(v)) for k2, v in pl.items()},
        "traces_validated_against_impl": pl["cases"] if pl else 0,
        "evaluations": len(cases), "distinct_nontrivial": len({tree_key(c[0]) for c in cases if c[0][0] != "leaf"}),
        "rule": "domain = enum_trees n (Coq, proved sound and complete: all gate trees over exactly n distinct events, depth <= 3, "
                "operators alternating, one representative per unordered tree), n = 1..4 exhaustively + a seeded sample of n = 5 in the "
                "quick tier (plus the flat trees and a seeded sample of 60 trees over 6 events), n = 1..6 exhaustively in the thorough tier (n <= 5 under three hash seeds); the family fed to the "
                "implementation is the full outcome family of the tree",
        "trusted_base": common.std_trusted_base([
            "translation of pm4py ProcessTree ('+','O','X', leaf, tau) to gtree; any other operator is reported",
            "python `outcomes` only builds the implementation's input; the certificate recomputes outcomes in Coq",
        ]),
    })
    out.assumptions += ["the heuristic's universal correctness is not proved; every tree of the finite domain is certified individually",
                        "event names are E1..En; one representative per unordered tree (outcomes_perm_invariant)"]


def replay(out, rp):
    out.coverage.update({"programs": 1, "disagreements_checked": 0, "samples": [rp]})
    fam = [[f"E{e}" for e in s] for s in rp["family"]]
    print(infer_many([fam], rp.get("PYTHONHASHSEED", 0), rp.get("uuid_seed", 1)))
