import hashlib, json, random, sys
sys.path.insert(0, '/verif')
from harness import pumllib as P, poolgen
class GenY(P.GenF):
    """beyond F: a loop (or fork) may be the FIRST element of a loop body / fork branch, and the loop may be by-passed"""
    def small_loop(self):
        r = self.r.random()
        if r < 0.5:
            return ("loop", [self.ev()])
        if r < 0.8:
            return ("loop", [self.ev(), self.ev()])
        return ("loop", [("fork", self.r.choice(["XOR", "AND"]), [[self.ev()], [self.ev()]])])
    def outer(self):
        body = [self.small_loop(), self.ev()]
        if self.r.random() < 0.4:
            body.append(self.ev())
        if self.r.random() < 0.3:
            body.insert(1, self.ev())
        return ("loop", body)
    def definition(self):
        out = [self.ev()]
        r = self.r.random()
        if r < 0.5:
            out.append(("fork", "XOR", [[self.ev(), self.outer()], [self.ev()]]))
        elif r < 0.75:
            out.append(("fork", "AND", [[self.ev(), self.outer()], [self.ev()]]))
        else:
            out.append(self.outer())
        out.append(self.ev())
        return out
out, seen, k = [], set(), 0
while len(out) < 60 and k < 20000:
    k += 1
    rnd = random.Random(9191 * 1000003 + k)
    g = GenY(rnd)
    d = g.definition()
    try: jobs = P.dedup_jobs(P.jobs_of(2, d, cap=3000))
    except Exception as e:
        print("ERR", type(e).__name__, e); break
    if len(jobs) > 150 or len(jobs) < 2: continue
    shape = json.dumps(poolgen._shape(d))
    if shape in seen: continue
    seen.add(shape)
    out.append(dict(id=hashlib.sha256(json.dumps(d).encode()).hexdigest()[:16], events=g.n, jobs=len(jobs), d=d))
out.sort(key=lambda r: (r["events"], r["jobs"], r["id"]))
open('/verif/harness/pool/Y.jsonl','w').write("".join(json.dumps(r)+"\n" for r in out))
print(len(out)); print(P.show(out[10]['d'])); print(out[10]['jobs'])
