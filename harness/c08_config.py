"""C08 leg G - the CONFIGURATION path: the sequencer maps reach the sequencing functions through
config.sequencer (async_flag, async_event_groups[job_name], event_name_map_information[job_name]) in
tel2puml/otel_to_pv/otel_to_pv.py.  For small call trees ingested from a JSON file into an in-memory store, the PV
events produced by otel_to_pv(config) must be the ones sequence_otel_job_id_streams gives when handed the same maps
directly (that direct path is what the main leg ties to the model and to the documented rules).  Maps satisfy the
rename rule's side condition and siblings start at distinct times, so the result does not depend on stream order."""
from __future__ import annotations

import random
from . import common, clilib as C, storelib as S
from .c08 import random_tree, all_nodes

NAME = 1        # one workflow: S.s_name(1)


def gen(rnd):
    ntypes = rnd.choice([2, 3, 4])
    t = random_tree(rnd, rnd.choice([3, 5, 8, 12]), ntypes, 24, rnd.choice(["wide", "deep", "any"]))
    if rnd.random() < 0.6:          # a fan-out: several children of one type under one parent
        par = rnd.choice(list(all_nodes(t)))
        ty = rnd.randint(1, ntypes)
        used = {k["st"] for k in par["kids"]}
        nid = max(n["id"] for n in all_nodes(t)) + 1
        for _ in range(rnd.choice([2, 3])):
            st = next(x for x in range(24) if x not in used)
            used.add(st)
            par["kids"].append(dict(id=nid, ty=ty, st=st, en=min(24, st + rnd.choice([0, 1, 5])), pl=1, kids=[]))
            nid += 1
    gmap = {}
    for pty in range(1, ntypes + 1):
        if rnd.random() < 0.7:
            k = rnd.choice([1, 1, 2, ntypes])        # single-child-type entries are the commonest documented shape
            gmap[pty] = {c: rnd.randint(1, 2) for c in rnd.sample(range(1, ntypes + 1), min(k, ntypes))}
    rules = {}
    for ty in range(1, ntypes + 1):
        if rnd.random() < 0.3:
            rules[ty] = (ntypes + 10 + ty, sorted(rnd.sample(range(1, ntypes + 1), rnd.randint(1, 2))))
    keys = set(rules)
    rules = {k: (m, [c for c in cts if c not in keys]) for k, (m, cts) in rules.items()}
    rules = {k: v for k, v in rules.items() if v[1]}
    return dict(tree=t, gmap=gmap, rules=rules, **{"async": rnd.random() < 0.5})


def events_of(case, t0=1_700_000_000 * 10**9):
    evs = []

    def go(nd, par):
        evs.append(dict(id=nd["id"], par=par, job=1, name=NAME, ty=nd["ty"], st=t0 + nd["st"] * 1000, en=t0 + nd["en"] * 1000, app=1))
        for k in nd["kids"]:
            go(k, nd["id"])
    go(case["tree"], None)
    return evs


def canon(rows):
    return sorted((r["eventId"], r["eventType"], tuple(sorted(r["previousEventIds"])), r["timestamp"]) for r in rows)


def run_one(case):
    import yaml, contextlib, io
    from tel2puml.otel_to_pv.config import IngestDataConfig
    from tel2puml.otel_to_pv.otel_to_pv import otel_to_pv
    from tel2puml.otel_to_pv.otel_to_pv_types import OTelEvent, OTelEventTypeMap
    from tel2puml.otel_to_pv.sequence_otel import sequence_otel_job_id_streams
    evs = events_of(case)
    name = S.s_name(NAME)
    gmap = {S.s_ty(p): {S.s_ty(c): f"g{g}" for c, g in m.items()} for p, m in case["gmap"].items()}
    rules = {S.s_ty(k): dict(mapped_event_type=S.s_ty(m), child_event_types=[S.s_ty(c) for c in cts]) for k, (m, cts) in case["rules"].items()}
    seq = {"async_flag": case["async"]}
    if gmap:
        seq["async_event_groups"] = {name: gmap, "some other workflow": {S.s_ty(1): {S.s_ty(2): "zz"}}}
    if rules:
        seq["event_name_map_information"] = {name: rules}
    with common.Scratch("c08g") as d:
        data = C.write_dataset(d, evs)
        cfg = yaml.safe_load(C.write_config(d, data, None, bs=1000, sequencer=seq).read_text())
        try:
            with contextlib.redirect_stdout(io.StringIO()), contextlib.redirect_stderr(io.StringIO()):
                got = {n: [canon(job) for job in jobs] for n, jobs in otel_to_pv(IngestDataConfig(**cfg), ingest_data=True)}
        except Exception as e:  # noqa
            got = "ERR:" + type(e).__name__ + ": " + str(e)[:120]
    kids = {}
    for e in evs:
        if e["par"] is not None:
            kids.setdefault(e["par"], []).append(e["id"])
    direct_evs = [OTelEvent(job_name=name, job_id=S.s_job(1), event_type=S.s_ty(e["ty"]), event_id=S.s_id(e["id"]), start_timestamp=e["st"],
                            end_timestamp=e["en"], application_name=S.s_app(1), parent_event_id=S.s_id(e["par"]) if e["par"] is not None else None,
                            child_event_ids=[S.s_id(c) for c in kids.get(e["id"], [])]) for e in evs]
    rl = {k: OTelEventTypeMap(mapped_event_type=v["mapped_event_type"], child_event_types=set(v["child_event_types"])) for k, v in rules.items()}
    want = {name: [canon(job) for job in sequence_otel_job_id_streams([direct_evs], case["async"], gmap or None, rl or None)]}
    return got, want


def leg(out, n):
    rnd = random.Random(out.seed * 88001 + 8)
    bad, single = [], 0
    for _ in range(n):
        case = gen(rnd)
        single += any(len(m) == 1 for m in case["gmap"].values())
        got, want = run_one(case)
        if got != want:
            bad.append(dict(kind="the sequencer configuration does not reach the sequencer unchanged: otel_to_pv(config) differs from "
                                 "sequence_otel_job_id_streams given the same maps", case=case, via_config=got, direct=want))
    return dict(cases=n, with_single_child_type_group=single, bad=bad)
