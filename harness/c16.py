"""C16 - PV timestamps and OTel nanosecond times convert consistently.

Theorems: coq/theories/Properties/C16.v.  Correspondence: the two Python converters vs the Flocq
bit-exact model, evaluated inside coqc on the instants of this run; the spec side (render / exact
integer formula) is evaluated on the implementation's outputs as the search for a failing input."""
from __future__ import annotations

import random
from . import common
from .common import coq_z, coq_string, coq_list

LEVEL = "proof"
US_2100 = 47482 * 86400 * 10**6
KEY_V0 = "convert_timestamp_to_unix_nano:float-formula-adds-microseconds-twice"


def boundary_instants() -> list[int]:
    out = set()
    import datetime as D
    ep = D.datetime(1970, 1, 1, tzinfo=D.timezone.utc)

    def us_of(y, mo, d, h=0, mi=0, s=0, f=0):
        return int((D.datetime(y, mo, d, h, mi, s, tzinfo=D.timezone.utc) - ep).total_seconds()) * 10**6 + f
    fracs = [0, 1, 2, 499999, 500000, 500001, 999998, 999999]
    for y in [1970, 1971, 1972, 1999, 2000, 2001, 2023, 2024, 2038, 2096, 2099]:
        for (mo, d) in [(1, 1), (2, 28), (3, 1), (6, 30), (12, 31)] + ([(2, 29)] if y % 4 == 0 else []):
            for (h, mi, s) in [(0, 0, 0), (0, 0, 59), (0, 59, 59), (23, 59, 59), (12, 0, 0)]:
                base = us_of(y, mo, d, h, mi, s)
                for f in fracs:
                    out.add(base + f)
    # float binade edges of the nanosecond count (2^53 .. 2^61) and of the second count (2^k)
    for k in range(50, 62):
        for dlt in (-2, -1, 0, 1, 2):
            us = (2**k) // 1000 + dlt
            out.add(us)
    for k in range(1, 32):
        for f in (0, 1, 999999):
            out.add((2**k) * 10**6 + f)
            out.add((2**k - 1) * 10**6 + f)
    return sorted(u for u in out if 0 <= u < US_2100)


def run(out: common.Outcome, explore: int = 0) -> None:
    common.setup_impl_path()
    ok = common.proof_obligations(out, "C16")
    rnd = random.Random(out.seed * 7919 + 16)
    n_rand = 6000 if out.tier == "quick" else 120000
    n_rand = explore or n_rand
    inst = boundary_instants()
    n_boundary = len(inst)
    inst += [rnd.randrange(US_2100) for _ in range(n_rand)]
    # non-aligned nanosecond values (monotonicity + model correspondence only)
    unaligned = sorted(rnd.randrange(1000 * US_2100) for _ in range(n_rand // 4))
    # clusters of neighbours, where order could flip
    for _ in range(n_rand // 40):
        b = rnd.randrange(1000 * US_2100 - 5000)
        unaligned += [b + k * rnd.choice([1, 7, 100, 499, 500, 501, 999]) for k in range(5)]
    unaligned = sorted(set(unaligned))

    import tel2puml.events  # noqa: F401  (import order, see DESIGN 1.2)
    from tel2puml.utils import unix_nano_to_pv_string
    from tel2puml.pv_to_tel import convert_timestamp_to_unix_nano

    def impl_f(n):
        try:
            return unix_nano_to_pv_string(n)
        except Exception as e:  # noqa
            return "ERR:" + type(e).__name__

    def impl_g(s):
        try:
            return int(convert_timestamp_to_unix_nano(s))
        except Exception as e:  # noqa
            return -1

    a_cases = [(u, impl_f(1000 * u)) for u in inst]                # aligned
    u_cases = [(n, impl_f(n)) for n in unaligned]
    # direction 2 on strings rendered by the implementation itself and by python's own formatting
    g_cases = [(u, s, impl_g(s)) for (u, s) in a_cases if not s.startswith("ERR:")]

    # the PV -> OTel step as the tool performs it (pv_event_to_otel): start and end of the span are the converter's value
    from tel2puml.pv_to_tel import pv_event_to_otel
    ev_bad, n_ev = [], 0
    for (u, s0, g0) in g_cases[:n_boundary] + g_cases[n_boundary:n_boundary + 1500]:
        n_ev += 1
        try:
            sp = pv_event_to_otel(dict(jobId="j", eventId="e", timestamp=s0, applicationName="a", jobName="n", eventType="t"))
            got = (int(sp["start_time_unix_nano"]), int(sp["end_time_unix_nano"]))
        except Exception as e:  # noqa
            got = "ERR:" + type(e).__name__ + ": " + str(e)[:80]
        if got != (g0, g0):
            ev_bad.append(dict(pv_string=s0, converter=g0, span_start_end=got, instant_us=u))
    for b in ev_bad[:2]:
        out.violation({"kind": "pv_event_to_otel does not give the span the converter's value for the event's timestamp", **b})
    out.coverage["pv_event_to_otel_cases"] = n_ev

    # the OTel -> PV step as the tool performs it (sequence_otel_event_job): every PV event carries the rendering of its own
    # span's end time, whatever its position in the job and whatever the neighbouring values (0 included)
    from tel2puml.otel_to_pv.sequence_otel import sequence_otel_event_job
    from tel2puml.otel_to_pv.otel_to_pv_types import OTelEvent
    sq_bad, n_sq = [], 0
    pool_ns = [1000 * u for u in inst[:n_boundary]] + [n for n, _ in u_cases[:200]]
    r3 = random.Random(out.seed * 104729 + 161)
    for k in range(400 if out.tier == "quick" else 4000):
        ends = [r3.choice(pool_ns) for _ in range(r3.choice([1, 2, 3, 4]))]
        if k % 4 == 0:
            ends[0] = 0
        if k % 5 == 0 and len(ends) > 1:
            ends[1] = ends[0]           # equal neighbouring end times
        evs = {}
        for i, en in enumerate(ends):
            evs[f"e{i}"] = OTelEvent(job_name="n", job_id="j", event_type=f"T{i}", event_id=f"e{i}", start_timestamp=max(0, en - 5),
                                     end_timestamp=en, application_name="a", parent_event_id=None if i == 0 else "e0",
                                     child_event_ids=[f"e{j}" for j in range(1, len(ends))] if i == 0 else [])
        try:
            got = {p["eventId"]: p["timestamp"] for p in sequence_otel_event_job(evs, async_flag=(k % 3 == 2))}
        except Exception as e:  # noqa
            got = {"ERR": type(e).__name__}
        n_sq += 1
        want = {f"e{i}": impl_f(en) for i, en in enumerate(ends)}
        if got != want:
            sq_bad.append(dict(end_times_in_stream_order=ends, pv_timestamps=got, converter=want))
    for b in sq_bad[:2]:
        out.violation({"kind": "sequence_otel_event_job does not give a PV event the rendering of its span's end time", **b})
    out.coverage["sequencer_timestamp_cases"] = n_sq

    # the same converters in a process whose local time zone is not UTC (results must not depend on TZ)
    import subprocess, json as _json
    tz_inst = inst[:n_boundary:7] + inst[n_boundary:n_boundary + 300]
    code = ("import sys, json; import tel2puml.events\n"
            "from tel2puml.utils import unix_nano_to_pv_string as f\n"
            "from tel2puml.pv_to_tel import convert_timestamp_to_unix_nano as g\n"
            "us = json.loads(sys.stdin.read()); out = []\n"
            "for u in us:\n"
            "    s = f(1000 * u)\n"
            "    out.append([s, int(g(s))])\n"
            "print(json.dumps(out))\n")
    env = common.impl_env(0)
    env["TZ"] = "GMT0BST,M3.5.0/1,M10.5.0/2"
    r = subprocess.run([common.PY, "-c", code], input=_json.dumps(tz_inst), capture_output=True, text=True, env=env, timeout=600)
    tz_bad = []
    try:
        tz_out = _json.loads(r.stdout.strip().splitlines()[-1])
        for u, (s2, g2) in zip(tz_inst, tz_out):
            if s2 != impl_f(1000 * u) or g2 != impl_g(s2):
                tz_bad.append(dict(us=u, utc_process=[impl_f(1000 * u), impl_g(impl_f(1000 * u))], bst_process=[s2, g2]))
    except Exception as e:  # noqa
        tz_bad.append(dict(error="subprocess failed: " + (r.stderr or "")[-300:]))
    for b in tz_bad[:2]:
        out.violation({"kind": "conversion depends on the process time zone (TZ=GMT0BST...)", **b})

    # monotonicity over everything the implementation produced (pure observation, no model)
    allpairs = sorted([(1000 * u, s) for u, s in a_cases] + u_cases)
    mono_bad = [(allpairs[i], allpairs[i + 1]) for i in range(len(allpairs) - 1)
                if allpairs[i][1] > allpairs[i + 1][1]]

    # ---- model + spec evaluated in the kernel, sharded
    shard = 400
    files = []
    for k in range(0, len(a_cases), shard):
        a = a_cases[k:k + shard]
        g = g_cases[k:k + shard]
        files.append((f"A{k}", _cases_v(a, g, [])))
    for k in range(0, len(u_cases), shard):
        files.append((f"U{k}", _cases_v([], [], u_cases[k:k + shard])))
    res = common.coq_eval_many(files) if ok else []
    agg = {1: [], 2: [], 3: [], 4: [], 5: []}
    coq_fail = []
    for (name, _), (okc, o) in zip(files, res):
        base = int(name[1:])
        for tag in agg:
            l = common.parse_nat_list(o, str(tag))
            if not okc or l is None:
                coq_fail.append((name, o[-600:]))
                break
            agg[tag] += [(name[0], base + i) for i in l]
    # tags: 1 = nano_to_pv model<>impl (aligned)   2 = impl<>render us (spec, aligned)
    #       3 = impl pv_to_nano <> exact           4 = impl pv_to_nano <> v0 model     5 = model<>impl (unaligned)
    corr_bad = [a_cases[i] for (_, i) in agg[1]] + [u_cases[i] for (_, i) in agg[5]]
    spec_bad = [a_cases[i] for (_, i) in agg[2]]
    not_exact = {i for (_, i) in agg[3]}
    not_v0 = {i for (_, i) in agg[4]}
    new_bad = sorted(not_exact & not_v0)
    known = sorted(not_exact - not_v0)

    for (u, s) in spec_bad[:3]:
        out.violation({"kind": "nano->pv wrong", "unix_nano": 1000 * u, "expected_instant_us": u,
                       "implementation_output": s,
                       "how": "unix_nano_to_pv_string(unix_nano) differs from the rendering of that instant"})
    for (p, q) in mono_bad[:3]:
        out.violation({"kind": "nano->pv not monotone", "pair": [p, q]})
    for i in new_bad[:3]:
        u, s, r = g_cases[i]
        out.violation({"kind": "pv->nano wrong", "pv_string": s, "expected_unix_nano": 1000 * u,
                       "implementation_output": r})
    if known:
        if out.match_finding(KEY_V0):
            u, s, r = g_cases[known[0]]
            out.known_finding(f"{KEY_V0} e.g. convert_timestamp_to_unix_nano({s!r}) = {r}, the instant is {1000*u}"
                              f" ({len(known)} of {len(g_cases)} strings of this run)")
        else:
            u, s, r = g_cases[known[0]]
            out.violation({"kind": "pv->nano wrong", "pv_string": s, "expected_unix_nano": 1000 * u,
                           "implementation_output": r})
    if ok and (corr_bad or coq_fail) and not out.violations:
        out.violation({"kind": "correspondence-broken",
                       "relation": "unix_nano_to_pv_string == V.Time.PvTime.nano_to_pv (Flocq binary64 model)",
                       "first_disagreements": corr_bad[:5], "coq_failures": coq_fail[:2]}, no_failing_input=True)
    # pv->nano: the implementation must correspond to one of the two modelled formulas on all inputs
    if ok and not new_bad and known and (not_v0 - not_exact):
        mixed = sorted(not_v0 - not_exact)
        # inputs where impl==exact but v0 model differs: impl follows neither model consistently
        if any(True for _ in mixed):
            out.violation({"kind": "correspondence-broken",
                           "relation": "convert_timestamp_to_unix_nano == pv_to_nano_v0 or == pv_to_nano_exact on all inputs",
                           "examples": [g_cases[i] for i in mixed[:5]]}, no_failing_input=True)

    distinct = len({u for u, _ in a_cases if u % 10**6 != 0}) + len({n for n, _ in u_cases})
    out.coverage.update({
        "evaluations": len(a_cases) + len(u_cases) + len(g_cases),
        "distinct_nontrivial": distinct,
        "rule": "instants = exhaustive boundary list (calendar edges x second edges x fraction edges, float binade edges) "
                "+ seeded uniform microsecond instants in [1970,2100) + unaligned nanosecond values incl. neighbour clusters; "
                "non-trivial = non-zero microsecond fraction (aligned) or any unaligned value; distinct by value",
        "samples": [{"unix_nano": 1000 * a_cases[i][0], "impl_pv": a_cases[i][1], "impl_back": g_cases[i][2] if i < len(g_cases) else None}
                    for i in (0, n_boundary // 2, n_boundary + 1)],
        "traces_validated_against_impl": len(a_cases) + len(u_cases) + len(g_cases),
        "boundary_instants": n_boundary, "random_instants": n_rand, "unaligned": len(u_cases), "non_utc_process_instants": len(tz_inst),
        "pv_to_nano_classification": {"equals_exact": len(g_cases) - len(not_exact), "equals_v0_only": len(known),
                                      "equals_neither": len(new_bad)},
        "model_impl_disagreements": len(corr_bad),
        "trusted_base": common.std_trusted_base([
            "Flocq 4 BinarySingleNaN (binary_float 53 1024) as the meaning of CPython float arithmetic; "
            "Print Assumptions of each theorem is under print_assumptions",
            "CPython datetime.fromisoformat/strftime/fromtimestamp modelled (Calendar.v, Render.v, PvTime.v), tied by this correspondence",
        ]),
    })
    out.assumptions += ["instants restricted to 1970-01-01 <= t < 2100-01-01 (the property's range)",
                        "string inputs of pv->nano are of the shape the PV format prescribes (%Y-%m-%dT%H:%M:%S.%fZ)"]


def _cases_v(a, g, u) -> str:
    A = coq_list([f"({coq_z(x)}, {coq_string(s)})" for x, s in a])
    G = coq_list([f"({coq_z(x)}, {coq_string(s)}, {coq_z(r)})" for x, s, r in g])
    U = coq_list([f"({coq_z(x)}, {coq_string(s)})" for x, s in u])
    return f"""From Coq Require Import ZArith String List Bool. Import ListNotations.
From V Require Import Time.Calendar Time.Render Time.F64 Time.PvTime.
Open Scope Z_scope.
Definition idx {{A}} (f : A -> bool) (l : list A) : list nat :=
  map fst (filter (fun p => negb (f (snd p))) (combine (seq 0 (length l)) l)).
Definition A : list (Z * string) := {A}.
Definition G : list (Z * string * Z) := {G}.
Definition U : list (Z * string) := {U}.
Definition oeq (o : option Z) (r : Z) := match o with Some v => v =? r | None => r =? -1 end.
Eval vm_compute in (1%nat, idx (fun p => String.eqb (nano_to_pv (1000 * fst p)) (snd p)) A).
Eval vm_compute in (2%nat, idx (fun p => String.eqb (render (fst p)) (snd p)) A).
Eval vm_compute in (3%nat, idx (fun p => let '(x, s, r) := p in (1000 * x =? r) && oeq (pv_to_nano_exact s) (1000 * x)) G).
Eval vm_compute in (4%nat, idx (fun p => let '(x, s, r) := p in oeq (pv_to_nano_v0 s) r) G).
Eval vm_compute in (5%nat, idx (fun p => String.eqb (nano_to_pv (fst p)) (snd p)) U).
"""


def replay(out: common.Outcome, rp: dict) -> None:
    common.setup_impl_path()
    import tel2puml.events  # noqa
    from tel2puml.utils import unix_nano_to_pv_string
    from tel2puml.pv_to_tel import convert_timestamp_to_unix_nano
    if "unix_nano" in rp:
        got = unix_nano_to_pv_string(rp["unix_nano"])
        print("unix_nano_to_pv_string(%d) = %s" % (rp["unix_nano"], got))
    if "end_times_in_stream_order" in rp:
        print("sequencer leg:", rp["end_times_in_stream_order"], rp["pv_timestamps"], "expected", rp["converter"])
        out.coverage.update({"evaluations": 1, "distinct_nontrivial": 0, "rule": "replay", "samples": [rp]})
        return
    if "span_start_end" in rp:
        from tel2puml.pv_to_tel import pv_event_to_otel
        try:
            sp = pv_event_to_otel(dict(jobId="j", eventId="e", timestamp=rp["pv_string"], applicationName="a", jobName="n", eventType="t"))
            got = [int(sp["start_time_unix_nano"]), int(sp["end_time_unix_nano"])]
        except Exception as e:  # noqa
            got = "ERR:" + type(e).__name__
        want = int(convert_timestamp_to_unix_nano(rp["pv_string"]))
        print("pv_event_to_otel(timestamp=%r) start/end = %s, converter gives %d" % (rp["pv_string"], got, want))
        if got != [want, want]:
            out.violation(rp)
    elif "pv_string" in rp:
        got = convert_timestamp_to_unix_nano(rp["pv_string"])
        print("convert_timestamp_to_unix_nano(%r) = %d, expected %d" % (rp["pv_string"], got, rp["expected_unix_nano"]))
        if got != rp["expected_unix_nano"]:
            out.violation(rp)
    out.coverage.update({"evaluations": 1, "distinct_nontrivial": 0, "rule": "replay", "samples": [rp]})
