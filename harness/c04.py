"""C04 - updating a saved model equals learning from all data at once.

Proved (Properties/C04.v about V.Pv.EventModel): the model file round-trips (load_save), ingestion
in any number of chunks with a save/load at every boundary equals one-shot ingestion
(chunks_ingest_saved), and the cached gate tree is fresh in every reachable state of the repaired
staleness semantics (tree_fresh).  Correspondence: real ingestion / events_to_raw_input /
raw_input_to_events / logic_gate_tree getter vs the model in coqc.  Per instance through the real
CLI (pv2puml -om, then -im ... -om per chunk): final diagram language-equivalent to the one-shot
diagram, final model file equal to the one-shot model file."""
from __future__ import annotations

import json
import random
from concurrent.futures import ThreadPoolExecutor
from pathlib import Path
from . import common, learnlib as L, pumllib as P, clilib as C
from .common import coq_list

LEVEL = "proof"
START = "|||START|||"


# ----------------------------------------------------------------------------- model correspondence (in-process)

def canon_events(events):
    def cs(sets):
        return sorted(sorted((k, v) for k, v in s.items()) for s in sets)
    return {t: (cs(e.event_sets), cs(e.in_event_sets)) for t, e in events.items()}


def coq_msets(sets, it):
    return coq_list([coq_list([f"({it(k)}%positive, {v}%nat)" for k, v in s]) for s in sets])


def coq_emodel(cm, it):
    rows = sorted(((it(t), o, i) for t, (o, i) in cm.items()), key=lambda r: r[0])

    def order(sets):   # canonical order of the Coq model: by mset_cmp over interned ids
        conv = [sorted((it(k), v) for k, v in s) for s in sets]
        return sorted(conv, key=lambda s: ([x for p in s for x in p], len(s)))
    return rows, order


def model_cases(out, n):
    """job sets -> (implementation canonical model, raw json round trip ok, staleness histories)"""
    import tel2puml.events as ev
    from tel2puml.pv_to_puml.data_ingestion import update_and_create_events_from_clustered_pvevents
    rnd = random.Random(out.seed * 811 + 4)
    pool = L.load_pool()
    recs = L.select(pool, out.seed + 17, "quick", n)
    rows, bad = [], []
    for rec in recs:
        jobs = L.complete_jobs(rec)
        if rnd.random() < 0.5 and len(jobs) > 2:
            jobs = rnd.sample(jobs, max(1, len(jobs) // 2))
        it = P.Interner()
        it(START)
        pv = [P.pv_events(j, i, "wf") for i, j in enumerate(jobs)]
        events = update_and_create_events_from_clustered_pvevents(pv, add_dummy_start=True)
        cm = canon_events(events)
        raw = ev.events_to_raw_input(events)
        back = canon_events(ev.raw_input_to_events(json.loads(json.dumps(raw))))
        if back != cm:
            bad.append(dict(kind="model file does not round-trip", definition=P.show(rec["d"]), saved=raw))
        # Coq: ingest jobs =? implementation's model, compared as (type, outs, ins) with sets as sorted lists
        for j in jobs:
            for t, _ in j:
                it(t)
        impl = coq_list([
            f"({it(t)}%positive, {coq_msets([sorted((it(k), v) for k, v in s) for s in o], lambda x: x)}, "
            f"{coq_msets([sorted((it(k), v) for k, v in s) for s in i], lambda x: x)})"
            for t, (o, i) in sorted(cm.items(), key=lambda kv: it(kv[0]))])
        rows.append(f"({coq_list([P.coq_job(j, it) for j in jobs])}, {impl})")
    return rows, bad, len(recs)


def stale_histories(out, n):
    """random operation histories on a real Event vs run_ops"""
    import tel2puml.events as ev
    rnd = random.Random(out.seed * 1201 + 44)
    rows, bad = [], []
    for _ in range(n):
        e = ev.Event("X")
        ops, coq_ops = [], []
        for _ in range(rnd.choice([1, 2, 3, 5, 8])):
            k = rnd.choice(["out", "out", "in", "get", "saveload"])
            if k in ("out", "in"):
                l = [f"E{rnd.randint(2, 4)}" for _ in range(rnd.choice([0, 1, 2, 2, 3, 4]))]     # repeats give counts > 1
                (e.update_event_sets if k == "out" else e.update_in_event_sets)(list(l))
                coq_ops.append(f"{'OUpdOut' if k == 'out' else 'OUpdIn'} {coq_list([x[1:] + '%positive' for x in l])}")
            elif k == "get":
                _ = e.logic_gate_tree
                coq_ops.append("OGet")
            else:
                raw = ev.events_to_raw_input({"X": e})
                before = canon_events({"X": e})
                e = ev.raw_input_to_events(json.loads(json.dumps(raw)))["X"]
                if canon_events({"X": e}) != before:
                    bad.append(dict(kind="model file does not round-trip (a successor/predecessor set or count was lost)",
                                    ops=ops + [k], before=before, after=canon_events({"X": e}), saved=raw))
                coq_ops.append("OSaveLoad")
            ops.append(k)
        stale_flag = bool(e._update_since_logic_gate_tree)
        tree = e.logic_gate_tree
        has_sets = len(e.event_sets) > 0
        if has_sets and tree is None:
            bad.append(dict(kind="gate tree missing for an event with successor evidence (stale cache after reload)", ops=ops))
        def cs(sets):
            return coq_list([coq_list([f"({k[1:]}%positive, {v}%nat)" for k, v in sorted(s.items(), key=lambda kv: int(kv[0][1:]))]) for s in sets])
        rows.append(f"({coq_list(coq_ops)}, {str(stale_flag).lower()}, {str(tree is None).lower()}, {cs(e.event_sets)}, {cs(e.in_event_sets)})")
    return rows, bad


# ----------------------------------------------------------------------------- CLI chains

JOB_NAMES = ["wf", "wf", "Order Processing", "a b  c", "wf_1"]     # the CLI derives file names from the job name (spaces -> _)


def entry_variant(rec, rnd):
    """half of the definitions that begin `event; fork` are used without the leading event, so that the jobs enter through
    different events (a later chunk can then bring a job entry event never seen before)"""
    d = rec["d"]
    if len(d) >= 2 and d[0][0] == "ev" and d[1][0] == "fork" and rnd.random() < 0.6:
        return dict(id=rec["id"] + "-ms", events=rec["events"] - 1, jobs=rec["jobs"], d=d[1:], multi_start=True)
    return rec


def pad_types(jobs):
    def pad(t):
        n = sum(ord(c) for c in t)
        return t + " " if n % 3 == 0 else (" " + t if n % 3 == 1 else t)
    return [[(pad(t), preds) for t, preds in j] for j in jobs]


def write_jobs(d: Path, jobs, offset=0, jn="wf"):
    d.mkdir(parents=True, exist_ok=True)
    for i, j in enumerate(jobs):
        (d / f"job_{offset + i:04d}.json").write_text(json.dumps(P.pv_events(j, offset + i, jn)))


def cli_chain(case):
    """returns dict(one=text, chain=text, model_one=..., model_chain=..., errors=[...])"""
    res = dict(errors=[])
    with common.Scratch("c04") as d:
        jobs, cuts, jn = case["jobs"], case["cuts"], case.get("jn", "wf")
        fn = jn.replace(" ", "_")
        write_jobs(d / "all", jobs, jn=jn)
        rc, tail = C.run_cli(["-o", str(d / "one"), "pv2puml", "-fp", str(d / "all"), "-jn", jn, "-om"], d)
        if rc:
            res["errors"].append("one-shot: " + tail[-300:])
        prev, model = 0, None
        for k, c in enumerate(cuts + [len(jobs)]):
            write_jobs(d / f"chunk{k}", jobs[prev:c], prev, jn=jn)
            args = ["-o", str(d / f"out{k}"), "pv2puml", "-fp", str(d / f"chunk{k}"), "-jn", jn, "-om"]
            if model:
                args += ["-im", str(model)]
            rc, tail = C.run_cli(args, d)
            if rc:
                res["errors"].append(f"chunk {k}: " + tail[-300:])
                break
            model = d / f"out{k}" / f"{fn}_model.json"
            prev = c
        last = d / f"out{len(cuts)}"
        for name, p in (("one", d / "one"), ("chain", last)):
            f = p / f"{fn}.puml"
            res[name] = f.read_text() if f.exists() else None
            m = p / f"{fn}_model.json"
            res["model_" + name] = json.loads(m.read_text()) if m.exists() else None
    return res


def canon_model_file(m):
    if m is None:
        return None

    def cs(sets):
        return sorted(sorted((x["eventType"], x["count"]) for x in s) for s in sets)
    return (m["job_name"], sorted((e["eventType"], cs(e["outgoingEventSets"]), cs(e["incomingEventSets"])) for e in m["events"]))


def run(out: common.Outcome, explore: int = 0) -> None:
    common.setup_impl_path()
    okp = common.proof_obligations(out, "C04")
    import logging
    logging.disable(logging.CRITICAL)
    import tel2puml.events  # noqa: F401
    quick = out.tier == "quick"
    rows_m, bad_m, n_models = model_cases(out, 60 if quick else 600)
    rows_s, bad_s = stale_histories(out, 300 if quick else 5000)
    files = []
    for s in range(0, len(rows_m), 15):
        body = ";\n ".join(rows_m[s:s + 15])
        files.append((f"M{s}", f"""From Coq Require Import List PArith Bool Arith. Import ListNotations.
From V Require Import Puml.Ast Puml.Exec Pv.EventModel.
Open Scope positive_scope.
Definition cases : list (list jobgraph * list (evt * list mset * list mset)) := [
 {body}].
Definition mset_eqb (a b : mset) := match mset_cmp a b with Eq => true | _ => false end.
Fixpoint leqb {{A B}} (f : A -> B -> bool) (a : list A) (b : list B) := match a, b with [] , [] => true | x :: a', y :: b' => f x y && leqb f a' b' | _, _ => false end.
(* the implementation's sets are python sets: compare as sets *)
Definition sub (a b : list mset) := forallb (fun x => existsb (mset_eqb x) b) a.
Definition seteq a b := sub a b && sub b a.
Definition agree (m : emodel) (i : list (evt * list mset * list mset)) :=
  leqb (fun x y => Pos.eqb (fst x) (fst (fst y)) && seteq (outs (snd x)) (snd (fst y)) && seteq (ins (snd x)) (snd y)) m i.
Definition idx {{A}} (f : A -> bool) (l : list A) : list nat := map fst (filter (fun p => negb (f (snd p))) (combine (seq 0 (length l)) l)).
Eval vm_compute in (1%nat, idx (fun c => agree (ingest (fst c)) (snd c)) cases).
Eval vm_compute in (2%nat, idx (fun c => match load (save (ingest (fst c))) with Some m => agree m (snd c) | None => false end) cases).
"""))
    body = ";\n ".join(rows_s)
    files.append(("S0", f"""From Coq Require Import List PArith Bool Arith. Import ListNotations.
From V Require Import Puml.Ast Pv.EventModel.
Open Scope positive_scope.
Definition T := list mset.
Definition cases : list (list op * bool * bool * list mset * list mset) := [
 {body}].
Definition mset_eqb (a b : mset) := match mset_cmp a b with Eq => true | _ => false end.
Definition sub (a b : list mset) := forallb (fun x => existsb (mset_eqb x) b) a.
Definition seteq a b := sub a b && sub b a.
Definition idx {{A}} (f : A -> bool) (l : list A) : list nat := map fst (filter (fun p => negb (f (snd p))) (combine (seq 0 (length l)) l)).
Definition obs (v0 : bool) (ops : list op) : bool * bool :=
  let s := run_ops T (fun x => x) v0 ops in (e_stale T s, match fst (get_tree T (fun x => x) s) with None => true | Some _ => false end).
Definition same (a b : bool * bool) := Bool.eqb (fst a) (fst b) && Bool.eqb (snd a) (snd b).
Definition sets_ok (v0 : bool) (ops : list op) (o i : list mset) :=
  let s := run_ops T (fun x => x) v0 ops in seteq (e_outs T s) o && seteq (e_ins T s) i.
Eval vm_compute in (3%nat, idx (fun c => let '(ops, st, tn, o, i) := c in same (obs false ops) (st, tn) && sets_ok false ops o i) cases).
Eval vm_compute in (4%nat, idx (fun c => let '(ops, st, tn, o, i) := c in same (obs true ops) (st, tn) && sets_ok true ops o i) cases).
"""))
    import time as _t, sys as _s
    _t0 = _t.time()
    cres = common.coq_eval_many(files) if okp else []
    print("phase coq model/stale", round(_t.time() - _t0, 1), file=_s.stderr)
    dis, dis_v0, coq_fail = [], [], []
    for (name, _), (okc, o) in zip(files, cres):
        if name.startswith("M"):
            l1, l2 = common.parse_nat_list(o, "1"), common.parse_nat_list(o, "2")
            if not okc or l1 is None or l2 is None:
                coq_fail.append((name, o[-600:]))
            else:
                dis += [(name, i) for i in l1 + l2]
        else:
            l3, l4 = common.parse_nat_list(o, "3"), common.parse_nat_list(o, "4")
            if not okc or l3 is None:
                coq_fail.append((name, o[-600:]))
            else:
                dis += [("stale", i) for i in l3]
                dis_v0 = l4 or []
    # CLI chains
    rnd = random.Random(out.seed * 421 + 40)
    pool = L.load_pool()
    recs = L.select(pool, out.seed + 3, "quick", explore or (24 if quick else 300))
    cases = []
    for rec in recs:
        rec = entry_variant(rec, rnd)
        jobs = L.complete_jobs(rec)
        if len(jobs) < 2:
            continue
        rnd.shuffle(jobs)
        nch = rnd.choice([2, 2, 3]) if len(jobs) >= 3 else 2
        cuts = sorted(rnd.sample(range(1, len(jobs)), nch - 1))
        if len(cases) % 4 == 3:      # event types with a leading / trailing blank (values must survive the model file byte for byte)
            jobs = pad_types(jobs)
        cases.append(dict(rec=rec, jobs=jobs, cuts=cuts, jn=JOB_NAMES[len(cases) % len(JOB_NAMES)]))
    _t0 = _t.time()
    with ThreadPoolExecutor(max_workers=common.NPROC) as ex:
        chains = list(ex.map(cli_chain, cases))
    print("phase cli chains", round(_t.time() - _t0, 1), file=_s.stderr)
    items, other, pre = [], {}, {}
    for k, (c, r) in enumerate(zip(cases, chains)):
        it = dict(rec=c["rec"], jobs=c["jobs"], variant=0, name=c["jn"])
        if r["errors"]:
            pre[k] = "cli-error:" + r["errors"][0][:80]
        elif r["one"] is None or r["chain"] is None:
            pre[k] = "missing-output"
        else:
            it["text"] = r["chain"]
            p = L.pre_check(it)
            if p:
                pre[k] = "chain:" + p
            else:
                try:
                    if r["one"] != r["chain"]:      # identical text is trivially equivalent
                        other[k] = P.tokenize(r["one"])
                except ValueError:
                    pre[k] = "one-shot-unlexable"
            if canon_model_file(r["model_one"]) != canon_model_file(r["model_chain"]):
                pre.setdefault(k, "final-model-file-differs-from-one-shot")
            if any(r[m] is not None and r[m].get("job_name") != c["jn"] for m in ("model_one", "model_chain")):
                pre.setdefault(k, "model-file-does-not-record-the-job-name")
        items.append(it)
    _t0 = _t.time()
    certs, fails = L.coq_certify(items, want=("c05",), other=other) if okp else ({}, [])
    print("phase certify", round(_t.time() - _t0, 1), file=_s.stderr)
    n_viol, kinds, failing = 0, {}, []
    for b in (bad_m + bad_s)[:2]:
        out.violation(b)
        n_viol += 1
    for k, c in enumerate(cases):
        kind = pre.get(k)
        if kind is None and k in certs:
            e1, e1u, e2, e2u = certs[k]["eq"]
            if k not in other:
                pass        # identical text from both routes: trivially equivalent (whether it is well-formed is C05's business)
            elif not certs[k]["other_ok"] and certs[k]["c05"]:
                kind = "one-shot-malformed-chain-wellformed"
            elif certs[k]["other_ok"] and not certs[k]["c05"]:
                kind = "chain-malformed-one-shot-wellformed"
            elif certs[k]["c05"] and (e1 or e2):
                kind = f"chunked-diagram-differs-from-one-shot:{e1[:3]}|{e2[:3]}"
        if kind is None:
            continue
        kinds[kind.split(":")[0]] = kinds.get(kind.split(":")[0], 0) + 1
        key = L.finding_key("C04", c["rec"]["id"], 0, kind.split(":")[0])
        failing.append(dict(key=key, kind=kind))
        f = out.match_finding(key)
        if f:
            out.known_finding(key)
        elif n_viol < 4:
            n_viol += 1
            out.violation(dict(kind=kind, key=key, definition=P.show(c["rec"]["d"]), definition_id=c["rec"]["id"], cuts=c["cuts"], job_name=c["jn"],
                               n_jobs=len(c["jobs"]), jobs=c["jobs"] if len(c["jobs"]) <= 12 else None,
                               one_shot=chains[k]["one"], chained=chains[k]["chain"], errors=chains[k]["errors"]))
    # leg D: the glue (several job names, -im / -om, chained invocations) vs V.Pv.Driver.chain
    from . import c04_driver
    dl = c04_driver.leg(out, 40 if quick else 400) if okp else None
    if dl:
        for b in dl["bad"][:2]:
            out.violation(b)
        if (dl["disagreements"] or dl["coq_failures"]) and not out.violations:
            out.violation({"kind": "correspondence-broken",
                           "relation": "model files written by pv_streams_to_puml_files over a chain of invocations == V.Pv.Driver.chain",
                           "disagreements": dl["disagreements"][:3], "coq_failures": dl["coq_failures"][:2]}, no_failing_input=True)
    if okp and (dis or coq_fail or fails) and not out.violations:
        out.violation({"kind": "correspondence-broken",
                       "relation": "update_and_create_events_from_clustered_pvevents / events_to_raw_input / raw_input_to_events / "
                                   "Event.logic_gate_tree == V.Pv.EventModel ingest / save / load / run_ops",
                       "disagreements": dis[:5], "coq_failures": (coq_fail + fails)[:2],
                       "agrees_with_pinned_tree_staleness_model": len(dis_v0) == 0}, no_failing_input=True)
    out.coverage.update({
        "evaluations": n_models + len(rows_s) + len(cases), "distinct_nontrivial": len({c["rec"]["id"] for c in cases}) + len(set(rows_s)),
        "rule": "model correspondence: job sets of pool definitions (complete or half) through real ingestion + raw model round trip; "
                "300 random operation histories (update out/in, get tree, save+load) on a real Event; driver leg: chains of 1-3 in-process invocations of pv_streams_to_puml_files with 1-3 job names "
                "(some with spaces, some colliding after space replacement, some repeated inside one invocation), every model file fed back; "
                "CLI chains: pool definitions, jobs "
                "shuffled, split into 2-3 chunks at seeded points, each boundary crossing pv2puml -om / -im; non-trivial = distinct "
                "definition or distinct history",
        "samples": [dict(definition=P.show(cases[0]["rec"]["d"]), cuts=cases[0]["cuts"], n_jobs=len(cases[0]["jobs"]))] if cases else [],
        "traces_validated_against_impl": n_models + len(rows_s) + (dl["compared"] if dl else 0),
        "driver_leg": None if not dl else {k: dl[k] for k in ("chains", "compared", "skipped_learner_errors", "first_error", "collisions", "repeats")},
        "cli_chains": len(cases), "model_cases": n_models, "staleness_histories": len(rows_s),
        "model_impl_disagreements": len(dis), "pinned_staleness_model_disagreements": len(dis_v0),
        "failure_kinds": kinds, "failing_keys": failing,
        "trusted_base": common.std_trusted_base([
            "the last step 'equal evidence => equivalent diagram' is validated per instance (bounded language equivalence in coqc), not proved",
            "calculate_logic_gates enters tree_fresh only as an arbitrary function clg",
        ]),
    })
    out.assumptions += ["splits are sampled (2-3 chunks); the theorem chunks_ingest_saved covers every split of the evidence"]


def replay(out, rp):
    out.coverage.update({"evaluations": 1, "distinct_nontrivial": 0, "rule": "replay", "samples": [rp]})
    print(rp.get("definition")); print(rp.get("one_shot")); print(rp.get("chained"))
