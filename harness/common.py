"""Shared plumbing for the /verif checks: paths, environment, Coq build, in-kernel case
evaluation, evidence, known findings, replay files and the VIOLATION protocol."""
from __future__ import annotations

import hashlib
import json
import os
import re
import shutil
import subprocess
import sys
import tempfile
import time
from pathlib import Path

VERIF = Path(__file__).resolve().parent.parent
REPO = Path(os.environ.get("VERIF_REPO", "/repo"))
COQ = VERIF / "coq"
THEORIES = COQ / "theories"
EVIDENCE = VERIF / "evidence"
REPLAYS = VERIF / "replays"
SHIM = VERIF / "shim"
PY = "/venv/bin/python"
NPROC = int(os.environ.get("VERIF_JOBS", "16"))
GUARD = "OTEL2PUML_VERIF"


def impl_env(hashseed: int | str = 0) -> dict:
    env = dict(os.environ)
    env["PYTHONPATH"] = f"{REPO}:{SHIM}:{VERIF}"
    env["PYTHONHASHSEED"] = str(hashseed)
    env[GUARD] = "1"
    env["PYTHONDONTWRITEBYTECODE"] = "1"
    env.setdefault("TQDM_DISABLE", "1")
    return env


def setup_impl_path() -> None:
    """Make `import tel2puml` resolve to /repo's working tree (with the janus shim)."""
    for p in (str(VERIF), str(SHIM), str(REPO)):
        if p in sys.path:
            sys.path.remove(p)
        sys.path.insert(0, p)
    os.environ[GUARD] = "1"
    os.environ.setdefault("TQDM_DISABLE", "1")
    sys.dont_write_bytecode = True


class Scratch:
    """mktemp -d directory outside /repo and /verif, removed on exit."""

    def __init__(self, tag: str):
        base = os.environ.get("VERIF_SCRATCH_BASE") or tempfile.gettempdir()
        self.path = Path(tempfile.mkdtemp(prefix=f"verif_{tag}_", dir=base))

    def __enter__(self) -> Path:
        return self.path

    def __exit__(self, *a) -> None:
        shutil.rmtree(self.path, ignore_errors=True)


# --------------------------------------------------------------------------- Coq

def coq_build(targets: list[str] | None = None, timeout: int = 3000) -> tuple[bool, str]:
    """(Re)build the development (full .vo build). Returns (ok, log)."""
    mk = COQ / "Makefile"
    proj = COQ / "_CoqProject"
    if not mk.exists() or mk.stat().st_mtime < proj.stat().st_mtime:
        r = subprocess.run(["coq_makefile", "-f", "_CoqProject", "-o", "Makefile"], cwd=COQ,
                           capture_output=True, text=True)
        if r.returncode != 0:
            return False, r.stdout + r.stderr
    cmd = ["timeout", str(timeout), "make", f"-j{NPROC}"] + (targets or [])
    r = subprocess.run(cmd, cwd=COQ, capture_output=True, text=True)
    return r.returncode == 0, r.stdout + r.stderr


def theorem_report(prop_file: str) -> dict:
    """Compile-time facts about coq/theories/Properties/<prop_file>.v: the theorems it states and
    the `Print Assumptions` output for each (re-run with coqc so the output is fresh)."""
    src = THEORIES / "Properties" / f"{prop_file}.v"
    text = src.read_text()
    names = re.findall(r"^\s*(?:Theorem|Corollary)\s+([A-Za-z0-9_']+)", text, re.M)
    with Scratch("pa") as d:
        v = d / "PA.v"
        body = f"Require Import V.Properties.{prop_file}.\n" + "".join(
            f'Print Assumptions {n}.\n' for n in names)
        v.write_text(body)
        r = subprocess.run(["timeout", "600", "coqc", "-Q", str(THEORIES), "V", str(v)],
                           capture_output=True, text=True, cwd=d)
        out = r.stdout + r.stderr
    ok = r.returncode == 0
    chunks = re.split(r"(?=Closed under the global context|Axioms:)", out)
    chunks = [c.strip() for c in chunks if c.strip()]
    assumptions = {}
    for n, c in zip(names, chunks):
        assumptions[n] = "closed" if c.startswith("Closed") else re.sub(r"\s+", " ", c)
    return {"file": str(src), "theorems": names, "ok": ok and len(chunks) == len(names),
            "assumptions": assumptions, "raw": out if not ok else ""}


HYGIENE_RE = re.compile(
    r"\b(Admitted|admit|Axiom|Axioms|Parameter|Parameters|Conjecture|Admit Obligations|"
    r"Unset Guard Checking|bypass_check|Unset Positivity|Unset Universe)\b|type-in-type|impredicative-set")


def hygiene() -> list[str]:
    bad = []
    for f in sorted(THEORIES.rglob("*.v")):
        txt = re.sub(r"\(\*.*?\*\)", "", f.read_text(), flags=re.S)
        for i, line in enumerate(txt.splitlines(), 1):
            if HYGIENE_RE.search(line):
                bad.append(f"{f.relative_to(VERIF)}:{i}: {line.strip()}")
    return bad


def coq_eval(name: str, vtext: str, timeout: int = 900, keep: Path | None = None) -> tuple[bool, str]:
    """Compile one generated .v against the built theories; returns (ok, normalised output)."""
    with Scratch("cases") as d:
        v = d / f"{name}.v"
        v.write_text(vtext)
        if keep is not None:
            keep.parent.mkdir(parents=True, exist_ok=True)
            shutil.copy(v, keep)
        r = subprocess.run(["timeout", str(timeout), "coqc", "-Q", str(THEORIES), "V", str(v)],
                           capture_output=True, text=True, cwd=d)
    return r.returncode == 0, r.stdout + r.stderr


def coq_eval_many(files: list[tuple[str, str]], timeout: int = 900) -> list[tuple[bool, str]]:
    """Compile several generated files in parallel (xargs -P style)."""
    from concurrent.futures import ThreadPoolExecutor
    with ThreadPoolExecutor(max_workers=NPROC) as ex:
        res = list(ex.map(lambda nv: coq_eval(nv[0], nv[1], timeout), files))
    # a shard killed by the time limit under load is retried once, alone, with a longer limit
    for k, (okc, o) in enumerate(res):
        if not okc and not o.strip():
            res[k] = coq_eval(files[k][0], files[k][1], timeout * 2)
    return res


def parse_nat_list(out: str, marker: str) -> list[int] | None:
    """Parse the output of `Eval vm_compute in (marker_tag, l)` - we emit results as
         = (N, [i; j; ...])  where N is a numeric marker; tolerant to Coq's line wrapping."""
    flat = re.sub(r"\s+", " ", out)
    m = re.search(r"= \(" + re.escape(marker) + r"%?\w*, \[([0-9;% a-zA-Z]*)\]\)", flat)
    if not m:
        return None
    body = m.group(1).strip()
    if not body:
        return []
    return [int(re.sub(r"%\w+", "", x).strip()) for x in body.split(";")]


def coq_string(s: str) -> str:
    return '"' + s.replace('"', '""') + '"%string'


def coq_z(n: int) -> str:
    return f"({n})%Z" if n < 0 else f"{n}%Z"


def coq_list(xs: list[str]) -> str:
    return "[" + "; ".join(xs) + "]"


# --------------------------------------------------------------------------- findings / replay

def load_findings(pid: str) -> list[dict]:
    f = VERIF / "known_findings.json"
    if not f.exists():
        return []
    return [e for e in json.loads(f.read_text()).get("findings", []) if e.get("property") == pid]


def write_replay(pid: str, payload: dict) -> Path:
    d = REPLAYS / pid
    d.mkdir(parents=True, exist_ok=True)
    blob = json.dumps(payload, indent=1, sort_keys=True, default=str)
    h = hashlib.sha256(blob.encode()).hexdigest()[:12]
    p = d / f"{h}.json"
    p.write_text(blob)
    return p


class Outcome:
    """Collects what one check run found and renders the protocol lines + evidence."""

    def __init__(self, pid: str, level: str):
        self.pid = pid
        self.level = level
        self.tier = os.environ.get("VERIF_TIER", "quick")
        self.seed = int(os.environ.get("VERIF_SEED", "0") or 0)
        self.t0 = time.time()
        self.coverage: dict = {}
        self.assumptions: list[str] = []
        self.violations: list[tuple[Path, bool]] = []   # (replay, no_failing_input)
        self.known: list[str] = []
        self.open_findings = [e for e in load_findings(pid) if e.get("status") == "open"]

    def violation(self, payload: dict, no_failing_input: bool = False) -> None:
        payload = dict(payload)
        payload.setdefault("property", self.pid)
        payload.setdefault("seed", self.seed)
        payload.setdefault("tier", self.tier)
        payload["no_failing_input_found"] = no_failing_input
        p = write_replay(self.pid, payload)
        self.violations.append((p, no_failing_input))

    def known_finding(self, what: str) -> None:
        if what not in self.known:
            self.known.append(what)

    def match_finding(self, key: str) -> dict | None:
        for e in self.open_findings:
            if e.get("key") == key:
                return e
        return None

    def finish(self) -> int:
        EVIDENCE.mkdir(exist_ok=True)
        ev = {
            "property_id": self.pid, "tier": self.tier, "seed": self.seed, "level": self.level,
            "coverage": self.coverage, "assumptions": self.assumptions,
            "wall_s": round(time.time() - self.t0, 2), "violations": len(self.violations),
            "known_findings_reproduced": self.known,
        }
        # a --replay run records what it did next to, not over, the evidence of the last full run
        name = f"{self.pid}.replay.json" if getattr(self, "replay_mode", False) else f"{self.pid}.json"
        (EVIDENCE / name).write_text(json.dumps(ev, indent=1, default=str))
        for k in self.known:
            print(f"KNOWN-FINDING: property={self.pid} {k}")
        for p, nf in self.violations:
            print(f"VIOLATION property={self.pid} replay={p}" + (" no-failing-input-found" if nf else ""))
        sys.stdout.flush()
        return 1 if self.violations else 0


def proof_obligations(out: Outcome, prop_file: str, extra_targets: list[str] | None = None) -> bool:
    """Step (1) of every run: build the development and read back the theorem report.
    A failing build/proof is reported as a violation without failing input."""
    if os.environ.get("VERIF_DEBUG_SKIP_PROOFS"):   # development aid only, never used by registered commands
        out.coverage.update({"obligations": 0, "discharged": 0, "checker_cmd": "skipped (debug)"})
        return True
    ok, log = coq_build()
    rep = theorem_report(prop_file) if ok else {"theorems": [], "ok": False, "assumptions": {}, "raw": log[-4000:]}
    hy = hygiene()
    n = len(rep["theorems"])
    out.coverage.update({
        "obligations": n,
        "discharged": n if (ok and rep["ok"] and not hy) else 0,
        "checker_cmd": "cd /verif/coq && coq_makefile -f _CoqProject -o Makefile && make  (coqc 8.16.1, full .vo build) ; Print Assumptions per theorem",
        "theorems": rep["theorems"],
        "print_assumptions": rep["assumptions"],
    })
    if not ok or not rep["ok"] or hy:
        m = re.search(r'File "([^"]+)", line (\d+)', log or "")
        out.violation({
            "kind": "proof-obligation-broken",
            "what": "the Coq development no longer builds / a property theorem no longer checks",
            "first_error": m.group(0) if m else None,
            "hygiene": hy, "log_tail": (log or rep.get("raw", ""))[-3000:],
            "theorems": rep["theorems"],
        }, no_failing_input=True)
        return False
    return True


def std_trusted_base(extra: list[str]) -> list[str]:
    return [
        "Coq 8.16.1 kernel + vm_compute (no native_compute)",
        "hand-written Gallina model of the anchored functions; tie = correspondence check run on this invocation against /repo's working tree",
        "harness: generators, canonicalisers, janus shim (shim/test_event_generator)",
    ] + extra
