"""C01 - learned diagram accepts every job it was learned from (translation validation)."""
from . import common, learnlib as L

LEVEL = "translation_validation"


def verdict(it, cert):
    if not cert["c05"]:
        return "no-well-formed-diagram"
    if cert["rej"]:
        return f"rejects-input-job:{cert['rej'][:5]}"
    return None


def run(out, explore=0):
    L.standard_run(out, "C01", explore or 150, want=("c05", "c01"), verdict=verdict, subsets=True, extra_pools=(("X", 40),))


def replay(out, rp):
    L.replay_item(out, rp, ("c05", "c01"), verdict)
