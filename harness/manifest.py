"""Regenerates /verif/MANIFEST.json from the table below:  /venv/bin/python -m harness.manifest"""
import json
from pathlib import Path

VERIF = Path(__file__).resolve().parent.parent
BASELINE = ("cd /repo && env -u OTEL2PUML_VERIF /venv/bin/python -m pytest -ra -q -p no:cacheprovider "
            "--timeout=900 --continue-on-collection-errors")

# id -> (category, technique, level text, level note, design ref)
TABLE = {
    "C15": ("proof",
            "Coq theorem by induction over run histories of any length (store-stability invariant) over the composed ingest/clean/unique/stream models; correspondence against real separate-process CLI histories on one SQLite file",
            "Universal Coq theorem (runs_repeatable) for histories of ANY length and every batch size about the composition of the "
            "ingestion, cleaning, unique-graph and streaming models in otel_to_pv's order: under Good (first window exists, int64 "
            "timestamps, parent links inside their own trace or dangling) every run completes and runs with the same unique-graph flag "
            "produce identical output; the one-step lemma shows the nodes and association tables return to the same lists after every "
            "run. The pinned tree is refuted by two theorems with the witnesses that were repaired by fix: commits. Tied to /repo on "
            "every run by executing real CLI histories (python -m tel2puml otel2pv, separate processes, one database file) and comparing "
            "per run completion and the traces emitted per workflow with `history` evaluated in coqc.",
            "Trusted: Coq kernel+vm_compute; the component models (each under its own correspondence: C10, C11, C09, C12); SQLite file "
            "persistence; the CLI is driven through a jq_query mapping; harness. Outside Good (cross-trace parents, negative "
            "timestamps) the theorem does not apply and two Examples show repeatability genuinely fails there.",
            "4/C15"),
    "C09": ("proof",
            "Coq theorems (canonical tree digest <-> isomorphism up to sibling order, paging independence, one representative per class) with the digest function as a Section hypothesis; in-kernel differential correspondence against find_unique_graphs",
            "Universal Coq theorems about a Gallina model of find_unique_graphs (candidate roots, root paging, per-batch child maps, "
            "recursive sorted-children digest, GROUP BY selection): digests are equal iff the call trees are isomorphic up to sibling "
            "order (for any digest function satisfying the stated injectivity hypothesis; unconditionally for the canonical-tree "
            "digest used in the executable model), the rows computed are independent of the batch size, for every workflow name the "
            "selection hits every shape class exactly once for ANY representative SQL may pick, and the classes represented do not "
            "depend on ingestion order. Tied to /repo on every run by running the real find_unique_graphs on SQLite stores "
            "(exhaustive small tree pairs + random multisets, batch sizes, ingestion orders) and comparing with the model in coqc as "
            "sets of (name, shape class).",
            "Trusted: Coq kernel+vm_compute; hypothesis X_inj (xxhash64 collision-free and concatenation unambiguous - the latter is "
            "false for adversarial type names, listed as a known finding); stores are forests of single-rooted traces with unique ids; "
            "SQLite paging/GROUP BY as modelled (tied by correspondence); harness.",
            "4/C09"),
    "C11": ("proof",
            "Coq theorems about relational models of the three cleaning statements and their composition with streaming; in-kernel differential correspondence against SQLite; counterfactual runs",
            "Universal Coq theorems for every store and window about Gallina models of remove_inconsistent_jobs, "
            "remove_jobs_outside_of_time_window, update_job_names_by_root_span and get_time_window in otel_to_pv's order: a span "
            "survives iff its trace has no child of a missing parent and has a span start or end inside the window; whole traces "
            "go or stay; surviving rows keep every field except the workflow name, which becomes the root's; and under TraceClosed + "
            "unique ids the cleaned store streams exactly the same OTel events as the cleaned store from which the removed traces "
            "were never ingested (same window). Tied to /repo on every run: generated stores go through the real calls on SQLite "
            "and through the model in coqc (row-by-row equality), and the counterfactual is also run through stream_data + the sequencer.",
            "Trusted: Coq kernel+vm_compute; SQLite semantics of the statements as modelled (tied by correspondence); harness. The "
            "counterfactual uses the same window; traces with several root spans are outside the name theorem.",
            "4/C11"),
    "C10": ("proof",
            "Coq refinement theorem (batched two-transaction commit + fallback refines 'first occurrence of every new id'); in-kernel differential correspondence against SQLite",
            "Universal Coq theorems for every stream, duplicate placement, batch size (0, 1..n, larger than the stream) and number of "
            "`with` blocks about an exact Gallina model of SQLDataHolder ingestion (pending lists, flush threshold, node transaction, "
            "association transaction, IntegrityError fallback incl. the DetachedInstanceError path): the result equals the abstract "
            "specification 'store gains exactly the first occurrence of each id it does not hold, with that occurrence's parent link', "
            "independent of batch size; invariant preserved. Tied to /repo on every run: the same streams go through the real "
            "IngestData/SQLDataHolder on SQLite files and through the model in coqc; tables compared row by row.",
            "Trusted: Coq kernel+vm_compute; SQLite/SQLAlchemy transaction + UNIQUE/PK semantics as modelled (tied by correspondence); "
            "harness. The refinement theorem assumes the store invariant inv_b (no stale association rows); outside it the model is "
            "still exercised (it predicts the crash) but the property is C15's.",
            "4/C10"),
    "C12": ("proof",
            "Coq theorems about consecutive grouping over every key-sorted arrangement of the rows; in-kernel differential correspondence against stream_data",
            "Universal Coq theorems about a Gallina model of stream_data (filters, ORDER BY, two-level itertools.groupby, children through "
            "the association join), stated for EVERY key-sorted permutation of the filtered rows (no assumption on SQLite's sorter or on "
            "yield_per): each workflow name once, each trace once under it and whole, no span dropped, duplicated or mis-attributed, "
            "children = association rows joined with stored nodes. Tied to /repo on every run by consuming the real nested generators "
            "in nesting order on generated stores x batch sizes x filters and comparing with the model evaluated in coqc.",
            "Trusted: Coq kernel+vm_compute; byte order of names/ids = order of their interned ranks; the lazy generators are consumed "
            "in nesting order (as all callers do); harness.",
            "4/C12"),
    "C08": ("proof",
            "Coq theorems over an exact Gallina model of sequence_otel.py; in-kernel differential correspondence; documented-rule oracle as failing-input search",
            "Universal Coq theorems for every span tree, mode and configuration about an exact Gallina model of the sequencer "
            "(grouping by prior information, stable sorts, overlap sweep, recursive linking, rename pass): each span exactly once, "
            "emission order topological, every span follows all its descendants, single start and start-order chain in synchronous "
            "mode, async groups = connected components of the closed-interval overlap graph (sweep-line invariant), prior-information "
            "classes, rename = documented rule under a stated side condition. The model is tied to /repo on every run by evaluating it "
            "in coqc on the run's trees (exhaustive small trees on a grid + random up to 30 spans) and comparing with the PV events the "
            "implementation emits, field by field.",
            "Trusted: Coq kernel+vm_compute; hand-written model (tied by correspondence); harness; the documented-rule oracle is only "
            "used to search for a failing input. Sibling ties in start time are modelled (stable sorts) but outside the property.",
            "4/C08"),
    "C16": ("proof",
            "Coq theorems over a Flocq binary64 + calendar model; in-kernel differential correspondence",
            "Universal Coq theorems (every microsecond instant 1970..2100) about a bit-exact Gallina/Flocq model of both "
            "converters: parse/render inversion, exact integer instant, order preservation, float pipeline lands on the right "
            "microsecond; the model is tied to /repo's converters on every run by in-kernel (vm_compute) evaluation of the "
            "model on the run's instants and comparison with the implementation's outputs. The pv->nano direction of the "
            "current code is refuted by a theorem with a witness (known finding).",
            "Trusted: Coq kernel+vm_compute, Flocq's IEEE-754 formalisation as the meaning of CPython floats (classical real "
            "axioms of the standard library as listed by Print Assumptions in the evidence), the hand-written model of "
            "datetime formatting/parsing (tied by correspondence), the harness.",
            "4/C16"),
}

# properties whose check is finished and quiet on the unchanged tree
READY = {"C08", "C09", "C10", "C11", "C12", "C15", "C16"}

NOT_YET = {
}

NA_REASON = "check not built yet in this round; planned per DESIGN.md section 4 (no claim is made for it now)"


def main() -> None:
    props = [json.loads(l)["id"] for l in (VERIF / "properties.jsonl").read_text().splitlines() if l.strip()]
    checks = []
    for pid in props:
        if pid not in TABLE or pid not in READY:
            continue
        cat, tech, text, note, ref = TABLE[pid]
        checks.append({
            "property_id": pid,
            "quick_cmd": f"./check {pid} --tier quick",
            "thorough_cmd": f"./check {pid} --tier thorough",
            "evidence_file": f"/verif/evidence/{pid}.json",
            "replay_cmd_template": f"./check {pid} --replay {{path}}",
            "engine": "coq-model+correspondence",
            "level_claimed": {"category": cat, "text": text, "design_ref": f"DESIGN.md {ref}"},
            "level_note": note,
            "technique": tech,
        })
    m = {
        "version": 1,
        "setup_cmd": "./setup.sh",
        "hooks": {
            "guard": "OTEL2PUML_VERIF",
            "enable": "no source hooks are needed: every observation point is a public function of tel2puml imported from "
                      "/repo's working tree with PYTHONPATH=/repo:/verif/shim (the guard variable is set by the harness but no "
                      "code in /repo reads it)",
            "baseline_off_cmd": BASELINE,
            "source_commits": [],
            "add_only": True,
        },
        "engines": [{
            "name": "coq-model+correspondence", "path": "/verif/coq, /verif/harness",
            "serves_properties": [c["property_id"] for c in checks],
            "kind_free_text": "Coq 8.16.1 development (models, theorems, verified validators) + Python harness running the "
                              "implementation from /repo and evaluating the models in coqc (vm_compute) on the same inputs",
        }],
        "checks": checks,
        "not_applicable": [{"property_id": p, "reason": NOT_YET.get(p, NA_REASON)} for p in props if p not in TABLE or p not in READY],
        "notes": "See DESIGN.md. known_findings.json lists genuine defects of the pinned tree (open) and repaired ones (fixed).",
    }
    (VERIF / "MANIFEST.json").write_text(json.dumps(m, indent=1) + "\n")


if __name__ == "__main__":
    main()
