"""Regenerates /verif/MANIFEST.json from the table below:  /venv/bin/python -m harness.manifest"""
import json
from pathlib import Path

VERIF = Path(__file__).resolve().parent.parent
BASELINE = ("cd /repo && env -u OTEL2PUML_VERIF /venv/bin/python -m pytest -ra -q -p no:cacheprovider "
            "--timeout=900 --continue-on-collection-errors")

# id -> (category, technique, level text, level note, design ref)
TABLE = {
    "C13": ("proof",
            "Coq: jq-fragment evaluator + compiler model + printer; theorem eval(compile m) = flatten_code m for every document; agreement with the documented flattening on regular inputs, refutations with witnesses elsewhere; three-leg correspondence (program text byte for byte, libjq, JSONDataSource)",
            "Universal Coq theorem (c13_compile_exact): for every well-formed mapping and EVERY document the compiled jq program, run by a "
            "Gallina big-step evaluator of the emitted jq fragment, yields exactly flatten_code m doc, a direct (jq-free) recursive "
            "description of what the code computes; c13_regular_agree / c13_compile_correct_partial: on `regular` inputs this equals the "
            "DOCUMENTED flattening (FlattenSpec); outside them the documented statement is refuted by theorems with concrete witnesses "
            "(known findings). Skipping: extract = filter valid ..., per-line = concatenation, an invalid record changes nothing else. "
            "Tied to /repo on every run by three legs: print_jq (compile m) equals field_mapping_to_jq_query(m) byte for byte; "
            "flatten_code equals the records the real compiled program yields under libjq; extract_lines equals the events "
            "JSONDataSource yields for whole-file and one-JSON-per-line files (plus the direct check that the events are exactly the "
            "records that validate, in order).",
            "Trusted: Coq kernel+vm_compute; libjq semantics of the emitted fragment and pydantic validation as modelled (both under a "
            "correspondence leg); integers only (no floats); JSON text decoding is Python's; harness generators.",
            "4/C13"),
    "C14": ("proof",
            "Coq round-trip theorem for the PV event file boundary under an injective field mapping; both routes through the real CLI with per-instance certified diagram equivalence and file/stream equality",
            "Proved: load mc (save mc e) = Some e and the job-file version for every event and every mapping with distinct keys (a colliding "
            "mapping is shown to corrupt silently), exact key list of the saved file. Per instance through the real CLI in separate "
            "processes: otel2puml vs otel2pv -se [-mc] followed by pv2puml -fp <job dir> -jn <job> [-mc], default and custom mapping, "
            "sync and async sequencing: per workflow the two diagrams are certified language-equivalent in coqc, and the saved files, "
            "mapped back, equal the PV stream obtained in-process from otel_to_pv (events, links, every field).",
            "Trusted: Coq kernel+vm_compute; diagram equivalence is validated per instance (not proved for the learner); the custom "
            "mapping is injective; CLI driven with a jq_query data source and an in-memory database; harness.",
            "4/C14"),
    'C01': ('translation_validation',
            'verified validator (accepts_b: sound, no false rejection) + per-instance kernel-checked certificates over a frozen pool of fragment-F definitions; partial',
            "PARTIAL: the learner's universal correctness is not proved (it is a heuristic). Proved in Coq: the validator's meaning (accepts_b_spec), invariance of the canonical form under job-graph isomorphism (no job isomorphic to a run is ever rejected), topological order of every run, and that ingestion drops no observed successor/predecessor set (ingest_evidence). Established per run: for every definition of the slice (thorough: all 1200 pool definitions; plus, in every run, the 63 definitions of the repository's end-to-end corpus read with the parser of the harness; complete execution set and a seeded proper subset) the real pv_to_puml_string terminates within the limit, its text parses (parse_sound), and coqc certifies that every input job is accepted by the emitted diagram.",
            'Trusted: Coq kernel+vm_compute; the executable semantics V.Puml.Exec (definition of diagram meaning); `canon` equality is coarser than isomorphism (a wrong acceptance is possible, a wrong rejection is not: accepts_iso); python line tokenizer; janus shim; frozen pool harness/pool/F.jsonl (every member certified inF_b on every run). Genuine learner failures inside the pool are listed in known_findings.json by definition id; any other failure is a VIOLATION.',
            '4/C01'),
    'C02': ('translation_validation',
            'verified bounded language inclusion (incl_b) + per-instance certificates over the frozen pool; partial',
            "PARTIAL: per definition of the slice (pool slice + the 63 corpus definitions) the complete execution set (loops once and twice) is learned from and coqc certifies that every run of the emitted diagram with loops bounded at 2 is accepted by the source definition (loop bound on the source side deepened up to 3; enumerations above 4000 runs are reported undecided, not passed off as checked). Proved: incl_b_spec / not_included_spec; canon_not_complete documents the validator's incompleteness.",
            'Trusted: Coq kernel+vm_compute; the executable semantics V.Puml.Exec (definition of diagram meaning); `canon` equality is coarser than isomorphism (a wrong acceptance is possible, a wrong rejection is not: accepts_iso); python line tokenizer; janus shim; frozen pool harness/pool/F.jsonl (every member certified inF_b on every run). Genuine learner failures inside the pool are listed in known_findings.json by definition id; any other failure is a VIOLATION.',
            '4/C02'),
    'C03': ('translation_validation',
            'Coq proofs that ingestion depends only on the set of job graphs up to isomorphism + per-instance two-way language equivalence across presentation/hash-seed variants; partial',
            "Proved outright (unbounded): ingestion is invariant under job permutation (ingest_perm), duplication (ingest_dup/ingest_idem) and renumbering of the events of a job (ingest_iso; ids, job ids and timestamps are not part of the model's input at all). PARTIAL for the schedule-dependent rest: for each definition of the slice (pool F slice + 63 corpus definitions + frozen pools R and B of corpus-like shapes just outside F) 6 (thorough 8) presentations - permuted jobs/events, renamed ids + shifted times, a job supplied twice, five PYTHONHASHSEED values in separate processes with distinct uuid streams - must all succeed or all fail alike and be two-way language-equivalent to the baseline (certified in coqc).",
            'Trusted: Coq kernel+vm_compute; the executable semantics V.Puml.Exec (definition of diagram meaning); `canon` equality is coarser than isomorphism (a wrong acceptance is possible, a wrong rejection is not: accepts_iso); python line tokenizer; janus shim; frozen pool harness/pool/F.jsonl (every member certified inF_b on every run). Genuine learner failures inside the pool are listed in known_findings.json by definition id; any other failure is a VIOLATION.',
            '4/C03'),
    'C04': ('proof',
            'Coq theorems on the evidence model (file round trip, chunked ingestion with save/load at every boundary, cache freshness over all operation histories) + correspondence + CLI chains validated per instance',
            'Universal Coq theorems about the Gallina model of Event/EventSet, ingestion and the model file: load (save m) = Some m for every canonical model; ingestion in ANY number of chunks with a save/load at every boundary equals one-shot ingestion; in every reachable state of the (repaired) staleness semantics the gate tree returned is the one computed from the current successor sets (tree_fresh), and the pinned tree is refuted with the witness that was fixed. Tied to /repo on every run: real ingestion, events_to_raw_input/raw_input_to_events and the logic_gate_tree getter over random operation histories vs the model in coqc. The last step (equal evidence => equivalent diagram) is validated per instance: real CLI chains pv2puml -om / -im ... -om over 2-3 chunks must give the same model file and a language-equivalent diagram as the one-shot run.',
            'Trusted: Coq kernel+vm_compute; the executable semantics V.Puml.Exec (definition of diagram meaning); `canon` equality is coarser than isomorphism (a wrong acceptance is possible, a wrong rejection is not: accepts_iso); python line tokenizer; janus shim; frozen pool harness/pool/F.jsonl (every member certified inF_b on every run). Genuine learner failures inside the pool are listed in known_findings.json by definition id; any other failure is a VIOLATION.',
            '4/C04'),
    'C05': ('translation_validation',
            'verified parser for the emitted dialect (parse_sound/parse_print: a successful parse IS grammar membership) + per-instance certificates over the frozen pool; partial',
            'PARTIAL: per emitted text coqc certifies parse = Some(name, d) with the requested group name, wf d, and event set equal to the observed event types; the harness additionally rejects placeholder names. Proved: parse_sound, parse_print, print_inj, events_preserved, lex_render. Universe: pool slice, the 63 corpus definitions, the multi-start family (first event removed in front of an AND/OR fork) and loops ending in a fork (members of the pool).',
            'Trusted: Coq kernel+vm_compute; the executable semantics V.Puml.Exec (definition of diagram meaning); `canon` equality is coarser than isomorphism (a wrong acceptance is possible, a wrong rejection is not: accepts_iso); python line tokenizer; janus shim; frozen pool harness/pool/F.jsonl (every member certified inF_b on every run). Genuine learner failures inside the pool are listed in known_findings.json by definition id; any other failure is a VIOLATION.',
            '4/C05'),
    'C06': ('translation_validation',
            'verified gate-tree semantics and validators; exhaustive certification over the finite domain enumerated by a Coq function proved sound and complete',
            "The property's domain is finite and is enumerated completely by enum_trees (proved: every enumerated tree is in the domain and every in-domain tree is enumerated up to child order; outcomes are invariant under child order). For every tree the full outcome family is fed to the real calculate_logic_gates and coqc certifies c06_check: every observed set is admitted, and on the stated sub-class the inferred tree admits exactly the observed sets (admits_b_iff, sound_b_spec, exact_b_spec). Quick: all trees with <= 4 events + 500 sampled with 5; thorough: all with <= 6 (27099 + 2761 trees; <= 5 under three hash seeds). The heuristic itself is not modelled (pm4py).",
            'Trusted: Coq kernel+vm_compute; the executable semantics V.Puml.Exec (definition of diagram meaning); `canon` equality is coarser than isomorphism (a wrong acceptance is possible, a wrong rejection is not: accepts_iso); python line tokenizer; janus shim; frozen pool harness/pool/F.jsonl (every member certified inF_b on every run). Genuine learner failures inside the pool are listed in known_findings.json by definition id; any other failure is a VIOLATION.',
            '4/C06'),
    'C07': ('translation_validation',
            'verified graph validators (reachability, acyclicity, single entry, nesting check c07_b sound and complete) + per-instance certificates on the real detect_loops output; partial',
            'PARTIAL: for the loop-bearing definitions of the pool slice, the loop cases of the corpus and a frozen pool L of corpus-like loop shapes (break branches containing loops/forks, two loops after one event) the directly-follows graph is built exactly as pv_to_puml_string does, the real detect_loops is called, and coqc certifies for the returned nesting: every level acyclic and single-entry, every observed event type exactly once in the whole nesting, every edge of the input lying on a cycle enclosed in some loop body. Proved: reach_b_iff, acyclic_b_iff, single_entry_b_iff, c07_b_sound/complete, existence of a topological order for every certified level. detect_loops itself is not modelled.',
            'Trusted: Coq kernel+vm_compute; the executable semantics V.Puml.Exec (definition of diagram meaning); `canon` equality is coarser than isomorphism (a wrong acceptance is possible, a wrong rejection is not: accepts_iso); python line tokenizer; janus shim; frozen pool harness/pool/F.jsonl (every member certified inF_b on every run). Genuine learner failures inside the pool are listed in known_findings.json by definition id; any other failure is a VIOLATION.',
            '4/C07'),
    "C15": ("proof",
            "Coq theorem by induction over run histories of any length (store-stability invariant) over the composed ingest/clean/unique/stream models; correspondence against real separate-process CLI histories on one SQLite file",
            "Universal Coq theorem (runs_repeatable) for histories of ANY length and every batch size about the composition of the "
            "ingestion, cleaning, unique-graph and streaming models in otel_to_pv's order: under Good (first window exists, int64 "
            "timestamps, parent links inside their own trace or dangling) every run completes and runs with the same unique-graph flag "
            "produce identical output; the one-step lemma shows the nodes and association tables return to the same lists after every "
            "run. The pinned tree is refuted by two theorems with the witnesses that were repaired by fix: commits. Tied to /repo on "
            "every run by executing real CLI histories (python -m tel2puml otel2pv, separate processes, one database file) and comparing "
            "per run completion and the traces emitted per workflow with `history` evaluated in coqc.",
            "Trusted: Coq kernel+vm_compute; the component models (each under its own correspondence: C10, C11, C09, C12); SQLite file "
            "persistence; the CLI is driven through a jq_query mapping; harness. Outside Good (cross-trace parents, negative "
            "timestamps) the theorem does not apply and two Examples show repeatability genuinely fails there.",
            "4/C15"),
    "C09": ("proof",
            "Coq theorems (canonical tree digest <-> isomorphism up to sibling order, paging independence, one representative per class) with the digest function as a Section hypothesis; in-kernel differential correspondence against find_unique_graphs",
            "Universal Coq theorems about a Gallina model of find_unique_graphs (candidate roots, root paging, per-batch child maps, "
            "recursive sorted-children digest, GROUP BY selection): digests are equal iff the call trees are isomorphic up to sibling "
            "order (for any digest function satisfying the stated injectivity hypothesis; unconditionally for the canonical-tree "
            "digest used in the executable model), the rows computed are independent of the batch size, for every workflow name the "
            "selection hits every shape class exactly once for ANY representative SQL may pick, and the classes represented do not "
            "depend on ingestion order. Tied to /repo on every run by running the real find_unique_graphs on SQLite stores "
            "(exhaustive small tree pairs + random multisets, batch sizes, ingestion orders) and comparing with the model in coqc as "
            "sets of (name, shape class).",
            "Trusted: Coq kernel+vm_compute; hypothesis X_inj (xxhash64 collision-free and concatenation unambiguous - the latter is "
            "false for adversarial type names, listed as a known finding); stores are forests of single-rooted traces with unique ids; "
            "SQLite paging/GROUP BY as modelled (tied by correspondence); harness.",
            "4/C09"),
    "C11": ("proof",
            "Coq theorems about relational models of the three cleaning statements and their composition with streaming; in-kernel differential correspondence against SQLite; counterfactual runs",
            "Universal Coq theorems for every store and window about Gallina models of remove_inconsistent_jobs, "
            "remove_jobs_outside_of_time_window, update_job_names_by_root_span and get_time_window in otel_to_pv's order: a span "
            "survives iff its trace has no child of a missing parent and has a span start or end inside the window; whole traces "
            "go or stay; surviving rows keep every field except the workflow name, which becomes the root's; and under TraceClosed + "
            "unique ids the cleaned store streams exactly the same OTel events as the cleaned store from which the removed traces "
            "were never ingested (same window). Tied to /repo on every run: generated stores go through the real calls on SQLite "
            "and through the model in coqc (row-by-row equality), and the counterfactual is also run through stream_data + the sequencer.",
            "Trusted: Coq kernel+vm_compute; SQLite semantics of the statements as modelled (tied by correspondence); harness. The "
            "counterfactual uses the same window; traces with several root spans are outside the name theorem.",
            "4/C11"),
    "C10": ("proof",
            "Coq refinement theorem (batched two-transaction commit + fallback refines 'first occurrence of every new id'); in-kernel differential correspondence against SQLite",
            "Universal Coq theorems for every stream, duplicate placement, batch size (0, 1..n, larger than the stream) and number of "
            "`with` blocks about an exact Gallina model of SQLDataHolder ingestion (pending lists, flush threshold, node transaction, "
            "association transaction, IntegrityError fallback incl. the DetachedInstanceError path): the result equals the abstract "
            "specification 'store gains exactly the first occurrence of each id it does not hold, with that occurrence's parent link', "
            "independent of batch size; invariant preserved. Tied to /repo on every run: the same streams go through the real "
            "IngestData/SQLDataHolder on SQLite files and through the model in coqc; tables compared row by row.",
            "Trusted: Coq kernel+vm_compute; SQLite/SQLAlchemy transaction + UNIQUE/PK semantics as modelled (tied by correspondence); "
            "harness. The refinement theorem assumes the store invariant inv_b (no stale association rows); outside it the model is "
            "still exercised (it predicts the crash) but the property is C15's.",
            "4/C10"),
    "C12": ("proof",
            "Coq theorems about consecutive grouping over every key-sorted arrangement of the rows; in-kernel differential correspondence against stream_data",
            "Universal Coq theorems about a Gallina model of stream_data (filters, ORDER BY, two-level itertools.groupby, children through "
            "the association join), stated for EVERY key-sorted permutation of the filtered rows (no assumption on SQLite's sorter or on "
            "yield_per): each workflow name once, each trace once under it and whole, no span dropped, duplicated or mis-attributed, "
            "children = association rows joined with stored nodes. Tied to /repo on every run by consuming the real nested generators "
            "in nesting order on generated stores x batch sizes x filters and comparing with the model evaluated in coqc.",
            "Trusted: Coq kernel+vm_compute; byte order of names/ids = order of their interned ranks; the lazy generators are consumed "
            "in nesting order (as all callers do); harness.",
            "4/C12"),
    "C08": ("proof",
            "Coq theorems over an exact Gallina model of sequence_otel.py; in-kernel differential correspondence; documented-rule oracle as failing-input search",
            "Universal Coq theorems for every span tree, mode and configuration about an exact Gallina model of the sequencer "
            "(grouping by prior information, stable sorts, overlap sweep, recursive linking, rename pass): each span exactly once, "
            "emission order topological, every span follows all its descendants, single start and start-order chain in synchronous "
            "mode, async groups = connected components of the closed-interval overlap graph (sweep-line invariant), prior-information "
            "classes, rename = documented rule under a stated side condition. The model is tied to /repo on every run by evaluating it "
            "in coqc on the run's trees (exhaustive small trees on a grid + random up to 30 spans) and comparing with the PV events the "
            "implementation emits, field by field.",
            "Trusted: Coq kernel+vm_compute; hand-written model (tied by correspondence); harness; the documented-rule oracle is only "
            "used to search for a failing input. Sibling ties in start time are modelled (stable sorts) but outside the property.",
            "4/C08"),
    "C16": ("proof",
            "Coq theorems over a Flocq binary64 + calendar model; in-kernel differential correspondence",
            "Universal Coq theorems (every microsecond instant 1970..2100) about a bit-exact Gallina/Flocq model of both "
            "converters: parse/render inversion, exact integer instant, order preservation, float pipeline lands on the right "
            "microsecond; the model is tied to /repo's converters on every run by in-kernel (vm_compute) evaluation of the "
            "model on the run's instants and comparison with the implementation's outputs. The pv->nano direction of the "
            "current code is refuted by a theorem with a witness (known finding).",
            "Trusted: Coq kernel+vm_compute, Flocq's IEEE-754 formalisation as the meaning of CPython floats (classical real "
            "axioms of the standard library as listed by Print Assumptions in the evidence), the hand-written model of "
            "datetime formatting/parsing (tied by correspondence), the harness.",
            "4/C16"),
}

# properties whose check is finished and quiet on the unchanged tree
READY = {"C%02d" % i for i in range(1, 17)}

NOT_YET = {
}

NA_REASON = "check not built yet in this round; planned per DESIGN.md section 4 (no claim is made for it now)"


def main() -> None:
    props = [json.loads(l)["id"] for l in (VERIF / "properties.jsonl").read_text().splitlines() if l.strip()]
    checks = []
    for pid in props:
        if pid not in TABLE or pid not in READY:
            continue
        cat, tech, text, note, ref = TABLE[pid]
        checks.append({
            "property_id": pid,
            "quick_cmd": f"./check {pid} --tier quick",
            "thorough_cmd": f"./check {pid} --tier thorough",
            "evidence_file": f"/verif/evidence/{pid}.json",
            "replay_cmd_template": f"./check {pid} --replay {{path}}",
            "engine": "coq-model+correspondence",
            "level_claimed": {"category": cat, "text": text, "design_ref": f"DESIGN.md {ref}"},
            "level_note": note,
            "technique": tech,
        })
    m = {
        "version": 1,
        "setup_cmd": "./setup.sh",
        "hooks": {
            "guard": "OTEL2PUML_VERIF",
            "enable": "no source hooks are needed: every observation point is a public function of tel2puml imported from "
                      "/repo's working tree with PYTHONPATH=/repo:/verif/shim (the guard variable is set by the harness but no "
                      "code in /repo reads it)",
            "baseline_off_cmd": BASELINE,
            "source_commits": [],
            "add_only": True,
        },
        "engines": [{
            "name": "coq-model+correspondence", "path": "/verif/coq, /verif/harness",
            "serves_properties": [c["property_id"] for c in checks],
            "kind_free_text": "Coq 8.16.1 development (models, theorems, verified validators) + Python harness running the "
                              "implementation from /repo and evaluating the models in coqc (vm_compute) on the same inputs",
        }],
        "checks": checks,
        "not_applicable": [{"property_id": p, "reason": NOT_YET.get(p, NA_REASON)} for p in props if p not in TABLE or p not in READY],
        "notes": "See DESIGN.md. known_findings.json lists genuine defects of the pinned tree (open) and repaired ones (fixed).",
    }
    (VERIF / "MANIFEST.json").write_text(json.dumps(m, indent=1) + "\n")


if __name__ == "__main__":
    main()
