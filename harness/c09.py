"""C09 - unique-graph selection keeps one trace per distinct call-tree shape.

Theorems: coq/theories/Properties/C09.v about V.Store.Unique (digest function a Section variable
with the injectivity hypothesis X_inj = collision-freeness of xxhash64 + unambiguous concatenation).
Correspondence: the real find_unique_graphs on SQLite vs `find_unique` (digest = canonical tree)
evaluated in coqc, compared as sets of (workflow name, shape class) - never hash strings or the
arbitrary representative.  Failing-input search: the property evaluated in Python."""
from __future__ import annotations

import itertools
import os
import random
from . import common, storelib as S
from .common import coq_z, coq_list

LEVEL = "proof"
KEY_CONCAT = "graph-hash:concatenation-of-type-and-child-digests-is-ambiguous"

# tree: (ty, [kids])


def ordered_trees(n, labels):
    if n == 1:
        return [(l, []) for l in labels]
    out = []
    for parts in _compositions(n - 1):
        for combo in itertools.product(*[ordered_trees(k, labels) for k in parts]):
            for l in labels:
                out.append((l, list(combo)))
    return out


def _compositions(n):
    if n == 0:
        return [[]]
    return [[f] + r for f in range(1, n + 1) for r in _compositions(n - f)]


def canon_py(t):
    return (t[0], tuple(sorted(canon_py(k) for k in t[1])))


def flatten(t, job, name, first_id, t0=1000, dur=5):
    evs = []

    def go(node, par):
        i = first_id + len(evs)
        evs.append(dict(id=i, par=par, job=job, name=name, ty=node[0], st=t0 + len(evs) * (1 if dur else 0),
                        en=t0 + len(evs) * (1 if dur else 0) + dur, app=1))
        for k in node[1]:
            go(k, i)
    go(t, None)
    if (job * 7 + first_id) % 3 == 0:
        evs[0]["par"] = 0          # the root's missing parent delivered as "" (OTLP JSON) instead of null
    return evs


def rand_tree(rnd, n, nl):
    nodes = [(rnd.randint(1, nl), [])]
    for _ in range(n - 1):
        k = (rnd.randint(1, nl), [])
        rnd.choice(nodes)[1].append(k)
        nodes.append(k)
    return nodes[0]


def shuffle_tree(rnd, t):
    kids = [shuffle_tree(rnd, k) for k in t[1]]
    rnd.shuffle(kids)
    return (t[0], kids)


def gen_cases(out, explore):
    rnd = random.Random(out.seed * 4793 + 9)
    quick = out.tier == "quick"
    cases = []
    small = [t for n in (1, 2, 3) for t in ordered_trees(n, (1, 2))]
    if not quick:
        small += ordered_trees(4, (1, 2))
    n_exh = 0
    pairs = list(itertools.product(small[:22], repeat=2)) if quick else list(itertools.product(small, repeat=2))
    if not quick:
        pairs = pairs[::3]
    for a, b in pairs:
        for bs in ((1, 1000) if quick else (1, 2, 1000)):
            for names in ((1, 1), (1, 2)):
                if quick and names == (1, 2) and bs != 1:
                    continue
                cases.append(dict(traces=[(1, names[0], a), (2, names[1], b)], bs=bs, order="seq", buf=0))
                n_exh += 1
    n_rand = explore or (120 if quick else 3000)
    for _ in range(n_rand):
        ntr = rnd.choice([2, 3, 5, 8, 12])
        base = [rand_tree(rnd, rnd.choice([1, 2, 3, 5, 8, 12]), rnd.choice([1, 2, 3])) for _ in range(max(1, ntr // 2))]
        traces = []
        case_pair = rnd.random() < 0.3       # two workflow names that differ only in letter case, sharing shapes
        for j in range(ntr):
            t = shuffle_tree(rnd, rnd.choice(base)) if rnd.random() < 0.7 else rand_tree(rnd, rnd.choice([1, 3, 6]), 2)
            traces.append((j + 1, rnd.choice([1, 4]) if case_pair else 1 + rnd.randrange(rnd.choice([1, 2, 3])), t))   # 1/4 = Billing/billing
        case = dict(traces=traces, bs=rnd.choice([1, 2, 3, 1000]), order=rnd.choice(["seq", "interleave", "reverse"]),
                    buf=0, oseed=rnd.randrange(10**6))
        if rnd.random() < 0.5:       # traces that do not overlap in time, so that the order of ingestion is also an order in time
            case["times"] = {j + 1: 1000 + 100 * j for j in range(ntr)}
        cases.append(case)
    for _ in range(n_rand // 3):
        ntr = rnd.choice([3, 5, 8])
        base = [rand_tree(rnd, rnd.choice([1, 2, 3, 5]), 2) for _ in range(2)]
        traces, times, durs = [(900, 9, (1, [])), (901, 9, (1, []))], {900: T0, 901: T0 + 10 * MIN - 100}, {}
        for j in range(ntr):
            traces.append((j + 1, 1 + rnd.randrange(2), shuffle_tree(rnd, rnd.choice(base))))
            where = rnd.choice(["in", "in", "before", "after", "edge"])
            times[j + 1] = {"in": T0 + 2 * MIN + rnd.randrange(6 * MIN), "before": T0 + rnd.randrange(MIN // 2),
                            "after": T0 + 9 * MIN + MIN // 2 + rnd.randrange(MIN // 4), "edge": T0 + MIN - rnd.choice([0, 1, 3, 20])}[where]
            if where == "edge" or rnd.random() < 0.2:
                durs[j + 1] = 0                  # instantaneous spans (start = end)
        if rnd.random() < 0.5:                   # a trace exactly on the upper window edge / at the global maximum
            traces.append((800, 1, rand_tree(rnd, 2, 2)))
            times[800] = rnd.choice([T0 + 10 * MIN - 100 - MIN, T0 + 10 * MIN - 100 - MIN - 1, T0 + 10 * MIN - 100 - MIN + 1])
            durs[800] = 0
        cases.append(dict(traces=traces, bs=rnd.choice([1, 2, 1000]), order=rnd.choice(["seq", "interleave"]), buf=1,
                          times=times, durs=durs, oseed=rnd.randrange(10**6)))
    for _ in range(n_rand // 6):                 # default config (time_buffer 0): the newest trace is instantaneous and carries the maximum
        ntr = rnd.choice([2, 3, 5])
        traces = [(j + 1, 1 + rnd.randrange(2), rand_tree(rnd, rnd.choice([1, 2, 3]), 2)) for j in range(ntr)]
        times = {j + 1: 1000 + 50 * j for j in range(ntr)}
        traces.append((700, 1, (3, [])))
        times[700] = 1000 + 50 * ntr + 500
        cases.append(dict(traces=traces, bs=rnd.choice([1, 1000]), order=rnd.choice(["seq", "reverse"]), buf=0, times=times, durs={700: 0},
                          oseed=rnd.randrange(10**6)))
    # a root page with more traces than SQLite's historical bound-parameter limit (999) under the default batch size:
    # every trace has >= 2 spans, so a trace whose descendants went missing would show up as a new shape
    for k in range(1 if quick else 2):
        shapes = [(1, [(2, [])]), (1, [(3, [])]), (1, [(2, []), (3, [])]), (2, [(1, [(3, [])])])][:1 if k % 2 == 0 else 4]
        ntr = rnd.choice([1003, 1100])
        traces = [(j + 1, 1, shuffle_tree(rnd, rnd.choice(shapes))) for j in range(ntr)]
        # shapes with a single representative: the 1000th trace (last slot of a page of 1000) and the very last trace
        traces[999] = (1000, 1, (1, [(4, [])]))
        traces[-1] = (ntr, 1, (1, [(5, []), (2, [])]))
        cases.append(dict(traces=traces, bs=[1000, 2000][(k + out.seed) % 2], order="seq", buf=0, oseed=k, large=True))
    return cases, n_exh, n_rand


MIN = 60 * 10**9
T0 = 1_700_000_000 * 10**9


def events_of(case):
    evs_by_trace, nid = [], 1
    for k, (job, name, t) in enumerate(case["traces"]):
        e = flatten(t, job, name, nid, t0=case.get("times", {}).get(job, 1000), dur=case.get("durs", {}).get(job, 5))
        nid += len(e)
        evs_by_trace.append(e)
    if case["order"] == "seq":
        return [e for tr in evs_by_trace for e in tr]
    if case["order"] == "reverse":
        return [e for tr in reversed(evs_by_trace) for e in tr]
    r = random.Random(case.get("oseed", 0))
    pools, flat = [list(t) for t in evs_by_trace], []
    while any(pools):
        p = r.choice([q for q in pools if q])
        flat.append(p.pop(r.randrange(len(p))))     # children may precede parents
    return flat


def run_impl(case, path):
    from tel2puml.otel_to_pv.data_holders.sql_data_holder.data_model import Base
    h = S.holder(f"sqlite:///{path}", case["bs"], case["buf"])
    st = S.ingest(h, events_of(case))
    if st != "ok":
        return st, None
    try:
        res = h.find_unique_graphs()
        out = sorted((S.un_name(n), S.un(j)) for n, js in res.items() for j in js)
        status = "ok"
    except Exception as e:  # noqa
        out, status = None, "ERR:" + type(e).__name__
    finally:
        t = Base.metadata.tables.get("temp_root_nodes")
        if t is not None:
            Base.metadata.remove(t)     # lets one harness process run many cases (C15 covers real re-runs)
        h.session.close()
        h.engine.dispose()
    return status, (out, h._min_timestamp, h._max_timestamp)


def in_window(case, job, t, lo, hi):
    t0 = case.get("times", {}).get(job, 1000)
    evs = flatten(t, job, 1, 1, t0=t0, dur=case.get("durs", {}).get(job, 5))
    return any(lo <= e["st"] <= hi or lo <= e["en"] <= hi for e in evs)


def oracle(case, sel, mn=None, mx=None):
    want = {}
    lo, hi = (mn + case["buf"] * MIN, mx - case["buf"] * MIN) if case["buf"] else (None, None)
    for job, name, t in case["traces"]:
        if case["buf"] and not in_window(case, job, t, lo, hi):
            continue
        want.setdefault((name, canon_py(t)), []).append(job)
    got = {}
    bytrace = {job: (name, canon_py(t)) for job, name, t in case["traces"]}
    for name, job in sel:
        if job not in bytrace or bytrace[job][0] != name:
            return f"selected ({name},{job}) is not a stored trace of that workflow"
        if bytrace[job] not in want:
            return f"selected trace {job} has no span start or end inside the buffered window"
        got.setdefault(bytrace[job], []).append(job)
    for k, js in got.items():
        if len(js) > 1:
            return f"two traces of the same shape are both selected: {js}"
    missing = [v for k, v in want.items() if k not in got]
    if missing:
        return f"no representative selected for the shape of trace(s) {missing[0]}"
    return None


def cases_v(items) -> str:
    rows = []
    for case, nodes, (sel, mn, mx) in items:
        rows.append(f"(({case['bs']}%nat, ({coq_z(mn + case['buf'] * MIN)}, {coq_z(mx - case['buf'] * MIN)}), {S.coq_store(nodes, [])}), "
                    + coq_list([f"({n}%positive, {j}%positive)" for n, j in sel]) + ")")
    body = ";\n ".join(rows)
    return f"""From Coq Require Import ZArith List Bool. Import ListNotations.
From V Require Import Store.Rel Store.Clean Store.Unique.
Open Scope positive_scope.
Definition digest_of (rows : list (positive * positive * option ctree)) (j : positive) : option ctree :=
  match filter (fun r => Pos.eqb (fst (fst r)) j) rows with r :: _ => snd r | [] => None end.
Definition cls (rows : list (positive * positive * option ctree)) (sel : list (positive * positive)) :=
  map (fun p => (fst p, digest_of rows (snd p))) sel.
Definition cls_eqb (a b : positive * option ctree) : bool :=
  Pos.eqb (fst a) (fst b) && match snd a, snd b with Some x, Some y => ct_eqb x y | _, _ => false end.
Definition subset (a b : list (positive * option ctree)) := forallb (fun x => existsb (cls_eqb x) b) a.
Definition check (c : (nat * (Z * Z) * store) * list (positive * positive)) : bool :=
  let '((bs, w, st), sel) := c in
  let rows := hashes_ct bs w st in
  let m := cls rows (find_unique bs w st) in
  let i := cls rows sel in
  subset m i && subset i m && Nat.eqb (length m) (length i).
Definition cases : list ((nat * (Z * Z) * store) * list (positive * positive)) := [
 {body}].
Eval vm_compute in (1%nat, idx check cases).
"""


def concat_witness():
    """the known finding: a leaf whose type is 'A'+xxh64('B') hashes like the tree A(B)"""
    import xxhash
    from tel2puml.otel_to_pv.data_holders.sql_data_holder.sql_dataholder import compute_graph_hash_from_event_ids
    from tel2puml.otel_to_pv.data_holders.sql_data_holder.data_model import NodeModel

    def nm(i, ty, par):
        return NodeModel(job_name="n", job_id="j", event_type=ty, event_id=i, start_timestamp=0, end_timestamp=1,
                         application_name="a", parent_event_id=par)
    a, b = nm("a", "A", None), nm("b", "B", "a")
    leaf = nm("c", "A" + xxhash.xxh64_hexdigest("B"), None)
    h1 = compute_graph_hash_from_event_ids(a, {"a": [b], "b": []})
    h2 = compute_graph_hash_from_event_ids(leaf, {"c": []})
    return h1 == h2, leaf.event_type


def run(out: common.Outcome, explore: int = 0) -> None:
    common.setup_impl_path()
    ok = common.proof_obligations(out, "C09")
    import tel2puml.events  # noqa: F401
    import logging
    logging.disable(logging.CRITICAL)
    cases, n_exh, n_rand = gen_cases(out, explore)
    items, bad = [], []
    with common.Scratch("c09") as d:
        for k, case in enumerate(cases):
            path = str(d / f"s{k}.db")
            st, res = run_impl(case, path)
            nodes, _, _ = S.read_tables(path)
            os.remove(path)
            if st != "ok":
                bad.append((k, f"find_unique_graphs raised {st}", None))
                continue
            why = oracle(case, res[0], res[1], res[2])
            if why:
                bad.append((k, why, res[0]))
            items.append((case, nodes, res))
    shard = 60
    n_small = sum(1 for it in items if not it[0].get("large"))      # large cases come last in gen_cases: one file each
    files = [(f"S{k}", cases_v(items[k:k + shard])) for k in range(0, n_small, shard)] + \
            [(f"S{k}", cases_v(items[k:k + 1])) for k in range(n_small, len(items))]
    res = common.coq_eval_many(files) if ok else []
    dis, coq_fail = [], []
    for (name, _), (okc, o) in zip(files, res):
        l = common.parse_nat_list(o, "1")
        if not okc or l is None:
            coq_fail.append((name, o[-800:]))
            continue
        dis += [int(name[1:]) + i for i in l]
    for k, why, sel in bad[:3]:
        out.violation({"kind": "selection violates the property", "why": why, "case": cases[k], "selected": sel})
    if ok and not out.violations and (dis or coq_fail):
        out.violation({"kind": "correspondence-broken",
                       "relation": "find_unique_graphs == V.Store.Unique.find_unique as sets of (name, shape class)",
                       "first_disagreements": [{"case": items[k][0], "selected": items[k][2][0]} for k in dis[:3]],
                       "coq_failures": coq_fail[:2]}, no_failing_input=True)
    # the hypothesis X_inj of c09_hash_eq_iff at its known boundary
    collide, ty = concat_witness()
    if collide:
        if out.match_finding(KEY_CONCAT):
            out.known_finding(f"{KEY_CONCAT}: a single span of type {ty!r} gets the digest of the tree A(B)")
        else:
            out.violation({"kind": "distinct shapes share a digest", "leaf_type": ty, "tree": "A(B)"})

    def nontrivial(c):
        cs = [canon_py(t) for _, _, t in c["traces"]]
        return len(set(cs)) < len(cs) or any(len(t[1]) >= 2 for _, _, t in c["traces"])
    keys = {repr(c) for c in cases if nontrivial(c)}
    out.coverage.update({
        "evaluations": len(cases), "distinct_nontrivial": len(keys),
        "rule": "exhaustive: ordered pairs of all ordered labelled trees with <= 3 (thorough: 4) nodes over 2 labels, under one and two "
                "workflow names, batch sizes {1,(2),1000}; one (thorough: two) store of 1003-1100 two/three-span traces under batch size 1000; random: 2-12 traces drawn from a few base shapes with shuffled sibling "
                "order plus unrelated trees, up to 12 spans, 1-3 names, batch sizes {1,2,3,1000}, sequential / reversed / span-level "
                "interleaved ingestion; non-trivial = two traces of equal shape or a span with >= 2 children",
        "exhaustive_cases": n_exh, "random_cases": n_rand,
        "samples": [{"case": cases[i]} for i in (5, len(cases) - 1)],
        "traces_validated_against_impl": len(items) - len(coq_fail) * shard,
        "model_impl_disagreements": len(dis), "oracle_rejections": len(bad),
        "trusted_base": common.std_trusted_base([
            "hypothesis X_inj of c09_hash_eq_iff: xxhash64 collision-free on the strings hashed AND the concatenation "
            "type ++ sorted child hex digests unambiguous (false for adversarial type names: known finding)",
            "GROUP BY representative arbitrary: theorems hold for any valid selection (c09_main_any_representative)",
        ]),
    })
    out.assumptions += ["traces are single-rooted trees with globally unique span ids and distinct trace ids (store_of); "
                        "event types are plain names (not containing other events' hex digests)"]


def replay(out: common.Outcome, rp: dict) -> None:
    common.setup_impl_path()
    import tel2puml.events  # noqa
    case = rp["case"]

    def tup(t):
        return (t[0], [tup(k) for k in t[1]])
    case["traces"] = [(j, n, tup(t)) for j, n, t in case["traces"]]
    with common.Scratch("c09r") as d:
        st, res = run_impl(case, str(d / "r.db"))
    why = f"raised {st}" if st != "ok" else oracle(case, res[0], res[1], res[2])
    print("selected:", res[0] if res else None, "verdict:", why)
    if why:
        out.violation(rp)
    out.coverage.update({"evaluations": 1, "distinct_nontrivial": 0, "rule": "replay", "samples": [rp]})
