"""C03 - diagram independent of order, identifiers, repeats and hash seed (translation validation
for the schedule-dependent part; the ingestion algebra is proved in Properties/C03.v)."""
from . import common, learnlib as L, pumllib as P
from .common import coq_list

LEVEL = "translation_validation"


def ingestion_leg(out, n):
    """Direct tie for the ingestion theorems (ingest_perm / ingest_dup / ingest_iso): random job graphs INCLUDING same-typed
    siblings (successor / predecessor multisets with counts > 1) through the real
    update_and_create_events_from_clustered_pvevents under several presentations; the canonical evidence must be the same
    for every presentation (oracle) and equal to V.Pv.EventModel.ingest (correspondence)."""
    import random
    common.setup_impl_path()
    import tel2puml.events  # noqa: F401
    from tel2puml.pv_to_puml.data_ingestion import update_and_create_events_from_clustered_pvevents
    from .c04 import canon_events, coq_msets, START
    rnd = random.Random(out.seed * 50021 + 3)
    rows, bad = [], []
    for _ in range(n):
        ntypes = rnd.choice([2, 3, 4])
        jobs = []
        for _j in range(rnd.choice([2, 3, 4, 6])):
            m = rnd.choice([2, 3, 4, 5, 7])
            job = []
            for i in range(m):
                preds = sorted(rnd.sample(range(i), min(i, rnd.choice([0, 1, 1, 2])))) if i else []
                job.append((f"E{rnd.randint(1, ntypes)}", preds))
            jobs.append(job)
        if rnd.random() < 0.5:      # two jobs of identical shape differing only in how many same-typed siblings follow an event
            k = rnd.randint(2, 3)
            jobs.insert(rnd.randrange(len(jobs) + 1), [("E1", [])] + [("E2", [0])] + [("E3", [1])])
            jobs.insert(rnd.randrange(len(jobs) + 1), [("E1", [])] + [("E2", [0])] * k + [("E3", list(range(1, k + 1)))])
        models = []
        for pres in range(3):
            r2 = random.Random(rnd.random())
            order = list(range(len(jobs)))
            if pres:
                r2.shuffle(order)
                if pres == 2:
                    order.append(order[0])
            pv = [P.pv_events(jobs[j], pos, "wf", rnd=r2 if pres else None) for pos, j in enumerate(order)]
            models.append(canon_events(update_and_create_events_from_clustered_pvevents(pv, add_dummy_start=True)))
        if models[1] != models[0] or models[2] != models[0]:
            bad.append(dict(kind="ingested evidence depends on the presentation (order / repetition of the jobs)", jobs=jobs,
                            baseline=models[0], other=models[1] if models[1] != models[0] else models[2]))
        it = P.Interner()
        it(START)
        for j in jobs:
            for t, _ in j:
                it(t)
        cm = models[0]
        impl = coq_list([
            f"({it(t)}%positive, {coq_msets([sorted((it(k), v) for k, v in s0) for s0 in o], lambda x: x)}, "
            f"{coq_msets([sorted((it(k), v) for k, v in s0) for s0 in i], lambda x: x)})"
            for t, (o, i) in sorted(cm.items(), key=lambda kv: it(kv[0]))])
        rows.append(f"({coq_list([P.coq_job(j, it) for j in jobs])}, {impl})")
    files = []
    for s0 in range(0, len(rows), 40):
        body = ";\n ".join(rows[s0:s0 + 40])
        files.append((f"I{s0}", f"""From Coq Require Import List PArith Bool Arith. Import ListNotations.
From V Require Import Puml.Ast Puml.Exec Pv.EventModel.
Open Scope positive_scope.
Definition cases : list (list jobgraph * list (evt * list mset * list mset)) := [
 {body}].
Definition mset_eqb (a b : mset) := match mset_cmp a b with Eq => true | _ => false end.
Fixpoint leqb {{A B}} (f : A -> B -> bool) (a : list A) (b : list B) := match a, b with [] , [] => true | x :: a', y :: b' => f x y && leqb f a' b' | _, _ => false end.
Definition sub (a b : list mset) := forallb (fun x => existsb (mset_eqb x) b) a.
Definition seteq a b := sub a b && sub b a.
Definition agree (m : emodel) (i : list (evt * list mset * list mset)) :=
  leqb (fun x y => Pos.eqb (fst x) (fst (fst y)) && seteq (outs (snd x)) (snd (fst y)) && seteq (ins (snd x)) (snd y)) m i.
Definition idx {{A}} (f : A -> bool) (l : list A) : list nat := map fst (filter (fun p => negb (f (snd p))) (combine (seq 0 (length l)) l)).
Eval vm_compute in (1%nat, idx (fun c => agree (ingest (fst c)) (snd c)) cases).
"""))
    res = common.coq_eval_many(files)
    dis, fails = [], []
    for (name, _), (okc, o) in zip(files, res):
        l = common.parse_nat_list(o, "1")
        if not okc or l is None:
            fails.append((name, o[-500:]))
        else:
            dis += [int(name[1:]) + i for i in l]
    return dict(cases=len(rows), bad=bad, disagreements=dis, coq_failures=fails)


def mixed_repeat(d):
    for it in d:
        if it[0] == "fork":
            if it[1] in ("AND", "OR") and len(it[2]) >= 3:
                sets = [set(P.events_of(b)) for b in it[2]]
                for t in set().union(*sets):
                    if 2 <= sum(1 for s0 in sets if t in s0) < len(sets):
                        return True
            if any(mixed_repeat(b) for b in it[2]):
                return True
        elif it[0] == "loop" and mixed_repeat(it[1]):
            return True
    return False


def files_leg(out, recs, n):
    """The same job set handed to the real CLI (pv2puml, positional file paths) in four file presentations:
       F0 one array file per job, listed in order;   F1 the same files listed shuffled, events shuffled inside each file;
       F2 one event per file with -group-by-job, listed job by job;   F3 the same single-event files listed interleaved.
    Every presentation must succeed or fail like F0 and give a language-equivalent diagram."""
    import json, random
    from concurrent.futures import ThreadPoolExecutor
    from . import clilib as C
    rnd = random.Random(out.seed * 7529 + 33)
    cases = []
    recs = list(recs)
    rnd.shuffle(recs)
    for rec in recs[:n]:
        jobs = L.complete_jobs(rec)
        if len(jobs) >= 2:
            cases.append(dict(rec=rec, jobs=jobs[:12], seed=rnd.randrange(10**9)))

    def one(case):
        r2 = random.Random(case["seed"])
        res = {}
        with common.Scratch("c03f") as d:
            pv = [P.pv_events(j, i, "wf") for i, j in enumerate(case["jobs"])]
            layouts = {}
            (d / "j").mkdir(); (d / "e").mkdir()
            jf = []
            for i, evs in enumerate(pv):
                p = d / "j" / f"job_{i:04d}.json"
                p.write_text(json.dumps(evs))
                jf.append(str(p))
            layouts["F0"] = (jf, [])
            jf1 = []
            for i, evs in enumerate(pv):
                p = d / "j" / f"shuf_{i:04d}.json"
                evs = list(evs)
                r2.shuffle(evs)
                p.write_text(json.dumps(evs))
                jf1.append(str(p))
            r2.shuffle(jf1)
            layouts["F1"] = (jf1, [])
            ef = []
            for i, evs in enumerate(pv):
                for k, e in enumerate(evs):
                    p = d / "e" / f"ev_{i:04d}_{k:04d}.json"
                    p.write_text(json.dumps(e))
                    ef.append(str(p))
            layouts["F2"] = (ef, ["-group-by-job"])
            ef3 = list(ef)
            r2.shuffle(ef3)
            layouts["F3"] = (ef3, ["-group-by-job"])
            for name, (files, extra) in layouts.items():
                rc, tail = C.run_cli(["-o", str(d / name), "pv2puml", "-jn", "wf"] + extra + files, d)
                f = d / name / "wf.puml"
                res[name] = dict(rc=rc, text=f.read_text() if f.exists() else None, tail=tail[-300:] if rc or not f.exists() else "")
        return res
    with ThreadPoolExecutor(max_workers=common.NPROC) as ex:
        results = list(ex.map(one, cases))
    pairs, where, bad = [], [], []
    for k, r in enumerate(results):
        ok0 = r["F0"]["text"] is not None
        for name in ("F1", "F2", "F3"):
            okv = r[name]["text"] is not None
            if ok0 != okv:
                bad.append((k, name, f"F0 {'succeeds' if ok0 else 'fails'}, {name} {'succeeds' if okv else 'fails'}: {r[name]['tail'] or r['F0']['tail']}"))
            elif ok0 and r[name]["text"] != r["F0"]["text"]:
                try:
                    pairs.append((P.tokenize(r["F0"]["text"]), P.tokenize(r[name]["text"])))
                    where.append((k, name))
                except ValueError as e:
                    bad.append((k, name, f"unlexable: {e}"))
    eq = L.coq_equiv(pairs) if pairs else []
    fails = 0
    for (k, name), e in zip(where, eq):
        if e is None:
            fails += 1
        elif e["a_ok"] != e["b_ok"]:
            bad.append((k, name, "well-formed under one file presentation, malformed under the other"))
        elif e["a_ok"] and (not e["same_events"] or e["e1"] or e["e2"]):
            bad.append((k, name, f"different language: {e['e1'][:3]}|{e['e2'][:3]}"))
    return dict(cases=cases, results=results, bad=bad, pairs=len(pairs), coq_failures=fails)


def cluster_leg(out, n):
    """cluster_events_by_job_id (the grouping behind pv2puml -group-by-job) on random interleavings of the events of
    several jobs vs V.Pv.Files.cluster in coqc, plus the property itself: the clusters do not depend on the interleaving"""
    import random
    common.setup_impl_path()
    import tel2puml.events  # noqa: F401
    from tel2puml.pv_to_puml.data_ingestion import cluster_events_by_job_id
    rnd = random.Random(out.seed * 30011 + 303)
    rows, bad = [], []
    for _ in range(n):
        njobs = rnd.choice([1, 2, 3, 5])
        evs, eid = [], 1
        for j in range(1, njobs + 1):
            for _k in range(rnd.choice([1, 2, 3, 6])):
                evs.append((j, eid))
                eid += 1
        if rnd.random() < 0.7:
            rnd.shuffle(evs)
        got = cluster_events_by_job_id(dict(jobId=f"j{j}", eventId=f"e{e}") for j, e in evs)
        impl = [(int(k[1:]), [int(x["eventId"][1:]) for x in v]) for k, v in got.items()]
        ref = sorted((j, sorted(e for jj, e in evs if jj == j)) for j in {j for j, _ in evs})
        if sorted((j, sorted(l)) for j, l in impl) != ref:
            bad.append(dict(kind="clustering by job id depends on how the events are interleaved", events=evs, clusters=impl))
        rows.append("(" + coq_list([f"({j}%positive, {e}%nat)" for j, e in evs]) + ", "
                    + coq_list([f"({j}%positive, {coq_list([f'{e}%nat' for e in l])})" for j, l in impl]) + ")")
    body = ";\n ".join(rows)
    ok, o = common.coq_eval("C03cluster", f"""From Coq Require Import List PArith Bool Arith. Import ListNotations.
From V Require Import Pv.Files.
Definition cases : list (list (positive * nat) * list (positive * list nat)) := [
 {body}].
Fixpoint leqb {{A}} (f : A -> A -> bool) (a b : list A) := match a, b with [], [] => true | x :: a', y :: b' => f x y && leqb f a' b' | _, _ => false end.
Definition idx {{A}} (f : A -> bool) (l : list A) : list nat := map fst (filter (fun p => negb (f (snd p))) (combine (seq 0 (length l)) l)).
Eval vm_compute in (1%nat, idx (fun c => leqb (fun x y => Pos.eqb (fst x) (fst y) && leqb Nat.eqb (snd x) (snd y)) (cluster nat (fst c)) (snd c)) cases).
""")
    l = common.parse_nat_list(o, "1") if ok else None
    return dict(cases=n, bad=bad, disagreements=l if l is not None else [], coq_failure=None if l is not None else o[-500:])


def run(out, explore=0):
    okp = common.proof_obligations(out, "C03")
    quick = out.tier == "quick"
    variants = (0, 1, 2, 3, 4, 5, 8, 9, 10, 11) if quick else tuple(range(12))
    pool, recs, items = L.build_items(out, "C03", explore or 50, variants=variants)
    # definitions with the same event type in two branches of one fork before the merge (outside the letter of F, the
    # shape of the corpus' merge_from_similar_paths / multiple_same_event cases); frozen pool harness/pool/R.jsonl
    import json as _json
    from pathlib import Path as _Path
    rpool = [_json.loads(l) for l in (_Path(__file__).resolve().parent / "pool" / "R.jsonl").read_text().splitlines() if l.strip()]
    # and "bunched" definitions: a branch that begins with a nested fork, again with an event type shared by two
    # branches (the shape of the corpus' bunched_* cases combined with similar paths); frozen pool harness/pool/B.jsonl
    bpool = [_json.loads(l) for l in (_Path(__file__).resolve().parent / "pool" / "B.jsonl").read_text().splitlines() if l.strip()]
    # and loop-rich definitions (a loop on another loop's break path, two loops after one event): frozen pool harness/pool/L.jsonl
    lpool = [_json.loads(l) for l in (_Path(__file__).resolve().parent / "pool" / "L.jsonl").read_text().splitlines() if l.strip()]
    extra = L.select(rpool, out.seed + 2, out.tier, 40) + L.select(bpool, out.seed + 3, out.tier, 60) + L.select(lpool, out.seed + 4, out.tier, 40)
    # always: the pool-B definitions in which an event type occurs in two or more, but not all, branches of an AND/OR fork of
    # three or more branches (successor / predecessor sets that mix a repeated with a non-repeated type)
    have = {r["id"] for r in extra}
    extra += [r for r in bpool if r["id"] not in have and mixed_repeat(r["d"])]
    for rec in extra:
        jobs = L.complete_jobs(rec)
        recs.append(rec)
        for v in variants:
            items.append(dict(rec=rec, jobs=jobs, variant=v, subset=False))
    L.learn(items)
    pre = [L.pre_check(it) for it in items]
    # compare every variant with variant 0 of the same definition
    base = {}
    for i, it in enumerate(items):
        if it["variant"] == 0:
            base[it["rec"]["id"]] = i
    other = {}
    for i, it in enumerate(items):
        b = base[it["rec"]["id"]]
        if it["variant"] != 0 and items[b].get("tokens") and it.get("tokens"):
            other[i] = items[b]["tokens"]
    todo = [dict(it) for it in items]
    certs, fails = L.coq_certify(items, want=("c05",), other=other) if okp else ({}, [])
    n_viol, kinds, failing = 0, {}, []
    for i, it in enumerate(items):
        if it["variant"] == 0:
            continue
        b = base[it["rec"]["id"]]
        s0 = pre[b] or (None if certs.get(b, {}).get("c05", False) else "malformed")
        sv = pre[i] or (None if certs.get(i, {}).get("c05", False) else "malformed")
        kind = None
        if (s0 is None) != (sv is None):
            kind = f"success-on-one-presentation-failure-on-another:{s0}|{sv}"
        elif s0 is None and i in certs:
            e1, e1u, e2, e2u = certs[i]["eq"]
            if e1 or e2:
                kind = f"different-language:{e1[:3]}|{e2[:3]}"
        if kind is None:
            continue
        kinds[kind.split(":")[0]] = kinds.get(kind.split(":")[0], 0) + 1
        key = L.finding_key("C03", it["rec"]["id"], it["variant"], kind.split(":")[0])
        failing.append(dict(key=key, kind=kind, events=it["rec"]["events"]))
        f = out.match_finding(key)
        if f:
            out.known_finding(f"{key} {f.get('what', '')[:120]}")
        elif n_viol < 4:
            n_viol += 1
            out.violation(dict(kind=kind, key=key, **L.describe(it), baseline_output=items[b].get("text"),
                               presentation=L.VARIANTS[it["variant"]], env=L.VARIANT_ENV[it["variant"]], certificate=certs.get(i)))
    if okp and fails and not out.violations:
        out.violation({"kind": "certificate-evaluation-failed", "coq_failures": fails[:2]}, no_failing_input=True)
    leg = ingestion_leg(out, 120 if quick else 2000) if okp else None
    if leg:
        for b in leg["bad"][:2]:
            out.violation(b)
        if (leg["disagreements"] or leg["coq_failures"]) and not out.violations:
            out.violation({"kind": "correspondence-broken",
                           "relation": "update_and_create_events_from_clustered_pvevents == V.Pv.EventModel.ingest (job graphs with same-typed siblings)",
                           "disagreements": leg["disagreements"][:5], "coq_failures": leg["coq_failures"][:2]}, no_failing_input=True)
    fl = files_leg(out, [r for r in recs if not str(r["id"]).startswith("K:")], 16 if quick else 150) if okp else None
    if fl:
        for k, name, why in fl["bad"][:3]:
            c = fl["cases"][k]
            key = L.finding_key("C03", c["rec"]["id"], name, "file-presentation")
            if out.match_finding(key):
                out.known_finding(key)
                continue
            out.violation(dict(kind="diagram depends on how the job set is laid out in files", key=key, presentation=name, why=why,
                               definition=P.show(c["rec"]["d"]), definition_id=c["rec"]["id"], jobs=c["jobs"], layout_seed=c["seed"],
                               baseline_output=fl["results"][k]["F0"]["text"], output=fl["results"][k][name]["text"]))
        if fl["coq_failures"] and not out.violations:
            out.violation({"kind": "certificate-evaluation-failed", "leg": "file presentations", "n": fl["coq_failures"]}, no_failing_input=True)
    cl = cluster_leg(out, 300 if quick else 5000) if okp else None
    if cl:
        for b in cl["bad"][:2]:
            out.violation(b)
        if (cl["disagreements"] or cl["coq_failure"]) and not out.violations:
            out.violation({"kind": "correspondence-broken", "relation": "cluster_events_by_job_id == V.Pv.Files.cluster (order of jobs and of events included)",
                           "disagreements": cl["disagreements"][:5], "coq_failure": cl["coq_failure"]}, no_failing_input=True)
    sample = next((it for it in items if it.get("text") and it["variant"] == 5), items[0])
    out.coverage.update({
        "programs": sum(1 for it in items if it.get("tokens")), "disagreements_checked": sum(kinds.values()),
        "samples": [dict(definition=P.show(sample["rec"]["d"]), variant=sample["variant"], presentation=L.VARIANTS[sample["variant"]],
                         env=dict(zip(("PYTHONHASHSEED", "uuid_seed"), L.VARIANT_ENV[sample["variant"]])), output=sample.get("text"))],
        "exhaustive": False, "definitions": len(recs), "learner_runs": len(items), "variants": {v: list(L.VARIANTS[v]) + list(L.VARIANT_ENV[v]) for v in variants},
        "failure_kinds": kinds, "failing_keys": failing, "pairs_compared": len(other),
        "ingestion_leg": None if not leg else dict(cases=leg["cases"], presentation_dependent=len(leg["bad"]), model_disagreements=len(leg["disagreements"])),
        "traces_validated_against_impl": (leg["cases"] if leg else 0) + (cl["cases"] if cl else 0),
        "cluster_leg": None if not cl else dict(cases=cl["cases"], interleaving_dependent=len(cl["bad"]), model_disagreements=len(cl["disagreements"])),
        "file_presentation_leg": None if not fl else dict(definitions=len(fl["cases"]), cli_runs=4 * len(fl["cases"]), rejected=len(fl["bad"]),
                                                          pairs_compared_in_coq=fl["pairs"],
                                                          layouts="F0 array file per job; F1 files listed shuffled + events shuffled inside; "
                                                                  "F2 one event per file with -group-by-job, job by job; F3 the same files interleaved"),
        "evaluations": len(items), "distinct_nontrivial": len({it["rec"]["id"] for it in items if it["rec"]["events"] >= 4}),
        "rule": "pool slice + the 63 corpus definitions + 40 (thorough: 250) definitions of the frozen pool R (same event type in two branches of a fork) + 60 (thorough: 143) of the frozen pool B (a branch beginning with a nested fork, plus a shared event type) + 40 (thorough: 300) of the frozen pool L (loops on break paths, two loops after one event) x presentation variants (job permutation, event permutation inside jobs, id renaming + time shift, job-local event ids (e0, e1, ... in every job), a job "
                "supplied twice, PYTHONHASHSEED in {0,1,2,3,12345} (thorough: also 777, 4242) in separate processes, distinct uuid streams); each variant "
                "compared with variant 0 by two-way bounded language inclusion in coqc",
        "trusted_base": common.std_trusted_base(["validators as in C01/C02; presentation variants derived from (definition id, variant)"]),
    })
    out.assumptions += ["schedule = container iteration order driven by hash seed and uuid stream; sampled, not enumerated"]


def replay(out, rp):
    out.coverage.update({"programs": 1, "disagreements_checked": 0, "samples": [rp]})
    print(rp.get("definition")); print(rp.get("output")); print(rp.get("baseline_output"))
