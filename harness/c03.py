"""C03 - diagram independent of order, identifiers, repeats and hash seed (translation validation
for the schedule-dependent part; the ingestion algebra is proved in Properties/C03.v)."""
from . import common, learnlib as L, pumllib as P

LEVEL = "translation_validation"


def run(out, explore=0):
    okp = common.proof_obligations(out, "C03")
    quick = out.tier == "quick"
    variants = (0, 1, 2, 3, 4, 5) if quick else tuple(range(8))
    pool, recs, items = L.build_items(out, "C03", explore or 50, variants=variants)
    # definitions with the same event type in two branches of one fork before the merge (outside the letter of F, the
    # shape of the corpus' merge_from_similar_paths / multiple_same_event cases); frozen pool harness/pool/R.jsonl
    import json as _json
    from pathlib import Path as _Path
    rpool = [_json.loads(l) for l in (_Path(__file__).resolve().parent / "pool" / "R.jsonl").read_text().splitlines() if l.strip()]
    # and "bunched" definitions: a branch that begins with a nested fork, again with an event type shared by two
    # branches (the shape of the corpus' bunched_* cases combined with similar paths); frozen pool harness/pool/B.jsonl
    bpool = [_json.loads(l) for l in (_Path(__file__).resolve().parent / "pool" / "B.jsonl").read_text().splitlines() if l.strip()]
    for rec in L.select(rpool, out.seed + 2, out.tier, 40) + L.select(bpool, out.seed + 3, out.tier, 60):
        jobs = L.complete_jobs(rec)
        recs.append(rec)
        for v in variants:
            items.append(dict(rec=rec, jobs=jobs, variant=v, subset=False))
    L.learn(items)
    pre = [L.pre_check(it) for it in items]
    # compare every variant with variant 0 of the same definition
    base = {}
    for i, it in enumerate(items):
        if it["variant"] == 0:
            base[it["rec"]["id"]] = i
    other = {}
    for i, it in enumerate(items):
        b = base[it["rec"]["id"]]
        if it["variant"] != 0 and items[b].get("tokens") and it.get("tokens"):
            other[i] = items[b]["tokens"]
    todo = [dict(it) for it in items]
    certs, fails = L.coq_certify(items, want=("c05",), other=other) if okp else ({}, [])
    n_viol, kinds, failing = 0, {}, []
    for i, it in enumerate(items):
        if it["variant"] == 0:
            continue
        b = base[it["rec"]["id"]]
        s0 = pre[b] or (None if certs.get(b, {}).get("c05", False) else "malformed")
        sv = pre[i] or (None if certs.get(i, {}).get("c05", False) else "malformed")
        kind = None
        if (s0 is None) != (sv is None):
            kind = f"success-on-one-presentation-failure-on-another:{s0}|{sv}"
        elif s0 is None and i in certs:
            e1, e1u, e2, e2u = certs[i]["eq"]
            if e1 or e2:
                kind = f"different-language:{e1[:3]}|{e2[:3]}"
        if kind is None:
            continue
        kinds[kind.split(":")[0]] = kinds.get(kind.split(":")[0], 0) + 1
        key = L.finding_key("C03", it["rec"]["id"], it["variant"], kind.split(":")[0])
        failing.append(dict(key=key, kind=kind, events=it["rec"]["events"]))
        f = out.match_finding(key)
        if f:
            out.known_finding(f"{key} {f.get('what', '')[:120]}")
        elif n_viol < 4:
            n_viol += 1
            out.violation(dict(kind=kind, key=key, **L.describe(it), baseline_output=items[b].get("text"),
                               presentation=L.VARIANTS[it["variant"]], env=L.VARIANT_ENV[it["variant"]], certificate=certs.get(i)))
    if okp and fails and not out.violations:
        out.violation({"kind": "certificate-evaluation-failed", "coq_failures": fails[:2]}, no_failing_input=True)
    sample = next((it for it in items if it.get("text") and it["variant"] == 5), items[0])
    out.coverage.update({
        "programs": sum(1 for it in items if it.get("tokens")), "disagreements_checked": sum(kinds.values()),
        "samples": [dict(definition=P.show(sample["rec"]["d"]), variant=sample["variant"], presentation=L.VARIANTS[sample["variant"]],
                         env=dict(zip(("PYTHONHASHSEED", "uuid_seed"), L.VARIANT_ENV[sample["variant"]])), output=sample.get("text"))],
        "exhaustive": False, "definitions": len(recs), "learner_runs": len(items), "variants": {v: list(L.VARIANTS[v]) + list(L.VARIANT_ENV[v]) for v in variants},
        "failure_kinds": kinds, "failing_keys": failing, "pairs_compared": len(other),
        "evaluations": len(items), "distinct_nontrivial": len({it["rec"]["id"] for it in items if it["rec"]["events"] >= 4}),
        "rule": "pool slice + the 63 corpus definitions + 40 (thorough: 250) definitions of the frozen pool R (same event type in two branches of a fork) + 60 (thorough: 143) of the frozen pool B (a branch beginning with a nested fork, plus a shared event type) x presentation variants (job permutation, event permutation inside jobs, id renaming + time shift, a job "
                "supplied twice, PYTHONHASHSEED in {0,1,12345,777,4242} in separate processes, distinct uuid streams); each variant "
                "compared with variant 0 by two-way bounded language inclusion in coqc",
        "trusted_base": common.std_trusted_base(["validators as in C01/C02; presentation variants derived from (definition id, variant)"]),
    })
    out.assumptions += ["schedule = container iteration order driven by hash seed and uuid stream; sampled, not enumerated"]


def replay(out, rp):
    out.coverage.update({"programs": 1, "disagreements_checked": 0, "samples": [rp]})
    print(rp.get("definition")); print(rp.get("output")); print(rp.get("baseline_output"))
