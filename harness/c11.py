"""C11 - cleaning removes exactly the broken or out-of-window traces.

Theorems: coq/theories/Properties/C11.v about V.Store.Clean (+ Stream for the frame theorem).
Correspondence: the three real cleaning calls in otel_to_pv's order on generated stores vs
`clean (window ...)` evaluated in coqc; table compared row by row.  Failing-input search: the
property evaluated in Python (dangling / window / root-name rules) and the counterfactual run
('had the removed traces never been ingested', same window) through stream_data + the sequencer."""
from __future__ import annotations

import os
import random
from . import common, storelib as S
from .common import coq_z

LEVEL = "proof"
MIN = 60 * 10**9


def gen_cases(out, explore):
    rnd = random.Random(out.seed * 3571 + 11)
    quick = out.tier == "quick"
    n_cases = explore or (150 if quick else 4000)
    cases = []
    for _ in range(n_cases):
        buf = rnd.choice([0, 1, 5])
        # realistic epochs are not multiples of 256 ns (above 2^53 a float cannot hold them): half of the epoch stores are jittered
        t0 = rnd.choice([0, 1_700_000_000 * 10**9, 1_700_000_000 * 10**9 + rnd.randrange(1, 10**9), 1_723_456_789 * 10**9 + rnd.randrange(1, 10**9)])
        extent = rnd.choice([3, 12, 30]) * MIN + rnd.choice([0, rnd.randrange(1, 1000)])
        lo, hi = t0 + buf * MIN, t0 + extent - buf * MIN
        ntr = rnd.choice([2, 3, 5, 8])
        traces, nid = [], 1
        # anchor spans so that the ingestion extent is exactly [t0, t0+extent]
        anchors = [dict(id=nid, par=None, job=900, name=9, ty=1, st=t0, en=t0 + 1, app=1),
                   dict(id=nid + 1, par=None, job=901, name=9, ty=1, st=t0 + extent - 1, en=t0 + extent, app=1)]
        nid += 2
        for t in range(ntr):
            kind = rnd.choice(["in", "in", "dangling", "names", "dangling_names", "before", "after", "straddle", "touch_lo", "touch_hi", "edge_out"])
            n = rnd.choice([1, 2, 3, 5])
            tr = S.gen_trace(rnd, job=1 + t, name=1 + rnd.randrange(3), first_id=nid, n=n,
                             dangling=(kind in ("dangling", "dangling_names")), names_inconsistent=(kind in ("names", "dangling_names")))
            nid += n
            if rnd.random() < 0.3 and tr and tr[0]["par"] is None:
                tr[0]["par"] = 0        # the root's missing parent written as "" (the usual OTLP JSON spelling) instead of null
            for e in tr:
                if kind in ("in", "dangling", "names", "dangling_names"):
                    e["st"] = rnd.randrange(t0, t0 + extent)
                    e["en"] = min(t0 + extent, e["st"] + rnd.randrange(0, MIN))
                elif kind == "before":
                    e["st"] = rnd.randrange(t0, max(t0 + 1, lo))
                    e["en"] = rnd.randrange(e["st"], max(e["st"] + 1, lo))
                elif kind == "after":
                    e["st"] = rnd.randrange(min(hi + 1, t0 + extent - 1), t0 + extent)
                    e["en"] = rnd.randrange(e["st"], t0 + extent + 1)
                elif kind == "straddle":
                    e["st"] = max(t0, lo - 1 - rnd.randrange(3))
                    e["en"] = min(t0 + extent, hi + 1 + rnd.randrange(3))
                elif kind == "touch_lo":
                    e["st"] = max(t0, lo - rnd.randrange(3))
                    e["en"] = max(e["st"], lo + rnd.choice([-1, 0, 0, 1]))
                elif kind == "touch_hi":
                    e["st"] = min(t0 + extent, hi + rnd.choice([-1, 0, 0, 1]))
                    e["en"] = min(t0 + extent, e["st"] + rnd.randrange(3))
                elif kind == "edge_out":
                    e["st"] = max(t0, lo - 1)
                    e["en"] = max(t0, lo - 1)
                e["en"] = max(e["en"], e["st"])
            traces.append(tr)
        flat = list(anchors)
        pools = [list(t) for t in traces]
        while any(pools):
            p = rnd.choice([q for q in pools if q])
            flat.append(p.pop(0))
        order = rnd.choice(["chrono", "chrono", "shuffled", "newest_first", "long_first"])
        if order == "shuffled":
            rnd.shuffle(flat)
        elif order == "newest_first":
            flat.sort(key=lambda e: -e["st"])
        elif order == "long_first":
            # a long-running span that is both the earliest start and the latest end arrives first
            flat = [dict(id=nid, par=None, job=902, name=9, ty=1, st=t0, en=t0 + extent, app=1)] + flat[2:]
            nid += 1
        vic = [i for i, e in enumerate(flat) if e["par"] is not None and e["par"] >= 900000]
        if vic and vic[0] >= 4 and rnd.random() < 0.6:
            # a span stored batches ago is delivered again right next to a span whose parent was never exported
            flat.insert(vic[0] + rnd.choice([0, 1]), dict(flat[rnd.randrange(2, vic[0] - 1)]))
        elif rnd.random() < 0.3 and len(flat) > 4:      # a span delivered twice (at-least-once delivery), the copy some batches later
            i = rnd.randrange(2, len(flat) - 1)
            flat.insert(rnd.randrange(i + 1, len(flat) + 1), dict(flat[i]))
        cases.append(dict(events=flat, buf=buf, bs=rnd.choice([1, 2, 3, 1000])))
    return cases


def clean_impl(h):
    h.remove_inconsistent_jobs()
    h.remove_jobs_outside_of_time_window()
    h.update_job_names_by_root_span()


def pv_of(h):
    """stream + sequencer, as otel_to_pv does (sync mode, no config); canonical, sorted"""
    from tel2puml.otel_to_pv.sequence_otel import sequence_otel_job_id_streams
    out = []
    for name, jobs in h.stream_data(None):
        for job in sequence_otel_job_id_streams(jobs):
            try:
                evs = sorted((e["eventId"], e["eventType"], tuple(sorted(e["previousEventIds"])), e["timestamp"],
                              e["jobId"], e["jobName"], e["applicationName"]) for e in job)
            except Exception as ex:  # noqa
                evs = ["ERR:" + type(ex).__name__]
            out.append((name, evs))
    return sorted(out, key=repr)


def run_impl(case, d, k):
    path = str(d / f"s{k}.db")
    h = S.holder(f"sqlite:///{path}", case["bs"], case["buf"])
    st = S.ingest(h, case["events"])
    before = S.read_tables(path)
    res = dict(status=st)
    try:
        clean_impl(h)
        res["status"] = "ok"
    except ValueError:
        res["status"] = "ValueError"
    except Exception as e:  # noqa
        res["status"] = "ERR:" + type(e).__name__
    res["mn"], res["mx"] = h._min_timestamp, h._max_timestamp
    nodes, assoc, _ = S.read_tables(path)
    res["nodes"], res["assoc"], res["before"] = nodes, assoc, before
    if res["status"] == "ok":
        res["pv"] = pv_of(h)
        # counterfactual: only the kept traces are ever ingested; same window (trackers copied)
        kept = {e["job"] for e in nodes}
        path2 = str(d / f"c{k}.db")
        h2 = S.holder(f"sqlite:///{path2}", case["bs"], case["buf"])
        S.ingest(h2, [e for e in case["events"] if e["job"] in kept])
        h2._min_timestamp, h2._max_timestamp = h._min_timestamp, h._max_timestamp
        try:
            clean_impl(h2)
            res["pv_cf"] = pv_of(h2)
        except Exception as e:  # noqa
            res["pv_cf"] = "ERR:" + type(e).__name__
        h2.session.close()
        h2.engine.dispose()
        os.remove(path2)
    h.session.close()
    h.engine.dispose()
    os.remove(path)
    return res


def driver_leg(out, n):
    """Cleaning as the tool performs it: otel_to_pv(config, ingest_data=True) twice on one persistent store, first with Monday's
    traces, then with Tuesday's (disjoint, later).  The window of the second run comes from what IT ingested, so afterwards
    the store must hold exactly the non-dangling Tuesday traces with a span start or end inside [min+b, max-b]."""
    import contextlib, io, yaml
    from . import clilib as C
    from tel2puml.otel_to_pv.config import IngestDataConfig
    from tel2puml.otel_to_pv.otel_to_pv import otel_to_pv
    rnd = random.Random(out.seed * 91373 + 111)
    bad = []
    for k in range(n):
        buf = rnd.choice([0, 0, 1])
        t0 = 1_700_000_000 * 10**9 + rnd.randrange(1, 10**9)
        days, nid = [], 1
        for day in range(2):
            base = t0 + day * 3600 * 10**9
            evs = []
            for t in range(rnd.choice([2, 3, 4])):
                n_sp = rnd.choice([1, 2, 3])
                tr = S.gen_trace(rnd, job=100 * day + t + 1, name=1 + rnd.randrange(2), first_id=nid, n=n_sp, dangling=(rnd.random() < 0.2))
                for e in tr:
                    e["st"] = base + rnd.randrange(0, 10 * MIN)
                    e["en"] = e["st"] + rnd.randrange(0, MIN)
                nid += n_sp
                evs += tr
            days.append(evs)
        with common.Scratch("c11d") as d:
            db = d / "store.db"
            status = []
            for day, evs in enumerate(days):
                dd = d / f"day{day}"
                dd.mkdir()
                data = C.write_dataset(dd, evs)
                cfg = yaml.safe_load(C.write_config(dd, data, db, bs=rnd.choice([2, 1000]), buf=buf).read_text())
                try:
                    with contextlib.redirect_stdout(io.StringIO()), contextlib.redirect_stderr(io.StringIO()):
                        for _name, jobs in otel_to_pv(IngestDataConfig(**cfg), ingest_data=True):
                            for job in jobs:
                                list(job)
                    status.append("ok")
                except Exception as e:  # noqa
                    status.append("ERR:" + type(e).__name__)
            nodes, assoc, _ = S.read_tables(str(db))
        evs2 = days[1]
        mn, mx = min(e["st"] for e in evs2), max(e["en"] for e in evs2)
        lo, hi = mn + buf * MIN, mx - buf * MIN
        mn1, mx1 = min(e["st"] for e in days[0]), max(e["en"] for e in days[0])
        if lo >= hi or mn1 + buf * MIN >= mx1 - buf * MIN:
            continue        # a day whose extent is shorter than two buffers legitimately raises "time buffer too large"
        ids2 = {e["id"] for e in evs2}
        dangling = {e["job"] for e in evs2 if e["par"] is not None and e["par"] not in ids2}
        keep = {e["job"] for e in evs2 if e["job"] not in dangling and (lo <= e["st"] <= hi or lo <= e["en"] <= hi)}
        want = sorted(e["id"] for e in evs2 if e["job"] in keep)
        got = sorted(e["id"] for e in nodes)
        if status != ["ok", "ok"] or got != want:
            bad.append(dict(kind="store after a second ingesting run differs from 'the non-dangling traces of that run inside its window'",
                            time_buffer=buf, first_run=days[0], second_run=days[1], status=status, stored_span_ids=got, expected_span_ids=want))
    return dict(cases=n, bad=bad)


def oracle(case, res):
    nodes0, assoc0, _ = res["before"]
    b = case["buf"] * MIN
    mn, mx = min(e["st"] for e in case["events"]), max(e["en"] for e in case["events"])   # the ingestion extent itself
    emn = 0 if mn > mx else mn
    emx = 2**63 - 1 if mx < mn else mx
    lo, hi = emn + b, emx - b
    if lo >= hi:
        return None if res["status"] == "ValueError" else "time buffer too large but no ValueError"
    if res["status"] != "ok":
        return f"cleaning raised {res['status']}"
    ids = {e["id"] for e in nodes0}
    dangling_jobs = {e["job"] for e in nodes0 if e["par"] is not None and e["par"] not in ids}
    inwin = {e["job"] for e in nodes0 if e["job"] not in dangling_jobs and (lo <= e["st"] <= hi or lo <= e["en"] <= hi)}
    want = [dict(e) for e in nodes0 if e["job"] in inwin]
    roots = {}
    for e in want:
        if e["par"] is None:
            roots.setdefault(e["job"], []).append(e["name"])
    for e in want:
        if len(roots.get(e["job"], [])) == 1:
            e["name"] = roots[e["job"]][0]
    got = res["nodes"]
    if [e["id"] for e in got] != [e["id"] for e in want]:
        gone = sorted(set(e["id"] for e in want) - set(e["id"] for e in got))
        extra = sorted(set(e["id"] for e in got) - set(e["id"] for e in want))
        return f"surviving spans differ from 'non-dangling traces with a span start or end in [{lo},{hi}]': missing {gone}, unexpected {extra}"
    for g, w in zip(got, want):
        if len(roots.get(g["job"], [])) == 1 and g != w:
            return f"span {g['id']} differs after cleaning: {g} expected {w}"
        if len(roots.get(g["job"], [])) != 1 and {k: v for k, v in g.items() if k != "name"} != {k: v for k, v in w.items() if k != "name"}:
            return f"span {g['id']}: a field other than the workflow name changed"
    stale = [(p, c) for p, c in res["assoc"] if c not in {e["id"] for e in got}]
    if stale:
        return f"association rows left for spans that were deleted: {stale[:3]} (re-ingesting those spans would fail)"
    if res.get("pv_cf") is not None and res["pv"] != res["pv_cf"]:
        return "PV sequences differ from those produced had the removed traces never been ingested"
    return None


def cases_v(items) -> str:
    rows = []
    for case, res in items:
        nodes0, assoc0, _ = res["before"]
        exp = "None" if res["status"] != "ok" else f"(Some ({S.coq_nodes(res['nodes'])}, {S.coq_pairs(res['assoc'])}))"
        rows.append(f"(({coq_z(case['buf'])}, {S.coq_nodes([dict(e, par=e['par'] or None) for e in case['events']])}, {S.coq_store(nodes0, assoc0)}), {exp})")
    body = ";\n ".join(rows)
    return f"""From Coq Require Import ZArith List Bool. Import ListNotations.
From V Require Import Store.Rel Store.Clean.
Open Scope positive_scope.
Definition run (c : Z * list node * store) : option (list node * list (positive * positive)) :=
  let '(b, evs, st) := c in
  match window b (fst (track evs)) (snd (track evs)) with Some w => Some (db (clean w st), assoc (clean w st)) | None => None end.
Definition oeq (a b : option (list node * list (positive * positive))) : bool :=
  match a, b with
  | Some x, Some y => list_eqb node_eqb (fst x) (fst y) && list_eqb pair_eqb (snd x) (snd y)
  | None, None => true | _, _ => false end.
Definition cases : list ((Z * list node * store) * option (list node * list (positive * positive))) := [
 {body}].
Eval vm_compute in (1%nat, idx (fun c => oeq (run (fst c)) (snd c)) cases).
"""


def run(out: common.Outcome, explore: int = 0) -> None:
    common.setup_impl_path()
    ok = common.proof_obligations(out, "C11")
    import tel2puml.events  # noqa: F401
    import logging
    logging.disable(logging.CRITICAL)
    cases = gen_cases(out, explore)
    items, bad = [], []
    with common.Scratch("c11") as d:
        for k, case in enumerate(cases):
            res = run_impl(case, d, k)
            why = oracle(case, res)
            if why:
                bad.append((k, why))
            items.append((case, res))
    # correspondence only where each trace has at most one root (SQLite's UPDATE FROM picks arbitrarily otherwise)
    shard = 30
    files = [(f"S{k}", cases_v(items[k:k + shard])) for k in range(0, len(items), shard)]
    res = common.coq_eval_many(files) if ok else []
    dis, coq_fail = [], []
    for (name, _), (okc, o) in zip(files, res):
        l = common.parse_nat_list(o, "1")
        if not okc or l is None:
            coq_fail.append((name, o[-800:]))
            continue
        dis += [int(name[1:]) + i for i in l]
    for k, why in bad[:3]:
        r = items[k][1]
        out.violation({"kind": "cleaning violates the property", "why": why, "case": cases[k],
                       "nodes_after": r["nodes"], "status": r["status"]})
    import logging
    logging.disable(logging.CRITICAL)
    dl = driver_leg(out, 12 if out.tier == "quick" else 150)
    for b in dl["bad"][:2]:
        out.violation(b)
    out.coverage["driver_leg"] = dict(two_run_stores=dl["cases"], rejected=len(dl["bad"]))
    if ok and not out.violations and (dis or coq_fail):
        out.violation({"kind": "correspondence-broken",
                       "relation": "nodes and NODE_ASSOCIATION tables after the three cleaning calls == db/assoc of V.Store.Clean.clean (window buf min max) store",
                       "first_disagreements": [{"case": items[k][0], "nodes_after": items[k][1]["nodes"]} for k in dis[:3]],
                       "coq_failures": coq_fail[:2]}, no_failing_input=True)
    removed = sum(1 for c, r in items if r["status"] == "ok" and len(r["nodes"]) < len(r["before"][0]))
    keys = {repr(c) for c, r in items if r["status"] == "ok" and 0 < len(r["nodes"]) < len(r["before"][0])}
    out.coverage.update({
        "evaluations": len(cases), "distinct_nontrivial": len(keys),
        "rule": "random stores mixing complete traces (30% with the root's parent written as the empty string), dangling-parent traces, inconsistent workflow names, traces before / after / "
                "straddling / touching the buffered window bounds (stamps placed on and next to lo and hi), time_buffer in {0,1,5} "
                "minutes, nanosecond stamps from 0 and from 1.7e18; non-trivial = cleaning removed some but not all spans",
        "samples": [{"case": cases[0]}],
        "traces_validated_against_impl": len(items) - len(coq_fail) * shard,
        "cases_with_removals": removed, "value_errors": sum(1 for _, r in items if r["status"] == "ValueError"),
        "counterfactual_runs": sum(1 for _, r in items if r.get("pv_cf") is not None),
        "model_impl_disagreements": len(dis), "oracle_rejections": len(bad),
        "trusted_base": common.std_trusted_base([
            "SQLite semantics of NOT EXISTS / JOIN / GROUP BY HAVING count(filter) / UPDATE FROM as modelled, tied by this correspondence",
        ]),
    })
    out.assumptions += ["the counterfactual store ('removed traces never ingested') is cleaned under the SAME window as the original "
                        "(DESIGN 4/C11); traces have exactly one root span for the name rule"]


def replay(out: common.Outcome, rp: dict) -> None:
    if "second_run" in rp:
        print(rp["kind"], rp["stored_span_ids"], "expected", rp["expected_span_ids"])
        out.coverage.update({"evaluations": 1, "distinct_nontrivial": 0, "rule": "replay", "samples": [rp["kind"]]})
        return
    common.setup_impl_path()
    import tel2puml.events  # noqa
    with common.Scratch("c11r") as d:
        res = run_impl(rp["case"], d, 0)
    why = oracle(rp["case"], res)
    print("status", res["status"], "nodes after", res["nodes"])
    print("verdict:", why)
    if why:
        out.violation(rp)
    out.coverage.update({"evaluations": 1, "distinct_nontrivial": 0, "rule": "replay", "samples": [rp]})
