"""Setup-time self test: hygiene grep over the Coq sources and janus-shim sanity."""
import sys
from . import common


def main() -> int:
    bad = common.hygiene()
    if bad:
        print("hygiene failures:\n" + "\n".join(bad))
        return 1
    common.setup_impl_path()
    import tel2puml.events  # noqa: F401
    from tel2puml.pv_to_puml.pv_to_puml import pv_to_puml_string
    jobs = []
    for j, mid in enumerate(["B", "C"]):
        ids = [f"{j}_{k}" for k in range(3)]
        types = ["A", mid, "D"]
        jobs.append([dict(jobId=f"j{j}", jobName="n", eventId=ids[k], eventType=types[k],
                          timestamp="2023-09-25T10:58:06.059959Z", applicationName="a",
                          previousEventIds=[ids[k - 1]] if k else []) for k in range(3)])
    txt = pv_to_puml_string(jobs, "n")
    need = [":A;", ":B;", ":C;", ":D;", "switch (XOR)", "endswitch"]
    if not all(n in txt for n in need):
        print("shim self-test failed:\n" + txt)
        return 1
    print("selftest ok")
    return 0


if __name__ == "__main__":
    sys.exit(main())
