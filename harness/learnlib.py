"""Engine shared by C01, C02, C03, C05 (and C04/C14 for diagram comparison): frozen pool, variants,
running the learner, and certifying its outputs in coqc with the validators of V.Puml.*."""
from __future__ import annotations

import ast
import hashlib
import json
import random
import re
from pathlib import Path

from . import common, pumllib as P
from .common import coq_list

POOL = Path(__file__).resolve().parent / "pool" / "F.jsonl"
KMAX, CAP = 3, 4000


def load_pool():
    return [json.loads(l) for l in POOL.read_text().splitlines() if l.strip()]


def select(pool, seed, tier, n_quick):
    if tier == "thorough":
        return list(pool)
    rnd = random.Random(seed * 1299709 + 5)
    # stratified by size so that every run sees small, medium and large definitions
    idx = list(range(len(pool)))
    strata = [idx[i::6] for i in range(6)]
    out = []
    for s in strata:
        out += rnd.sample(s, min(len(s), n_quick // 6 + 1))
    return [pool[i] for i in sorted(out)[:n_quick]]


def complete_jobs(rec, k=2):
    return P.dedup_jobs(P.jobs_of(k, rec["d"], cap=5000))


def present(jobs, variant, seed_material):
    """PV event dicts for a job list under a presentation variant; deterministic in (definition, variant)"""
    h = int(hashlib.sha256(f"{seed_material}:{variant}".encode()).hexdigest()[:12], 16)
    rnd = random.Random(h)
    jobs = list(jobs)
    idx = list(range(len(jobs)))
    kinds = VARIANTS[variant]
    if "dup" in kinds and jobs:
        idx.append(rnd.randrange(len(jobs)))
    if "perm" in kinds:
        rnd.shuffle(idx)
    out = []
    for pos, ji in enumerate(idx):
        evs = P.pv_events(jobs[ji], pos, "wf", rnd=rnd if ("rename" in kinds or "perm" in kinds) else None,
                          idprefix="r" if "rename" in kinds else "", t0=(rnd.randrange(3000) if "rename" in kinds else 0),
                          local_ids="local" in kinds)
        out.append(evs)
    return out


# variant -> (transformations, PYTHONHASHSEED, uuid seed)
VARIANTS = {
    0: ((), 0, 1),
    1: (("perm",), 0, 1),
    2: (("rename",), 0, 1),
    3: (("dup",), 0, 1),
    4: ((), 1, 2),
    5: (("perm", "rename", "dup"), 12345, 3),
    6: ((), 777, 4),
    7: (("perm",), 4242, 5),
    8: ((), 2, 6),
    9: (("perm",), 3, 7),
    10: (("local",), 0, 1),
    11: (("perm", "local", "dup"), 2, 6),
}
for _k, _v in list(VARIANTS.items()):
    VARIANTS[_k] = _v[0]
VARIANT_ENV = {0: (0, 1), 1: (0, 1), 2: (0, 1), 3: (0, 1), 4: (1, 2), 5: (12345, 3), 6: (777, 4), 7: (4242, 5), 8: (2, 6), 9: (3, 7), 10: (0, 1), 11: (2, 6)}


def learn(items):
    """items: list of dict(rec, jobs, variant). Adds 'text' or 'err'. Groups by interpreter environment."""
    by_env = {}
    for it in items:
        by_env.setdefault(VARIANT_ENV[it["variant"]], []).append(it)
    for (hs, us), group in by_env.items():
        reqs = [dict(name="wf", jobs=present(it["jobs"], it["variant"], it["rec"]["id"]), timeout=90,
                     useed=int(hashlib.sha256(it["rec"]["id"].encode()).hexdigest()[:8], 16)) for it in group]
        res = P.learn_many(reqs, hashseed=hs, uuid_seed=us)
        for it, r in zip(group, res):
            if "ok" in r:
                it["text"] = r["ok"]
                it["graph"] = r.get("graph")
            else:
                it["err"] = r["err"]
    return items


RESERVED = ("|||START|||", "|||END|||", "|||DUMMY|||", "DUMMY_BREAK", "LOOP_", "DUMMY")


def pre_check(it):
    """python-side part of the certificate: tokenization and reserved names"""
    if "err" in it:
        return "error:" + it["err"].split(":")[0]
    try:
        it["tokens"] = P.tokenize(it["text"])
    except ValueError as e:
        it["tokens"] = None
        return "unlexable:" + str(e)[:60]
    for k, a in it["tokens"]:
        if k == "TEvent" and (any(r in a for r in RESERVED) or "," in a):
            return f"placeholder-leak:{a[:30]}"
    return None


def coq_certify(items, want=("c05", "c01", "c02"), other=None):
    """For each item with tokens: evaluate in coqc
         c05: c05_ok name observed tokens
         c01: rejected_adaptive KMAX CAP (parsed tokens) jobs
         c02: incl_adaptive KMAX CAP 2 (parsed tokens) source
       `other`: optional dict item-index -> tokens of another learned diagram; then also
         eq : incl_adaptive both ways between the two parsed diagrams (for C03/C04/C14)
       returns dict index -> dict(c05=bool, rej=[..], rej_u=[..], ni=[..], ni_u=[..], eq=(a,au,b,bu))"""
    todo = [i for i, it in enumerate(items) if it.get("tokens")]
    shard = max(1, min(8, len(todo) // common.NPROC + 1))
    files = []
    for s in range(0, len(todo), shard):
        rows = []
        for i in todo[s:s + shard]:
            it = items[i]
            inter = P.Interner()
            inter(it.get("name", "wf"))
            src = P.coq_diagram(it["rec"]["d"], inter)
            jobs = coq_list([P.coq_job(j, inter) for j in it["jobs"]])
            toks = P.coq_tokens(it["tokens"], inter)
            otoks = P.coq_tokens(other[i], inter) if other and other.get(i) else "[]"
            observed = coq_list([f"{inter(t)}%positive" for t in sorted({t for j in it["jobs"] for t, _ in j})])
            rows.append(f"({i}%nat, {src}, {jobs}, {toks}, {otoks}, {observed})")
        body = ";\n ".join(rows)
        files.append((f"L{s}", f"""From Coq Require Import List PArith Bool Arith. Import ListNotations.
From V Require Import Puml.Ast Puml.Exec Puml.Canon Puml.Accept Puml.Syntax Puml.Parse Puml.FragmentF Puml.Check.
Open Scope positive_scope.
Definition b2n (b : bool) : nat := if b then 1%nat else 0%nat.
Definition cases : list (nat * diagram * list jobgraph * list token * list token * list evt) := [
 {body}].
Definition run (c : nat * diagram * list jobgraph * list token * list token * list evt) :=
  let '(i, src, js, ts, ots, obs) := c in
  let out := parsed ts in
  let c05 := b2n (c05_ok 1 obs ts) in
  let inF := b2n (inF_b src && wf src) in
  let c01 := {"rejected_adaptive %d %d out js" % (KMAX, CAP) if "c01" in want else "(@nil nat, @nil nat)"} in
  let c02 := {"incl_adaptive %d %d 2 out src" % (KMAX, CAP) if "c02" in want else "(@nil nat, @nil nat)"} in
  let eq1 := {"match ots with [] => (@nil nat, @nil nat) | _ => incl_adaptive %d %d 2 out (parsed ots) end" % (KMAX, CAP)} in
  let eq2 := {"match ots with [] => (@nil nat, @nil nat) | _ => incl_adaptive %d %d 2 (parsed ots) out end" % (KMAX, CAP)} in
  let oth := match ots with [] => 1%nat | _ => b2n (c05_ok 1 obs ots) end in
  (i, [c05; inF; oth], fst c01, snd c01, fst c02, snd c02, fst eq1, snd eq1, fst eq2, snd eq2).
Eval vm_compute in map run cases.
"""))
    res = common.coq_eval_many(files, timeout=1500)
    out, fails = {}, []
    for (name, _), (okc, o) in zip(files, res):
        parsed = _parse_rows(o) if okc else None
        if parsed is None:
            fails.append((name, o[-600:]))
            continue
        for row in parsed:
            i, flags, rej, rej_u, ni, ni_u, e1, e1u, e2, e2u = row
            out[i] = dict(c05=bool(flags[0]), inF=bool(flags[1]), other_ok=bool(flags[2]), rej=rej, rej_u=rej_u, ni=ni, ni_u=ni_u,
                          eq=(e1, e1u, e2, e2u))
    return out, fails


def _parse_rows(o: str):
    flat = re.sub(r"\s+", " ", o)
    m = re.search(r"= (\[.*\]) : list", flat)
    if not m:
        return None
    txt = re.sub(r"%\w+", "", m.group(1)).replace(";", ",")
    try:
        return ast.literal_eval(txt)
    except Exception:  # noqa
        return None


def finding_key(prop, rec_id, variant, kind):
    return f"{prop}:{rec_id}:v{variant}:{kind}"


def replay_item(out, rp, want, verdict):
    """re-run one (definition, job set, variant) from a replay file against /repo's working tree and re-certify it"""
    it = dict(rec=rp["rec"], jobs=[[(t, ps) for t, ps in j] for j in rp["jobs"]], variant=rp.get("variant", 0))
    learn([it])
    kind = pre_check(it)
    cert = None
    if kind is None:
        certs, _ = coq_certify([it], want=want)
        cert = certs.get(0)
        kind = verdict(it, cert) if cert else "certificate-evaluation-failed"
    print(P.show(it["rec"]["d"]))
    print(it.get("text") or it.get("err"))
    print("certificate:", cert)
    print("verdict:", kind or "property holds on this input")
    if kind:
        key = finding_key(out.pid, it["rec"]["id"], it["variant"], kind.split(":")[0])
        if out.match_finding(key):
            out.known_finding(key)
        else:
            out.violation(dict(rp, replayed_kind=kind))
    out.coverage.update({"programs": 1, "disagreements_checked": 1 if kind else 0, "samples": [describe(it)]})


def describe(it):
    return dict(definition_id=it["rec"]["id"], variant=it["variant"], n_jobs=len(it["jobs"]), rec=it["rec"], jobs=it["jobs"],
                definition=P.show(it["rec"]["d"]), output=it.get("text"), error=it.get("err"))


# ----------------------------------------------------------------------------- shared driver for C01/C02/C05

def multi_start(rec):
    d = rec["d"]
    if len(d) >= 2 and d[0][0] == "ev" and d[1][0] == "fork" and d[1][1] in ("AND", "OR"):
        return dict(id=rec["id"] + "-ms", events=rec["events"] - 1, jobs=rec["jobs"], d=d[1:], multi_start=True)
    return None


def load_corpus_pool():
    """the 63 corpus definitions (own reading of the corpus dialect, see DESIGN 9.4), as pool records"""
    out = []
    for name, txt in P.load_corpus(common.REPO):
        d = P.parse_corpus(txt)
        out.append(dict(id="K:" + name.replace(".puml", ""), events=len(P.events_of(d)), jobs=0, d=d, corpus=True))
    return out


def loops_with_breaks(d):
    """[(event types of the loop body, event types that occur only on a break branch)] for every loop of d"""
    out = []

    def brk(seq):
        res = []
        for it in seq:
            if it[0] == "fork":
                for b in it[2]:
                    if b and b[-1] == ("break",) or (b and tuple(b[-1]) == ("break",)):
                        res += P.events_of(b)
                    else:
                        res += brk(b)
        return res

    def go(seq):
        for it in seq:
            if it[0] == "fork":
                for b in it[2]:
                    go(b)
            elif it[0] == "loop":
                bs = brk(it[1])
                if bs:
                    out.append((set(P.events_of(it[1])), set(bs)))
                go(it[1])
    go(d)
    return out


def break_only_subset(rec, jobs):
    """the jobs in which every loop that has a break branch is, when entered, seen leaving through a break (evidence of a
    retry loop that always ends by its break); None when that is not a proper, non-empty subset"""
    lw = loops_with_breaks(rec["d"])
    if not lw:
        return None
    sub = []
    for j in jobs:
        ts = {t for t, _ in j}
        if all((not (body & ts)) or (bs & ts) for body, bs in lw):
            sub.append(j)
    return sub if 0 < len(sub) < len(jobs) else None


def loop_ends_fork_branch(d):
    """a loop with a break branch is the last element of an AND/OR fork branch"""
    for it in d:
        if it[0] == "fork":
            for b in it[2]:
                if it[1] in ("AND", "OR") and b and b[-1][0] == "loop" and loops_with_breaks([b[-1]]):
                    return True
                if loop_ends_fork_branch(b):
                    return True
        elif it[0] == "loop" and loop_ends_fork_branch(it[1]):
            return True
    return False


def load_extra_pool(name):
    return [dict(json.loads(l), beyond_f=True) for l in (POOL.parent / f"{name}.jsonl").read_text().splitlines() if l.strip()]


def build_items(out, prop, n_quick, variants=(0,), subsets=False, with_multi_start=False, with_corpus=True, extra_pools=()):
    pool = load_pool()
    recs = select(pool, out.seed, out.tier, n_quick)
    if subsets:     # always: the pool definitions in which a loop with a break branch ends an AND/OR fork branch
        have = {r["id"] for r in recs}
        recs = recs + [r for r in pool if r["id"] not in have and loop_ends_fork_branch(r["d"])]
    if with_corpus:
        recs = recs + load_corpus_pool()
    for name, nq in extra_pools:        # frozen pools beyond the letter of F (DESIGN 9.4); complete job sets only
        recs = recs + select(load_extra_pool(name), out.seed + 11, out.tier, nq)
    items = []
    for rec in recs:
        jobs = complete_jobs(rec)
        for v in variants:
            items.append(dict(rec=rec, jobs=jobs, variant=v, subset=False))
        if subsets and len(jobs) >= 3 and not rec.get("beyond_f"):
            rnd = random.Random(int(hashlib.sha256(rec["id"].encode()).hexdigest()[:8], 16) if rec.get("corpus") else int(rec["id"], 16) % (2**31))
            sub = [j for j in jobs if rnd.random() < 0.6] or jobs[:1]
            if len(sub) < len(jobs):
                items.append(dict(rec=dict(rec, id=rec["id"] + "-sub"), jobs=sub, variant=0, subset=True))
        if subsets and not rec.get("corpus") and not rec.get("beyond_f"):
            brk = break_only_subset(rec, jobs)
            if brk:
                items.append(dict(rec=dict(rec, id=rec["id"] + "-brk"), jobs=brk, variant=0, subset=True))
        if with_multi_start:
            ms = multi_start(rec)
            if ms:
                items.append(dict(rec=ms, jobs=complete_jobs(ms), variant=0, subset=False))
    return pool, recs, items


def standard_run(out, prop, n_quick, want, verdict, **kw):
    """verdict(item, cert) -> (kind or None): the property-specific reading of the certificate"""
    okp = common.proof_obligations(out, prop)
    pool, recs, items = build_items(out, prop, n_quick, **kw)
    learn(items)
    pre = [pre_check(it) for it in items]
    certs, fails = coq_certify(items, want=want) if okp else ({}, [])
    n_viol, kinds = 0, {}
    failing = []
    not_in_f = []
    for i, it in enumerate(items):
        cert = certs.get(i)
        if cert is not None and not cert["inF"] and not it["rec"].get("multi_start") and not it["rec"].get("corpus") and not it["rec"].get("beyond_f"):
            not_in_f.append(it["rec"]["id"])
        kind = pre[i] if pre[i] else (verdict(it, cert) if cert is not None else None)
        if kind is None:
            continue
        kinds[kind.split(":")[0]] = kinds.get(kind.split(":")[0], 0) + 1
        key = finding_key(prop, it["rec"]["id"], it["variant"], kind.split(":")[0])
        failing.append(dict(key=key, kind=kind, events=it["rec"]["events"], n_jobs=len(it["jobs"])))
        f = out.match_finding(key)
        if f:
            out.known_finding(f"{key} {f.get('what', '')[:120]}")
        elif n_viol < 4:
            n_viol += 1
            out.violation(dict(kind=kind, key=key, **describe(it), certificate=cert))
    if okp and fails and not out.violations:
        out.violation({"kind": "certificate-evaluation-failed", "coq_failures": fails[:2]}, no_failing_input=True)
    if not_in_f and not out.violations:
        out.violation({"kind": "pool-definition-not-in-F", "ids": not_in_f[:5]}, no_failing_input=True)
    sample = next((it for it in items if it.get("text")), items[0])
    out.coverage.update({
        "programs": sum(1 for it in items if it.get("tokens")), "disagreements_checked": sum(kinds.values()),
        "samples": [dict(definition=P.show(sample["rec"]["d"]), n_jobs=len(sample["jobs"]), output=sample.get("text"))],
        "exhaustive": False,
        "definitions": len(recs), "learner_runs": len(items), "pool_size": len(pool),
        "corpus_definitions": sum(1 for r in recs if r.get("corpus")),
        "beyond_f_definitions": sum(1 for r in recs if r.get("beyond_f")),
        "beyond_f_note": "frozen pool X (harness/pool/X.jsonl, 150 'dispatcher' shapes: XOR branches that begin with a nested XOR, that end the "
                         "job, or that break out of a loop) lies outside the letter of fragment F; the pinned tree satisfies the statement on "
                         "every member (checked when the pool was frozen), a failure there is reported like any other",
        "jobs_certified": sum(len(it["jobs"]) for it in items if it.get("tokens")),
        "failure_kinds": kinds, "failing_keys": failing,
        "undecided_by_caps": sum(1 for c in certs.values() if c["rej_u"] or c["ni_u"]),
        "evaluations": len(items), "distinct_nontrivial": len({it["rec"]["id"] for it in items if it["rec"]["events"] >= 4}),
        "rule": "frozen pool of fragment-F definitions (harness/pool/F.jsonl, each certified inF_b in coqc on every run) plus the 63 definitions of the repository's end-to-end corpus that carry no branch counts (read with the harness' own parser of the corpus dialect; loops run once and twice); quick = seeded "
                "stratified slice, thorough = whole pool; job set = complete executions with loops run once and twice (plus a seeded "
                "proper subset where stated); non-trivial = definition with >= 4 events",
        "trusted_base": common.std_trusted_base([
            "validators accepts/incl/parse are proved sound (Puml/CanonProofs.v, ParseProofs.v); `canon` equality is coarser than "
            "isomorphism (canon_not_complete), so a wrong acceptance is possible, a wrong rejection is not (accepts_iso)",
            "python tokenizer of the emitted text (line -> token); Puml/Lex.v is the proved equivalent",
            "the executable semantics V.Puml.Exec.runs_seq is the definition of the diagram meaning",
        ]),
    })
    out.assumptions += ["universal correctness of the learner is NOT proved (translation validation, partial): what is established is "
                        "that on each explored input the current code's output carries a kernel-checked certificate",
                        "termination is observed under a 90 s limit per learner call, not proved"]
    return items, certs


# ----------------------------------------------------------------------------- equivalence of two emitted texts (C14)

def coq_equiv(pairs):
    """pairs: list of (tokensA, tokensB). Returns list of dict(a_ok, b_ok, same_events, e1, e1u, e2, e2u) (None on failure)."""
    files = []
    shard = max(1, len(pairs) // common.NPROC + 1)
    for s in range(0, len(pairs), shard):
        rows = []
        for i in range(s, min(len(pairs), s + shard)):
            inter = P.Interner()
            ta, tb = pairs[i]
            rows.append(f"({i}%nat, {P.coq_tokens(ta, inter)}, {P.coq_tokens(tb, inter)})")
        body = ";\n ".join(rows)
        files.append((f"E{s}", f"""From Coq Require Import List PArith Bool Arith. Import ListNotations.
From V Require Import Puml.Ast Puml.Exec Puml.Canon Puml.Accept Puml.Syntax Puml.Parse Puml.Check.
Open Scope positive_scope.
Definition b2n (b : bool) : nat := if b then 1%nat else 0%nat.
Definition okp (ts : list token) := match parse ts with Some _ => true | None => false end.
Definition cases : list (nat * list token * list token) := [
 {body}].
Definition run (c : nat * list token * list token) :=
  let '(i, ta, tb) := c in
  let a := parsed ta in let b := parsed tb in
  let e1 := incl_adaptive {KMAX} {CAP} 2 a b in
  let e2 := incl_adaptive {KMAX} {CAP} 2 b a in
  (i, [b2n (okp ta); b2n (okp tb); b2n (same_events (events_of a) (events_of b))], fst e1, snd e1, fst e2, snd e2).
Eval vm_compute in map run cases.
"""))
    res = common.coq_eval_many(files, timeout=1500)
    out = [None] * len(pairs)
    for (name, _), (okc, o) in zip(files, res):
        parsed = _parse_rows(o) if okc else None
        if parsed is None:
            continue
        for i, flags, e1, e1u, e2, e2u in parsed:
            out[i] = dict(a_ok=bool(flags[0]), b_ok=bool(flags[1]), same_events=bool(flags[2]), e1=e1, e1u=e1u, e2=e2, e2u=e2u)
    return out


# ----------------------------------------------------------------------------- printer correspondence (C05)

def coq_linearise(items):
    """V.Puml.Linearise.linearise on the exported PUMLGraph must give exactly the tokens of the emitted text.
    returns (n_cases, model_mismatch indices, bad_head indices, coq failures)"""
    todo = [i for i, it in enumerate(items) if it.get("tokens") and it.get("graph")]
    files = []
    for s in range(0, len(todo), 25):
        rows = []
        for i in todo[s:s + 25]:
            it = items[i]
            inter = P.Interner()
            inter("wf")
            try:
                rows.append(f"({i}, 1%positive, {P.coq_pgraph(it['graph'], inter)},\n   {P.coq_tokens(it['tokens'], inter)})")
            except ValueError:
                pass
        body = ";\n".join(rows)
        files.append((f"G{s}", f"""From Coq Require Import List Bool PArith Arith.
From V Require Import Puml.Ast Puml.Syntax Puml.Linearise Puml.LineariseCheck.
Import ListNotations.
Definition cases : list (nat * positive * pgraph * list token) := [
{body}].
Definition v (c : nat * positive * pgraph * list token) := let '(i, n, g, ts) := c in lin_check n g ts.
Eval vm_compute in (1%nat, map (fun c => fst (fst (fst c))) (filter (fun c => match v c with VModelMismatch => true | _ => false end) cases)).
Eval vm_compute in (2%nat, map (fun c => fst (fst (fst c))) (filter (fun c => match v c with VBadHead => true | _ => false end) cases)).
"""))
    res = common.coq_eval_many(files)
    mism, badhead, fails = [], [], []
    for (name, _), (okc, o) in zip(files, res):
        l1, l2 = common.parse_nat_list(o, "1"), common.parse_nat_list(o, "2")
        if not okc or l1 is None or l2 is None:
            fails.append((name, o[-500:]))
            continue
        mism += l1
        badhead += l2
    return len(todo), mism, badhead, fails
