"""C02 - learned diagram admits nothing beyond a complete sample (translation validation)."""
from . import common, learnlib as L

LEVEL = "translation_validation"


def verdict(it, cert):
    if not cert["c05"]:
        return "no-well-formed-diagram"
    if cert["ni"]:
        return f"admits-job-outside-source:{cert['ni'][:5]}"
    return None


def run(out, explore=0):
    L.standard_run(out, "C02", explore or 150, want=("c05", "c02"), verdict=verdict, extra_pools=(("X", 40),))


def replay(out, rp):
    L.replay_item(out, rp, ("c05", "c02"), verdict)
