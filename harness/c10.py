"""C10 - ingestion stores each span once whatever the batching or duplication.

Theorems: coq/theories/Properties/C10.v about V.Store.Ingest.  Correspondence: the real
IngestData.load_to_data_holder + SQLDataHolder on SQLite files vs `ingest_runs` evaluated in coqc.
Failing-input search: the abstract spec (first occurrence of every new id + its parent link)
evaluated in Python on the tables read back."""
from __future__ import annotations

import itertools
import os
import random
from . import common, storelib as S
from .common import coq_list

LEVEL = "proof"


def mk(i, par, pl):
    return dict(id=i, par=par, job=1 + pl % 3, name=1 + pl % 2, ty=1 + pl % 4, st=pl, en=pl + 1, app=1 + pl % 2)


def gen_cases(out, explore):
    rnd = random.Random(out.seed * 7907 + 10)
    cases = []
    quick = out.tier == "quick"
    # exhaustive: all streams of length <= L over 3 ids, every batch size 1..L+1, one `with` block and
    # every split into two blocks
    L = 4 if quick else 5
    n_exh = 0
    for n in range(0, L + 1):
        for idsq in itertools.product((1, 2, 3), repeat=n):
            stream = [mk(i, par=(None if k % 3 == 0 else 1 + (i + k) % 3), pl=k) for k, i in enumerate(idsq)]
            for bs in range(1, n + 2):
                splits = [n] if quick and n > 2 else range(0, n + 1)
                for cut in splits:
                    runs = [stream[:cut], stream[cut:]] if cut < n else [stream]
                    cases.append(dict(bs=bs, init=None, runs=runs))
                    n_exh += 1
    n_rand = explore or (250 if quick else 4000)
    for _ in range(n_rand):
        n = rnd.choice([3, 5, 8, 12, 20, 40])
        pool = max(2, int(n * rnd.choice([0.3, 0.6, 1.0, 1.5])))
        stream = []
        for k in range(n):
            i = 1 + rnd.randrange(pool)
            par = None if rnd.random() < 0.3 else (0 if rnd.random() < 0.15 else 1 + rnd.randrange(pool + 2))   # 0 = "" (OTLP root)
            stream.append(mk(i, par, k))
        nruns = rnd.choice([1, 1, 2, 3])
        cuts = sorted(rnd.randrange(n + 1) for _ in range(nruns - 1))
        runs, prev = [], 0
        for c in cuts + [n]:
            runs.append(stream[prev:c])
            prev = c
        if rnd.random() < 0.15:     # re-ingest a whole earlier block
            runs.append(list(runs[0]))
        bs = rnd.choice([1, 2, 3, 4, 7, n, n + 1, 1000])
        init = None
        if rnd.random() < 0.12:     # store violating the invariant: stale association rows (C15 territory)
            victim = stream[rnd.randrange(n)]
            init = dict(nodes=[], assoc=[(victim["par"] or 77, victim["id"])])
        cases.append(dict(bs=bs, init=init, runs=runs))
    # batches above SQLite's historical bound-variable limit (999): a stored span re-sent as the 999th / 1000th / 1001st distinct
    # id of one batch under the default batch size (and a larger one)
    for k in range(1 if quick else 4):
        n = 1003 + 50 * k
        pos = [998, 999, 1000, 997][k % 4]
        first = [mk(5000 + j, None if j == 0 else 5000, j) for j in range(3)]
        big = [mk(6000 + j, None if j == 0 else 6000 + rnd.randrange(j), j) for j in range(n)]
        big[pos] = dict(first[1], st=77, en=78)         # the re-sent span (other payload)
        if k % 2 == 1:
            big[pos + 3] = dict(first[2])
        cases.append(dict(bs=[1000, 2000][k % 2], init=None, runs=[first, big]))
    return cases, n_exh, n_rand


def run_impl(case, path):
    h0 = S.holder(f"sqlite:///{path}", case["bs"])
    h0.session.close()
    if case["init"]:
        S.raw_insert(path, case["init"]["nodes"], case["init"]["assoc"])
    status = []
    for evs in case["runs"]:
        h = S.holder(f"sqlite:///{path}", case["bs"])
        status.append(S.ingest(h, evs))
        try:
            h.session.close()
            h.engine.dispose()
        except Exception:  # noqa
            pass
        if status[-1] != "ok":
            break
    h0.engine.dispose()
    nodes, assoc, _ = S.read_tables(path)
    return status, nodes, assoc


def spec(case):
    nodes = list(case["init"]["nodes"]) if case["init"] else []
    assoc = list(case["init"]["assoc"]) if case["init"] else []
    have = {e["id"] for e in nodes}
    for evs in case["runs"]:
        for e in evs:
            if e["id"] not in have:
                have.add(e["id"])
                nodes.append(e)
                if e["par"]:
                    assoc.append((e["par"], e["id"]))
    return [dict(e, par=e["par"] or None) for e in nodes], assoc


def inv_holds(case):
    if not case["init"]:
        return True
    ids = {e["id"] for e in case["init"]["nodes"]}
    return all(c in ids for _, c in case["init"]["assoc"])


def compact_id_leg(out, n):
    """ids of variable length (numeric database keys used as ids): one trace id may be a prefix of another and a
    (trace id, span id) pair may share its concatenation with another pair.  Real IngestData + SQLDataHolder on a file,
    compared with the first-occurrence specification on the raw strings."""
    import sqlite3
    from tel2puml.otel_to_pv.otel_to_pv_types import OTelEvent
    from tel2puml.otel_to_pv.ingest_otel_data import IngestData
    rnd = random.Random(out.seed * 50423 + 1010)
    bad = []
    with common.Scratch("c10c") as d:
        for k in range(n):
            jobs = rnd.sample(["1", "12", "2", "21", "121"], 3)
            stream, seen = [], set()
            for j in jobs:
                ids = rnd.sample(["3", "23", "13", "1", "31", "213"], rnd.choice([2, 3]))
                root = None
                for x in ids:
                    sid = x if (x not in seen or rnd.random() < 0.15) else x + "0"
                    stream.append((j, sid, root))
                    seen.add(sid)
                    root = root or sid
            if rnd.random() < 0.4:
                stream.insert(rnd.randrange(len(stream) + 1), rnd.choice(stream))      # a genuine re-delivery
            path = str(d / f"c{k}.db")
            h = S.holder(f"sqlite:///{path}", rnd.choice([1, 2, 3, 1000]))
            try:
                IngestData([OTelEvent(job_name="n", job_id=j, event_type="T", event_id=i, start_timestamp=1, end_timestamp=2,
                                      application_name="a", parent_event_id=p) for j, i, p in stream], h).load_to_data_holder()
                status = "ok"
            except Exception as e:  # noqa
                status = "ERR:" + type(e).__name__
            try:
                h.session.close(); h.engine.dispose()
            except Exception:  # noqa
                pass
            con = sqlite3.connect(path)
            nodes = con.execute("SELECT event_id, job_id, parent_event_id FROM nodes ORDER BY id").fetchall()
            assoc = sorted(con.execute('SELECT parent_id, child_id FROM "NODE_ASSOCIATION"').fetchall())
            con.close()
            os.remove(path)
            want, have = [], set()
            for j, i, p in stream:
                if i not in have:
                    have.add(i)
                    want.append((i, j, p))
            want_assoc = sorted((p, i) for i, j, p in want if p)
            if status != "ok" or nodes != want or assoc != want_assoc:
                bad.append(dict(kind="store differs from the ingestion specification (variable-length ids)", stream=stream, status=status,
                                stored=nodes, expected=want, links=assoc, expected_links=want_assoc))
    return dict(cases=n, bad=bad)


def cases_v(items) -> str:
    rows = []
    for case, (status, nodes, assoc) in items:
        init = S.coq_store(case["init"]["nodes"], case["init"]["assoc"]) if case["init"] else "(mkstore [] [] [])"
        runs = coq_list([S.coq_nodes([dict(e, par=e["par"] or None) for e in r]) for r in case["runs"]])
        res = "None" if any(s != "ok" for s in status) else f"(Some {S.coq_store(nodes, assoc)})"
        rows.append(f"(({case['bs']}%nat, {init}, {runs}), {res})")
    body = ";\n ".join(rows)
    return f"""From Coq Require Import ZArith List Bool. Import ListNotations.
From V Require Import Store.Rel Store.Ingest.
Open Scope positive_scope.
Definition store_eqb (a b : store) : bool :=
  list_eqb node_eqb (db a) (db b) && list_eqb pair_eqb (assoc a) (assoc b).
Definition ostore_eqb (a b : option store) : bool :=
  match a, b with Some x, Some y => store_eqb x y | None, None => true | _, _ => false end.
Definition cases : list ((nat * store * list (list node)) * option store) := [
 {body}].
Eval vm_compute in (1%nat, idx (fun c => let '((bs, st, runs), r) := c in ostore_eqb (ingest_runs bs st runs) r) cases).
"""


def run(out: common.Outcome, explore: int = 0) -> None:
    common.setup_impl_path()
    ok = common.proof_obligations(out, "C10")
    import tel2puml.events  # noqa: F401
    import logging
    logging.disable(logging.CRITICAL)
    cases, n_exh, n_rand = gen_cases(out, explore)
    results = []
    spec_bad = []
    with common.Scratch("c10") as d:
        for k, case in enumerate(cases):
            path = str(d / f"s{k}.db")
            r = run_impl(case, path)
            os.remove(path)
            results.append(r)
            if inv_holds(case):
                nodes, assoc = spec(case)
                status = r[0]
                if any(s != "ok" for s in status):
                    spec_bad.append((k, f"ingestion raised {status[-1]}"))
                elif r[1] != nodes:
                    spec_bad.append((k, "nodes table differs from 'one record per distinct span id, first occurrence'"))
                elif r[2] != assoc:
                    spec_bad.append((k, "association table differs from the parent links of the stored occurrences"))
    shard = 300
    files = [(f"S{k}", cases_v(list(zip(cases[k:k + shard], results[k:k + shard])))) for k in range(0, len(cases), shard)]
    res = common.coq_eval_many(files) if ok else []
    dis, coq_fail = [], []
    for (name, _), (okc, o) in zip(files, res):
        l = common.parse_nat_list(o, "1")
        if not okc or l is None:
            coq_fail.append((name, o[-800:]))
            continue
        dis += [int(name[1:]) + i for i in l]
    for k, why in spec_bad[:3]:
        out.violation({"kind": "store differs from the ingestion specification", "why": why, "case": cases[k],
                       "implementation": {"status": results[k][0], "nodes": results[k][1], "assoc": results[k][2]},
                       "expected": dict(zip(("nodes", "assoc"), spec(cases[k])))})
    cl = compact_id_leg(out, 60 if out.tier == "quick" else 1500)
    for b in cl["bad"][:2]:
        out.violation(b)
    out.coverage["compact_id_streams"] = cl["cases"]
    if ok and not out.violations and (dis or coq_fail):
        out.violation({"kind": "correspondence-broken",
                       "relation": "tables after IngestData.load_to_data_holder == V.Store.Ingest.ingest_runs",
                       "first_disagreements": [{"case": cases[k], "implementation": results[k]} for k in dis[:3]],
                       "coq_failures": coq_fail[:2]}, no_failing_input=True)

    def nontrivial(c):
        allev = [e["id"] for r in c["runs"] for e in r]
        return len(allev) != len(set(allev)) and len(allev) > c["bs"]
    keys = {repr(c) for c in cases if nontrivial(c)}
    out.coverage.update({
        "evaluations": len(cases), "distinct_nontrivial": len(keys),
        "rule": f"exhaustive: every stream of length <= {4 if out.tier == 'quick' else 5} over 3 span ids x every batch size 1..n+1 x "
                "splits into two `with` blocks; random: streams up to 40 events with duplicate ids carrying different payload/parent, "
                "inside a batch, across batches, across blocks, whole-block re-ingestion, batch sizes incl. larger than the stream; "
                "one (thorough: four) stream of 1000+ spans in which a stored span recurs around position 999 of a batch of 1000 / 2000; "
                "12% start from a store with stale association rows (outside the theorem's invariant, correspondence only); "
                "non-trivial = stream contains a duplicate id and spans more than one batch",
        "exhaustive_cases": n_exh, "random_cases": n_rand,
        "samples": [{"case": cases[i], "implementation": results[i]} for i in (min(300, len(cases) - 1), min(len(cases) - 1, n_exh + 5))],
        "traces_validated_against_impl": len(cases) - len(coq_fail) * shard,
        "model_impl_disagreements": len(dis), "spec_rejections": len(spec_bad),
        "crashing_cases_outside_invariant": sum(1 for c, r in zip(cases, results) if any(s != "ok" for s in r[0])),
        "trusted_base": common.std_trusted_base([
            "SQLite/SQLAlchemy transaction and UNIQUE/PRIMARY KEY semantics are modelled (insert_nodes/insert_assoc), tied by this correspondence",
        ]),
    })
    out.assumptions += ["store invariant inv_b (unique ids, association children stored) for the refinement theorem; "
                        "stores outside it are exercised for correspondence only (they belong to C15)"]


def replay(out: common.Outcome, rp: dict) -> None:
    if "stream" in rp:
        print(rp["kind"], rp["stored"], "expected", rp["expected"])
        out.coverage.update({"evaluations": 1, "distinct_nontrivial": 0, "rule": "replay", "samples": [rp["kind"]]})
        return
    common.setup_impl_path()
    import tel2puml.events  # noqa
    case = rp["case"]
    with common.Scratch("c10r") as d:
        r = run_impl(case, str(d / "r.db"))
    nodes, assoc = spec(case)
    print("implementation:", r)
    print("expected nodes:", nodes, "assoc:", assoc)
    if any(s != "ok" for s in r[0]) or r[1] != nodes or r[2] != assoc:
        out.violation(rp)
    out.coverage.update({"evaluations": 1, "distinct_nontrivial": 0, "rule": "replay", "samples": [rp]})
