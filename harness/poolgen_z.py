"""One-off generator of the frozen pool Z (beyond the letter of F): a fork branch that BEGINS with a loop, whose body may begin
with an XOR / AND fork or with an inner loop.   /venv/bin/python -m harness.poolgen_z"""
import hashlib, json, random, sys
from . import pumllib as P, poolgen


class GenZ(P.GenF):
    def body(self):
        r = self.r.random()
        if r < 0.4:
            first = ("fork", self.r.choice(["XOR", "AND", "OR"]), [[self.ev()], [self.ev()]])
        elif r < 0.6:
            first = ("loop", [self.ev()])
        else:
            first = self.ev()
        out = [first, self.ev()]
        if self.r.random() < 0.4:
            out.append(self.ev())
        return out

    def definition(self):
        kind = self.r.choice(["AND", "AND", "OR", "XOR"])
        brs = [[("loop", self.body())], [self.ev()]]
        if self.r.random() < 0.3:
            brs.append([self.ev(), self.ev()])
        if self.r.random() < 0.3:
            brs[0].append(self.ev())
        self.r.shuffle(brs)
        return [self.ev(), ("fork", kind, brs), self.ev()]


def main():
    out, seen, k = [], set(), 0
    while len(out) < 60 and k < 20000:
        k += 1
        rnd = random.Random(5151 * 1000003 + k)
        g = GenZ(rnd)
        d = g.definition()
        try:
            jobs = P.dedup_jobs(P.jobs_of(2, d, cap=3000))
        except Exception as e:  # noqa
            print("ERR", type(e).__name__, e)
            break
        if len(jobs) > 150 or len(jobs) < 2:
            continue
        shape = json.dumps(poolgen._shape(d))
        if shape in seen:
            continue
        seen.add(shape)
        out.append(dict(id=hashlib.sha256(json.dumps(d).encode()).hexdigest()[:16], events=g.n, jobs=len(jobs), d=d))
    out.sort(key=lambda r: (r["events"], r["jobs"], r["id"]))
    open(P.__file__.replace("pumllib.py", "pool/Z.jsonl"), "w").write("".join(json.dumps(r) + "\n" for r in out))
    print(len(out))
    print(P.show(out[7]["d"]))


if __name__ == "__main__":
    main()
