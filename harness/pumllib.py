"""Shared helpers for the pv2puml-side properties (C01-C05, C07, C14): fragment-F generator,
Python port of the Coq execution semantics (to produce the PV jobs fed to the implementation),
tokenizer of emitted PlantUML, Coq term emission, running pv_to_puml_string in worker processes."""
from __future__ import annotations

import itertools
import json
import os
import random
import subprocess
import sys

from .common import coq_list

# AST (mirrors V.Puml.Ast): ("ev", name) | ("fork", kind, [seq, ...]) | ("loop", seq) | ("break",) | ("detach",)

# ----------------------------------------------------------------------------- fragment F generator


class GenF:
    """Random definitions in fragment F (quantifier text of C01)."""

    def __init__(self, rnd, max_events=40):
        self.r = rnd
        self.n = 0
        self.max_events = max_events

    def ev(self):
        self.n += 1
        return ("ev", f"E{self.n}")

    def seq(self, depth, inloop, loopdepth):
        out = [self.ev()]
        k = self.r.choice([0, 1, 1, 2])
        for _ in range(k):
            if self.n >= self.max_events:
                break
            if depth < 3 and self.r.random() < 0.75:
                if out[-1][0] != "ev":          # consecutive forks/loops are separated by an event
                    out.append(self.ev())
                if self.r.random() < 0.75:
                    out.append(self.fork(depth, inloop, loopdepth))
                else:
                    out.append(("loop", self.loopbody(depth, loopdepth)))
                if self.r.random() < 0.7:
                    out.append(self.ev())
            else:
                out.append(self.ev())
        return out

    def fork(self, depth, inloop, loopdepth):
        kind = self.r.choice(["AND", "OR", "XOR"])
        nb = self.r.choice([2, 2, 3])
        brs = [self.seq(depth + 1, inloop, loopdepth) for _ in range(nb)]
        if depth == 0 and not inloop and kind in ("AND", "OR") and self.r.random() < 0.25:
            i = self.r.randrange(nb - 1)
            if brs[i][-1][0] == "ev":
                brs[i].append(("detach",))
        return ("fork", kind, brs)

    def loopbody(self, depth, loopdepth):
        body = self.seq(depth + 1, True, loopdepth + 1)
        if depth + 1 < 3 and self.r.random() < 0.4:
            br = [[self.ev(), ("break",)], [self.ev()]]
            if loopdepth == 0 and self.r.random() < 0.3:
                br.insert(0, [self.ev(), ("break",)])
            pos = self.r.randrange(1, len(body) + 1)
            if body[pos - 1][0] == "ev" and (pos == len(body) or body[pos][0] == "ev"):
                body.insert(pos, ("fork", "XOR", br))
        return body

    def definition(self):
        return self.seq(0, False, 0)


def events_of(d):
    out = []
    for it in d:
        if it[0] == "ev":
            out.append(it[1])
        elif it[0] == "fork":
            for b in it[2]:
                out += events_of(b)
        elif it[0] == "loop":
            out += events_of(it[1])
    return out


def show(seq, ind=0):
    s = ""
    for it in seq:
        if it[0] == "ev":
            s += " " * ind + it[1] + "\n"
        elif it[0] in ("break", "detach"):
            s += " " * ind + it[0] + "\n"
        elif it[0] == "loop":
            s += " " * ind + "repeat\n" + show(it[1], ind + 2) + " " * ind + "repeat while\n"
        else:
            for i, b in enumerate(it[2]):
                s += " " * ind + (it[1] + "{" if i == 0 else "|") + "\n" + show(b, ind + 2)
            s += " " * ind + "}\n"
    return s


# ----------------------------------------------------------------------------- execution semantics (port of V.Puml.Exec)
# frag = (nodes [(type, [ref])], front [ref], status) ; ref = "IN" | int

def _shift(off, front, r):
    return list(front) if r == "IN" else [r + off]


def seq_frag(a, b):
    off = len(a[0])
    def sub(rs): return [x for r in rs for x in _shift(off, a[1], r)]
    return (a[0] + [(t, sub(ps)) for t, ps in b[0]], sub(b[1]), b[2])


def live(a):
    return a[2] == "N" and len(a[1]) > 0


def seq_all(acc, nxt, cap):
    out = []
    for a in acc:
        if live(a):
            for b in nxt:
                out.append(seq_frag(a, b))
                if len(out) > cap:
                    raise OverflowError
        else:
            out.append(a)
    return out


def par_frag(fs):
    if not fs:
        return ([], [], "N")
    a, p = fs[0], par_frag(fs[1:])
    off = len(a[0])
    def sub(rs): return [x for r in rs for x in _shift(off, ["IN"], r)]
    return (a[0] + [(t, sub(ps)) for t, ps in p[0]], a[1] + sub(p[1]), "N" if a[2] == "N" and p[2] == "N" else "B")


def sublists(l):
    if not l:
        return [[]]
    s = sublists(l[1:])
    return [[l[0]] + x for x in s] + s


EMPTY = ([], ["IN"], "N")


def runs_seq(k, s, cap=20000):
    acc = [EMPTY]
    for b in s:
        acc = seq_all(acc, runs_blk(k, b, cap), cap)
    return acc


def loop_runs(k, one, cur, cap):
    if k == 0:
        return []
    step = [seq_frag(a, b) for a in cur for b in one]
    if len(step) > cap:
        raise OverflowError
    broke = [(f[0], f[1], "N") for f in step if f[2] == "B"]
    normal = [f for f in step if f[2] == "N"]
    return broke + normal + loop_runs(k - 1, one, [f for f in normal if live(f)], cap)


def runs_blk(k, b, cap):
    if b[0] == "ev":
        return [([(b[1], ["IN"])], [0], "N")]
    if b[0] == "break":
        return [([], ["IN"], "B")]
    if b[0] == "detach":
        return [([], [], "N")]
    if b[0] == "fork":
        brs = [runs_seq(k, s, cap) for s in b[2]]
        if b[1] == "XOR":
            return [f for br in brs for f in br]
        sels = [brs] if b[1] == "AND" else [s for s in sublists(brs) if s]
        out = []
        for sel in sels:
            for combo in itertools.product(*sel):
                out.append(par_frag(list(combo)))
                if len(out) > cap:
                    raise OverflowError
        return out
    if b[0] == "loop":
        return loop_runs(k, runs_seq(k, b[1], cap), [EMPTY], cap)
    raise ValueError(b)


def close(f):
    return [(t, sorted({r for r in ps if r != "IN"})) for t, ps in f[0]]


def jobs_of(k, d, cap=20000):
    return [close(f) for f in runs_seq(k, d, cap)]


def job_key(job):
    """iso-invariant python-side key (ancestor keys) used only for de-duplicating generated jobs"""
    memo = {}

    def key(i):
        if i not in memo:
            memo[i] = (job[i][0], tuple(sorted(key(q) for q in job[i][1])))
        return memo[i]
    return tuple(sorted(key(i) for i in range(len(job))))


def dedup_jobs(jobs):
    seen, out = set(), []
    for j in jobs:
        k = job_key(j)
        if k not in seen:
            seen.add(k)
            out.append(j)
    return out


# ----------------------------------------------------------------------------- PV events

def pv_events(job, job_index, job_name, rnd=None, idprefix="", t0=0, local_ids=False):
    """PV event dicts of one job graph; ids/time/order of presentation derived from rnd; local_ids: event ids unique inside
    the job only (e0, e1, ... in every job)"""
    n = len(job)
    ids = [f"{idprefix}{job_index}_{i}" for i in range(n)]
    if rnd is not None:
        ids = [f"{idprefix}{rnd.getrandbits(48):012x}" for _ in range(n)]
    if local_ids:
        ids = [f"e{i}" for i in range(n)]
    evs = []
    for i, (t, ps) in enumerate(job):
        evs.append(dict(jobId=f"{idprefix}job{job_index}", jobName=job_name, eventId=ids[i], eventType=t,
                        timestamp=f"2024-01-01T00:{(t0 // 60) % 60:02d}:{t0 % 60:02d}.{i:06d}Z", applicationName="app",
                        previousEventIds=[ids[q] for q in ps]))
    if rnd is not None:
        rnd.shuffle(evs)
    return evs


# ----------------------------------------------------------------------------- emitted text -> tokens -> AST (python side)

TOK = {"switch (XOR)": "TSwitch", 'case ("")': "TCase", "endswitch": "TEndSwitch", "fork": "TFork",
       "fork again": "TForkAgain", "end fork": "TEndFork", "split": "TSplit", "split again": "TSplitAgain",
       "end split": "TEndSplit", "repeat": "TRepeat", "repeat while": "TRepeatWhile", "break": "TBreak",
       "detach": "TDetach", "end group": "TEndGroup", "}": "TClose", "@startuml": "TStartUml", "@enduml": "TEndUml"}


def tokenize(text):
    """line lexer of the emitted dialect: returns list of tokens (kind, arg) or raises ValueError"""
    toks = []
    for raw in text.split("\n"):
        l = raw.strip()
        if not l:
            continue
        if l in TOK:
            toks.append((TOK[l], None))
        elif l.startswith("partition \"") and l.endswith("\" {"):
            toks.append(("TPartition", l[len("partition \""):-3]))
        elif l.startswith("group \"") and l.endswith("\""):
            toks.append(("TGroup", l[len("group \""):-1]))
        elif l.startswith(":") and l.endswith(";"):
            toks.append(("TEvent", l[1:-1]))
        else:
            raise ValueError(f"unrecognised line {l!r}")
    return toks


def parse_tokens(toks):
    """python mirror of V.Puml.Parse.parse (used for quick feedback and shrinking only)"""
    pos = 0

    def expect(k):
        nonlocal pos
        if pos >= len(toks) or toks[pos][0] != k:
            raise ValueError(f"expected {k} at {pos}, got {toks[pos] if pos < len(toks) else None}")
        pos += 1
        return toks[pos - 1][1]

    def seq(stop):
        nonlocal pos
        out = []
        while pos < len(toks) and toks[pos][0] not in stop:
            k, a = toks[pos]
            if k == "TEvent":
                out.append(("ev", a))
                pos += 1
            elif k == "TBreak":
                out.append(("break",))
                pos += 1
            elif k == "TDetach":
                out.append(("detach",))
                pos += 1
            elif k == "TRepeat":
                pos += 1
                b = seq({"TRepeatWhile"})
                expect("TRepeatWhile")
                out.append(("loop", b))
            elif k in ("TFork", "TSplit", "TSwitch"):
                kind = {"TFork": "AND", "TSplit": "OR", "TSwitch": "XOR"}[k]
                sep = {"AND": "TForkAgain", "OR": "TSplitAgain", "XOR": "TCase"}[kind]
                end = {"AND": "TEndFork", "OR": "TEndSplit", "XOR": "TEndSwitch"}[kind]
                pos += 1
                if kind == "XOR":
                    expect("TCase")
                brs = []
                while True:
                    brs.append(seq({sep, end}))
                    if pos < len(toks) and toks[pos][0] == end:
                        pos += 1
                        break
                    expect(sep)
                out.append(("fork", kind, brs))
            else:
                raise ValueError(f"unexpected token {k} at {pos}")
        return out
    expect("TStartUml")
    name = expect("TPartition")
    gname = expect("TGroup")
    d = seq({"TEndGroup"})
    expect("TEndGroup")
    expect("TClose")
    expect("TEndUml")
    if pos != len(toks):
        raise ValueError("trailing tokens")
    return name, gname, d


# ----------------------------------------------------------------------------- Coq terms

class Interner:
    def __init__(self):
        self.m = {}

    def __call__(self, name):
        if name not in self.m:
            self.m[name] = len(self.m) + 1
        return self.m[name]


def coq_diagram(d, it):
    out = []
    for b in d:
        if b[0] == "ev":
            out.append(f"Ev {it(b[1])}")
        elif b[0] == "break":
            out.append("Break")
        elif b[0] == "detach":
            out.append("Detach")
        elif b[0] == "loop":
            out.append(f"Loop {coq_diagram(b[1], it)}")
        else:
            out.append(f"Fork {b[1]} {coq_list([coq_diagram(s, it) for s in b[2]])}")
    return coq_list(out)


def coq_job(job, it):
    return coq_list([f"({it(t)}%positive, {coq_list([f'{q}%nat' for q in ps])})" for t, ps in job])


def coq_tokens(toks, it):
    out = []
    for k, a in toks:
        if k in ("TPartition", "TGroup", "TEvent"):
            out.append(f"{k} {it(a)}")
        else:
            out.append(k)
    return coq_list(out)


def topo_job_from_pv(events):
    """PV event dicts of one job -> jobgraph (type, pred indices) in a topological order"""
    byid = {e["eventId"]: e for e in events}
    order, seen = [], set()

    def visit(i):
        if i in seen:
            return
        seen.add(i)
        for p in byid[i].get("previousEventIds", []):
            if p in byid:
                visit(p)
        order.append(i)
    for i in sorted(byid):
        visit(i)
    idx = {i: k for k, i in enumerate(order)}
    return [(byid[i]["eventType"], sorted(idx[p] for p in byid[i].get("previousEventIds", []) if p in byid)) for i in order]


# ----------------------------------------------------------------------------- running the learner

WORKER = r"""
import sys, json, random, uuid, signal
seed = int(sys.argv[1])
_r = random.Random(seed)
uuid.uuid4 = lambda: uuid.UUID(int=_r.getrandbits(128), version=4)
import tel2puml.events
from tel2puml.pv_to_puml.pv_to_puml import pv_to_puml_string
import tel2puml.puml_graph as _pg
from networkx import topological_sort as _topo
def _export(g):
    # the PUMLGraph exactly as write_puml_string sees it (node kinds, labels, break flags, sub graphs, adjacency in
    # networkx insertion order, head = first node of a topological sort) - for the V.Puml.Linearise correspondence leg
    from tel2puml.tel2puml_types import PUMLEvent
    nodes = list(g.nodes)
    idx = {n: i for i, n in enumerate(nodes)}
    ts = list(_topo(g))
    out = {"head": idx[ts[0]] if ts else 0, "nodes": [], "succ": [[idx[x] for x in g.succ[n]] for n in nodes]}
    for n in nodes:
        if isinstance(n, _pg.PUMLEventNode):
            brk = PUMLEvent.BREAK in n.event_types
            if n.sub_graph is not None:
                out["nodes"].append({"k": "loop" if PUMLEvent.LOOP in n.event_types else "sub", "g": _export(n.sub_graph), "brk": brk})
            else:
                info = ""
                if n.extra_info.get("is_branch", False):
                    info = f",BCNT,user={n.node_type},name=BC{n.branch_number}"
                out["nodes"].append({"k": "ev", "label": f"{n.node_type}{info}", "brk": brk})
        elif isinstance(n, _pg.PUMLOperatorNode):
            o, k = n.operator_type.value
            out["nodes"].append({"k": "op", "o": o, "kind": k})
        elif isinstance(n, _pg.PUMLKillNode):
            out["nodes"].append({"k": "kill"})
        else:
            out["nodes"].append({"k": "other"})
    return out
_cap = {}
_orig_write = _pg.PUMLGraph.write_puml_string
def _write(self, *a, **k):
    try:
        _cap["graph"] = _export(self)
    except BaseException as e:
        _cap["graph_err"] = type(e).__name__
    return _orig_write(self, *a, **k)
_pg.PUMLGraph.write_puml_string = _write
class TO(Exception): pass
def h(*a): raise TO()
signal.signal(signal.SIGALRM, h)
for line in sys.stdin:
    req = json.loads(line)
    _r.seed(seed * 1000003 + req.get("useed", 0))      # uuid stream depends on the request only, not on batching
    signal.alarm(req.get("timeout", 60))
    _cap.clear()
    try:
        out = {"ok": pv_to_puml_string(req["jobs"], req["name"])}
        if "graph" in _cap:
            out["graph"] = _cap["graph"]
    except TO:
        out = {"err": "timeout"}
    except BaseException as e:
        out = {"err": type(e).__name__ + ": " + str(e)[:200]}
    signal.alarm(0)
    sys.stdout.write(json.dumps(out) + "\n"); sys.stdout.flush()
"""


def learn_many(requests, hashseed=0, uuid_seed=0, nproc=None):
    """run pv_to_puml_string on each request {jobs, name} in worker processes (fixed PYTHONHASHSEED,
    seeded uuid4); returns list of {"ok": text} | {"err": ...}"""
    from . import common
    nproc = nproc or common.NPROC
    n = len(requests)
    if n == 0:
        return []
    chunks = [list(range(i, n, nproc)) for i in range(min(nproc, n))]
    procs = []
    for ci, idxs in enumerate(chunks):
        p = subprocess.Popen([common.PY, "-c", WORKER, str(uuid_seed)], stdin=subprocess.PIPE, stdout=subprocess.PIPE,
                             stderr=subprocess.DEVNULL, env=common.impl_env(hashseed), text=True)
        procs.append((p, idxs))
    import threading
    results = [None] * n

    def drive(p, idxs):
        data = "".join(json.dumps(requests[i]) + "\n" for i in idxs)
        try:
            out, _ = p.communicate(data, timeout=120 * len(idxs) + 60)
            lines = out.strip().split("\n") if out.strip() else []
        except subprocess.TimeoutExpired:
            p.kill()
            lines = []
        for k, i in enumerate(idxs):
            results[i] = json.loads(lines[k]) if k < len(lines) else {"err": "worker died"}
    ths = [threading.Thread(target=drive, args=pi) for pi in procs]
    [t.start() for t in ths]
    [t.join() for t in ths]
    return results


class GenLoopy(GenF):
    """Loop-rich definitions beyond the letter of F (used by C07 only): break branches may be whole
    sequences containing a loop or a fork, several loops may follow one event through an XOR, loops may
    end in a fork.  These are the shapes of the corpus' loop cases (break points, nested breaks, two
    different loops after the same event)."""

    def loopbody(self, depth, loopdepth):
        body = self.seq(depth + 1, True, loopdepth + 1)
        if depth + 1 < 3 and self.r.random() < 0.6:
            brs = []
            for _ in range(self.r.choice([1, 1, 2])):
                b = [self.ev()]
                r = self.r.random()
                if r < 0.4 and depth + 2 < 3:
                    b.append(("loop", [self.ev()] + ([self.ev()] if self.r.random() < 0.6 else [])))
                elif r < 0.6:
                    b.append(self.ev())
                b.append(("break",))
                brs.append(b)
            brs.append([self.ev()])
            pos = self.r.randrange(1, len(body) + 1)
            if body[pos - 1][0] == "ev" and (pos == len(body) or body[pos][0] == "ev"):
                body.insert(pos, ("fork", "XOR", brs))
        return body

    def seq(self, depth, inloop, loopdepth):
        out = super().seq(depth, inloop, loopdepth)
        if depth < 2 and self.r.random() < 0.25:
            # two different loops following the same event
            out.append(self.ev())
            out.append(("fork", "XOR", [[self.ev(), ("loop", [self.ev(), self.ev()])], [self.ev(), ("loop", [self.ev()])]]))
        return out


# ----------------------------------------------------------------------------- corpus dialect (end-to-end-pumls)

def parse_corpus(text):
    """Parser for the dialect of the repository's end-to-end corpus: colours, if/else/endif and
    switch/case as XOR, fork as AND, split as OR, repeat/repeat while, break, kill/detach, comments.
    Returns the AST, or raises ValueError (e.g. on branch-count annotations)."""
    import re as _re
    lines = []
    for raw in text.replace("@enduml@startuml", "@enduml\n@startuml").split("\n"):
        l = raw.strip()
        if not l or l.startswith("'") or l.startswith("@") or l.startswith("partition") or l.startswith("group") \
                or l in ("end group", "}"):
            continue
        lines.append(l)
    pos = 0

    def seq(stop):
        nonlocal pos
        out = []
        while pos < len(lines) and not any(lines[pos].startswith(s) for s in stop):
            l = lines[pos]
            m = _re.match(r"^(#\w+)?:(.*);$", l)
            if m:
                name = m.group(2).strip()
                if "BCNT" in name or "," in name:
                    raise ValueError("branch count")
                out.append(("ev", name))
                pos += 1
            elif l == "break":
                out.append(("break",))
                pos += 1
            elif l in ("kill", "detach"):
                out.append(("detach",))
                pos += 1
            elif l.startswith("repeat") and not l.startswith("repeat while"):
                pos += 1
                b = seq(("repeat while",))
                pos += 1
                out.append(("loop", b))
            elif l.startswith("if "):
                pos += 1
                brs = [seq(("else", "elseif", "endif"))]
                while lines[pos].startswith("else"):
                    pos += 1
                    brs.append(seq(("else", "elseif", "endif")))
                pos += 1
                out.append(("fork", "XOR", brs))
            elif l.startswith("switch"):
                pos += 1
                brs = []
                while lines[pos].startswith("case"):
                    pos += 1
                    brs.append(seq(("case", "endswitch")))
                pos += 1
                out.append(("fork", "XOR", brs))
            elif l == "fork" or l == "split":
                kind, sep, end = ("AND", "fork again", "end fork") if l == "fork" else ("OR", "split again", "end split")
                pos += 1
                brs = [seq((sep, end))]
                while lines[pos].startswith(sep):
                    pos += 1
                    brs.append(seq((sep, end)))
                pos += 1
                out.append(("fork", kind, brs))
            else:
                raise ValueError(f"corpus line not understood: {l!r}")
        return out
    d = seq(())
    if pos != len(lines):
        raise ValueError("trailing lines")
    return d


def load_corpus(repo):
    """the 63 corpus definitions: no BCNT in the file and none in a sibling *_equiv.puml"""
    from pathlib import Path
    root = Path(repo) / "end-to-end-pumls"
    out = []
    for f in sorted(root.rglob("*.puml")):
        txt = f.read_text()
        if "BCNT" in txt:
            continue
        sib = f.with_name(f.stem + "_equiv.puml")
        if sib.exists() and "BCNT" in sib.read_text():
            continue
        out.append((str(f.relative_to(root)), txt))
    return out


def coq_pgraph(g, it):
    """exported PUMLGraph (see WORKER._export) as a V.Puml.Linearise.pgraph term"""
    ns = []
    for i, n in enumerate(g["nodes"]):
        brk = "true" if n.get("brk") else "false"
        if n["k"] == "ev":
            t = f"PEvent {it(n['label'])} {brk}"
        elif n["k"] in ("loop", "sub"):
            t = f"{'PLoop' if n['k'] == 'loop' else 'PSub'} ({coq_pgraph(n['g'], it)}) {brk}"
        elif n["k"] == "op":
            t = "POp %s %s" % ({"START": "OStart", "PATH": "OPath", "END": "OEnd"}[n["o"]],
                               "KLoop" if n["kind"] == "LOOP" else f"(KGate {n['kind']})")
        elif n["k"] == "kill":
            t = "PKill"
        else:
            raise ValueError("unknown PUML node kind")
        ns.append(f"({i}, {t})")
    sc = [f"({i}, {coq_list([str(x) for x in l])})" for i, l in enumerate(g["succ"])]
    return f"PGraph {coq_list(ns)} {coq_list(sc)} {g['head']}"


class GenLoopyBunched(GenLoopy):
    """like GenLoopy, but the continuing branch of the break XOR may BEGIN with an AND/OR fork (no event between the
    deciding event and the fork) and a break branch may follow a fork - 'bunched' loop exits"""

    def loopbody(self, depth, loopdepth):
        body = [self.ev()]
        brs = [[self.ev(), ("break",)]]
        kind = self.r.choice(["AND", "AND", "OR"])
        cont = [("fork", kind, [[self.ev()], [self.ev()] + ([self.ev()] if self.r.random() < 0.4 else [])])]
        if self.r.random() < 0.7:
            cont.append(self.ev())
        brs.append(cont)
        if self.r.random() < 0.3:
            brs.append([self.ev()])
        self.r.shuffle(brs)
        body.append(("fork", "XOR", brs))
        if self.r.random() < 0.4:
            body.append(self.ev())
        return body
