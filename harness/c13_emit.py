"""Emit Python values / mappings / jq ASTs as Coq terms for the C13 model."""
import tel2puml.events  # noqa (circular import guard)
from tel2puml.otel_to_pv.data_sources.json_data_source.json_config import (
    field_spec_mapping_to_jq_field_spec_mapping,
)


def coq_str(s: str) -> str:
    b = s.encode("utf-8")
    if all(32 <= c <= 126 for c in b):
        return '"' + s.replace('"', '""') + '"'
    return "(sb [" + ";".join(str(c)+"%nat" for c in b) + "])"


def coq_list(items) -> str:
    return "[" + "; ".join(items) + "]"


def coq_json(v) -> str:
    if v is None:
        return "JNull"
    if v is True:
        return "(JBool true)"
    if v is False:
        return "(JBool false)"
    if isinstance(v, int):
        return f"(JNum ({v})%Z)"
    if isinstance(v, float):
        raise ValueError("floats are outside the model")
    if isinstance(v, str):
        return f"(JStr {coq_str(v)})"
    if isinstance(v, list):
        return "(JArr " + coq_list([coq_json(x) for x in v]) + ")"
    if isinstance(v, dict):
        return "(JObj " + coq_list([f"({coq_str(k)}, {coq_json(x)})" for k, x in v.items()]) + ")"
    raise TypeError(type(v))


def coq_segment(seg: str) -> str:
    return coq_list([coq_str(k) for k in seg.split(".")]) if seg != "" else "[]"


def coq_key_path(kp: str) -> str:
    return coq_list([coq_segment(s) for s in kp.split(".[].")])


def coq_opt(x, f) -> str:
    return "None" if x is None else f"(Some {f(x)})"


def coq_mapping_from_jq(jq_mapping) -> str:
    """jq_mapping: dict name -> JQFieldSpec (normalised, NOT yet updated with variables)."""
    fields = []
    for name, fs in jq_mapping.items():
        comps = []
        for kps, kvs, vps in zip(fs.key_paths, fs.key_values, fs.value_paths):
            alts = []
            for kp, kv, vp in zip(kps, kvs, vps):
                alts.append(
                    f"mkAlt {coq_key_path(kp)} {coq_opt(kv, coq_str)} {coq_opt(vp, coq_segment)}"
                )
            comps.append(coq_list(alts))
        vt = {"string": "VString", "array": "VArray"}[fs.value_type]
        fields.append(f"({coq_str(name)}, mkFieldSpec {coq_list(comps)} {vt})")
    return coq_list(fields)


def coq_mapping(field_mapping) -> str:
    """field_mapping: dict name -> FieldSpec dict (un-normalised Python form)."""
    return coq_mapping_from_jq(field_spec_mapping_to_jq_field_spec_mapping(field_mapping))


# ---- jq AST as nested tuples: ("QPipe", a, b) etc.; strings are python str, bools python bool ----
def coq_ast(t) -> str:
    if isinstance(t, str):
        return t  # nullary constructor name
    tag = t[0]
    args = []
    for a in t[1:]:
        if isinstance(a, bool):
            args.append("true" if a else "false")
        elif isinstance(a, tuple) and a and a[0] == "STR":
            args.append(coq_str(a[1]))
        elif isinstance(a, list):  # QObj fields
            args.append(coq_list([f"({coq_str(k)}, {coq_ast(e)})" for k, e in a]))
        else:
            args.append(coq_ast(a))
    return "(" + tag + " " + " ".join(args) + ")"


def S(s):
    return ("STR", s)


def py_print(t) -> str:
    """Python twin of print_jq (used to obtain the program text that real jq runs)."""
    if isinstance(t, str):
        return {"QId": ".", "QNull": "null", "QEmptyArr": "[]", "QAdd": "add",
                "QTostring": "tostring", "QFlatten": "flatten"}[t]
    tag = t[0]
    P = py_print
    def post(e):
        return "" if e == "QId" else P(e)
    if tag == "QVar": return "$" + t[1][1]
    if tag == "QField":
        return ("." + t[2][1]) if t[1] == "QId" else P(t[1]) + "." + t[2][1]
    if tag == "QFieldStr": return post(t[1]) + '."' + t[2][1] + '"'
    if tag == "QIter": return post(t[1]) + ".[]"
    if tag == "QParen": return "(" + P(t[1]) + ")"
    if tag == "QPipe": return P(t[1]) + " | " + P(t[2])
    if tag == "QComma": return P(t[1]) + "," + P(t[2])
    if tag == "QAs": return P(t[1]) + " as $" + t[2][1] + " | " + P(t[3])
    if tag == "QTry": return "try " + P(t[1])
    if tag == "QTryCatchNull": return "try " + P(t[1]) + " catch null"
    if tag == "QSelect": return "select(" + P(t[1]) + ")"
    if tag == "QCollect": return "[" + P(t[1]) + "]"
    if tag == "QObjDyn": return "{(" + P(t[1]) + "): " + P(t[2]) + "}"
    if tag == "QObj": return "{" + ",".join(f' "{k}": {P(e)}' for k, e in t[1]) + "}"
    if tag == "QJoin": return 'join("' + t[1][1] + '")'
    if tag == "QAlt": return P(t[2]) + ("//" if t[1] else " // ") + P(t[3])
    if tag == "QIf": return "if " + P(t[1]) + " then " + P(t[2]) + " else " + P(t[3]) + " end"
    if tag == "QEq": return P(t[1]) + " == " + P(t[2])
    if tag == "QNeq": return P(t[1]) + " != " + P(t[2])
    if tag == "QAnd": return P(t[1]) + " and " + P(t[2])
    if tag == "QAny": return "any(" + P(t[1]) + ")"
    if tag == "QAll": return "all(" + P(t[1]) + ")"
    if tag == "QPlus": return P(t[1]) + " + " + P(t[2])
    raise ValueError(tag)
