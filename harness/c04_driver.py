"""C04 leg D - the glue around the learner: pv_streams_to_puml_files with several job names, loaded models
(-im) and saved models (-om), chained over several invocations, vs V.Pv.Driver.chain evaluated in coqc.

The real functions are called in-process exactly as tel2puml/otel_to_puml.py does (load_events_from_file for
every model file, events_to_jobs_map[job_name] = events, then pv_streams_to_puml_files(..., save_models=True));
all invocations of a chain write into one output directory.  Compared: the set of model files, the job name
each records and its evidence (as sets)."""
from __future__ import annotations

import json
import random
from pathlib import Path
from . import common, learnlib as L, pumllib as P
from .common import coq_list
from .c04 import canon_events, coq_msets, START

NAMES = ["wf", "Order Processing", "a b", "a_b", "x y z", "wf_2"]


def coq_str(s: str) -> str:
    assert all(32 <= ord(c) < 127 and c != '"' for c in s)
    return f'"{s}"%string'


def gen_chains(out, n):
    rnd = random.Random(out.seed * 9343 + 404)
    pool = L.load_pool()
    recs = L.select(pool, out.seed + 29, "quick", n)
    chains = []
    from .c04 import entry_variant
    for rec in recs:
        rec = entry_variant(rec, rnd)
        jobs = L.complete_jobs(rec)[:10]
        if not jobs:
            continue
        if len(chains) % 3 == 2:
            from .c04 import pad_types
            jobs = pad_types(jobs)
        names = rnd.sample(NAMES, rnd.choice([1, 2, 2, 3]))
        runs = []
        for _ in range(rnd.choice([1, 2, 2, 3])):
            streams = []
            for nm in rnd.sample(names, rnd.randint(1, len(names))):
                streams.append((nm, [rnd.randrange(len(jobs)) for _ in range(rnd.choice([1, 2, 3]))]))
            if rnd.random() < 0.2:       # the same job name twice in one invocation (the in-place quirk)
                streams.append((streams[0][0], [rnd.randrange(len(jobs))]))
            runs.append(streams)
        chains.append(dict(rec=rec, jobs=jobs, runs=runs))
    return chains


def run_impl(chain):
    """returns dict(files={stem: (job_name, canonical model)}) or dict(error=...)"""
    from tel2puml.pv_to_puml.pv_to_puml import pv_streams_to_puml_files
    from tel2puml.events import load_events_from_file
    import contextlib, io
    with common.Scratch("c04d") as d:
        outdir = d / "out"
        outdir.mkdir()
        order = []      # model files in the order they were first written
        serial = 0
        for streams in chain["runs"]:
            mp = {}
            for f in order:
                name, events = load_events_from_file(str(outdir / f))
                mp[name] = events
            pv_streams = []
            for nm, idxs in streams:
                js = []
                for i in idxs:
                    js.append(P.pv_events(chain["jobs"][i], serial, nm))
                    serial += 1
                pv_streams.append((nm, js))
            try:
                with contextlib.redirect_stdout(io.StringIO()), contextlib.redirect_stderr(io.StringIO()):
                    pv_streams_to_puml_files(pv_streams, str(outdir), mp, True)
            except Exception as e:  # noqa  (a learner failure on this job subset: not this leg's business)
                return dict(error=f"{type(e).__name__}: {e}"[:200])
            for f in sorted(p.name for p in outdir.glob("*_model.json")):
                if f not in order:
                    order.append(f)
        files = {}
        for f in order:
            m = json.loads((outdir / f).read_text())

            def cs(sets):
                return sorted(sorted((x["eventType"], x["count"]) for x in s) for s in sets)
            files[f[:-len("_model.json")]] = (m["job_name"], {e["eventType"]: (cs(e["outgoingEventSets"]), cs(e["incomingEventSets"])) for e in m["events"]})
        return dict(files=files)


def coq_row(chain, res):
    it = P.Interner()
    it(START)
    for j in chain["jobs"]:
        for t, _ in j:
            it(t)
    runs = coq_list([coq_list([f"({coq_str(nm)}, {coq_list([P.coq_job(chain['jobs'][i], it) for i in idxs])})" for nm, idxs in streams])
                     for streams in chain["runs"]])
    impl = []
    for stem, (jn, cm) in res["files"].items():
        m = coq_list([
            f"({it(t)}%positive, {coq_msets([sorted((it(k), v) for k, v in s) for s in o], lambda x: x)}, "
            f"{coq_msets([sorted((it(k), v) for k, v in s) for s in i], lambda x: x)})"
            for t, (o, i) in sorted(cm.items(), key=lambda kv: it(kv[0]))])
        impl.append(f"({coq_str(stem)}, ({coq_str(jn)}, {m}))")
    return f"({runs}, {coq_list(impl)})"


def cases_v(rows):
    body = ";\n ".join(rows)
    return f"""From Coq Require Import List PArith Bool Arith String. Import ListNotations.
From V Require Import Puml.Ast Puml.Exec Pv.EventModel Pv.Driver.
Open Scope positive_scope.
Definition impl_t := list (string * (string * list (evt * list mset * list mset))).
Definition cases : list (list (list stream) * impl_t) := [
 {body}].
Definition mset_eqb (a b : mset) := match mset_cmp a b with Eq => true | _ => false end.
Fixpoint leqb {{A B}} (f : A -> B -> bool) (a : list A) (b : list B) := match a, b with [] , [] => true | x :: a', y :: b' => f x y && leqb f a' b' | _, _ => false end.
Definition sub (a b : list mset) := forallb (fun x => existsb (mset_eqb x) b) a.
Definition seteq a b := sub a b && sub b a.
Definition agree (m : emodel) (i : list (evt * list mset * list mset)) :=
  leqb (fun x y => Pos.eqb (fst x) (fst (fst y)) && seteq (outs (snd x)) (snd (fst y)) && seteq (ins (snd x)) (snd y)) m i.
Definition idx {{A}} (f : A -> bool) (l : list A) : list nat := map fst (filter (fun p => negb (f (snd p))) (combine (seq 0 (List.length l)) l)).
Definition check (c : list (list stream) * impl_t) : bool :=
  match chain (fst c) with
  | None => false
  | Some d => Nat.eqb (List.length d) (List.length (snd c)) &&
              forallb (fun fi => match fget (fst fi) d with
                                 | Some (n, j) => String.eqb n (fst (snd fi)) &&
                                                  match load j with Some m => agree m (snd (snd fi)) | None => false end
                                 | None => false end) (snd c)
  end.
Eval vm_compute in (1%nat, idx check cases).
"""


def oracle(chain, res):
    """the property's own reading, without the model: every job name that is not involved in a file-name collision has one
    model file recording that name whose evidence equals one-shot ingestion of all jobs supplied under the name"""
    from tel2puml.pv_to_puml.data_ingestion import update_and_create_events_from_clustered_pvevents
    by_name = {}
    dup_in_run = set()
    for streams in chain["runs"]:
        seen = set()
        for nm, idxs in streams:
            if nm in seen:
                dup_in_run.add(nm)
            seen.add(nm)
            by_name.setdefault(nm, []).extend(idxs)
    stems = {}
    for nm in by_name:
        stems.setdefault(nm.replace(" ", "_"), []).append(nm)
    for nm, idxs in by_name.items():
        stem = nm.replace(" ", "_")
        if len(stems[stem]) > 1 or nm in dup_in_run:
            continue
        if stem not in res["files"]:
            return f"no model file for job name {nm!r}"
        jn, cm = res["files"][stem]
        if jn != nm:
            return f"model file {stem}_model.json records job name {jn!r}, the job name is {nm!r}"
        pv = [P.pv_events(chain["jobs"][i], k, nm) for k, i in enumerate(idxs)]
        want = canon_events(update_and_create_events_from_clustered_pvevents(pv, add_dummy_start=True))
        got = cm
        if got != want:
            return f"model of {nm!r} after the chain differs from one-shot ingestion of all its jobs"
    return None


def leg(out, n):
    chains = gen_chains(out, n)
    results = [run_impl(c) for c in chains]
    ok = [(c, r) for c, r in zip(chains, results) if "files" in r]
    bad = [(c, why) for c, r in ok if (why := oracle(c, r))]
    rows = [coq_row(c, r) for c, r in ok]
    files = [(f"D{s}", cases_v(rows[s:s + 10])) for s in range(0, len(rows), 10)]
    res = common.coq_eval_many(files)
    dis, fails = [], []
    for (name, _), (okc, o) in zip(files, res):
        l = common.parse_nat_list(o, "1")
        if not okc or l is None:
            fails.append((name, o[-600:]))
        else:
            dis += [int(name[1:]) + i for i in l]
    return dict(chains=len(chains), compared=len(ok), skipped_learner_errors=len(chains) - len(ok),
                first_error=next((r["error"] for r in results if "error" in r), None),
                bad=[dict(kind="model files after a chain of invocations differ from one-shot learning", why=why,
                          definition=P.show(c["rec"]["d"]), jobs=c["jobs"], runs=c["runs"]) for c, why in bad],
                disagreements=[dict(definition=P.show(ok[k][0]["rec"]["d"]), runs=ok[k][0]["runs"], files={s: v[0] for s, v in ok[k][1]["files"].items()}) for k in dis],
                coq_failures=fails,
                collisions=sum(1 for c in chains if len({nm.replace(" ", "_") for s in c["runs"] for nm, _ in s}) < len({nm for s in c["runs"] for nm, _ in s})),
                repeats=sum(1 for c in chains if any(len({nm for nm, _ in s}) < len(s) for s in c["runs"])))
