"""Shared helpers for the store properties (C09-C12, C15): building OTelEvents, driving the real
SQLDataHolder, reading tables back with plain sqlite3, interning strings as Coq positives."""
from __future__ import annotations

import sqlite3
from .common import coq_z, coq_list

# An abstract span ("ev"): dict(id:int, par:int|None, job:int, name:int, ty:int, st:int, en:int, app:int)
# Strings are derived from the ints with fixed-width decimal suffixes, so byte order == int order
# (names and job ids are ORDER BY keys).


# ids carry upper-case letters (B3 / .NET style hex ids do): a normalisation that touches only some of the id columns shows
def s_id(i): return f"Ev{i:06d}"
def s_job(i): return f"Job{i:06d}"
# workflow names: byte order == index order (ORDER BY job_name); the first six differ pairwise only in letter case
_NAMES = ["Billing", "Checkout", "Orders", "billing", "checkout", "orders"]


def s_name(i): return _NAMES[i - 1] if 1 <= i <= len(_NAMES) else f"p{i:04d}"


def un_name(s: str) -> int:
    return _NAMES.index(s) + 1 if s in _NAMES else int(s[1:])
def s_ty(i): return f"T{i}"
def s_app(i): return f"app{i}"


def un(s: str) -> int:
    return int("".join(ch for ch in s if ch.isdigit()))


def un_strict(s: str, fmt) -> int:
    """decode an id written by `fmt`; a string that is not byte for byte what `fmt` writes (e.g. case-folded) decodes to a
    number no generator uses, so that it cannot pass for the original"""
    n = un(s)
    return n if fmt(n) == s else 800000 + n


def to_otel(ev):
    from tel2puml.otel_to_pv.otel_to_pv_types import OTelEvent
    return OTelEvent(job_name=s_name(ev["name"]), job_id=s_job(ev["job"]), event_type=s_ty(ev["ty"]),
                     event_id=s_id(ev["id"]), start_timestamp=ev["st"], end_timestamp=ev["en"],
                     application_name=s_app(ev["app"]),
                     parent_event_id=("" if ev["par"] == 0 else s_id(ev["par"])) if ev["par"] is not None else None)


def holder(db_uri: str, batch_size: int = 1000, time_buffer: int = 0):
    from tel2puml.otel_to_pv.data_holders import SQLDataHolder
    from tel2puml.otel_to_pv.config import SQLDataHolderConfig
    return SQLDataHolder(SQLDataHolderConfig(db_uri=db_uri, batch_size=batch_size, time_buffer=time_buffer))


def ingest(h, evs) -> str:
    """one `with` block of IngestData.load_to_data_holder over a list-backed data source"""
    from tel2puml.otel_to_pv.ingest_otel_data import IngestData
    try:
        IngestData([to_otel(e) for e in evs], h).load_to_data_holder()
        return "ok"
    except Exception as e:  # noqa
        try:
            h.session.rollback()
        except Exception:  # noqa
            pass
        return "ERR:" + type(e).__name__


def read_tables(path: str):
    con = sqlite3.connect(path)
    try:
        nodes = con.execute("SELECT event_id, parent_event_id, job_id, job_name, event_type, start_timestamp, "
                            "end_timestamp, application_name FROM nodes ORDER BY id").fetchall()
        assoc = con.execute('SELECT parent_id, child_id FROM "NODE_ASSOCIATION" ORDER BY rowid').fetchall()
        try:
            hashes = con.execute("SELECT job_id, job_name, job_hash FROM job_hashes ORDER BY rowid").fetchall()
        except sqlite3.OperationalError:
            hashes = []
    finally:
        con.close()
    evs = [dict(id=un_strict(r[0], s_id), par=(0 if r[1] == "" else un_strict(r[1], s_id)) if r[1] is not None else None,
                job=un_strict(r[2], s_job), name=un_name(r[3]), ty=un(r[4]), st=r[5], en=r[6], app=un(r[7])) for r in nodes]
    return evs, [((0 if p == "" else un_strict(p, s_id)), un_strict(c, s_id)) for p, c in assoc], hashes


def raw_insert(path: str, evs, assoc):
    """build an arbitrary initial store (e.g. with stale association rows) directly in SQL"""
    con = sqlite3.connect(path)
    for e in evs:
        con.execute("INSERT INTO nodes(job_name, job_id, event_type, event_id, start_timestamp, end_timestamp, "
                    "application_name, parent_event_id) VALUES (?,?,?,?,?,?,?,?)",
                    (s_name(e["name"]), s_job(e["job"]), s_ty(e["ty"]), s_id(e["id"]), e["st"], e["en"], s_app(e["app"]),
                     s_id(e["par"]) if e["par"] is not None else None))
    for p, c in assoc:
        con.execute('INSERT INTO "NODE_ASSOCIATION"(parent_id, child_id) VALUES (?,?)', (s_id(p), s_id(c)))
    con.commit()
    con.close()


# ------------------------------------------------------------------ Coq terms

def coq_node(e) -> str:
    par = f"(Some {e['par'] or 999999}%positive)" if e["par"] is not None else "None"
    return (f"(mknode {e['id']} {par} {e['job']} {e['name']} {e['ty']} {coq_z(e['st'])} {coq_z(e['en'])} {e['app']})")


def coq_nodes(evs) -> str:
    return coq_list([coq_node(e) for e in evs])


def coq_pairs(ps) -> str:
    return coq_list([f"({a or 999999}%positive, {b}%positive)" for a, b in ps])


def coq_store(evs, assoc) -> str:
    return f"(mkstore {coq_nodes(evs)} {coq_pairs(assoc)} [])"


# ------------------------------------------------------------------ trace generators

def gen_trace(rnd, job, name, first_id, n, ntypes=3, t0=0, span=1000, dangling=False, names_inconsistent=False):
    """a rooted tree of n spans as abstract events (root first); ids first_id.."""
    evs = []
    for k in range(n):
        par = None if k == 0 else first_id + rnd.randrange(k)
        st = t0 + rnd.randrange(span)
        en = st + rnd.randrange(span // 4 + 1)
        nm = name
        if names_inconsistent and k > 0 and rnd.random() < 0.5:
            nm = name + 1 + rnd.randrange(2)
        evs.append(dict(id=first_id + k, par=par, job=job, name=nm, ty=1 + rnd.randrange(ntypes), st=st, en=en,
                        app=1 + rnd.randrange(2)))
    if dangling and n > 0:
        victim = evs[rnd.randrange(n)] if n == 1 else evs[1 + rnd.randrange(n - 1)]
        victim["par"] = 900000 + first_id   # never ingested
    return evs
