"""C07 - loop extraction leaves an acyclic, complete, non-overlapping nesting (translation validation).

For the loop-bearing definitions of the frozen pool: build the directly-follows graph exactly as
pv_to_puml_string does, call the real detect_loops, export the returned nesting and certify it in
coqc with c07_b (proved sound and complete w.r.t. C07_spec, Loop/NestingProofs.v)."""
from __future__ import annotations

import json
import subprocess
from . import common, learnlib as L, pumllib as P
from .common import coq_list

LEVEL = "translation_validation"

WORKER = r"""
import sys, json, random, uuid
seed = int(sys.argv[1]); _r = random.Random(seed)
uuid.uuid4 = lambda: uuid.UUID(int=_r.getrandbits(128), version=4)
import logging; logging.disable(logging.CRITICAL)
import tel2puml.events
from copy import deepcopy
from tel2puml.pv_to_puml.data_ingestion import update_and_create_events_from_clustered_pvevents
from tel2puml.events import create_graph_from_events
from tel2puml.loop_detection.detect_loops import detect_loops
from tel2puml.loop_detection.loop_types import LoopEvent
def exp(gr):
    nodes = list(gr.nodes)
    idx = {id(x): k + 1 for k, x in enumerate(nodes)}
    return {"nodes": [[idx[id(x)], x.event_type, isinstance(x, LoopEvent)] for x in nodes],
            "edges": [[idx[id(u)], idx[id(v)]] for u, v in gr.edges],
            "subs": {str(idx[id(x)]): exp(x.sub_graph) for x in nodes if isinstance(x, LoopEvent)}}
for line in sys.stdin:
    req = json.loads(line)
    try:
        events = update_and_create_events_from_clustered_pvevents(req["jobs"], add_dummy_start=True)
        g = create_graph_from_events(deepcopy(events).values())
        inp = {"nodes": sorted({x.event_type for x in g.nodes}), "edges": sorted([u.event_type, v.event_type] for u, v in g.edges)}
        out = {"ok": {"input": inp, "nest": exp(detect_loops(g))}}
    except BaseException as e:
        out = {"err": type(e).__name__ + ": " + str(e)[:150]}
    sys.stdout.write(json.dumps(out) + "\n"); sys.stdout.flush()
"""
START = "|||START|||"


def run_impl(reqs, hashseed, uuid_seed):
    import threading
    n = len(reqs)
    nproc = min(common.NPROC, max(1, n))
    chunks = [list(range(i, n, nproc)) for i in range(nproc)]
    results = [None] * n

    def drive(idxs):
        p = subprocess.Popen([common.PY, "-c", WORKER, str(uuid_seed)], stdin=subprocess.PIPE, stdout=subprocess.PIPE,
                             stderr=subprocess.DEVNULL, env=common.impl_env(hashseed), text=True)
        data = "".join(json.dumps(reqs[i]) + "\n" for i in idxs)
        try:
            outp, _ = p.communicate(data, timeout=120 + 5 * len(idxs))
            lines = outp.strip().split("\n") if outp.strip() else []
        except subprocess.TimeoutExpired:
            p.kill()
            lines = []
        for k, i in enumerate(idxs):
            results[i] = json.loads(lines[k]) if k < len(lines) else {"err": "worker died"}
    ths = [threading.Thread(target=drive, args=(c,)) for c in chunks if c]
    [t.start() for t in ths]
    [t.join() for t in ths]
    return results


def has_loop(d):
    return any(b[0] == "loop" or (b[0] == "fork" and any(has_loop(s) for s in b[2])) for b in d)


def coq_nest(nest, tid, observed):
    nodes = coq_list([str(n[0]) for n in nest["nodes"]])
    edges = coq_list([f"({u}, {v})" for u, v in nest["edges"]])
    lab = coq_list([f"({n[0]}, {'LLoop' if n[2] else ('LEvent %d' % tid[n[1]] if n[1] in observed else 'LDummy')})" for n in nest["nodes"]])
    subs = coq_list([f"({k}, {coq_nest(v, tid, observed)})" for k, v in nest["subs"].items()])
    return f"(Nest (mkgraph {nodes} {edges}) {lab} {subs})"


def run(out: common.Outcome, explore: int = 0) -> None:
    okp = common.proof_obligations(out, "C07")
    quick = out.tier == "quick"
    pool = [r for r in L.load_pool() if has_loop(r["d"])]
    recs = L.select(pool, out.seed, out.tier, explore or 150)
    # loop-rich family beyond the letter of F (break branches containing loops/forks, two loops after one event):
    # the shapes of the corpus' loop cases; frozen like the F pool (harness/pool/L.jsonl)
    import json as _json
    from pathlib import Path as _Path
    lpool = [_json.loads(l) for l in (_Path(__file__).resolve().parent / "pool" / "L.jsonl").read_text().splitlines() if l.strip()]
    recs = recs + L.select(lpool, out.seed + 1, out.tier, 100)
    l2pool = [_json.loads(l) for l in (_Path(__file__).resolve().parent / "pool" / "L2.jsonl").read_text().splitlines() if l.strip()]
    recs = recs + L.select(l2pool, out.seed + 4, out.tier, 60)      # "bunched" loop exits: the continuing branch begins with a fork
    # fragment-F definitions in which a loop body ENDS with a nested loop (some with a break branch); rare in pool F, so a
    # dedicated frozen pool harness/pool/T.jsonl, each member certified inF_b in coqc on every run
    tpool = [_json.loads(l) for l in (_Path(__file__).resolve().parent / "pool" / "T.jsonl").read_text().splitlines() if l.strip()]
    trecs = L.select(tpool, out.seed + 6, out.tier, 40)
    recs = recs + trecs
    not_in_f = []
    if okp:
        rows_t = []
        for r in trecs:
            inter = P.Interner()
            rows_t.append(P.coq_diagram(r["d"], inter))
        okc, o = common.coq_eval("C07inF", "From Coq Require Import List PArith Bool Arith. Import ListNotations.\n"
                                 "From V Require Import Puml.Ast Puml.Exec Puml.FragmentF.\nOpen Scope positive_scope.\n"
                                 "Definition ds : list diagram := [\n " + ";\n ".join(rows_t) + "].\n"
                                 "Definition idx {A} (f : A -> bool) (l : list A) : list nat := map fst (filter (fun p => negb (f (snd p))) (combine (seq 0 (length l)) l)).\n"
                                 "Eval vm_compute in (1%nat, idx (fun d => inF_b d && wf d) ds).\n")
        l = common.parse_nat_list(o, "1") if okc else None
        not_in_f = ["certification failed: " + o[-300:]] if l is None else [trecs[i]["id"] for i in l]
    # beyond the letter of F: a loop (single event, two events, or only a fork) as the FIRST element of an outer loop body that
    # can also be by-passed; frozen pool harness/pool/Y.jsonl (36 shapes), always all of them
    recs = recs + L.load_extra_pool("Y")
    recs = recs + L.select(L.load_extra_pool("Z"), out.seed + 8, out.tier, 40)   # a fork branch that BEGINS with a loop (60 shapes)
    recs = recs + [r for r in L.load_corpus_pool() if has_loop(r["d"])]      # the loop cases of the corpus
    variants = (0, 4) if quick else (0, 1, 4, 5)
    items = []
    for rec in recs:
        jobs = L.complete_jobs(rec)
        for v in variants:
            items.append(dict(rec=rec, jobs=jobs, variant=v))
    by_env = {}
    for it in items:
        by_env.setdefault(L.VARIANT_ENV[it["variant"]], []).append(it)
    for (hs, us), group in by_env.items():
        reqs = [dict(jobs=L.present(it["jobs"], it["variant"], it["rec"]["id"])) for it in group]
        for it, r in zip(group, run_impl(reqs, hs, us)):
            it["res"] = r
    rows, pre = [], {}
    for i, it in enumerate(items):
        r = it["res"]
        if "err" in r:
            pre[i] = "error:" + r["err"].split(":")[0]
            continue
        inp = r["ok"]["input"]
        tid = {t: k + 1 for k, t in enumerate(inp["nodes"])}
        observed = set(inp["nodes"]) - {START}
        if START not in tid:
            pre[i] = "no-dummy-start"
            continue
        g = f"(mkgraph {coq_list([str(tid[t]) for t in inp['nodes']])} {coq_list(['(%d, %d)' % (tid[u], tid[v]) for u, v in inp['edges']])})"
        rows.append((i, f"({i}%nat, {tid[START]}, {g}, {coq_nest(r['ok']['nest'], tid, observed)})"))
    shard = 40
    files = []
    for s in range(0, len(rows), shard):
        body = ";\n ".join(r for _, r in rows[s:s + shard])
        files.append((f"N{s}", f"""From Coq Require Import PArith List Bool. Import ListNotations.
From V Require Import Loop.Digraph Loop.Nesting.
Open Scope positive_scope.
Definition cases : list (nat * positive * graph * nest) := [
 {body}].
Definition b2n (b : bool) := if b then 1%nat else 0%nat.
Eval vm_compute in map (fun c => let '(i, s, inp, n) := c in
   (i, [b2n (wf_graph_b inp); b2n (c07a_b n); b2n (c07b_b s inp n); b2n (c07c_b inp n)])) cases.
"""))
    cres = common.coq_eval_many(files) if okp else []
    verdicts, coq_fail = {}, []
    for (name, _), (okc, o) in zip(files, cres):
        parsed = L._parse_rows(o) if okc else None
        if parsed is None:
            coq_fail.append((name, o[-600:]))
            continue
        for i, flags in parsed:
            verdicts[i] = flags
    n_viol, kinds, failing = 0, {}, []
    names = ["input-graph-ill-formed", "level-cyclic-or-not-single-entry", "event-type-lost-or-duplicated", "cycle-not-inside-a-loop-body"]
    for i, it in enumerate(items):
        kind = pre.get(i)
        if kind is None and i in verdicts and not all(verdicts[i]):
            kind = next(nm for nm, f in zip(names, verdicts[i]) if not f)
        if kind is None:
            continue
        kinds[kind.split(":")[0]] = kinds.get(kind.split(":")[0], 0) + 1
        key = L.finding_key("C07", it["rec"]["id"], it["variant"], kind.split(":")[0])
        failing.append(dict(key=key, kind=kind))
        f = out.match_finding(key)
        if f:
            out.known_finding(key)
        elif n_viol < 4:
            n_viol += 1
            out.violation(dict(kind=kind, key=key, definition=P.show(it["rec"]["d"]), definition_id=it["rec"]["id"], variant=it["variant"],
                               detect_loops_result=it["res"], checks=dict(zip(names, verdicts.get(i, [])))))
    if not_in_f and not out.violations:
        out.violation({"kind": "pool-definition-not-in-F", "ids": not_in_f[:5]}, no_failing_input=True)
    if okp and coq_fail and not out.violations:
        out.violation({"kind": "certificate-evaluation-failed", "coq_failures": coq_fail[:2]}, no_failing_input=True)
    nested = sum(1 for it in items if "ok" in it["res"] and any(v["subs"] for v in it["res"]["ok"]["nest"]["subs"].values()))
    out.coverage.update({
        "programs": len(rows), "disagreements_checked": len(failing),
        "samples": [dict(definition=P.show(items[0]["rec"]["d"]), result=items[0]["res"])],
        "exhaustive": False, "definitions": len(recs), "loop_bearing_pool": len(pool), "detect_loops_calls": len(items),
        "results_with_nested_loops": nested, "failure_kinds": kinds, "failing_keys": failing,
        "evaluations": len(items), "distinct_nontrivial": len({it["rec"]["id"] for it in items}),
        "rule": "loop-bearing definitions of the frozen F pool (nested loops, breaks, forks inside loops) plus 100 (thorough: 300) definitions of the frozen loop-rich pool L (break branches containing loops/forks, two loops after one event - the corpus' loop-case shapes), 40 (thorough: 80) definitions of the frozen pool T (fragment F, a loop body ending in a nested loop; certified inF_b on every run), complete job set with loops run "
                "once and twice, presentation/hash-seed variants; graph built exactly as pv_to_puml_string does",
        "trusted_base": common.std_trusted_base(["export of networkx graphs and LoopEvent.sub_graph to Coq terms (node ids per level, "
                                                 "labels: observed type / loop node / dummy)"]),
    })
    out.assumptions += ["translation validation: each returned nesting is certified; detect_loops itself is not modelled"]


def replay(out, rp):
    out.coverage.update({"programs": 1, "disagreements_checked": 0, "samples": [rp]})
    print(rp.get("definition")); print(json.dumps(rp.get("detect_loops_result"))[:2000])
