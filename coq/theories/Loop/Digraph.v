(** * Loop/Digraph.v -- finite directed graphs over [positive] node ids (model, no proofs).

    Used by the C07 validator (loop detection, [/repo/tel2puml/loop_detection/detect_loops.py]).
    Everything here is executable; the declarative counterparts ([path], [wf_graph],
    [single_entry], [before]) are what the theorems of [DigraphProofs.v] relate them to. *)
From Coq Require Import PArith List Bool Arith.
Import ListNotations.

(** ** Graphs *)

Record graph := mkgraph { gnodes : list positive; gedges : list (positive * positive) }.

Definition memp (x : positive) (l : list positive) : bool := existsb (Pos.eqb x) l.

Fixpoint nodup_b (l : list positive) : bool :=
  match l with
  | [] => true
  | x :: r => negb (memp x r) && nodup_b r
  end.

(** Well-formed: node list duplicate-free, edges mention listed nodes only. *)
Definition wf_graph_b (g : graph) : bool :=
  nodup_b (gnodes g) &&
  forallb (fun e => memp (fst e) (gnodes g) && memp (snd e) (gnodes g)) (gedges g).

Definition wf_graph (g : graph) : Prop :=
  NoDup (gnodes g) /\
  forall u v, In (u, v) (gedges g) -> In u (gnodes g) /\ In v (gnodes g).

(** ** Paths (at least one edge) *)

Inductive path (g : graph) : positive -> positive -> Prop :=
| path_one  : forall u v, In (u, v) (gedges g) -> path g u v
| path_cons : forall u v w, In (u, v) (gedges g) -> path g v w -> path g u w.

(** ** Executable reachability: frontier BFS, fuel = number of nodes *)

Definition succs (g : graph) (u : positive) : list positive :=
  map snd (filter (fun e => Pos.eqb (fst e) u) (gedges g)).

(** The not-yet-visited successors of the frontier, without duplicates. *)
Definition bfs_new (g : graph) (visited frontier : list positive) : list positive :=
  nodup Pos.eq_dec
        (filter (fun x => negb (memp x visited)) (flat_map (succs g) frontier)).

Fixpoint bfs (g : graph) (fuel : nat) (visited frontier : list positive) {struct fuel}
  : list positive :=
  match frontier with
  | [] => visited
  | _ :: _ =>
    match fuel with
    | O => visited
    | S f => let new := bfs_new g visited frontier in bfs g f (new ++ visited) new
    end
  end.

(** All nodes reachable from [u] through at least one edge (duplicate-free). *)
Definition reach_set (g : graph) (u : positive) : list positive :=
  let s0 := nodup Pos.eq_dec (succs g u) in
  bfs g (length (gnodes g)) s0 s0.

Definition reach_b (g : graph) (u v : positive) : bool := memp v (reach_set g u).

(** ** Acyclicity (self-loops count as cycles) *)

Definition acyclic_b (g : graph) : bool :=
  forallb (fun u => negb (reach_b g u u)) (gnodes g).

(** ** Single entry *)

Definition indeg0_b (g : graph) (v : positive) : bool :=
  negb (existsb (fun e => Pos.eqb (snd e) v) (gedges g)).

Definition indeg0 (g : graph) (v : positive) : Prop := forall u, ~ In (u, v) (gedges g).

Definition single_entry_b (g : graph) : bool :=
  match filter (indeg0_b g) (gnodes g) with
  | [r] => let rs := reach_set g r in
           forallb (fun v => Pos.eqb v r || memp v rs) (gnodes g)
  | _ => false
  end.

(** Exactly one listed node has in-degree 0 and every other listed node is reachable from it. *)
Definition single_entry (g : graph) : Prop :=
  exists r, In r (gnodes g) /\
            (forall v, In v (gnodes g) -> (indeg0 g v <-> v = r)) /\
            (forall v, In v (gnodes g) -> v <> r -> path g r v).

(** ** Topological order: sort the nodes by decreasing number of reachable nodes *)

Fixpoint insert_k (x : nat * positive) (l : list (nat * positive)) : list (nat * positive) :=
  match l with
  | [] => [x]
  | y :: r => if Nat.leb (fst y) (fst x) then x :: l else y :: insert_k x r
  end.

Definition sort_k (l : list (nat * positive)) : list (nat * positive) :=
  fold_right insert_k [] l.

Definition topo_order (g : graph) : list positive :=
  map snd (sort_k (map (fun u => (length (reach_set g u), u)) (gnodes g))).

(** [u] occurs strictly before [v] in [order]. *)
Definition before (order : list positive) (u v : positive) : Prop :=
  exists l1 l2 l3, order = l1 ++ u :: l2 ++ v :: l3.

Definition topological (g : graph) (order : list positive) : Prop :=
  forall u v, In (u, v) (gedges g) -> before order u v.

(** ** Multiset equality of [positive] lists *)

Fixpoint remove1 (x : positive) (l : list positive) : option (list positive) :=
  match l with
  | [] => None
  | y :: r => if Pos.eqb x y then Some r
              else match remove1 x r with Some r' => Some (y :: r') | None => None end
  end.

Fixpoint perm_b (l1 l2 : list positive) : bool :=
  match l1 with
  | [] => match l2 with [] => true | _ :: _ => false end
  | x :: r => match remove1 x l2 with Some l2' => perm_b r l2' | None => false end
  end.

(** ** Strongly connected components and condensation *)

(** [u] and [v] lie on a common cycle, or are equal. *)
Definition scc_b (g : graph) (u v : positive) : bool :=
  Pos.eqb u v || (reach_b g u v && reach_b g v u).

Definition scc (g : graph) (u v : positive) : Prop :=
  u = v \/ (path g u v /\ path g v u).

(** Representative of the component of [u]: the first listed node in the same component. *)
Definition rep (g : graph) (u : positive) : positive :=
  match find (scc_b g u) (gnodes g) with Some r => r | None => u end.

Definition condensation (g : graph) : graph :=
  mkgraph (nodup Pos.eq_dec (map (rep g) (gnodes g)))
          (flat_map (fun e => let a := rep g (fst e) in let b := rep g (snd e) in
                              if Pos.eqb a b then [] else [(a, b)]) (gedges g)).
