(** * Loop/Nesting.v -- the result of loop detection and the C07 validator (model, no proofs).

    Python side: [/repo/tel2puml/loop_detection/detect_loops.py], [detect_loops(graph)].
    The input is the directly-follows graph of event types (one node per event type plus one
    dummy start node).  The output is a graph in which every cycle has been replaced by a loop
    node carrying a [sub_graph] (the loop body, processed recursively, with dummy
    start/end/break nodes added).  We do not model the algorithm; we validate one
    input/output pair at a time (translation validation): [c07_b s inp n = true] is checked by
    [vm_compute] and [NestingProofs.c07_b_sound] turns it into the declarative [C07_spec].

    ** How the harness writes a graph and a nest as Coq terms

    Put [From Coq Require Import PArith List.  From V Require Import Loop.Digraph Loop.Nesting.
    Import ListNotations.  Open Scope positive_scope.] at the top; all numerals are then
    [positive] literals (>= 1; never emit 0).

    - Event types.  Number the distinct event types of the INPUT graph 1, 2, 3, ... (any
      injective numbering into the positives will do).  The dummy start node of the input gets
      its own number [s] from the same numbering.
    - Input graph.  [mkgraph [ids of all input nodes, s included] [(u, v); ...]] with one pair
      per directed edge, written with the event-type ids.  Each node listed once; each edge
      endpoint must be listed ([wf_graph_b]).  Edge order and node order are irrelevant.
      Duplicate edges are harmless.
    - A level of the output (the returned top-level graph, or the [sub_graph] of a loop event)
      is [Nest (mkgraph nodes edges) lab subs] where
        * the node ids are LOCAL to the level: number the nodes of that level 1, 2, 3, ... in
          any order (ids of different levels are unrelated, and unrelated to event-type ids);
        * [lab] has exactly one pair [(node id, label)] per node of the level:
            [LEvent t]  an ordinary event whose event type has input id [t];
            [LDummy]    a dummy start / dummy end / break placeholder added by the algorithm
                        (including the input's own dummy start node at top level);
            [LLoop]     a loop event (a Python [LoopEvent]);
        * [subs] has exactly one pair [(node id, body)] per [LLoop] node, [body] being the
          [Nest] term of that loop event's [sub_graph]; non-loop nodes have no entry.
      Example (input  s=1 -> A=2 -> B=3 -> C=4 -> B, C -> D=5):
<<
      Definition inp := mkgraph [1;2;3;4;5] [(1,2);(2,3);(3,4);(4,3);(4,5)].
      Definition out :=
        Nest (mkgraph [1;2;3;4] [(1,2);(2,3);(3,4)])
             [(1,LDummy);(2,LEvent 2);(3,LLoop);(4,LEvent 5)]
             [(3, Nest (mkgraph [1;2;3;4] [(1,2);(2,3);(3,4)])
                       [(1,LDummy);(2,LEvent 3);(3,LEvent 4);(4,LDummy)] [])].
      Example ok : c07_b 1 inp out = true.  Proof. vm_compute. reflexivity. Qed.
>>
    - Diagnostics: [c07_b] is the conjunction of [c07a_b n] (every level well-formed, acyclic,
      single entry), [c07b_b s inp n] (every observed type exactly once) and [c07c_b inp n]
      (every cyclic edge of the input inside a loop body); evaluate them separately
      ([Eval vm_compute in ...]) to see which part rejects.  [bad_levels n] lists, for each
      level in [levels n] order, the five component checks of [level_ok_b]. *)
From Coq Require Import PArith List Bool Permutation.
From V Require Import Loop.Digraph.
Import ListNotations.

Inductive label := LEvent (t : positive) | LDummy | LLoop.

Inductive nest := Nest (g : graph) (lab : list (positive * label)) (subs : list (positive * nest)).

Definition ngraph (n : nest) : graph := match n with Nest g _ _ => g end.
Definition nlab (n : nest) : list (positive * label) := match n with Nest _ lab _ => lab end.
Definition nsubs (n : nest) : list (positive * nest) := match n with Nest _ _ subs => subs end.

(** The nest itself followed by all its sub-nests at any depth. *)
Fixpoint levels (n : nest) : list nest :=
  match n with
  | Nest g lab subs =>
    n :: (fix go (l : list (positive * nest)) : list nest :=
            match l with
            | [] => []
            | (_, m) :: r => levels m ++ go r
            end) subs
  end.

(** All loop bodies at any depth (every level except the nest itself). *)
Definition bodies (n : nest) : list nest := flat_map (fun p => levels (snd p)) (nsubs n).

Definition label_types (l : label) : list positive :=
  match l with LEvent t => [t] | LDummy => [] | LLoop => [] end.

(** Event types labelling the nodes of this level only. *)
Definition level_types (n : nest) : list positive :=
  flat_map (fun p => label_types (snd p)) (nlab n).

(** All event types over all levels, with multiplicity. *)
Definition event_types (n : nest) : list positive := flat_map level_types (levels n).

(** Event types at this level and below (same function, used for loop bodies). *)
Definition body_types (n : nest) : list positive := event_types n.

Definition is_loop (l : label) : bool :=
  match l with LLoop => true | _ => false end.

Definition loop_nodes (lab : list (positive * label)) : list positive :=
  map fst (filter (fun p => is_loop (snd p)) lab).

(** ** (a) one level is well-formed, acyclic, single-entry *)

Definition level_checks (m : nest) : list bool :=
  [ wf_graph_b (ngraph m);
    perm_b (map fst (nlab m)) (gnodes (ngraph m));
    perm_b (map fst (nsubs m)) (loop_nodes (nlab m));
    acyclic_b (ngraph m);
    single_entry_b (ngraph m) ].

Definition level_ok_b (m : nest) : bool := forallb (fun b => b) (level_checks m).

Definition level_ok (m : nest) : Prop :=
  wf_graph (ngraph m) /\
  (* the labels cover exactly the nodes: one label per node *)
  Permutation (map fst (nlab m)) (gnodes (ngraph m)) /\
  (* every loop node has exactly one body and only loop nodes do *)
  Permutation (map fst (nsubs m)) (loop_nodes (nlab m)) /\
  (forall u, ~ path (ngraph m) u u) /\
  single_entry (ngraph m).

Definition c07a_b (n : nest) : bool := forallb level_ok_b (levels n).

Definition bad_levels (n : nest) : list (list bool) := map level_checks (levels n).

(** ** (b) each observed event type exactly once in the whole nesting *)

Definition observed (s : positive) (inp : graph) : list positive :=
  remove Pos.eq_dec s (gnodes inp).

Definition c07b_b (s : positive) (inp : graph) (n : nest) : bool :=
  nodup_b (event_types n) && perm_b (event_types n) (observed s inp).

(** ** (c) every cyclic edge of the input lies inside some loop body *)

Definition on_cycle_b (inp : graph) (u v : positive) : bool :=
  Pos.eqb u v || reach_b inp v u.

Definition c07c_b (inp : graph) (n : nest) : bool :=
  let bs := map body_types (bodies n) in
  forallb (fun e => negb (on_cycle_b inp (fst e) (snd e)) ||
                    existsb (fun b => memp (fst e) b && memp (snd e) b) bs)
          (gedges inp).

Definition c07_b (s : positive) (inp : graph) (n : nest) : bool :=
  c07a_b n && c07b_b s inp n && c07c_b inp n.

(** ** Declarative statement of C07 for one input/output pair *)

Definition C07_spec (s : positive) (inp : graph) (n : nest) : Prop :=
  (* the top-level graph and every loop body: well-formed, acyclic, single entry *)
  (forall m, In m (levels n) -> level_ok m) /\
  (* none duplicated *)
  NoDup (event_types n) /\
  (* none lost, none invented *)
  Permutation (event_types n) (observed s inp) /\
  (* every cyclic dependency of the input lies inside some loop body *)
  (forall u v, In (u, v) (gedges inp) -> (u = v \/ path inp v u) ->
     exists b, In b (bodies n) /\ In u (body_types b) /\ In v (body_types b)).
