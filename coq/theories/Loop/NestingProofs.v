(** * Loop/NestingProofs.v -- soundness and completeness of the C07 validator. *)
From Coq Require Import PArith List Bool Arith Lia Permutation.
From V Require Import Loop.Digraph Loop.DigraphProofs Loop.Nesting.
Import ListNotations.

(** ** Structure of [levels] *)

Lemma levels_unfold : forall g lab subs,
  levels (Nest g lab subs) = Nest g lab subs :: flat_map (fun p => levels (snd p)) subs.
Proof.
  intros g lab subs. simpl. f_equal.
  induction subs as [|[i m] r IH]; simpl.
  - reflexivity.
  - rewrite IH. reflexivity.
Qed.

Lemma levels_bodies : forall n, levels n = n :: bodies n.
Proof. intros [g lab subs]. rewrite levels_unfold. reflexivity. Qed.

Lemma levels_self : forall n, In n (levels n).
Proof. intros n. rewrite levels_bodies. left. reflexivity. Qed.

Lemma bodies_levels : forall n b, In b (bodies n) -> In b (levels n).
Proof. intros n b H. rewrite levels_bodies. right. exact H. Qed.

Lemma flat_map_flat_map : forall (A B C : Type) (f : B -> list C) (h : A -> list B) l,
  flat_map f (flat_map h l) = flat_map (fun x => flat_map f (h x)) l.
Proof.
  intros A B C f h l. induction l as [|a l IH]; simpl.
  - reflexivity.
  - rewrite flat_map_app, IH. reflexivity.
Qed.

Lemma event_types_unfold : forall g lab subs,
  event_types (Nest g lab subs) =
  level_types (Nest g lab subs) ++ flat_map (fun p => event_types (snd p)) subs.
Proof.
  intros g lab subs. unfold event_types at 1. rewrite levels_unfold. simpl.
  f_equal. apply flat_map_flat_map.
Qed.

(** Induction principle for the nested inductive [nest]. *)
Section NestInd.
  Variable P : nest -> Prop.
  Hypothesis HNest : forall g lab subs,
    (forall i m, In (i, m) subs -> P m) -> P (Nest g lab subs).

  Fixpoint nest_ind' (n : nest) : P n :=
    match n with
    | Nest g lab subs =>
      HNest g lab subs
        ((fix go (l : list (positive * nest)) : forall i m, In (i, m) l -> P m :=
            match l return forall i m, In (i, m) l -> P m with
            | [] => fun i m H => match H with end
            | (j, k) :: r => fun i m H =>
                match H with
                | or_introl E =>
                    match E in _ = q return P (snd q) with eq_refl => nest_ind' k end
                | or_intror H' => go r i m H'
                end
            end) subs)
    end.
End NestInd.

Lemma levels_trans : forall n m, In m (levels n) -> incl (levels m) (levels n).
Proof.
  induction n as [g lab subs IH] using nest_ind'. intros m Hm.
  rewrite levels_unfold in Hm. destruct Hm as [Hm|Hm].
  - subst m. apply incl_refl.
  - apply in_flat_map in Hm. destruct Hm as [[i k] [Hk Hm]]. simpl in Hm.
    intros x Hx. rewrite levels_unfold. right. apply in_flat_map.
    exists (i, k). split; [exact Hk|]. simpl. exact (IH i k Hk m Hm x Hx).
Qed.

Lemma levels_types_incl : forall n m, In m (levels n) ->
  incl (event_types m) (event_types n).
Proof.
  intros n m Hm t Ht. unfold event_types in *. apply in_flat_map in Ht.
  destruct Ht as [x [Hx Ht]]. apply in_flat_map. exists x. split; [|exact Ht].
  exact (levels_trans n m Hm x Hx).
Qed.

(** ** One level *)

Lemma level_ok_b_iff : forall m, level_ok_b m = true <-> level_ok m.
Proof.
  intros m. unfold level_ok_b, level_checks, level_ok. simpl. split.
  - intros H.
    apply andb_true_iff in H. destruct H as [H1 H].
    apply andb_true_iff in H. destruct H as [H2 H].
    apply andb_true_iff in H. destruct H as [H3 H].
    apply andb_true_iff in H. destruct H as [H4 H].
    apply andb_true_iff in H. destruct H as [H5 _].
    split; [apply wf_graph_b_iff; exact H1|].
    split; [apply perm_b_iff; exact H2|].
    split; [apply perm_b_iff; exact H3|].
    split; [apply (acyclic_b_iff _ H1); exact H4|].
    apply (single_entry_b_iff _ H1). exact H5.
  - intros [H1 [H2 [H3 [H4 H5]]]].
    apply wf_graph_b_iff in H1. rewrite H1. simpl.
    apply perm_b_iff in H2. rewrite H2. simpl.
    apply perm_b_iff in H3. rewrite H3. simpl.
    apply (acyclic_b_iff _ H1) in H4. rewrite H4. simpl.
    apply (single_entry_b_iff _ H1) in H5. rewrite H5. reflexivity.
Qed.

Lemma c07a_b_iff : forall n, c07a_b n = true <-> forall m, In m (levels n) -> level_ok m.
Proof.
  intros n. unfold c07a_b. rewrite forallb_forall. split.
  - intros H m Hm. apply level_ok_b_iff. exact (H m Hm).
  - intros H m Hm. apply level_ok_b_iff. exact (H m Hm).
Qed.

Lemma c07b_b_iff : forall s inp n,
  c07b_b s inp n = true <->
  (NoDup (event_types n) /\ Permutation (event_types n) (observed s inp)).
Proof.
  intros s inp n. unfold c07b_b. rewrite andb_true_iff, nodup_b_iff, perm_b_iff. reflexivity.
Qed.

Lemma c07c_b_iff : forall inp n, wf_graph_b inp = true ->
  (c07c_b inp n = true <->
   forall u v, In (u, v) (gedges inp) -> (u = v \/ path inp v u) ->
     exists b, In b (bodies n) /\ In u (body_types b) /\ In v (body_types b)).
Proof.
  intros inp n Hwf. unfold c07c_b. rewrite forallb_forall. split.
  - intros H u v He Hc. specialize (H (u, v) He). simpl in H.
    assert (Hon : on_cycle_b inp u v = true).
    { unfold on_cycle_b. apply orb_true_iff. destruct Hc as [Hc|Hc].
      - left. apply Pos.eqb_eq. exact Hc.
      - right. apply (reach_b_iff inp v u Hwf). exact Hc. }
    rewrite Hon in H. simpl in H. apply existsb_exists in H.
    destruct H as [bt [Hbt Hm]]. apply in_map_iff in Hbt. destruct Hbt as [b [Eb Hb]].
    subst bt. apply andb_true_iff in Hm. destruct Hm as [Hu Hv].
    exists b. split; [exact Hb|]. split; apply memp_In; assumption.
  - intros H [u v] He. simpl.
    destruct (on_cycle_b inp u v) eqn:Hon; [|reflexivity]. simpl.
    assert (Hc : u = v \/ path inp v u).
    { unfold on_cycle_b in Hon. apply orb_true_iff in Hon. destruct Hon as [Hon|Hon].
      - left. apply Pos.eqb_eq. exact Hon.
      - right. apply (reach_b_iff inp v u Hwf). exact Hon. }
    destruct (H u v He Hc) as [b [Hb [Hu Hv]]].
    apply existsb_exists. exists (body_types b). split.
    + apply in_map. exact Hb.
    + apply andb_true_iff. split; apply memp_In; assumption.
Qed.

(** ** Main theorems *)

Theorem c07_b_iff : forall s inp n, wf_graph_b inp = true ->
  (c07_b s inp n = true <-> C07_spec s inp n).
Proof.
  intros s inp n Hwf. unfold c07_b, C07_spec.
  rewrite !andb_true_iff, c07a_b_iff, c07b_b_iff, (c07c_b_iff inp n Hwf). tauto.
Qed.

Theorem c07_b_sound : forall s inp n, wf_graph_b inp = true ->
  c07_b s inp n = true -> C07_spec s inp n.
Proof. intros s inp n Hwf H. apply (c07_b_iff s inp n Hwf). exact H. Qed.

Theorem c07_b_complete : forall s inp n, wf_graph_b inp = true ->
  C07_spec s inp n -> c07_b s inp n = true.
Proof. intros s inp n Hwf H. apply (c07_b_iff s inp n Hwf). exact H. Qed.

(** ** Consequences of [C07_spec] *)

(** Each observed event type occurs exactly once in the whole nesting. *)
Theorem c07_each_type_once : forall s inp n, C07_spec s inp n ->
  forall t, In t (gnodes inp) -> t <> s -> count_occ Pos.eq_dec (event_types n) t = 1.
Proof.
  intros s inp n [_ [Hnd [Hp _]]] t Ht Hne.
  apply (proj1 (NoDup_count_occ' Pos.eq_dec (event_types n)) Hnd).
  apply (Permutation_in _ (Permutation_sym Hp)). unfold observed.
  apply in_in_remove; assumption.
Qed.

(** Nothing but observed event types occurs; in particular not the dummy start id. *)
Theorem c07_only_observed : forall s inp n, C07_spec s inp n ->
  forall t, In t (event_types n) -> In t (gnodes inp) /\ t <> s.
Proof.
  intros s inp n [_ [_ [Hp _]]] t Ht.
  apply (Permutation_in _ Hp) in Ht. unfold observed in Ht.
  exact (in_remove Pos.eq_dec _ _ _ Ht).
Qed.

(** Every level can be laid out in a topological order (diagram generation can order it). *)
Theorem c07_levels_orderable : forall s inp n, C07_spec s inp n ->
  forall m, In m (levels n) ->
  exists order, Permutation order (gnodes (ngraph m)) /\
                forall u v, In (u, v) (gedges (ngraph m)) -> before order u v.
Proof.
  intros s inp n [Hl _] m Hm. destruct (Hl m Hm) as [Hwf [_ [_ [Hac _]]]].
  exists (topo_order (ngraph m)). split.
  - apply topo_order_perm.
  - apply topo_order_topological; assumption.
Qed.

(** ** No event type is shared between two different loop bodies of the same level, nor
       between a level and one of its bodies. *)

Lemma NoDup_app_inv : forall (A : Type) (l1 l2 : list A), NoDup (l1 ++ l2) ->
  NoDup l1 /\ NoDup l2 /\ forall x, In x l1 -> ~ In x l2.
Proof.
  intros A l1 l2. induction l1 as [|a l1 IH]; simpl; intros H.
  - split; [constructor|]. split; [exact H|]. intros x [].
  - inversion H as [|? ? Hn Hnd]; subst. destruct (IH Hnd) as [H1 [H2 H3]].
    split; [|split; [exact H2|]].
    + constructor; [|exact H1]. intros Hin. apply Hn. apply in_or_app. left. exact Hin.
    + intros x [Hx|Hx].
      * subst x. intros Hin. apply Hn. apply in_or_app. right. exact Hin.
      * exact (H3 x Hx).
Qed.

Lemma NoDup_flat_map_elem : forall (A B : Type) (f : A -> list B) l x,
  NoDup (flat_map f l) -> In x l -> NoDup (f x).
Proof.
  intros A B f l x. induction l as [|a l IH]; simpl; intros Hnd Hx.
  - contradiction.
  - destruct (NoDup_app_inv _ _ _ Hnd) as [H1 [H2 _]]. destruct Hx as [Hx|Hx].
    + subst a. exact H1.
    + exact (IH H2 Hx).
Qed.

Lemma NoDup_levels : forall n m, NoDup (event_types n) -> In m (levels n) ->
  NoDup (event_types m).
Proof.
  induction n as [g lab subs IH] using nest_ind'. intros m Hnd Hm.
  rewrite levels_unfold in Hm. destruct Hm as [Hm|Hm].
  - subst m. exact Hnd.
  - apply in_flat_map in Hm. destruct Hm as [[i k] [Hk Hm]]. simpl in Hm.
    apply (IH i k Hk m); [|exact Hm].
    rewrite event_types_unfold in Hnd. destruct (NoDup_app_inv _ _ _ Hnd) as [_ [H2 _]].
    exact (NoDup_flat_map_elem _ _ (fun p => event_types (snd p)) subs (i, k) H2 Hk).
Qed.

Theorem c07_sibling_bodies_disjoint : forall s inp n, C07_spec s inp n ->
  forall g lab s1 i b1 s2 j b2 s3,
  In (Nest g lab (s1 ++ (i, b1) :: s2 ++ (j, b2) :: s3)) (levels n) ->
  forall t, In t (body_types b1) -> ~ In t (body_types b2).
Proof.
  intros s inp n [_ [Hnd _]] g lab s1 i b1 s2 j b2 s3 Hm t H1 H2.
  assert (H := NoDup_levels n _ Hnd Hm). rewrite event_types_unfold in H.
  destruct (NoDup_app_inv _ _ _ H) as [_ [H' _]].
  rewrite flat_map_app in H'. destruct (NoDup_app_inv _ _ _ H') as [_ [H'' _]].
  simpl in H''. destruct (NoDup_app_inv _ _ _ H'') as [_ [_ Hd]].
  apply (Hd t H1). rewrite flat_map_app. apply in_or_app. right. simpl.
  apply in_or_app. left. exact H2.
Qed.

Theorem c07_level_body_disjoint : forall s inp n, C07_spec s inp n ->
  forall m i b, In m (levels n) -> In (i, b) (nsubs m) ->
  forall t, In t (level_types m) -> ~ In t (body_types b).
Proof.
  intros s inp n [_ [Hnd _]] m i b Hm Hb t H1 H2.
  assert (H := NoDup_levels n _ Hnd Hm). destruct m as [g lab subs].
  rewrite event_types_unfold in H. destruct (NoDup_app_inv _ _ _ H) as [_ [_ Hd]].
  apply (Hd t H1). apply in_flat_map. exists (i, b). split; [exact Hb | exact H2].
Qed.

(** ** Loop bodies form a laminar family, hence every whole cycle of the input (not only each
       of its edges) lies inside one loop body. *)

Lemma NoDup_flat_map_inj : forall (A B : Type) (f : A -> list B) l x y t,
  NoDup (flat_map f l) -> In x l -> In y l -> In t (f x) -> In t (f y) -> x = y.
Proof.
  intros A B f l x y t. induction l as [|a l IH]; simpl; intros Hnd Hx Hy Htx Hty.
  - contradiction.
  - destruct (NoDup_app_inv _ _ _ Hnd) as [_ [H2 H3]].
    destruct Hx as [Hx|Hx]; destruct Hy as [Hy|Hy].
    + congruence.
    + subst a. exfalso. apply (H3 t Htx). apply in_flat_map. exists y. split; assumption.
    + subst a. exfalso. apply (H3 t Hty). apply in_flat_map. exists x. split; assumption.
    + exact (IH H2 Hx Hy Htx Hty).
Qed.

Lemma levels_laminar : forall n, NoDup (event_types n) ->
  forall b1 b2 t, In b1 (levels n) -> In b2 (levels n) ->
  In t (event_types b1) -> In t (event_types b2) ->
  In b1 (levels b2) \/ In b2 (levels b1).
Proof.
  induction n as [g lab subs IH] using nest_ind'. intros Hnd b1 b2 t H1 H2 T1 T2.
  assert (H1' := H1). assert (H2' := H2).
  rewrite levels_unfold in H1', H2'.
  destruct H1' as [H1'|H1']; [subst b1; right; exact H2|].
  destruct H2' as [H2'|H2']; [subst b2; left; exact H1|].
  apply in_flat_map in H1'. destruct H1' as [[i1 k1] [Hk1 Hb1]]. simpl in Hb1.
  apply in_flat_map in H2'. destruct H2' as [[i2 k2] [Hk2 Hb2]]. simpl in Hb2.
  rewrite event_types_unfold in Hnd. destruct (NoDup_app_inv _ _ _ Hnd) as [_ [Hnd' _]].
  assert (E : (i1, k1) = (i2, k2)).
  { apply (NoDup_flat_map_inj _ _ (fun p => event_types (snd p)) subs _ _ t Hnd' Hk1 Hk2).
    - simpl. exact (levels_types_incl k1 b1 Hb1 t T1).
    - simpl. exact (levels_types_incl k2 b2 Hb2 t T2). }
  inversion E; subst i2 k2.
  apply (IH i1 k1 Hk1) with (t := t); try assumption.
  exact (NoDup_flat_map_elem _ _ (fun p => event_types (snd p)) subs (i1, k1) Hnd' Hk1).
Qed.

Theorem c07_cycles_enclosed : forall s inp n, C07_spec s inp n ->
  forall u v, path inp u v -> path inp v u ->
  exists b, In b (bodies n) /\ In u (body_types b) /\ In v (body_types b).
Proof.
  intros s inp n [_ [Hnd [_ Hc]]] u v Huv. induction Huv as [x y He|x z y He Hzy IH]; intros Hback.
  - apply (Hc x y He). right. exact Hback.
  - assert (Hzx : path inp z x) by (eapply path_trans; eassumption).
    destruct (Hc x z He (or_intror Hzx)) as [b1 [Hb1 [X1 Z1]]].
    assert (Hyz : path inp y z) by (eapply path_snoc; eassumption).
    destruct (IH Hyz) as [b2 [Hb2 [Z2 Y2]]].
    destruct (levels_laminar n Hnd b1 b2 z (bodies_levels n b1 Hb1) (bodies_levels n b2 Hb2)
                             Z1 Z2) as [Hin|Hin].
    + exists b2. split; [exact Hb2|]. split; [|exact Y2].
      exact (levels_types_incl b2 b1 Hin x X1).
    + exists b1. split; [exact Hb1|]. split; [exact X1|].
      exact (levels_types_incl b1 b2 Hin y Y2).
Qed.
