(** * Loop/DigraphProofs.v -- correctness of the executable graph checks of [Loop/Digraph.v]. *)
From Coq Require Import PArith List Bool Arith Lia Permutation Sorted.
From V Require Import Loop.Digraph.
Import ListNotations.

(** ** Membership, duplicate-freeness *)

Lemma memp_In : forall x l, memp x l = true <-> In x l.
Proof.
  intros x l. unfold memp. rewrite existsb_exists. split.
  - intros [y [Hy He]]. apply Pos.eqb_eq in He. subst y. exact Hy.
  - intros H. exists x. split; [exact H | apply Pos.eqb_refl].
Qed.

Lemma memp_false : forall x l, memp x l = false <-> ~ In x l.
Proof.
  intros x l. rewrite <- memp_In. destruct (memp x l) eqn:E; split; intros H.
  - discriminate.
  - exfalso. apply H. reflexivity.
  - intros H1. discriminate.
  - reflexivity.
Qed.

Lemma nodup_b_iff : forall l, nodup_b l = true <-> NoDup l.
Proof.
  induction l as [|x r IH]; simpl.
  - split; intros _; [constructor | reflexivity].
  - rewrite andb_true_iff, negb_true_iff, memp_false, IH. split.
    + intros [H1 H2]. constructor; assumption.
    + intros H. inversion H; subst. split; assumption.
Qed.

Lemma wf_graph_b_iff : forall g, wf_graph_b g = true <-> wf_graph g.
Proof.
  intros g. unfold wf_graph_b, wf_graph.
  rewrite andb_true_iff, nodup_b_iff, forallb_forall. split.
  - intros [Hn He]. split; [exact Hn|]. intros u v Hin.
    specialize (He (u, v) Hin). simpl in He. apply andb_true_iff in He.
    destruct He as [H1 H2]. apply memp_In in H1. apply memp_In in H2. split; assumption.
  - intros [Hn He]. split; [exact Hn|]. intros [u v] Hin. simpl.
    destruct (He u v Hin) as [H1 H2]. apply andb_true_iff. split; apply memp_In; assumption.
Qed.

Lemma NoDup_app_disj : forall (A : Type) (l1 l2 : list A),
  NoDup l1 -> NoDup l2 -> (forall x, In x l1 -> ~ In x l2) -> NoDup (l1 ++ l2).
Proof.
  intros A l1 l2 H1 H2. induction H1 as [|a l Ha Hl IH]; intros Hd; simpl.
  - exact H2.
  - constructor.
    + intros Hin. apply in_app_or in Hin. destruct Hin as [Hin|Hin].
      * exact (Ha Hin).
      * exact (Hd a (or_introl eq_refl) Hin).
    + apply IH. intros x Hx. apply Hd. right. exact Hx.
Qed.

(** ** Paths *)

Lemma path_snoc : forall g u v w, path g u v -> In (v, w) (gedges g) -> path g u w.
Proof.
  intros g u v w H. induction H as [u v H|u x v H Hp IH]; intros Hw.
  - eapply path_cons; [exact H | apply path_one; exact Hw].
  - eapply path_cons; [exact H | apply IH; exact Hw].
Qed.

Lemma path_trans : forall g u v w, path g u v -> path g v w -> path g u w.
Proof.
  intros g u v w H. induction H as [u v H|u x v H Hp IH]; intros Hw.
  - eapply path_cons; eassumption.
  - eapply path_cons; [exact H | apply IH; exact Hw].
Qed.

Lemma path_in_nodes : forall g u v, wf_graph g -> path g u v ->
  In u (gnodes g) /\ In v (gnodes g).
Proof.
  intros g u v [_ Hwf] H. induction H as [u v H|u x v H Hp IH].
  - exact (Hwf u v H).
  - split; [exact (proj1 (Hwf u x H)) | exact (proj2 IH)].
Qed.

Lemma succs_In : forall g u v, In v (succs g u) <-> In (u, v) (gedges g).
Proof.
  intros g u v. unfold succs. rewrite in_map_iff. split.
  - intros [[a b] [Hs Hf]]. simpl in Hs. subst b. apply filter_In in Hf.
    destruct Hf as [Hi He]. simpl in He. apply Pos.eqb_eq in He. subst a. exact Hi.
  - intros H. exists (u, v). split; [reflexivity|]. apply filter_In. split; [exact H|].
    simpl. apply Pos.eqb_refl.
Qed.

(** ** Correctness of the BFS closure *)

Lemma bfs_new_In : forall g vis fr x,
  In x (bfs_new g vis fr) <-> (~ In x vis /\ exists a, In a fr /\ In (a, x) (gedges g)).
Proof.
  intros g vis fr x. unfold bfs_new. rewrite nodup_In, filter_In, in_flat_map.
  rewrite negb_true_iff, memp_false. split.
  - intros [[a [Ha Hs]] Hn]. split; [exact Hn|]. exists a. split; [exact Ha|].
    apply succs_In. exact Hs.
  - intros [Hn [a [Ha Hs]]]. split; [|exact Hn]. exists a. split; [exact Ha|].
    apply succs_In. exact Hs.
Qed.

Definition closed (g : graph) (R : list positive) : Prop :=
  forall a x, In a R -> In (a, x) (gedges g) -> In x R.

Lemma bfs_spec : forall g u, wf_graph g -> forall fuel vis fr,
  NoDup vis -> incl vis (gnodes g) -> incl fr vis ->
  (forall a, In a vis -> path g u a) ->
  (forall a x, In a vis -> ~ In a fr -> In (a, x) (gedges g) -> In x vis) ->
  (fr <> [] -> S (length (gnodes g)) <= length vis + fuel) ->
  NoDup (bfs g fuel vis fr) /\ incl (bfs g fuel vis fr) (gnodes g) /\
  incl vis (bfs g fuel vis fr) /\
  (forall a, In a (bfs g fuel vis fr) -> path g u a) /\
  closed g (bfs g fuel vis fr).
Proof.
  intros g u Hwf. induction fuel as [|f IH]; intros vis fr Hnd Hin Hfr Hp Hcl Hm.
  - destruct fr as [|a0 fr'].
    + simpl. repeat split; try assumption.
      * apply incl_refl.
      * intros a x Ha He. exact (Hcl a x Ha (fun F => F) He).
    + exfalso. assert (Hle : length vis <= length (gnodes g))
        by (apply NoDup_incl_length; assumption).
      assert (Hne : a0 :: fr' <> []) by discriminate.
      specialize (Hm Hne). lia.
  - destruct fr as [|a0 fr'].
    + simpl. repeat split; try assumption.
      * apply incl_refl.
      * intros a x Ha He. exact (Hcl a x Ha (fun F => F) He).
    + cbn [bfs]. remember (a0 :: fr') as fr eqn:Efr.
      remember (bfs_new g vis fr) as new eqn:Enew.
      assert (Hnew : forall x, In x new <->
                (~ In x vis /\ exists a, In a fr /\ In (a, x) (gedges g))).
      { intros x. subst new. apply bfs_new_In. }
      assert (IH' := IH (new ++ vis) new). clear IH.
      assert (G1 : NoDup (new ++ vis)).
      { apply NoDup_app_disj.
        - subst new. unfold bfs_new. apply NoDup_nodup.
        - exact Hnd.
        - intros x Hx. apply Hnew in Hx. exact (proj1 Hx). }
      assert (G2 : incl (new ++ vis) (gnodes g)).
      { intros x Hx. apply in_app_or in Hx. destruct Hx as [Hx|Hx].
        - apply Hnew in Hx. destruct Hx as [_ [a [_ He]]].
          exact (proj2 (proj2 Hwf a x He)).
        - exact (Hin x Hx). }
      assert (G3 : incl new (new ++ vis)).
      { intros x Hx. apply in_or_app. left. exact Hx. }
      assert (G4 : forall a, In a (new ++ vis) -> path g u a).
      { intros x Hx. apply in_app_or in Hx. destruct Hx as [Hx|Hx].
        - apply Hnew in Hx. destruct Hx as [_ [a [Ha He]]].
          eapply path_snoc; [apply Hp; apply Hfr; exact Ha | exact He].
        - exact (Hp x Hx). }
      assert (G5 : forall a x, In a (new ++ vis) -> ~ In a new ->
                               In (a, x) (gedges g) -> In x (new ++ vis)).
      { intros a x Ha Hna He. apply in_or_app.
        apply in_app_or in Ha. destruct Ha as [Ha|Ha]; [contradiction|].
        destruct (in_dec Pos.eq_dec x vis) as [Hx|Hx]; [right; exact Hx|].
        destruct (in_dec Pos.eq_dec a fr) as [Haf|Haf].
        - left. apply Hnew. split; [exact Hx|]. exists a. split; assumption.
        - right. exact (Hcl a x Ha Haf He). }
      assert (G6 : new <> [] -> S (length (gnodes g)) <= length (new ++ vis) + f).
      { intros Hne. rewrite app_length.
        assert (Hfrne : fr <> []) by (subst fr; discriminate).
        specialize (Hm Hfrne).
        destruct new as [|n0 new']; [congruence|]. simpl. lia. }
      specialize (IH' G1 G2 G3 G4 G5 G6).
      destruct IH' as [R1 [R2 [R3 [R4 R5]]]].
      repeat split; try assumption.
      intros x Hx. apply R3. apply in_or_app. right. exact Hx.
Qed.

Lemma reach_set_spec : forall g u, wf_graph g ->
  NoDup (reach_set g u) /\ incl (reach_set g u) (gnodes g) /\
  (forall v, In v (reach_set g u) <-> path g u v).
Proof.
  intros g u Hwf. unfold reach_set.
  remember (nodup Pos.eq_dec (succs g u)) as s0 eqn:Es0.
  assert (Hs0 : forall x, In x s0 <-> In (u, x) (gedges g)).
  { intros x. subst s0. rewrite nodup_In. apply succs_In. }
  assert (H := bfs_spec g u Hwf (length (gnodes g)) s0 s0).
  assert (G1 : NoDup s0) by (subst s0; apply NoDup_nodup).
  assert (G2 : incl s0 (gnodes g)).
  { intros x Hx. apply Hs0 in Hx. exact (proj2 (proj2 Hwf u x Hx)). }
  assert (G4 : forall a, In a s0 -> path g u a).
  { intros a Ha. apply path_one. apply Hs0. exact Ha. }
  assert (G5 : forall a x, In a s0 -> ~ In a s0 -> In (a, x) (gedges g) -> In x s0).
  { intros a x Ha Hna. contradiction. }
  assert (G6 : s0 <> [] -> S (length (gnodes g)) <= length s0 + length (gnodes g)).
  { intros Hne. destruct s0 as [|a s0']; [congruence|]. simpl. lia. }
  specialize (H G1 G2 (incl_refl s0) G4 G5 G6).
  destruct H as [R1 [R2 [R3 [R4 R5]]]].
  split; [exact R1|]. split; [exact R2|].
  intros v. split; [apply R4|].
  intros Hp.
  assert (Hcp : forall a b, path g a b ->
            In a (bfs g (length (gnodes g)) s0 s0) -> In b (bfs g (length (gnodes g)) s0 s0)).
  { intros a b Hab. induction Hab as [a b He|a x b He Hxb IH]; intros Ha.
    - exact (R5 a b Ha He).
    - apply IH. exact (R5 a x Ha He). }
  inversion Hp as [u' v' He|u' x v' He Hxv]; subst.
  - apply R3. apply Hs0. exact He.
  - apply (Hcp x v Hxv). apply R3. apply Hs0. exact He.
Qed.

Theorem reach_b_iff : forall g u v, wf_graph_b g = true ->
  (reach_b g u v = true <-> path g u v).
Proof.
  intros g u v Hwf. apply wf_graph_b_iff in Hwf. unfold reach_b.
  rewrite memp_In. apply (proj2 (proj2 (reach_set_spec g u Hwf))).
Qed.

(** ** Acyclicity *)

Theorem acyclic_b_iff : forall g, wf_graph_b g = true ->
  (acyclic_b g = true <-> forall u, ~ path g u u).
Proof.
  intros g Hwf. unfold acyclic_b. rewrite forallb_forall. split.
  - intros H u Hp.
    assert (Hu : In u (gnodes g)).
    { apply wf_graph_b_iff in Hwf. exact (proj1 (path_in_nodes g u u Hwf Hp)). }
    specialize (H u Hu). apply negb_true_iff in H.
    apply (reach_b_iff g u u Hwf) in Hp. congruence.
  - intros H u _. apply negb_true_iff. destruct (reach_b g u u) eqn:E; [|reflexivity].
    apply (reach_b_iff g u u Hwf) in E. exfalso. exact (H u E).
Qed.

(** ** Single entry *)

Lemma indeg0_b_iff : forall g v, indeg0_b g v = true <-> indeg0 g v.
Proof.
  intros g v. unfold indeg0_b, indeg0. rewrite negb_true_iff. split.
  - intros H u Hin.
    assert (E : existsb (fun e => Pos.eqb (snd e) v) (gedges g) = true).
    { apply existsb_exists. exists (u, v). split; [exact Hin|]. simpl. apply Pos.eqb_refl. }
    congruence.
  - intros H. destruct (existsb (fun e => Pos.eqb (snd e) v) (gedges g)) eqn:E; [|reflexivity].
    apply existsb_exists in E. destruct E as [[a b] [Hi He]]. simpl in He.
    apply Pos.eqb_eq in He. subst b. exfalso. exact (H a Hi).
Qed.

Lemma NoDup_singleton : forall (A : Type) (l : list A) (r : A),
  NoDup l -> (forall x, In x l <-> x = r) -> l = [r].
Proof.
  intros A l r Hnd H. destruct l as [|a l'].
  - exfalso. apply (proj2 (H r) eq_refl).
  - assert (Ha : a = r) by (apply H; left; reflexivity). subst a.
    destruct l' as [|b l'']; [reflexivity|].
    assert (Hb : b = r) by (apply H; right; left; reflexivity). subst b.
    inversion Hnd as [|? ? Hn _]; subst. exfalso. apply Hn. left. reflexivity.
Qed.

Lemma filter_singleton : forall (f : positive -> bool) l r, NoDup l ->
  (filter f l = [r] <-> (In r l /\ forall v, In v l -> (f v = true <-> v = r))).
Proof.
  intros f l r Hnd. split.
  - intros E.
    assert (Hr : In r (filter f l)) by (rewrite E; left; reflexivity).
    apply filter_In in Hr. destruct Hr as [Hr Hfr]. split; [exact Hr|].
    intros v Hv. split.
    + intros Hf. assert (Hv' : In v (filter f l)) by (apply filter_In; split; assumption).
      rewrite E in Hv'. destruct Hv' as [Hv'|[]]. symmetry. exact Hv'.
    + intros ->. exact Hfr.
  - intros [Hr H]. apply NoDup_singleton.
    + apply NoDup_filter. exact Hnd.
    + intros x. rewrite filter_In. split.
      * intros [Hx Hf]. apply (H x Hx). exact Hf.
      * intros ->. split; [exact Hr|]. apply (H r Hr). reflexivity.
Qed.

Theorem single_entry_b_iff : forall g, wf_graph_b g = true ->
  (single_entry_b g = true <-> single_entry g).
Proof.
  intros g Hwfb. assert (Hwf := proj1 (wf_graph_b_iff g) Hwfb).
  unfold single_entry_b, single_entry. split.
  - destruct (filter (indeg0_b g) (gnodes g)) as [|r [|r' l']] eqn:E; try discriminate.
    intros H. apply (filter_singleton _ _ _ (proj1 Hwf)) in E. destruct E as [Hr Hv].
    exists r. split; [exact Hr|]. split.
    + intros v Hv'. rewrite <- indeg0_b_iff. apply Hv. exact Hv'.
    + intros v Hv' Hne. rewrite forallb_forall in H. specialize (H v Hv').
      apply orb_true_iff in H. destruct H as [H|H].
      * apply Pos.eqb_eq in H. contradiction.
      * apply memp_In in H. apply (proj2 (proj2 (reach_set_spec g r Hwf))). exact H.
  - intros [r [Hr [Hi Hp]]].
    assert (E : filter (indeg0_b g) (gnodes g) = [r]).
    { apply (filter_singleton _ _ _ (proj1 Hwf)). split; [exact Hr|].
      intros v Hv. rewrite indeg0_b_iff. apply Hi. exact Hv. }
    rewrite E. apply forallb_forall. intros v Hv.
    destruct (Pos.eqb v r) eqn:Evr; [reflexivity|]. simpl.
    apply Pos.eqb_neq in Evr. apply memp_In.
    apply (proj2 (proj2 (reach_set_spec g r Hwf))). apply Hp; assumption.
Qed.

(** ** Topological order *)

Definition geR (a b : nat * positive) : Prop := fst b <= fst a.

Lemma insert_k_perm : forall x l, Permutation (insert_k x l) (x :: l).
Proof.
  intros x l. induction l as [|y r IH]; simpl.
  - apply Permutation_refl.
  - destruct (Nat.leb (fst y) (fst x)).
    + apply Permutation_refl.
    + eapply Permutation_trans; [apply perm_skip; exact IH | apply perm_swap].
Qed.

Lemma sort_k_perm : forall l, Permutation (sort_k l) l.
Proof.
  induction l as [|x r IH]; simpl.
  - apply Permutation_refl.
  - eapply Permutation_trans; [apply insert_k_perm | apply perm_skip; exact IH].
Qed.

Lemma insert_k_sorted : forall x l, StronglySorted geR l -> StronglySorted geR (insert_k x l).
Proof.
  intros x l. induction l as [|y r IH]; intros Hs; simpl.
  - constructor; constructor.
  - inversion Hs as [|? ? Hsr Hall]; subst.
    destruct (Nat.leb (fst y) (fst x)) eqn:E.
    + apply Nat.leb_le in E. constructor; [exact Hs|]. constructor.
      * exact E.
      * eapply Forall_impl; [|exact Hall]. intros z Hz. unfold geR in *. lia.
    + apply Nat.leb_gt in E. constructor; [apply IH; exact Hsr|].
      apply Forall_forall. intros z Hz.
      apply (Permutation_in _ (insert_k_perm x r)) in Hz. destruct Hz as [Hz|Hz].
      * subst z. unfold geR. lia.
      * rewrite Forall_forall in Hall. exact (Hall z Hz).
Qed.

Lemma sort_k_sorted : forall l, StronglySorted geR (sort_k l).
Proof.
  induction l as [|x r IH]; simpl.
  - constructor.
  - apply insert_k_sorted. exact IH.
Qed.

Lemma sorted_split : forall (A : Type) (R : A -> A -> Prop) (l1 : list A) a l2,
  StronglySorted R (l1 ++ a :: l2) -> forall b, In b l2 -> R a b.
Proof.
  intros A R l1 a l2. induction l1 as [|c l1 IH]; simpl; intros Hs b Hb.
  - inversion Hs as [|? ? _ Hall]; subst. rewrite Forall_forall in Hall. exact (Hall b Hb).
  - inversion Hs as [|? ? Hs' _]; subst. exact (IH Hs' b Hb).
Qed.

Lemma reach_len_lt : forall g u v, wf_graph g -> (forall w, ~ path g w w) ->
  In (u, v) (gedges g) -> length (reach_set g v) < length (reach_set g u).
Proof.
  intros g u v Hwf Hac He.
  destruct (reach_set_spec g u Hwf) as [_ [_ Hu]].
  destruct (reach_set_spec g v Hwf) as [Hndv [_ Hv]].
  assert (H : length (v :: reach_set g v) <= length (reach_set g u)).
  { apply NoDup_incl_length.
    - constructor; [|exact Hndv]. intros Hin. apply Hv in Hin. exact (Hac v Hin).
    - intros x [Hx|Hx].
      + subst x. apply Hu. apply path_one. exact He.
      + apply Hu. eapply path_cons; [exact He|]. apply Hv. exact Hx. }
  simpl in H. lia.
Qed.

Lemma topo_order_perm : forall g, Permutation (topo_order g) (gnodes g).
Proof.
  intros g. unfold topo_order.
  eapply Permutation_trans; [apply Permutation_map; apply sort_k_perm|].
  rewrite map_map. simpl. rewrite map_id. apply Permutation_refl.
Qed.

Lemma topo_order_topological : forall g, wf_graph g -> (forall w, ~ path g w w) ->
  topological g (topo_order g).
Proof.
  intros g Hwf Hac u v He. unfold topo_order.
  set (key := fun w : positive => (length (reach_set g w), w)).
  set (L := sort_k (map key (gnodes g))).
  assert (Hs : StronglySorted geR L) by apply sort_k_sorted.
  assert (Hlt := reach_len_lt g u v Hwf Hac He).
  destruct (proj2 Hwf u v He) as [Hu Hv].
  assert (HuL : In (key u) L).
  { apply (Permutation_in _ (Permutation_sym (sort_k_perm _))). apply in_map. exact Hu. }
  assert (HvL : In (key v) L).
  { apply (Permutation_in _ (Permutation_sym (sort_k_perm _))). apply in_map. exact Hv. }
  destruct (in_split _ _ HuL) as [A [B EL]].
  rewrite EL in HvL. apply in_app_or in HvL. destruct HvL as [HvA|[Heq|HvB]].
  - exfalso. destruct (in_split _ _ HvA) as [A1 [A2 EA]].
    rewrite EA in EL. rewrite <- app_assoc in EL. simpl in EL. rewrite EL in Hs.
    assert (Hr : geR (key v) (key u)).
    { apply (sorted_split _ geR A1 (key v) (A2 ++ key u :: B) Hs).
      apply in_or_app. right. left. reflexivity. }
    unfold geR, key in Hr. simpl in Hr. lia.
  - exfalso. unfold key in Heq. inversion Heq as [[H1 H2]]. subst v. lia.
  - destruct (in_split _ _ HvB) as [B1 [B2 EB]].
    exists (map snd A), (map snd B1), (map snd B2).
    rewrite EL, EB. rewrite map_app. simpl. rewrite map_app. reflexivity.
Qed.

Theorem acyclic_topological_order : forall g,
  wf_graph_b g = true -> acyclic_b g = true ->
  exists order, Permutation order (gnodes g) /\
                forall u v, In (u, v) (gedges g) -> before order u v.
Proof.
  intros g Hwf Hac. exists (topo_order g). split.
  - apply topo_order_perm.
  - apply topo_order_topological.
    + apply wf_graph_b_iff. exact Hwf.
    + apply (acyclic_b_iff g Hwf). exact Hac.
Qed.

(** Converse: a graph with a topological order has no cycle. *)

Lemma before_trans_nodup : forall order u v w, NoDup order ->
  before order u v -> before order v w -> before order u w.
Proof.
  intros order u v w Hnd [a1 [a2 [a3 E1]]] [b1 [b2 [b3 E2]]].
  (* v occurs once, so b1 = a1 ++ u :: a2 and the suffixes agree *)
  assert (E : order = (a1 ++ u :: a2) ++ v :: a3)
    by (rewrite E1, <- app_assoc; reflexivity).
  assert (Hsplit : a1 ++ u :: a2 = b1 /\ a3 = b2 ++ w :: b3).
  { rewrite E in E2. rewrite E in Hnd. clear E E1.
    revert b1 E2 Hnd. generalize (a1 ++ u :: a2) as c. clear a1 a2 u.
    induction c as [|x c IH]; intros b1 E2 Hnd; destruct b1 as [|y b1]; simpl in *.
    - inversion E2. split; reflexivity.
    - inversion E2 as [[Hv Hr]]; subst. exfalso. inversion Hnd as [|? ? Hn _]; subst.
      apply Hn. apply in_or_app. right. left. reflexivity.
    - inversion E2 as [[Hv Hr]]; subst. exfalso. inversion Hnd as [|? ? Hn _]; subst.
      apply Hn. apply in_or_app. right. left. reflexivity.
    - inversion E2 as [[Hxy Hr]]; subst y. inversion Hnd as [|? ? _ Hnd']; subst.
      destruct (IH b1 Hr Hnd') as [H1 H2]. split; [f_equal; exact H1 | exact H2]. }
  destruct Hsplit as [_ H3]. exists a1, (a2 ++ v :: b2), b3.
  rewrite E1, H3. rewrite <- app_assoc. reflexivity.
Qed.

Lemma before_irrefl_nodup : forall order u, NoDup order -> ~ before order u u.
Proof.
  intros order u Hnd [l1 [l2 [l3 E]]]. rewrite E in Hnd.
  apply NoDup_remove_2 in Hnd. apply Hnd.
  apply in_or_app. right. apply in_or_app. right. left. reflexivity.
Qed.

Theorem topological_order_acyclic : forall g order,
  NoDup order -> topological g order -> forall u, ~ path g u u.
Proof.
  intros g order Hnd Ht.
  assert (Hp : forall u v, path g u v -> before order u v).
  { intros u v H. induction H as [u v H|u x v H Hp IH].
    - apply Ht. exact H.
    - eapply before_trans_nodup; [exact Hnd | apply Ht; exact H | exact IH]. }
  intros u Hu. exact (before_irrefl_nodup order u Hnd (Hp u u Hu)).
Qed.

(** ** Multiset equality *)

Lemma remove1_Some : forall x l l', remove1 x l = Some l' -> Permutation l (x :: l').
Proof.
  intros x l. induction l as [|y r IH]; simpl; intros l' H.
  - discriminate.
  - destruct (Pos.eqb x y) eqn:E.
    + apply Pos.eqb_eq in E. subst y. inversion H; subst. apply Permutation_refl.
    + destruct (remove1 x r) as [r'|] eqn:Er; [|discriminate]. inversion H; subst.
      eapply Permutation_trans; [apply perm_skip; apply IH; reflexivity | apply perm_swap].
Qed.

Lemma remove1_In : forall x l, In x l -> exists l', remove1 x l = Some l'.
Proof.
  intros x l. induction l as [|y r IH]; simpl; intros H.
  - contradiction.
  - destruct (Pos.eqb x y) eqn:E.
    + exists r. reflexivity.
    + destruct H as [H|H].
      * subst y. rewrite Pos.eqb_refl in E. discriminate.
      * destruct (IH H) as [r' Hr']. rewrite Hr'. exists (y :: r'). reflexivity.
Qed.

Lemma perm_b_iff : forall l1 l2, perm_b l1 l2 = true <-> Permutation l1 l2.
Proof.
  induction l1 as [|x r IH]; intros l2; simpl.
  - destruct l2 as [|y l2]; split; intros H.
    + apply Permutation_refl.
    + reflexivity.
    + discriminate.
    + apply Permutation_nil in H. discriminate.
  - split.
    + destruct (remove1 x l2) as [l2'|] eqn:E; [|discriminate]. intros H.
      apply remove1_Some in E. apply IH in H.
      eapply Permutation_trans; [apply perm_skip; exact H | apply Permutation_sym; exact E].
    + intros H.
      assert (Hx : In x l2) by (apply (Permutation_in _ H); left; reflexivity).
      destruct (remove1_In x l2 Hx) as [l2' E]. rewrite E. apply IH.
      apply remove1_Some in E.
      apply (Permutation_cons_inv (a := x)).
      eapply Permutation_trans; [exact H | exact E].
Qed.

(** ** Strongly connected components, condensation *)

Lemma scc_b_iff : forall g u v, wf_graph_b g = true -> (scc_b g u v = true <-> scc g u v).
Proof.
  intros g u v Hwf. unfold scc_b, scc.
  rewrite orb_true_iff, andb_true_iff, Pos.eqb_eq.
  rewrite (reach_b_iff g u v Hwf), (reach_b_iff g v u Hwf). reflexivity.
Qed.

Lemma scc_refl : forall g u, scc g u u.
Proof. intros g u. left. reflexivity. Qed.

Lemma scc_sym : forall g u v, scc g u v -> scc g v u.
Proof.
  intros g u v [H|[H1 H2]]; [left; symmetry; exact H | right; split; assumption].
Qed.

Lemma scc_trans : forall g u v w, scc g u v -> scc g v w -> scc g u w.
Proof.
  intros g u v w [H|[H1 H2]] [H'|[H3 H4]]; subst.
  - left. reflexivity.
  - right. split; assumption.
  - right. split; assumption.
  - right. split; eapply path_trans; eassumption.
Qed.

Lemma find_ext : forall (A : Type) (f f' : A -> bool) l,
  (forall x, f x = f' x) -> find f l = find f' l.
Proof.
  intros A f f' l H. induction l as [|a l IH]; simpl.
  - reflexivity.
  - rewrite <- H. destruct (f a); [reflexivity | exact IH].
Qed.

Lemma rep_scc : forall g u, wf_graph_b g = true -> scc g u (rep g u).
Proof.
  intros g u Hwf. unfold rep. destruct (find (scc_b g u) (gnodes g)) as [r|] eqn:E.
  - apply find_some in E. apply (scc_b_iff g u r Hwf). exact (proj2 E).
  - apply scc_refl.
Qed.

Lemma rep_eq : forall g u v, wf_graph_b g = true -> scc g u v -> rep g u = rep g v.
Proof.
  intros g u v Hwf H. destruct H as [H|[H1 H2]]; [subst; reflexivity|].
  assert (Hwf' := proj1 (wf_graph_b_iff g) Hwf).
  assert (Hext : forall x, scc_b g u x = scc_b g v x).
  { intros x. destruct (scc_b g u x) eqn:E1; destruct (scc_b g v x) eqn:E2; try reflexivity.
    - apply (scc_b_iff g u x Hwf) in E1.
      assert (E : scc g v x).
      { eapply scc_trans; [|exact E1]. right. split; assumption. }
      apply (scc_b_iff g v x Hwf) in E. congruence.
    - apply (scc_b_iff g v x Hwf) in E2.
      assert (E : scc g u x).
      { eapply scc_trans; [|exact E2]. right. split; assumption. }
      apply (scc_b_iff g u x Hwf) in E. congruence. }
  unfold rep. rewrite (find_ext _ _ _ (gnodes g) Hext).
  destruct (find (scc_b g v) (gnodes g)) as [r|] eqn:E; [reflexivity|].
  exfalso.
  assert (Hv : In v (gnodes g)) by exact (proj2 (path_in_nodes g u v Hwf' H1)).
  assert (Hf := find_none _ _ E v Hv).
  assert (Ht : scc_b g v v = true) by (apply (scc_b_iff g v v Hwf); apply scc_refl).
  congruence.
Qed.

Lemma condensation_edge : forall g a b, wf_graph_b g = true ->
  In (a, b) (gedges (condensation g)) -> a <> b /\ path g a b.
Proof.
  intros g a b Hwf H. unfold condensation in H. simpl in H.
  apply in_flat_map in H. destruct H as [[u v] [He H]]. simpl in H.
  destruct (Pos.eqb (rep g u) (rep g v)) eqn:E; [contradiction|].
  destruct H as [H|[]]. inversion H; subst. apply Pos.eqb_neq in E. split; [exact E|].
  assert (H1 : path g (rep g u) v).
  { destruct (scc_sym _ _ _ (rep_scc g u Hwf)) as [Hu|[Hu _]].
    - rewrite Hu. apply path_one. exact He.
    - eapply path_snoc; [exact Hu | exact He]. }
  destruct (rep_scc g v Hwf) as [Hv|[Hv _]].
  - rewrite <- Hv. exact H1.
  - eapply path_trans; eassumption.
Qed.

Lemma condensation_path : forall g a b, wf_graph_b g = true ->
  path (condensation g) a b -> path g a b.
Proof.
  intros g a b Hwf H. induction H as [a b H|a x b H Hp IH].
  - exact (proj2 (condensation_edge g a b Hwf H)).
  - eapply path_trans; [exact (proj2 (condensation_edge g a x Hwf H)) | exact IH].
Qed.

Lemma condensation_node_rep : forall g a b, wf_graph_b g = true ->
  In (a, b) (gedges (condensation g)) -> rep g a = a /\ rep g b = b.
Proof.
  intros g a b Hwf H. unfold condensation in H. simpl in H.
  apply in_flat_map in H. destruct H as [[u v] [He H]]. simpl in H.
  destruct (Pos.eqb (rep g u) (rep g v)); [contradiction|].
  destruct H as [H|[]]. inversion H; subst. split.
  - symmetry. apply rep_eq; [exact Hwf | apply rep_scc; exact Hwf].
  - symmetry. apply rep_eq; [exact Hwf | apply rep_scc; exact Hwf].
Qed.

Theorem condensation_acyclic : forall g, wf_graph_b g = true ->
  forall c, ~ path (condensation g) c c.
Proof.
  intros g Hwf c Hp.
  assert (Hstep : exists x, In (c, x) (gedges (condensation g)) /\ (x = c \/ path g x c)).
  { inversion Hp as [u v He|u x v He Hxc]; subst.
    - exists c. split; [exact He | left; reflexivity].
    - exists x. split; [exact He | right; apply condensation_path; assumption]. }
  destruct Hstep as [x [He Hx]].
  destruct (condensation_edge g c x Hwf He) as [Hne Hcx].
  destruct (condensation_node_rep g c x Hwf He) as [Rc Rx].
  destruct Hx as [Hx|Hx]; [exact (Hne (eq_sym Hx))|].
  apply Hne. rewrite <- Rc, <- Rx. apply rep_eq; [exact Hwf|]. right. split; assumption.
Qed.

Theorem condensation_wf : forall g, wf_graph_b g = true -> wf_graph (condensation g).
Proof.
  intros g Hwf. assert (Hwf' := proj1 (wf_graph_b_iff g) Hwf). split.
  - unfold condensation. simpl. apply NoDup_nodup.
  - intros a b H. unfold condensation in *. simpl in *.
    apply in_flat_map in H. destruct H as [[u v] [He H]]. simpl in H.
    destruct (Pos.eqb (rep g u) (rep g v)); [contradiction|].
    destruct H as [H|[]]. inversion H; subst.
    destruct (proj2 Hwf' u v He) as [Hu Hv].
    split; apply nodup_In; apply in_map; assumption.
Qed.

(** Every cycle of [g] collapses to a single node of the condensation. *)
Theorem condensation_collapses_cycles : forall g u v, wf_graph_b g = true ->
  path g u v -> path g v u -> rep g u = rep g v.
Proof.
  intros g u v Hwf H1 H2. apply rep_eq; [exact Hwf|]. right. split; assumption.
Qed.

(** The well-formedness premise of [acyclic_topological_order] cannot be dropped: [acyclic_b]
    only inspects listed nodes, so an edge between unlisted nodes defeats the conclusion. *)
Theorem acyclic_topological_order_without_wf_refuted :
  exists g, acyclic_b g = true /\
    ~ exists order, Permutation order (gnodes g) /\
                    forall u v, In (u, v) (gedges g) -> before order u v.
Proof.
  exists (mkgraph [] [(1%positive, 1%positive)]). split; [reflexivity|].
  intros [order [Hp Hb]]. simpl in Hp, Hb.
  apply Permutation_sym, Permutation_nil in Hp. subst order.
  destruct (Hb 1%positive 1%positive (or_introl eq_refl)) as [l1 [l2 [l3 E]]].
  exact (app_cons_not_nil _ _ _ E).
Qed.
