(* Jq.v -- abstract syntax and a total big-step evaluator for exactly the jq fragment that
   tel2puml/otel_to_pv/data_sources/json_data_source/json_jq_converter.py can emit.

   A jq program maps an input value to a STREAM of outputs that may end in an error.  The result type is
       res := (list json * bool)        (outputs produced so far, "the stream ended with an error")
   so that `try` can be modelled faithfully (outputs emitted before the error are kept, as in jq 1.7.1):
       try (1, error, 2) catch null   ~~>   1, null
   Error messages are not modelled (the only handler the compiler emits is `catch null`).
   The evaluator is a structural recursion on the program (no fuel), executable under vm_compute.

   Semantics were fixed by experiment against the `jq` Python package 1.8.0 / libjq 1.7.1
   (see /root/c13_scratch/leg2.py):
     - `.k`, `."k"`  : null on null, member-or-null on objects, error otherwise
     - `.[]`         : array elements, object member values (stored order), error otherwise
     - `a | b`, `E as $v | body` : left to right, depth first
     - binary `+ == !=` : the RIGHT operand is the outer loop (jq order), `and` : left operand first
     - `a // b`      : the truthy outputs of a; errors of a propagate; b iff a finished with no truthy output
     - `{ "k": E, ...}` : first member = outer loop;  `{(K): V}` : K outer loop, V inner loop, the key must be
       a string when a member is inserted (so `{(5): empty}` is empty, not an error)
     - any(f)/all(f) : short-circuit scan of `.[]`
     - an unbound variable is a compile error in jq; here it is a run-time error (never reached
       by compiled programs).
   Caveats (unreachable from compiled programs, where `==`/`!=` only compare with null and []):
   `==` is structural (object member order matters, integers are exact; jq compares doubles),
   `+` on numbers is exact.

   This file contains only definitions. *)

From Coq Require Import ZArith List String Ascii Bool.
From V Require Import Json.Json.
Import ListNotations.
Open Scope string_scope.

Inductive jq : Type :=
| QId                                       (* .                      *)
| QVar (v : string)                         (* $v                     *)
| QNull                                     (* null                   *)
| QEmptyArr                                 (* []                     *)
| QField (e : jq) (k : string)              (* e.k      (QId.k is printed .k) *)
| QFieldStr (e : jq) (k : string)           (* e."k"                  *)
| QIter (e : jq)                            (* e.[]                   *)
| QParen (e : jq)                           (* (e)                    *)
| QPipe (a b : jq)                          (* a | b                  *)
| QComma (a b : jq)                         (* a,b                    *)
| QAs (e : jq) (v : string) (body : jq)     (* e as $v | body         *)
| QTry (e : jq)                             (* try e                  *)
| QTryCatchNull (e : jq)                    (* try e catch null       *)
| QSelect (e : jq)                          (* select(e)              *)
| QCollect (e : jq)                         (* [e]                    *)
| QObjDyn (k v : jq)                        (* {(k): v}               *)
| QObj (fields : list (string * jq))        (* { "k": e, "k2": e2}    *)
| QAdd                                      (* add                    *)
| QTostring                                 (* tostring               *)
| QFlatten                                  (* flatten                *)
| QJoin (sep : string)                      (* join("sep")            *)
| QAlt (tight : bool) (a b : jq)            (* a // b   (tight: a//b) *)
| QIf (c t e : jq)                          (* if c then t else e end *)
| QEq (a b : jq)                            (* a == b                 *)
| QNeq (a b : jq)                           (* a != b                 *)
| QAnd (a b : jq)                           (* a and b                *)
| QAny (e : jq)                             (* any(e)                 *)
| QAll (e : jq)                             (* all(e)                 *)
| QPlus (a b : jq).                         (* a + b                  *)

Definition env := list (string * json).

Definition res := (list json * bool)%type.
Definition ok (l : list json) : res := (l, false).
Definition err : res := ([], true).
Definition of_opt (o : option json) : res :=
  match o with Some v => ok [v] | None => err end.

(* run f on every output in turn; stop at the first error *)
Fixpoint bind_list (l : list json) (f : json -> res) : res :=
  match l with
  | [] => ([], false)
  | y :: ys =>
      let '(o, e) := f y in
      if e then (o, true)
      else let '(o', e') := bind_list ys f in ((o ++ o')%list, e')
  end.

(* the error of the producer (if any) surfaces after all its outputs have been consumed *)
Definition bind (r : res) (f : json -> res) : res :=
  let '(l, e) := r in
  let '(o, e') := bind_list l f in
  (o, e' || e).

(* scan used by any(f): Some true = found, Some false = exhausted, None = error first *)
Inductive scan_result := Found | Exhausted | Errored.

Definition scan_one (p : json -> bool) (r : res) : scan_result :=
  if existsb p (fst r) then Found else if snd r then Errored else Exhausted.

(* any(f) / all(f) over the elements, f given as a function of the element *)
Fixpoint any_scan (f : json -> res) (l : list json) : res :=
  match l with
  | [] => ok [JBool false]
  | y :: ys => match scan_one truthy (f y) with
               | Found => ok [JBool true]
               | Errored => err
               | Exhausted => any_scan f ys
               end
  end.

Fixpoint all_scan (f : json -> res) (l : list json) : res :=
  match l with
  | [] => ok [JBool true]
  | y :: ys => match scan_one (fun v => negb (truthy v)) (f y) with
               | Found => ok [JBool false]
               | Errored => err
               | Exhausted => all_scan f ys
               end
  end.

(* { "k1": E1, "k2": E2, ...} given the streams of E1, E2, ... : first member = outer loop *)
Fixpoint obj_build (fs : list (string * res)) (acc : list (string * json)) : res :=
  match fs with
  | [] => ok [JObj acc]
  | (k, r) :: fs' => bind r (fun v => obj_build fs' (obj_set k v acc))
  end.

Fixpoint eval (rho : env) (e : jq) (x : json) {struct e} : res :=
  match e with
  | QId => ok [x]
  | QVar v => of_opt (assoc_lookup v rho)
  | QNull => ok [JNull]
  | QEmptyArr => ok [JArr []]
  | QField e k => bind (eval rho e x) (fun y => of_opt (index y k))
  | QFieldStr e k => bind (eval rho e x) (fun y => of_opt (index y k))
  | QIter e => bind (eval rho e x)
                 (fun y => match elements y with Some l => ok l | None => err end)
  | QParen e => eval rho e x
  | QPipe a b => bind (eval rho a x) (fun y => eval rho b y)
  | QComma a b =>
      let '(oa, fa) := eval rho a x in
      if fa then (oa, true)
      else let '(ob, fb) := eval rho b x in ((oa ++ ob)%list, fb)
  | QAs e v body => bind (eval rho e x) (fun y => eval ((v, y) :: rho) body x)
  | QTry e => (fst (eval rho e x), false)
  | QTryCatchNull e =>
      let '(o, f) := eval rho e x in
      if f then ((o ++ [JNull])%list, false) else (o, false)
  | QSelect c => bind (eval rho c x) (fun b => if truthy b then ok [x] else ok [])
  | QCollect e =>
      let '(o, f) := eval rho e x in
      if f then err else ok [JArr o]
  | QObjDyn k v =>
      bind (eval rho k x)
        (fun kk => bind (eval rho v x)
                     (fun vv => match kk with
                                | JStr s => ok [JObj [(s, vv)]]
                                | _ => err      (* the key is checked when the member is inserted *)
                                end))
  | QObj fields =>
      obj_build (map (fun kf => let '(k, fe) := kf in (k, eval rho fe x)) fields) []
  | QAdd =>
      match elements x with
      | Some l => of_opt (add_from JNull l)
      | None => err
      end
  | QTostring => ok [JStr (tostring x)]
  | QFlatten =>
      match elements x with
      | Some l => ok [JArr (flatten_list l)]
      | None => err
      end
  | QJoin sep =>
      match elements x with
      | Some l => match json_join sep l with Some s => ok [JStr s] | None => err end
      | None => err
      end
  | QAlt _ a b =>
      let '(oa, fa) := eval rho a x in
      let t := filter truthy oa in
      if fa then (t, true)
      else match t with
           | [] => eval rho b x
           | _ => (t, false)
           end
  | QIf c t e =>
      bind (eval rho c x) (fun vc => if truthy vc then eval rho t x else eval rho e x)
  | QEq a b =>
      bind (eval rho b x) (fun vb => bind (eval rho a x) (fun va => ok [JBool (json_eqb va vb)]))
  | QNeq a b =>
      bind (eval rho b x) (fun vb => bind (eval rho a x) (fun va => ok [JBool (negb (json_eqb va vb))]))
  | QAnd a b =>
      bind (eval rho a x)
        (fun va => if truthy va
                   then bind (eval rho b x) (fun vb => ok [JBool (truthy vb)])
                   else ok [JBool false])
  | QAny c =>
      match elements x with
      | Some l => any_scan (fun y => eval rho c y) l
      | None => err
      end
  | QAll c =>
      match elements x with
      | Some l => all_scan (fun y => eval rho c y) l
      | None => err
      end
  | QPlus a b =>
      bind (eval rho b x) (fun vb => bind (eval rho a x) (fun va => of_opt (json_add va vb)))
  end.
