(* Mapping.v -- the field mapping after JQFieldSpec normalisation, the variable tree and the compiler to
   the jq AST; every function mirrors (and is named after) a function of
   tel2puml/otel_to_pv/data_sources/json_data_source/json_jq_converter.py.

   HOW TO WRITE A PYTHON FIELD MAPPING AS A COQ TERM (for the harness)
   --------------------------------------------------------------------
   Start from   jq_mapping = field_spec_mapping_to_jq_field_spec_mapping(field_mapping)
   (a dict  field name -> JQFieldSpec  with  key_paths / key_values / value_paths : list of equal-length tuples,
   value_type : "string" | "array").  Then

     mapping     := [ (field_name, field_spec); ... ]                     in dict order
     field_spec  := mkFieldSpec [ component; ... ] VString | VArray       one component per entry of key_paths
                                                                          ("_"-concatenation order)
     component   := [ alt; ... ]                                          one alt per entry of the tuple
                                                                          (priority order), zipping
                                                                          key_paths[i][j], key_values[i][j],
                                                                          value_paths[i][j]
     alt         := mkAlt key_path key_value value_path
     key_path    := the list  [seg.split(".") if seg != "" else []  for seg in key_path_string.split(".[].")]
                    e.g. "resource_spans.[].scope_spans.[].scope.name"
                         -> [["resource_spans"]; ["scope_spans"]; ["scope"; "name"]]
     key_value   := None | Some "http.method"
     value_path  := None | Some ["value"; "Value"; "StringValue"]         (value_path_string.split("."))

   Worked example.  The Python mapping
     {"event_type": {"key_paths": ["rs.[].spans.[].name",
                                   ["rs.[].spans.[].not_here", "rs.[].spans.[].attributes.[].key"]],
                     "key_value": [None, [None, "http.response"]],
                     "value_paths": [None, [None, "value.Value.IntValue"]],
                     "value_type": "string"},
      "child_event_ids": {"key_paths": ["rs.[].spans.[].child_span_ids"], "value_type": "array"}}
   is
     [ ("event_type",
         mkFieldSpec
           [ [ mkAlt [["rs"]; ["spans"]; ["name"]] None None ];
             [ mkAlt [["rs"]; ["spans"]; ["not_here"]] None None;
               mkAlt [["rs"]; ["spans"]; ["attributes"]; ["key"]] (Some "http.response")
                     (Some ["value"; "Value"; "IntValue"]) ] ]
           VString);
       ("child_event_ids",
         mkFieldSpec [ [ mkAlt [["rs"]; ["spans"]; ["child_span_ids"]] None None ] ] VArray) ]

   Only mappings with wf_mapping m = true are in the modelled ("documented") form; for the others Python
   raises, or emits text that jq does not parse as the AST built here.

   Definitions only. *)

From Coq Require Import List String Ascii Bool Arith.
From V Require Import Json.Json Json.Jq.
Import ListNotations.
Open Scope string_scope.

(* ---------- configuration ---------- *)

Definition segment := list string.           (* "a.b" = ["a";"b"],  "" = []  *)

Inductive value_type := VString | VArray.

Record alt := mkAlt {
  a_key_path : list segment;                 (* key path split on ".[]." *)
  a_key_value : option string;
  a_value_path : option segment
}.

Record field_spec := mkFieldSpec {
  fs_comps : list (list alt);                (* concatenation components, each a priority list *)
  fs_type : value_type
}.

Definition mapping := list (string * field_spec).

(* ---------- JQVariableTree ---------- *)

Inductive vtree := VNode (var_num : nat) (children : list (segment * vtree)).

Definition vt_num (t : vtree) : nat := match t with VNode n _ => n end.
Definition vt_children (t : vtree) : list (segment * vtree) := match t with VNode _ c => c end.

Definition segment_eqb (a b : segment) : bool :=
  if list_eq_dec string_dec a b then true else false.

Fixpoint find_child (s : segment) (cs : list (segment * vtree)) : option vtree :=
  match cs with
  | [] => None
  | (s', c) :: r => if segment_eqb s s' then Some c else find_child s r
  end.

Fixpoint replace_child (s : segment) (c : vtree) (cs : list (segment * vtree))
  : list (segment * vtree) :=
  match cs with
  | [] => []
  | (s', c') :: r => if segment_eqb s s' then (s', c) :: r else (s', c') :: replace_child s c r
  end.

(* str(var_tree) without the "$" *)
Definition var_name (n : nat) : string := "var" ++ dec_nat n.

(* the for-loop of get_updated_path_from_key_path_key_value_and_root_var_tree over the segments that
   denote array levels: walk/extend the tree; returns (tree, var_num, number of the node reached) *)
Fixpoint walk_var_tree (segs : list segment) (t : vtree) (var_num : nat) : vtree * nat * nat :=
  match segs with
  | [] => (t, var_num, vt_num t)
  | s :: rest =>
      match find_child s (vt_children t) with
      | Some c =>
          let '(c', n', leaf) := walk_var_tree rest c var_num in
          (VNode (vt_num t) (replace_child s c' (vt_children t)), n', leaf)
      | None =>
          let '(c', n', leaf) := walk_var_tree rest (VNode (S var_num) []) (S var_num) in
          (VNode (vt_num t) (vt_children t ++ [(s, c')])%list, n', leaf)
      end
  end.

(* the array levels of an alternative: all segments but the last; with a key_value the last array is
   the attribute array, which is not a level of the tree *)
Definition alt_levels (a : alt) : list segment :=
  match a_key_value a with
  | None => removelast (a_key_path a)
  | Some _ => removelast (removelast (a_key_path a))
  end.

(* what remains of the key path after the variable: [field] or [attribute array; key] *)
Definition alt_rest (a : alt) : list segment :=
  skipn (List.length (alt_levels a)) (a_key_path a).

(* an alternative whose key path has been rewritten to "$var<n>.<rest>" *)
Definition ualt := (nat * alt)%type.

Definition get_updated_path_from_key_path_key_value_and_root_var_tree
  (a : alt) (root : vtree) (var_num : nat) : ualt * vtree * nat :=
  let '(root', n', leaf) := walk_var_tree (alt_levels a) root var_num in
  ((leaf, a), root', n').

Fixpoint update_priority_key_paths (alts : list alt) (root : vtree) (var_num : nat)
  : list ualt * vtree * nat :=
  match alts with
  | [] => ([], root, var_num)
  | a :: r =>
      let '(ua, root1, n1) := get_updated_path_from_key_path_key_value_and_root_var_tree a root var_num in
      let '(ur, root2, n2) := update_priority_key_paths r root1 n1 in
      (ua :: ur, root2, n2)
  end.

Fixpoint update_field_spec_with_variables (comps : list (list alt)) (root : vtree) (var_num : nat)
  : list (list ualt) * vtree * nat :=
  match comps with
  | [] => ([], root, var_num)
  | c :: r =>
      let '(uc, root1, n1) := update_priority_key_paths c root var_num in
      let '(ur, root2, n2) := update_field_spec_with_variables r root1 n1 in
      (uc :: ur, root2, n2)
  end.

Record ufield_spec := mkUField {
  ufs_comps : list (list ualt);
  ufs_type : value_type
}.

Definition umapping := list (string * ufield_spec).

Fixpoint update_fields (m : mapping) (root : vtree) (var_num : nat) : umapping * vtree * nat :=
  match m with
  | [] => ([], root, var_num)
  | (name, fs) :: r =>
      let '(uc, root1, n1) := update_field_spec_with_variables (fs_comps fs) root var_num in
      let '(ur, root2, n2) := update_fields r root1 n1 in
      ((name, mkUField uc (fs_type fs)) :: ur, root2, n2)
  end.

Definition update_field_specs_with_variables (m : mapping) : vtree * umapping :=
  let '(um, root, _) := update_fields m (VNode 0 []) 0 in (root, um).

(* ---------- program text pieces ---------- *)

Definition binder := (jq * string)%type.       (* "E as $v" *)

(* base.k1.k2...  *)
Definition path_expr (base : jq) (ks : segment) : jq := fold_left QField ks base.

(* "(try $var<p>.<path>.[] catch null)" *)
Definition level_expr (parent_num : nat) (path : segment) : jq :=
  QParen (QTryCatchNull (QIter (path_expr (QVar (var_name parent_num)) path))).

Fixpoint build_base_variable_jq_query (var_tree : vtree) (parent : option (nat * segment))
  : list binder :=
  match var_tree with
  | VNode n cs =>
      (match parent with
       | None => (QId, var_name n)
       | Some (pn, path) => (level_expr pn path, var_name n)
       end)
      :: (fix go (cs : list (segment * vtree)) : list binder :=
            match cs with
            | [] => []
            | (s, c) :: r => (build_base_variable_jq_query c (Some (n, s)) ++ go r)%list
            end) cs
  end.

Fixpoint alt_chain (tight : bool) (vars : list string) : jq :=
  match vars with
  | [] => QNull
  | [v] => QVar v
  | v :: r => QAlt tight (QVar v) (alt_chain tight r)
  end.

Fixpoint comma_list (es : list jq) : jq :=
  match es with
  | [] => QNull
  | [e] => e
  | e :: r => QComma e (comma_list r)
  end.

Definition plus_list (es : list jq) : jq :=
  match es with
  | [] => QNull
  | e :: r => fold_left QPlus r e
  end.

(* "(" + " // ".join(priority_variables) + " | (if . == null then null else (. | tostring) end))" *)
Definition string_component (priority_variables : list string) : jq :=
  QParen (QPipe (alt_chain false priority_variables)
                (QParen (QIf (QEq QId QNull) QNull (QParen (QPipe QId QTostring))))).

Definition handle_string_joined_variables_jq_query (variables : list (list string)) : jq :=
  QParen (QPipe (QCollect (comma_list (map string_component variables)))
                (QIf (QAny (QEq QId QNull)) QNull (QJoin "_"))).

Definition handle_array_joined_variables_jq_query (variables : list (list string)) : jq :=
  QPipe (QParen (plus_list (map (fun pv => QCollect (alt_chain true pv)) variables)))
        (QPipe QFlatten
               (QParen (QIf (QAnd (QParen (QPipe QId (QAll (QEq QId QNull)))) (QNeq QId QEmptyArr))
                            QNull QId))).

Definition handle_value_type_joined_variables_jq_query (variables : list (list string))
  (value_type : value_type) : jq :=
  match value_type with
  | VString => handle_string_joined_variables_jq_query variables
  | VArray => handle_array_joined_variables_jq_query variables
  end.

(* f"{out_var}concat{i}{j}" *)
Definition concat_name (out_var : string) (i j : nat) : string :=
  out_var ++ "concat" ++ dec_nat i ++ dec_nat j.

Definition out_name (field_index : nat) : string := "out" ++ dec_nat field_index.

(* the expression bound to a concat variable *)
Definition alt_expr (ua : ualt) : jq :=
  let '(n, a) := ua in
  match a_key_value a with
  | Some kv =>
      let attr := nth 0 (alt_rest a) [] in
      let kseg := nth 1 (alt_rest a) [] in
      let vseg := match a_value_path a with Some v => v | None => [] end in
      QParen (QTryCatchNull (QParen
        (QPipe (QCollect (QPipe (QIter (path_expr (QVar (var_name n)) attr))
                                (QPipe (QSelect (QTry (path_expr QId kseg)))
                                       (QObjDyn (path_expr QId kseg) (path_expr QId vseg)))))
               (QPipe QAdd (QFieldStr QId kv)))))
  | None =>
      QParen (QTryCatchNull (path_expr (QVar (var_name n)) (nth 0 (alt_rest a) [])))
  end.

Fixpoint alt_binders (out_var : string) (i j : nat) (alts : list ualt) : list binder :=
  match alts with
  | [] => []
  | ua :: r => (alt_expr ua, concat_name out_var i j) :: alt_binders out_var i (S j) r
  end.

Fixpoint comp_binders (out_var : string) (i : nat) (comps : list (list ualt)) : list binder :=
  match comps with
  | [] => []
  | c :: r => (alt_binders out_var i 0 c ++ comp_binders out_var (S i) r)%list
  end.

Fixpoint names_from (out_var : string) (i j : nat) (alts : list ualt) : list string :=
  match alts with
  | [] => []
  | _ :: r => concat_name out_var i j :: names_from out_var i (S j) r
  end.

Fixpoint variables_from (out_var : string) (i : nat) (comps : list (list ualt)) : list (list string) :=
  match comps with
  | [] => []
  | c :: r => names_from out_var i 0 c :: variables_from out_var (S i) r
  end.

Definition get_jq_for_field_spec (fs : ufield_spec) (out_var : string) : list binder :=
  (comp_binders out_var 0 (ufs_comps fs)
   ++ [(QParen (handle_value_type_joined_variables_jq_query
                  (variables_from out_var 0 (ufs_comps fs)) (ufs_type fs)),
        out_var)])%list.

Fixpoint field_binders (var_num : nat) (um : umapping) : list binder :=
  match um with
  | [] => []
  | (_, fs) :: r => (get_jq_for_field_spec fs (out_name var_num) ++ field_binders (S var_num) r)%list
  end.

Fixpoint field_outputs (var_num : nat) (um : umapping) : list (string * jq) :=
  match um with
  | [] => []
  | (name, _) :: r => (name, QVar (out_name var_num)) :: field_outputs (S var_num) r
  end.

Definition get_jq_using_field_mapping (um : umapping) : list binder * jq :=
  (field_binders 0 um, QObj (field_outputs 0 um)).

(* "E1 as $v1 | E2 as $v2 | ... | final" *)
Fixpoint as_chain (bs : list binder) (final : jq) : jq :=
  match bs with
  | [] => final
  | (e, v) :: r => QAs e v (as_chain r final)
  end.

Definition all_binders (um : umapping) (var_tree : vtree) : list binder :=
  (build_base_variable_jq_query var_tree None ++ fst (get_jq_using_field_mapping um))%list.

Definition get_jq_query_from_field_mapping_with_variables_and_var_tree
  (um : umapping) (var_tree : vtree) : jq :=
  as_chain (all_binders um var_tree) (snd (get_jq_using_field_mapping um)).

Definition jq_field_mapping_to_jq_query (m : mapping) : jq :=
  let '(var_tree, um) := update_field_specs_with_variables m in
  get_jq_query_from_field_mapping_with_variables_and_var_tree um var_tree.

Definition compile (m : mapping) : jq := jq_field_mapping_to_jq_query m.

(* ---------- well-formed ("documented form") mappings ---------- *)

Definition is_alpha_ (c : ascii) : bool :=
  let n := nat_of_ascii c in
  (Nat.leb 65 n && Nat.leb n 90) || (Nat.leb 97 n && Nat.leb n 122) || Nat.eqb n 95.

Definition is_alnum_ (c : ascii) : bool :=
  let n := nat_of_ascii c in
  is_alpha_ c || (Nat.leb 48 n && Nat.leb n 57).

Fixpoint string_forallb (p : ascii -> bool) (s : string) : bool :=
  match s with
  | EmptyString => true
  | String c r => p c && string_forallb p r
  end.

(* a key that jq reads back as one FIELD token: [A-Za-z_][A-Za-z0-9_]* *)
Definition ident_ok (s : string) : bool :=
  match s with
  | EmptyString => false
  | String c r => is_alpha_ c && string_forallb is_alnum_ r
  end.

(* text that can be put between double quotes in the jq program unchanged *)
Definition quoted_ok (s : string) : bool :=
  string_forallb (fun c => let n := nat_of_ascii c in
                           Nat.leb 32 n && negb (Nat.eqb n 34) && negb (Nat.eqb n 92)
                           && negb (Nat.eqb n 127)) s.

Definition segment_ok (s : segment) : bool := forallb ident_ok s.

Definition nonempty {A : Type} (l : list A) : bool :=
  match l with [] => false | _ => true end.

Definition wf_alt (a : alt) : bool :=
  forallb segment_ok (a_key_path a)
  && match a_key_value a with
     | None =>
         Nat.leb 1 (List.length (a_key_path a)) && nonempty (last (a_key_path a) [])
     | Some kv =>
         Nat.leb 2 (List.length (a_key_path a))
         && nonempty (nth 0 (alt_rest a) []) && nonempty (nth 1 (alt_rest a) [])
         && quoted_ok kv
         && match a_value_path a with
            | Some v => nonempty v && segment_ok v
            | None => false
            end
     end.

Definition wf_field (fs : field_spec) : bool :=
  nonempty (fs_comps fs)
  && forallb (fun c => nonempty c && forallb wf_alt c) (fs_comps fs).

Fixpoint nodupb (l : list string) : bool :=
  match l with
  | [] => true
  | x :: r => negb (existsb (String.eqb x) r) && nodupb r
  end.

(* the $out.. / $out..concat.. variable names bound by the compiled program, in binding order
   (the $var.. names are distinct by construction) *)
Definition binder_names (m : mapping) : list string :=
  let '(_, um) := update_field_specs_with_variables m in
  map snd (fst (get_jq_using_field_mapping um)).

Definition wf_fields (m : mapping) : bool :=
  forallb (fun nf => quoted_ok (fst nf) && wf_field (snd nf)) m
  && nodupb (map fst m).

(* The names f"{out_var}concat{i}{j}" must be unambiguous (component 1 / alternative 10 and component 11 /
   alternative 0 would both be "...concat110").  wf_mapping checks this on the names themselves. *)
Definition wf_mapping (m : mapping) : bool :=
  wf_fields m && nodupb (binder_names m).

(* A purely syntactic sufficient condition (NameProofs.wf_syntactic_wf): at most ten alternatives in
   every priority list. *)
Definition few_alternatives (m : mapping) : bool :=
  forallb (fun nf => forallb (fun c => Nat.leb (List.length c) 10) (fs_comps (snd nf))) m.

Definition wf_mapping_syntactic (m : mapping) : bool :=
  wf_fields m && few_alternatives m.
