(* MappingProofs.v -- the variable tree built by the compiler: numbering invariants, and its shape is the
   tree of array prefixes of the specification. *)

From Coq Require Import List String Ascii Bool Arith Lia.
From V Require Import Json.Json Json.Jq Json.Mapping Json.FlattenSpec Json.JsonProofs.
Import ListNotations.
Open Scope string_scope.

(* ---------- segments ---------- *)

Lemma segment_eqb_true : forall a b, segment_eqb a b = true -> a = b.
Proof. intros a b. unfold segment_eqb. destruct (list_eq_dec string_dec a b); [auto|discriminate]. Qed.

Lemma segment_eqb_false : forall a b, segment_eqb a b = false -> a <> b.
Proof. intros a b. unfold segment_eqb. destruct (list_eq_dec string_dec a b); [discriminate|auto]. Qed.

Lemma segment_eqb_refl : forall a, segment_eqb a a = true.
Proof. intro a. unfold segment_eqb. destruct (list_eq_dec string_dec a a); [reflexivity|contradiction]. Qed.

Lemma segment_eqb_neq : forall a b, a <> b -> segment_eqb a b = false.
Proof. intros a b H. unfold segment_eqb. destruct (list_eq_dec string_dec a b); [contradiction|reflexivity]. Qed.

(* ---------- addressing nodes ---------- *)

Fixpoint node_at (t : vtree) (p : list segment) : option vtree :=
  match p with
  | [] => Some t
  | s :: r => match find_child s (vt_children t) with
              | Some c => node_at c r
              | None => None
              end
  end.

Definition num_at (t : vtree) (p : list segment) : option nat :=
  match node_at t p with Some c => Some (vt_num c) | None => None end.

Lemma num_at_nil : forall t, num_at t [] = Some (vt_num t).
Proof. reflexivity. Qed.

Lemma num_at_cons : forall t s r,
  num_at t (s :: r) = match find_child s (vt_children t) with Some c => num_at c r | None => None end.
Proof. intros. unfold num_at. simpl. destruct (find_child s (vt_children t)); reflexivity. Qed.

Lemma node_at_app : forall p t c q, node_at t p = Some c -> node_at t (p ++ q) = node_at c q.
Proof.
  induction p as [|s p IH]; intros t c q H; simpl in *.
  - inversion H. reflexivity.
  - destruct (find_child s (vt_children t)) as [c0|]; [|discriminate]. apply IH. exact H.
Qed.

Inductive wf_vtree : vtree -> Prop :=
| wf_node : forall n cs,
    NoDup (map fst cs) ->
    (forall s c, In (s, c) cs -> wf_vtree c) ->
    wf_vtree (VNode n cs).

Lemma find_child_in : forall s cs c, find_child s cs = Some c -> In (s, c) cs.
Proof.
  intros s cs c. induction cs as [|[s' c'] cs IH]; simpl; intro H.
  - discriminate.
  - destruct (segment_eqb s s') eqn:E.
    + apply segment_eqb_true in E. subst. inversion H. left. reflexivity.
    + right. apply IH. exact H.
Qed.

Lemma find_child_none : forall s cs, find_child s cs = None -> ~ In s (map fst cs).
Proof.
  intros s cs. induction cs as [|[s' c'] cs IH]; simpl; intro H.
  - auto.
  - destruct (segment_eqb s s') eqn:E; [discriminate|].
    apply segment_eqb_false in E. intros [H1|H1]; [congruence|]. apply IH; assumption.
Qed.

Lemma find_child_nodup : forall s c cs,
  NoDup (map fst cs) -> In (s, c) cs -> find_child s cs = Some c.
Proof.
  intros s c cs. induction cs as [|[s' c'] cs IH]; simpl; intros Hnd Hin.
  - contradiction.
  - inversion Hnd as [|? ? Hnotin Hnd']; subst.
    destruct Hin as [Heq|Hin].
    + inversion Heq; subst. rewrite segment_eqb_refl. reflexivity.
    + destruct (segment_eqb s s') eqn:E.
      * apply segment_eqb_true in E. subst. exfalso. apply Hnotin. apply (in_map fst) in Hin. exact Hin.
      * apply IH; assumption.
Qed.

Lemma node_at_wf : forall p t c, wf_vtree t -> node_at t p = Some c -> wf_vtree c.
Proof.
  induction p as [|s p IH]; intros t c Hwf H; simpl in H.
  - inversion H; subst. exact Hwf.
  - destruct (find_child s (vt_children t)) as [c0|] eqn:E; [|discriminate].
    apply (IH c0 c); [|exact H].
    destruct Hwf as [n cs Hnd Hch]. simpl in E. apply (Hch s). apply find_child_in. exact E.
Qed.

Lemma find_child_replace : forall s s' c c' cs,
  find_child s cs = Some c ->
  find_child s' (replace_child s c' cs) = if segment_eqb s' s then Some c' else find_child s' cs.
Proof.
  intros s s' c c' cs. induction cs as [|[s0 c0] cs IH]; simpl; intro H.
  - discriminate.
  - destruct (segment_eqb s s0) eqn:E.
    + apply segment_eqb_true in E. subst s0. simpl.
      destruct (segment_eqb s' s); reflexivity.
    + simpl. destruct (segment_eqb s' s0) eqn:E'.
      * apply segment_eqb_true in E'. subst s0.
        destruct (segment_eqb s' s) eqn:E2; [|reflexivity].
        apply segment_eqb_true in E2. subst. rewrite segment_eqb_refl in E. discriminate.
      * apply IH. exact H.
Qed.

Lemma find_child_app : forall s s' c' cs,
  find_child s' (cs ++ [(s, c')]) =
  match find_child s' cs with
  | Some x => Some x
  | None => if segment_eqb s' s then Some c' else None
  end.
Proof.
  intros s s' c' cs. induction cs as [|[s0 c0] cs IH]; simpl.
  - reflexivity.
  - destruct (segment_eqb s' s0); [reflexivity|exact IH].
Qed.

Lemma map_fst_replace_child : forall s c cs, map fst (replace_child s c cs) = map fst cs.
Proof.
  intros s c cs. induction cs as [|[s0 c0] cs IH]; simpl.
  - reflexivity.
  - destruct (segment_eqb s s0); simpl; [reflexivity|]. rewrite IH. reflexivity.
Qed.

Lemma in_replace_child : forall s c cs s1 c1,
  In (s1, c1) (replace_child s c cs) -> In (s1, c1) cs \/ c1 = c.
Proof.
  intros s c cs s1 c1. induction cs as [|[s0 c0] cs IH]; simpl; intro H.
  - contradiction.
  - destruct (segment_eqb s s0) eqn:E; simpl in H.
    + destruct H as [H|H]; [inversion H; subst; right; reflexivity|left; right; exact H].
    + destruct H as [H|H]; [left; left; exact H|].
      destruct (IH H) as [H1|H1]; [left; right; exact H1|right; exact H1].
Qed.

(* ---------- erasing the numbers gives the tree of the specification ---------- *)

Fixpoint erase (t : vtree) : ptree :=
  match t with
  | VNode _ cs =>
      PNode ((fix go (cs : list (segment * vtree)) : list (segment * ptree) :=
                match cs with
                | [] => []
                | (s, c) :: r => (s, erase c) :: go r
                end) cs)
  end.

Definition erase_children (cs : list (segment * vtree)) : list (segment * ptree) :=
  map (fun sc => (fst sc, erase (snd sc))) cs.

Lemma erase_eq : forall n cs, erase (VNode n cs) = PNode (erase_children cs).
Proof.
  intros n cs. simpl. f_equal. induction cs as [|[s c] cs IH]; simpl.
  - reflexivity.
  - rewrite IH. reflexivity.
Qed.

Lemma pt_children_erase : forall t, pt_children (erase t) = erase_children (vt_children t).
Proof. intros [n cs]. rewrite erase_eq. reflexivity. Qed.

Lemma pt_find_erase : forall s cs,
  pt_find s (erase_children cs) = match find_child s cs with Some c => Some (erase c) | None => None end.
Proof.
  intros s cs. induction cs as [|[s0 c0] cs IH]; simpl.
  - reflexivity.
  - destruct (segment_eqb s s0); [reflexivity|exact IH].
Qed.

Lemma pt_replace_erase : forall s c cs,
  pt_replace s (erase c) (erase_children cs) = erase_children (replace_child s c cs).
Proof.
  intros s c cs. induction cs as [|[s0 c0] cs IH]; simpl.
  - reflexivity.
  - destruct (segment_eqb s s0); simpl; [reflexivity|]. rewrite IH. reflexivity.
Qed.

Lemma erase_children_app : forall cs s c,
  erase_children (cs ++ [(s, c)]) = (erase_children cs ++ [(s, erase c)])%list.
Proof. intros. unfold erase_children. rewrite map_app. reflexivity. Qed.

Lemma walk_erase : forall segs t n t' n' leaf,
  walk_var_tree segs t n = (t', n', leaf) -> erase t' = pt_insert segs (erase t).
Proof.
  induction segs as [|s rest IH]; intros t n t' n' leaf H; simpl in H.
  - inversion H; subst. reflexivity.
  - simpl. rewrite pt_children_erase. rewrite pt_find_erase.
    destruct (find_child s (vt_children t)) as [c|] eqn:E.
    + destruct (walk_var_tree rest c n) as [[c' n1] leaf1] eqn:Ew. inversion H; subst.
      rewrite erase_eq. rewrite <- (IH c n c' n' leaf Ew). rewrite pt_replace_erase. reflexivity.
    + destruct (walk_var_tree rest (VNode (S n) []) (S n)) as [[c' n1] leaf1] eqn:Ew. inversion H; subst.
      rewrite erase_eq. rewrite erase_children_app.
      rewrite (IH _ _ _ _ _ Ew). reflexivity.
Qed.

Lemma NoDup_app_singleton : forall (A : Type) (l : list A) (x : A),
  NoDup l -> ~ In x l -> NoDup (l ++ [x]).
Proof.
  intros A l x Hnd Hx. induction l as [|y l IH]; simpl.
  - constructor; [auto|constructor].
  - inversion Hnd as [|? ? Hy Hnd']; subst. constructor.
    + intro H. apply in_app_or in H. destruct H as [H|[H|[]]]; [contradiction|].
      subst. apply Hx. left. reflexivity.
    + apply IH; [exact Hnd'|]. intro H. apply Hx. right. exact H.
Qed.

(* ---------- numbering invariant ---------- *)

Record Inv (t : vtree) (n : nat) : Prop := mkInv {
  inv_wf : wf_vtree t;
  inv_le : forall p k, num_at t p = Some k -> k <= n;
  inv_inj : forall p q k, num_at t p = Some k -> num_at t q = Some k -> p = q
}.

Definition mono (t t' : vtree) : Prop := forall p k, num_at t p = Some k -> num_at t' p = Some k.

Lemma mono_refl : forall t, mono t t.
Proof. intros t p k H. exact H. Qed.

Lemma mono_trans : forall a b c, mono a b -> mono b c -> mono a c.
Proof. intros a b c H1 H2 p k H. apply H2. apply H1. exact H. Qed.

Lemma Inv_child : forall t n s c,
  Inv t n -> find_child s (vt_children t) = Some c -> Inv c n.
Proof.
  intros t n s c [Hwf Hle Hinj] E. split.
  - destruct Hwf as [m cs Hnd Hch]. simpl in E. apply (Hch s). apply find_child_in. exact E.
  - intros p k H. apply (Hle (s :: p)). rewrite num_at_cons. rewrite E. exact H.
  - intros p q k H1 H2.
    assert (Heq : s :: p = s :: q).
    { apply (Hinj _ _ k); rewrite num_at_cons; rewrite E; assumption. }
    inversion Heq. reflexivity.
Qed.

Lemma Inv_fresh : forall n, Inv (VNode n []) n.
Proof.
  intro n. split.
  - constructor; [constructor|]. intros s c H. contradiction.
  - intros p k H. destruct p as [|s p].
    + rewrite num_at_nil in H. inversion H. simpl. lia.
    + rewrite num_at_cons in H. simpl in H. discriminate.
  - intros p q k H1 H2. destruct p as [|s p]; destruct q as [|s' q]; try reflexivity;
      rewrite num_at_cons in *; simpl in *; discriminate.
Qed.

Lemma walk_spec : forall segs t n t' n' leaf,
  walk_var_tree segs t n = (t', n', leaf) -> Inv t n ->
  n <= n' /\ Inv t' n' /\ num_at t' segs = Some leaf /\ mono t t' /\ vt_num t' = vt_num t
  /\ (forall p k, num_at t' p = Some k -> num_at t p = Some k \/ n < k).
Proof.
  induction segs as [|s rest IH]; intros t n t' n' leaf H HI; simpl in H.
  - inversion H; subst. repeat split; try (destruct HI; assumption); auto.
    apply mono_refl.
  - destruct (find_child s (vt_children t)) as [c|] eqn:E.
    + (* existing child *)
      destruct (walk_var_tree rest c n) as [[c' n1] leaf1] eqn:Ew. inversion H; subst. clear H.
      pose proof (Inv_child t n s c HI E) as HIc.
      destruct (IH c n c' n' leaf Ew HIc) as [Hle [HIc' [Hleaf [Hmono [Hnum Hnew]]]]].
      assert (Hfind : forall s', find_child s' (replace_child s c' (vt_children t))
                                 = if segment_eqb s' s then Some c' else find_child s' (vt_children t)).
      { intro s'. apply (find_child_replace s s' c c'). exact E. }
      assert (Hnum' : forall s' r, num_at (VNode (vt_num t) (replace_child s c' (vt_children t))) (s' :: r)
                                   = if segment_eqb s' s then num_at c' r else num_at t (s' :: r)).
      { intros s' r. rewrite num_at_cons. simpl vt_children. rewrite Hfind.
        destruct (segment_eqb s' s); [reflexivity|]. rewrite num_at_cons. reflexivity. }
      assert (Hold : forall r k, num_at c r = Some k -> num_at t (s :: r) = Some k).
      { intros r k Hk. rewrite num_at_cons. rewrite E. exact Hk. }
      destruct HI as [Hwf HleI Hinj].
      assert (Hnewt : forall p k, num_at (VNode (vt_num t) (replace_child s c' (vt_children t))) p = Some k ->
                                  num_at t p = Some k \/ n < k).
      { intros p k Hk. destruct p as [|s' r].
        - left. exact Hk.
        - rewrite Hnum' in Hk. destruct (segment_eqb s' s) eqn:Es.
          + apply segment_eqb_true in Es. subst s'. destruct (Hnew r k Hk) as [H1|H1].
            * left. apply Hold. exact H1.
            * right. exact H1.
          + left. exact Hk. }
      split; [exact Hle|]. split; [|split; [|split; [|split]]].
      * split.
        -- destruct Hwf as [m cs Hnd Hch]. simpl in *. constructor.
           ++ rewrite map_fst_replace_child. exact Hnd.
           ++ intros s1 c1 Hin. destruct (in_replace_child _ _ _ _ _ Hin) as [H1|H1].
              ** apply (Hch s1). exact H1.
              ** subst c1. destruct HIc' as [Hwf' _ _]. exact Hwf'.
        -- intros p k Hk. destruct (Hnewt p k Hk) as [H1|H1].
           ++ apply HleI in H1. lia.
           ++ destruct p as [|s' r]; [rewrite num_at_nil in Hk; inversion Hk; subst;
                                      specialize (HleI [] (vt_num t) (num_at_nil t)); simpl; lia|].
              rewrite Hnum' in Hk. destruct (segment_eqb s' s).
              ** destruct HIc' as [_ Hle' _]. apply (Hle' r). exact Hk.
              ** apply HleI in Hk. lia.
        -- intros p q k Hp Hq.
           destruct p as [|s1 r1]; destruct q as [|s2 r2].
           ++ reflexivity.
           ++ exfalso. rewrite num_at_nil in Hp. simpl in Hp. inversion Hp; subst k.
              pose proof (HleI [] _ (num_at_nil t)) as Hroot.
              destruct (Hnewt _ _ Hq) as [H1|H1]; [|lia].
              pose proof (Hinj [] (s2 :: r2) _ (num_at_nil t) H1). discriminate.
           ++ exfalso. rewrite num_at_nil in Hq. simpl in Hq. inversion Hq; subst k.
              pose proof (HleI [] _ (num_at_nil t)) as Hroot.
              destruct (Hnewt _ _ Hp) as [H1|H1]; [|lia].
              pose proof (Hinj [] (s1 :: r1) _ (num_at_nil t) H1). discriminate.
           ++ rewrite Hnum' in Hp, Hq.
              destruct (segment_eqb s1 s) eqn:E1; destruct (segment_eqb s2 s) eqn:E2.
              ** apply segment_eqb_true in E1, E2. subst.
                 destruct HIc' as [_ _ Hinj']. f_equal. apply (Hinj' _ _ k); assumption.
              ** exfalso. apply segment_eqb_true in E1. apply segment_eqb_false in E2. subst s1.
                 destruct (Hnew _ _ Hp) as [H1|H1].
                 --- apply Hold in H1. pose proof (Hinj _ _ _ H1 Hq) as Heq. inversion Heq. congruence.
                 --- apply HleI in Hq. lia.
              ** exfalso. apply segment_eqb_true in E2. apply segment_eqb_false in E1. subst s2.
                 destruct (Hnew _ _ Hq) as [H1|H1].
                 --- apply Hold in H1. pose proof (Hinj _ _ _ Hp H1) as Heq. inversion Heq. congruence.
                 --- apply HleI in Hp. lia.
              ** apply (Hinj _ _ k); assumption.
      * rewrite Hnum'. rewrite segment_eqb_refl. exact Hleaf.
      * intros p k Hk. destruct p as [|s' r].
        -- exact Hk.
        -- rewrite Hnum'. destruct (segment_eqb s' s) eqn:Es; [|exact Hk].
           apply segment_eqb_true in Es. subst s'. apply Hmono.
           rewrite num_at_cons in Hk. rewrite E in Hk. exact Hk.
      * reflexivity.
      * exact Hnewt.
    + (* new child *)
      destruct (walk_var_tree rest (VNode (S n) []) (S n)) as [[c' n1] leaf1] eqn:Ew.
      inversion H; subst. clear H.
      destruct (IH _ _ c' n' leaf Ew (Inv_fresh (S n))) as [Hle [HIc' [Hleaf [Hmono [Hnum Hnew]]]]].
      assert (Hnum' : forall s' r, num_at (VNode (vt_num t) (vt_children t ++ [(s, c')])) (s' :: r)
                                   = match find_child s' (vt_children t) with
                                     | Some x => num_at x r
                                     | None => if segment_eqb s' s then num_at c' r else None
                                     end).
      { intros s' r. rewrite num_at_cons. simpl vt_children. rewrite find_child_app.
        destruct (find_child s' (vt_children t)); [reflexivity|].
        destruct (segment_eqb s' s); reflexivity. }
      assert (Hc'new : forall r k, num_at c' r = Some k -> n < k).
      { intros r k Hk. destruct (Hnew r k Hk) as [H1|H1]; [|lia].
        destruct r as [|s0 r].
        - rewrite num_at_nil in H1. inversion H1. simpl. lia.
        - rewrite num_at_cons in H1. simpl in H1. discriminate. }
      destruct HI as [Hwf HleI Hinj].
      assert (Hnewt : forall p k, num_at (VNode (vt_num t) (vt_children t ++ [(s, c')])) p = Some k ->
                                  num_at t p = Some k \/ n < k).
      { intros p k Hk. destruct p as [|s' r].
        - left. exact Hk.
        - rewrite Hnum' in Hk. rewrite num_at_cons.
          destruct (find_child s' (vt_children t)); [left; exact Hk|].
          destruct (segment_eqb s' s); [|discriminate]. right. apply (Hc'new r). exact Hk. }
      split; [lia|]. split; [|split; [|split; [|split]]].
      * split.
        -- destruct Hwf as [m cs Hnd Hch]. simpl in *. constructor.
           ++ rewrite map_app. simpl. apply NoDup_app_singleton.
              ** exact Hnd.
              ** apply find_child_none. exact E.
           ++ intros s1 c1 Hin. apply in_app_or in Hin. destruct Hin as [H1|H1].
              ** apply (Hch s1). exact H1.
              ** destruct H1 as [H1|[]]. inversion H1; subst. destruct HIc' as [Hwf' _ _]. exact Hwf'.
        -- intros p k Hk. destruct p as [|s' r].
           ++ rewrite num_at_nil in Hk. inversion Hk; subst.
              specialize (HleI [] (vt_num t) (num_at_nil t)). simpl. lia.
           ++ rewrite Hnum' in Hk. destruct (find_child s' (vt_children t)) eqn:Ef.
              ** assert (Hk' : num_at t (s' :: r) = Some k) by (rewrite num_at_cons, Ef; exact Hk).
                 apply HleI in Hk'. lia.
              ** destruct (segment_eqb s' s); [|discriminate].
                 destruct HIc' as [_ Hle' _]. apply (Hle' r). exact Hk.
        -- intros p q k Hp Hq.
           destruct p as [|s1 r1]; destruct q as [|s2 r2].
           ++ reflexivity.
           ++ exfalso. rewrite num_at_nil in Hp. simpl in Hp. inversion Hp; subst k.
              pose proof (HleI [] _ (num_at_nil t)) as Hroot.
              destruct (Hnewt _ _ Hq) as [H1|H1]; [|lia].
              pose proof (Hinj [] (s2 :: r2) _ (num_at_nil t) H1). discriminate.
           ++ exfalso. rewrite num_at_nil in Hq. simpl in Hq. inversion Hq; subst k.
              pose proof (HleI [] _ (num_at_nil t)) as Hroot.
              destruct (Hnewt _ _ Hp) as [H1|H1]; [|lia].
              pose proof (Hinj [] (s1 :: r1) _ (num_at_nil t) H1). discriminate.
           ++ pose proof Hp as Hp0. pose proof Hq as Hq0.
              rewrite Hnum' in Hp, Hq.
              destruct (find_child s1 (vt_children t)) eqn:F1; destruct (find_child s2 (vt_children t)) eqn:F2.
              ** apply (Hinj _ _ k); rewrite num_at_cons; [rewrite F1|rewrite F2]; assumption.
              ** exfalso. destruct (segment_eqb s2 s); [|discriminate].
                 apply Hc'new in Hq.
                 assert (Hk' : num_at t (s1 :: r1) = Some k) by (rewrite num_at_cons, F1; exact Hp).
                 apply HleI in Hk'. lia.
              ** exfalso. destruct (segment_eqb s1 s); [|discriminate].
                 apply Hc'new in Hp.
                 assert (Hk' : num_at t (s2 :: r2) = Some k) by (rewrite num_at_cons, F2; exact Hq).
                 apply HleI in Hk'. lia.
              ** destruct (segment_eqb s1 s) eqn:E1; [|discriminate].
                 destruct (segment_eqb s2 s) eqn:E2; [|discriminate].
                 apply segment_eqb_true in E1, E2. subst.
                 destruct HIc' as [_ _ Hinj']. f_equal. apply (Hinj' _ _ k); assumption.
      * rewrite Hnum'. rewrite E. rewrite segment_eqb_refl. exact Hleaf.
      * intros p k Hk. destruct p as [|s' r].
        -- exact Hk.
        -- rewrite Hnum'. rewrite num_at_cons in Hk.
           destruct (find_child s' (vt_children t)); [exact Hk|discriminate].
      * reflexivity.
      * exact Hnewt.
Qed.

(* ---------- lifting through update_field_specs_with_variables ---------- *)

Definition ins (t : ptree) (a : alt) : ptree := pt_insert (alt_levels a) t.

Definition alt_ok (root : vtree) (ua : ualt) (a : alt) : Prop :=
  snd ua = a /\ num_at root (alt_levels a) = Some (fst ua).

Definition comp_ok (root : vtree) : list ualt -> list alt -> Prop := Forall2 (alt_ok root).
Definition comps_ok (root : vtree) : list (list ualt) -> list (list alt) -> Prop := Forall2 (comp_ok root).
Definition field_ok (root : vtree) (uf : string * ufield_spec) (f : string * field_spec) : Prop :=
  fst uf = fst f /\ ufs_type (snd uf) = fs_type (snd f)
  /\ comps_ok root (ufs_comps (snd uf)) (fs_comps (snd f)).

Lemma alt_ok_mono : forall r r' ua a, mono r r' -> alt_ok r ua a -> alt_ok r' ua a.
Proof. intros r r' ua a Hm [H1 H2]. split; [exact H1|]. apply Hm. exact H2. Qed.

Lemma comp_ok_mono : forall r r' uc c, mono r r' -> comp_ok r uc c -> comp_ok r' uc c.
Proof.
  intros r r' uc c Hm H. induction H; constructor; [|assumption].
  eapply alt_ok_mono; eassumption.
Qed.

Lemma comps_ok_mono : forall r r' uc c, mono r r' -> comps_ok r uc c -> comps_ok r' uc c.
Proof.
  intros r r' uc c Hm H. induction H; constructor; [|assumption].
  eapply comp_ok_mono; eassumption.
Qed.

Lemma field_ok_mono : forall r r' uf f, mono r r' -> field_ok r uf f -> field_ok r' uf f.
Proof.
  intros r r' uf f Hm [H1 [H2 H3]]. repeat split; try assumption.
  eapply comps_ok_mono; eassumption.
Qed.

Record step_ok (root : vtree) (n : nat) (root' : vtree) (n' : nat) : Prop := mkStep {
  so_le : n <= n';
  so_inv : Inv root' n';
  so_mono : mono root root';
  so_num : vt_num root' = vt_num root
}.

Lemma step_ok_refl : forall root n, Inv root n -> step_ok root n root n.
Proof. intros. split; auto. apply mono_refl. Qed.

Lemma step_ok_trans : forall r0 n0 r1 n1 r2 n2,
  step_ok r0 n0 r1 n1 -> step_ok r1 n1 r2 n2 -> step_ok r0 n0 r2 n2.
Proof.
  intros r0 n0 r1 n1 r2 n2 [L1 I1 M1 N1] [L2 I2 M2 N2]. split.
  - lia.
  - exact I2.
  - eapply mono_trans; eassumption.
  - congruence.
Qed.

Lemma get_updated_spec : forall a root n ua root' n',
  get_updated_path_from_key_path_key_value_and_root_var_tree a root n = (ua, root', n') ->
  Inv root n ->
  step_ok root n root' n' /\ alt_ok root' ua a /\ erase root' = ins (erase root) a.
Proof.
  intros a root n ua root' n' H HI.
  unfold get_updated_path_from_key_path_key_value_and_root_var_tree in H.
  destruct (walk_var_tree (alt_levels a) root n) as [[r1 n1] leaf] eqn:Ew.
  inversion H; subst. clear H.
  destruct (walk_spec _ _ _ _ _ _ Ew HI) as [Hle [HI' [Hleaf [Hmono [Hnum _]]]]].
  split; [split; assumption|]. split.
  - split; [reflexivity|exact Hleaf].
  - unfold ins. eapply walk_erase. exact Ew.
Qed.

Lemma update_priority_spec : forall alts root n ualts root' n',
  update_priority_key_paths alts root n = (ualts, root', n') ->
  Inv root n ->
  step_ok root n root' n' /\ comp_ok root' ualts alts
  /\ erase root' = fold_left ins alts (erase root).
Proof.
  induction alts as [|a alts IH]; intros root n ualts root' n' H HI; simpl in H.
  - inversion H; subst. split; [apply step_ok_refl; exact HI|]. split; [constructor|reflexivity].
  - destruct (get_updated_path_from_key_path_key_value_and_root_var_tree a root n) as [[ua r1] n1] eqn:E1.
    destruct (update_priority_key_paths alts r1 n1) as [[ur r2] n2] eqn:E2.
    inversion H; subst. clear H.
    destruct (get_updated_spec _ _ _ _ _ _ E1 HI) as [S1 [A1 Er1]].
    destruct (IH _ _ _ _ _ E2 (so_inv _ _ _ _ S1)) as [S2 [A2 Er2]].
    split; [eapply step_ok_trans; eassumption|]. split.
    + constructor; [|exact A2]. eapply alt_ok_mono; [apply (so_mono _ _ _ _ S2)|exact A1].
    + simpl. rewrite Er2. rewrite Er1. reflexivity.
Qed.

Lemma update_field_spec_spec : forall comps root n ucomps root' n',
  update_field_spec_with_variables comps root n = (ucomps, root', n') ->
  Inv root n ->
  step_ok root n root' n' /\ comps_ok root' ucomps comps
  /\ erase root' = fold_left ins (List.concat comps) (erase root).
Proof.
  induction comps as [|c comps IH]; intros root n ucomps root' n' H HI; simpl in H.
  - inversion H; subst. split; [apply step_ok_refl; exact HI|]. split; [constructor|reflexivity].
  - destruct (update_priority_key_paths c root n) as [[uc r1] n1] eqn:E1.
    destruct (update_field_spec_with_variables comps r1 n1) as [[ur r2] n2] eqn:E2.
    inversion H; subst. clear H.
    destruct (update_priority_spec _ _ _ _ _ _ E1 HI) as [S1 [A1 Er1]].
    destruct (IH _ _ _ _ _ E2 (so_inv _ _ _ _ S1)) as [S2 [A2 Er2]].
    split; [eapply step_ok_trans; eassumption|]. split.
    + constructor; [|exact A2]. eapply comp_ok_mono; [apply (so_mono _ _ _ _ S2)|exact A1].
    + simpl. rewrite fold_left_app. rewrite Er2. rewrite Er1. reflexivity.
Qed.

Lemma update_fields_spec : forall m root n um root' n',
  update_fields m root n = (um, root', n') ->
  Inv root n ->
  step_ok root n root' n' /\ Forall2 (field_ok root') um m
  /\ erase root' = fold_left ins (all_alts m) (erase root).
Proof.
  induction m as [|[name fs] m IH]; intros root n um root' n' H HI; simpl in H.
  - inversion H; subst. split; [apply step_ok_refl; exact HI|]. split; [constructor|reflexivity].
  - destruct (update_field_spec_with_variables (fs_comps fs) root n) as [[uc r1] n1] eqn:E1.
    destruct (update_fields m r1 n1) as [[ur r2] n2] eqn:E2.
    inversion H; subst. clear H.
    destruct (update_field_spec_spec _ _ _ _ _ _ E1 HI) as [S1 [A1 Er1]].
    destruct (IH _ _ _ _ _ E2 (so_inv _ _ _ _ S1)) as [S2 [A2 Er2]].
    split; [eapply step_ok_trans; eassumption|]. split.
    + constructor; [|exact A2]. split; [reflexivity|]. split; [reflexivity|]. simpl.
      eapply comps_ok_mono; [apply (so_mono _ _ _ _ S2)|exact A1].
    + unfold all_alts. simpl. rewrite fold_left_app. unfold all_alts in Er2. rewrite Er2. rewrite Er1.
      reflexivity.
Qed.

Theorem update_field_specs_sound : forall m root um,
  update_field_specs_with_variables m = (root, um) ->
  (exists n, Inv root n) /\ vt_num root = 0 /\ Forall2 (field_ok root) um m
  /\ erase root = array_tree m.
Proof.
  intros m root um H. unfold update_field_specs_with_variables in H.
  destruct (update_fields m (VNode 0 []) 0) as [[um' r] n] eqn:E. inversion H; subst. clear H.
  destruct (update_fields_spec _ _ _ _ _ _ E (Inv_fresh 0)) as [S [A Er]].
  split; [exists n; apply (so_inv _ _ _ _ S)|]. split; [rewrite (so_num _ _ _ _ S); reflexivity|].
  split; [exact A|]. rewrite Er. rewrite erase_eq. reflexivity.
Qed.

(* ---------- variable names ---------- *)

Lemma var_name_inj : forall a b, var_name a = var_name b -> a = b.
Proof.
  intros a b H. unfold var_name in H. apply string_app_inj_l in H. apply dec_nat_inj. exact H.
Qed.

Lemma var_name_not_out : forall k f, var_name k <> out_name f.
Proof. intros k f H. unfold var_name, out_name in H. simpl in H. discriminate. Qed.

Lemma var_name_not_concat : forall k f i j, var_name k <> concat_name (out_name f) i j.
Proof. intros k f i j H. unfold var_name, concat_name, out_name in H. simpl in H. discriminate. Qed.

Lemma nodupb_NoDup : forall l, nodupb l = true -> NoDup l.
Proof.
  induction l as [|x l IH]; simpl; intro H.
  - constructor.
  - apply andb_true_iff in H. destruct H as [H1 H2]. constructor; [|apply IH; exact H2].
    intro Hin. apply negb_true_iff in H1.
    assert (Hex : existsb (String.eqb x) l = true).
    { apply existsb_exists. exists x. split; [exact Hin|apply string_eqb_refl]. }
    congruence.
Qed.
