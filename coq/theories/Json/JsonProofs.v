(* JsonProofs.v -- lemmas about the JSON layer. *)

From Coq Require Import ZArith List String Ascii Bool Arith Lia DecimalString Decimal DecimalNat.
From V Require Import Json.Json.
Import ListNotations.
Open Scope string_scope.

(* ---------- strings ---------- *)

Lemma string_eqb_refl : forall s, String.eqb s s = true.
Proof. intro s. apply String.eqb_eq. reflexivity. Qed.

Lemma dec_nat_inj : forall n m, dec_nat n = dec_nat m -> n = m.
Proof.
  intros n m H. unfold dec_nat in H.
  assert (Hu : Nat.to_uint n = Nat.to_uint m).
  { assert (H1 : NilEmpty.uint_of_string (NilEmpty.string_of_uint (Nat.to_uint n))
                 = NilEmpty.uint_of_string (NilEmpty.string_of_uint (Nat.to_uint m))) by (rewrite H; reflexivity).
    rewrite !NilEmpty.usu in H1. congruence. }
  rewrite <- (Unsigned.of_to n), <- (Unsigned.of_to m). rewrite Hu. reflexivity.
Qed.

Lemma string_app_inj_l : forall p a b, (p ++ a)%string = (p ++ b)%string -> a = b.
Proof.
  induction p as [|c p IH]; intros a b H; simpl in H.
  - exact H.
  - inversion H. apply IH. assumption.
Qed.

(* ---------- json ---------- *)

Lemma json_eqb_null_r : forall v, json_eqb v JNull = is_null v.
Proof. destruct v; reflexivity. Qed.

Lemma json_eqb_empty_arr_r : forall l, json_eqb (JArr l) (JArr []) = match l with [] => true | _ => false end.
Proof. destruct l; reflexivity. Qed.

Lemma get_path_null : forall ks, get_path ks JNull = Some JNull.
Proof. induction ks as [|k ks IH]; simpl; auto. Qed.

Lemma get_or_null_null : forall ks, get_or_null ks JNull = JNull.
Proof. intro ks. unfold get_or_null. rewrite get_path_null. reflexivity. Qed.

(* ---------- objects ---------- *)

Definition lk (kv : string) (o : list (string * json)) : json :=
  match assoc_lookup kv o with Some r => r | None => JNull end.

Lemma assoc_lookup_obj_set : forall k v kv o,
  assoc_lookup kv (obj_set k v o) = if String.eqb kv k then Some v else assoc_lookup kv o.
Proof.
  intros k v kv o. induction o as [|[k' v'] o IH]; simpl.
  - destruct (String.eqb kv k); reflexivity.
  - destruct (String.eqb k k') eqn:Ekk'.
    + apply String.eqb_eq in Ekk'. subst k'. simpl.
      destruct (String.eqb kv k); reflexivity.
    + simpl. destruct (String.eqb kv k') eqn:Ekv'.
      * apply String.eqb_eq in Ekv'. subst k'.
        destruct (String.eqb kv k) eqn:E; [|reflexivity].
        apply String.eqb_eq in E. subst k. rewrite string_eqb_refl in Ekk'. discriminate.
      * exact IH.
Qed.

Lemma lk_obj_set : forall k v kv o,
  lk kv (obj_set k v o) = if String.eqb k kv then v else lk kv o.
Proof.
  intros. unfold lk. rewrite assoc_lookup_obj_set.
  rewrite (String.eqb_sym kv k). destruct (String.eqb k kv); reflexivity.
Qed.

(* appending a fresh key *)
Lemma obj_set_fresh : forall k v o,
  assoc_lookup k o = None -> obj_set k v o = (o ++ [(k, v)])%list.
Proof.
  intros k v o. induction o as [|[k' v'] o IH]; simpl; intro H.
  - reflexivity.
  - destruct (String.eqb k k'); [discriminate|]. rewrite IH by assumption. reflexivity.
Qed.

Lemma assoc_lookup_app_none : forall (A : Type) k (o1 o2 : list (string * A)),
  assoc_lookup k o1 = None -> assoc_lookup k (o1 ++ o2)%list = assoc_lookup k o2.
Proof.
  intros A k o1 o2. induction o1 as [|[k' v'] o1 IH]; simpl; intro H.
  - reflexivity.
  - destruct (String.eqb k k'); [discriminate|]. auto.
Qed.

Lemma assoc_lookup_none_notin : forall (A : Type) k (o : list (string * A)),
  ~ In k (map fst o) -> assoc_lookup k o = None.
Proof.
  intros A k o. induction o as [|[k' v'] o IH]; simpl; intro H.
  - reflexivity.
  - destruct (String.eqb k k') eqn:E.
    + apply String.eqb_eq in E. subst. exfalso. apply H. left. reflexivity.
    + apply IH. intro Hin. apply H. right. assumption.
Qed.

Lemma assoc_lookup_in_nodup : forall (A : Type) k (v : A) (o : list (string * A)),
  NoDup (map fst o) -> In (k, v) o -> assoc_lookup k o = Some v.
Proof.
  intros A k v o. induction o as [|[k' v'] o IH]; simpl; intros Hnd Hin.
  - contradiction.
  - inversion Hnd as [|? ? Hnotin Hnd']; subst.
    destruct Hin as [Heq|Hin].
    + inversion Heq; subst. rewrite string_eqb_refl. reflexivity.
    + destruct (String.eqb k k') eqn:E.
      * apply String.eqb_eq in E. subst k'. exfalso. apply Hnotin.
        apply (in_map fst) in Hin. exact Hin.
      * apply IH; assumption.
Qed.

(* ---------- add over singleton objects ---------- *)

Definition null_or_obj (a : json) : Prop := a = JNull \/ exists o, a = JObj o.
Definition to_obj (a : json) : list (string * json) := match a with JObj o => o | _ => [] end.

Definition singleton (p : string * json) : json := JObj [p].

Lemma add_from_singletons : forall kv ps a,
  null_or_obj a ->
  exists a', add_from a (map singleton ps) = Some a'
             /\ index a' kv = Some (fold_left (fun acc p => if String.eqb (fst p) kv then snd p else acc)
                                              ps (lk kv (to_obj a))).
Proof.
  intros kv ps. induction ps as [|[s v] ps IH]; intros a Ha.
  - exists a. split; [reflexivity|]. simpl.
    destruct Ha as [->|[o ->]]; simpl; unfold lk; simpl.
    + reflexivity.
    + destruct (assoc_lookup kv o); reflexivity.
  - simpl.
    assert (Hadd : json_add a (singleton (s, v)) = Some (JObj (obj_set s v (to_obj a)))).
    { destruct Ha as [->|[o ->]]; reflexivity. }
    rewrite Hadd.
    destruct (IH (JObj (obj_set s v (to_obj a)))) as [a' [H1 H2]].
    { right. eexists. reflexivity. }
    exists a'. split; [exact H1|]. rewrite H2. simpl to_obj. rewrite lk_obj_set. reflexivity.
Qed.

(* ---------- join ---------- *)

Lemma join_pieces_strs : forall ss, join_pieces (map JStr ss) = Some ss.
Proof.
  induction ss as [|s ss IH]; simpl.
  - reflexivity.
  - rewrite IH. reflexivity.
Qed.

Lemma json_join_strs : forall sep ss, json_join sep (map JStr ss) = Some (String.concat sep ss).
Proof. intros. unfold json_join. rewrite join_pieces_strs. reflexivity. Qed.

(* ---------- lists ---------- *)

Lemma flat_map_flat_map : forall (A B C : Type) (f : B -> list C) (g : A -> list B) (l : list A),
  flat_map f (flat_map g l) = flat_map (fun x => flat_map f (g x)) l.
Proof.
  intros A B C f g l. induction l as [|x l IH]; simpl.
  - reflexivity.
  - rewrite flat_map_app. rewrite IH. reflexivity.
Qed.

Lemma flat_map_singleton : forall (A B : Type) (f : A -> B) (l : list A),
  flat_map (fun x => [f x]) l = map f l.
Proof. intros. induction l as [|x l IH]; simpl; [reflexivity|]. rewrite IH. reflexivity. Qed.

Lemma NoDup_app_l : forall (A : Type) (l l' : list A), NoDup (l ++ l') -> NoDup l.
Proof.
  intros A l l'. induction l as [|x l IH]; simpl; intro H.
  - constructor.
  - inversion H as [|? ? Hx Hnd]; subst. constructor.
    + intro Hin. apply Hx. apply in_or_app. left. exact Hin.
    + apply IH. exact Hnd.
Qed.

Lemma NoDup_app_r : forall (A : Type) (l l' : list A), NoDup (l ++ l') -> NoDup l'.
Proof.
  intros A l l'. induction l as [|x l IH]; simpl; intro H.
  - exact H.
  - inversion H; subst. apply IH. assumption.
Qed.
