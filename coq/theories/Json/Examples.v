(* Examples.v -- sanity and non-vacuity examples for the C13 development (all by computation).

   Part 1: print_jq (compile m) is, byte for byte, the text expected by the upstream tests
           (tests/tel2puml/otel_to_pv/data_sources/json_data_source/conftest.py and
           test_json_jq_converter.py; the strings below are those of the fixtures
           expected_full_query, field_spec_with_variables_{1,2,4}_expected_jq and of
           test_build_base_variable_jq_query).
   Part 2: the JSON example and Examples 1, 3 and 4 of docs/user/json_data_converter_HOWTO.md:
           flatten_spec yields exactly the records printed in the documentation, the inputs are
           well-formed and regular (so the theorems of SpecProofs.v apply non-vacuously), and
           Example 4 yields two valid OTelEvents. *)

From Coq Require Import ZArith List String Ascii Bool.
From V Require Import Json.Json Json.Jq Json.JqPrint Json.Mapping Json.FlattenSpec Json.FlattenCode
  Json.OtelRecord Json.Check.
Import ListNotations.
Open Scope string_scope.

(* ---------- part 1: program text ---------- *)

(* the text of a list of binders as the Python helper functions return it: " | E as $v | E' as $v'" *)
Definition print_binders (bs : list binder) : string :=
  String.concat "" (map (fun b => " | " ++ print_jq (fst b) ++ " as $" ++ snd b) bs).

(* get_jq_for_field_spec applied to the (single) field of m after update_field_specs_with_variables *)
Definition field_fragment (m : mapping) (out_var : string) : string :=
  match snd (update_field_specs_with_variables m) with
  | (_, ufs) :: _ => print_binders (get_jq_for_field_spec ufs out_var)
  | [] => ""
  end.

Definition test_field_mapping : mapping :=
  [("field_1", mkFieldSpec [[mkAlt [["first"]; ["second_1"; "second_2"]; ["third_1"; "third_2"]] (Some "value") (Some ["value_path"; "next"])]; [mkAlt [["first"]; ["second_1"; "second_2"]; ["third_1"; "third_2"]] None None]] VString); ("field_2", mkFieldSpec [[mkAlt [["first"; "second"; "third"]] None None]; [mkAlt [["first"; "second"; "third"]] None None]] VString); ("field_3", mkFieldSpec [[mkAlt [["fourth"]; ["fifth"]] None None]; [mkAlt [["fourth"]; ["fifth"]] None None]] VString)].
Definition expected_full_query : string :=
  ". as $var0 | (try $var0.first.[] catch null) as $var1 | (try $var1.second_1.second_2.[] catch null) as $var2 | (try $var0.fourth.[] catch null) as $var3 | (try ([$var1.second_1.second_2.[] | select(try .third_1.third_2) | {(.third_1.third_2): .value_path.next}] | add | .""value"") catch null) as $out0concat00 | (try $var2.third_1.third_2 catch null) as $out0concat10 | (([($out0concat00 | (if . == null then null else (. | tostring) end)),($out0concat10 | (if . == null then null else (. | tostring) end))] | if any(. == null) then null else join(""_"") end)) as $out0 | (try $var0.first.second.third catch null) as $out1concat00 | (try $var0.first.second.third catch null) as $out1concat10 | (([($out1concat00 | (if . == null then null else (. | tostring) end)),($out1concat10 | (if . == null then null else (. | tostring) end))] | if any(. == null) then null else join(""_"") end)) as $out1 | (try $var3.fifth catch null) as $out2concat00 | (try $var3.fifth catch null) as $out2concat10 | (([($out2concat00 | (if . == null then null else (. | tostring) end)),($out2concat10 | (if . == null then null else (. | tostring) end))] | if any(. == null) then null else join(""_"") end)) as $out2 | { ""field_1"": $out0, ""field_2"": $out1, ""field_3"": $out2}".
Definition test_field_spec_1 : mapping :=
  [("f", mkFieldSpec [[mkAlt [["first"]; ["second_1"; "second_2"]; ["third_1"; "third_2"]] (Some "value") (Some ["value_path"; "next"])]; [mkAlt [["first"]; ["second_1"; "second_2"]; ["third_1"; "third_2"]] None None]] VString)].
Definition expected_field_spec_1 : string :=
  " | (try ([$var1.second_1.second_2.[] | select(try .third_1.third_2) | {(.third_1.third_2): .value_path.next}] | add | .""value"") catch null) as $out0concat00 | (try $var2.third_1.third_2 catch null) as $out0concat10 | (([($out0concat00 | (if . == null then null else (. | tostring) end)),($out0concat10 | (if . == null then null else (. | tostring) end))] | if any(. == null) then null else join(""_"") end)) as $out0".
Definition test_field_spec_2 : mapping :=
  [("f", mkFieldSpec [[mkAlt [["first"; "second"; "third"]] None None]; [mkAlt [["first"; "second"; "third"]] None None]] VString)].
Definition expected_field_spec_2 : string :=
  " | (try $var0.first.second.third catch null) as $out1concat00 | (try $var0.first.second.third catch null) as $out1concat10 | (([($out1concat00 | (if . == null then null else (. | tostring) end)),($out1concat10 | (if . == null then null else (. | tostring) end))] | if any(. == null) then null else join(""_"") end)) as $out1".
Definition test_field_spec_3 : mapping :=
  [("f", mkFieldSpec [[mkAlt [["fourth"]; ["fifth"]] None None]; [mkAlt [["fourth"]; ["fifth"]] None None]] VString)].
Definition expected_field_spec_3 : string :=
  " | (try $var3.fifth catch null) as $out2concat00 | (try $var3.fifth catch null) as $out2concat10 | (([($out2concat00 | (if . == null then null else (. | tostring) end)),($out2concat10 | (if . == null then null else (. | tostring) end))] | if any(. == null) then null else join(""_"") end)) as $out2".
Definition test_field_spec_4 : mapping :=
  [("f", mkFieldSpec [[mkAlt [["first"]; ["second_1"; "second_2"]; ["third_1"; "third_2"]] (Some "value") (Some ["value_path"; "next"]); mkAlt [["first"]; ["second_1"; "second_2"]; ["third_1"; "third_2"]] None None]] VString)].
Definition expected_field_spec_4 : string :=
  " | (try ([$var1.second_1.second_2.[] | select(try .third_1.third_2) | {(.third_1.third_2): .value_path.next}] | add | .""value"") catch null) as $out3concat00 | (try $var2.third_1.third_2 catch null) as $out3concat01 | (([($out3concat00 // $out3concat01 | (if . == null then null else (. | tostring) end))] | if any(. == null) then null else join(""_"") end)) as $out3".

Example print_expected_full_query : compile_text test_field_mapping = expected_full_query.
Proof. vm_compute. reflexivity. Qed.

Example print_field_spec_1 : field_fragment test_field_spec_1 "out0" = expected_field_spec_1.
Proof. vm_compute. reflexivity. Qed.

Example print_field_spec_2 : field_fragment test_field_spec_2 "out1" = expected_field_spec_2.
Proof. vm_compute. reflexivity. Qed.

Example print_field_spec_4 : field_fragment test_field_spec_4 "out3" = expected_field_spec_4.
Proof. vm_compute. reflexivity. Qed.

(* test_build_base_variable_jq_query, last case: numbering is by creation, layout is depth first *)
Definition test_var_tree : vtree :=
  VNode 0 [ (["first"], VNode 1 [ (["grand_child"], VNode 2 [ (["great_grand_child"], VNode 3 []) ]);
                                  (["grand_child_2"], VNode 5 []) ]);
            (["second"], VNode 4 []) ].

Example print_base_variable_query :
  (match build_base_variable_jq_query test_var_tree None with
   | (e, v) :: r => print_jq e ++ " as $" ++ v ++ print_binders r
   | [] => ""
   end)
  = ". as $var0 | (try $var0.first.[] catch null) as $var1 | (try $var1.grand_child.[] catch null) as $var2 | (try $var2.great_grand_child.[] catch null) as $var3 | (try $var1.grand_child_2.[] catch null) as $var5 | (try $var0.second.[] catch null) as $var4".
Proof. vm_compute. reflexivity. Qed.

Example test_field_mapping_wf : wf_mapping test_field_mapping = true.
Proof. vm_compute. reflexivity. Qed.

(* ---------- part 2: the documentation's own examples ---------- *)

Definition howto_doc : json :=
  (JObj [("resource_spans", (JArr [(JObj [("resource", (JObj [("attributes", (JArr [(JObj [("key", (JStr "service.name")); ("value", (JObj [("Value", (JObj [("StringValue", (JStr "Test App"))]))]))]); (JObj [("key", (JStr "service.version")); ("value", (JObj [("Value", (JObj [("StringValue", (JStr "1.0"))]))]))])]))])); ("scope_spans", (JArr [(JObj [("scope", (JObj [("name", (JStr "Group 1"))])); ("spans", (JArr [(JObj [("trace_id", (JStr "trace001")); ("span_id", (JStr "span001")); ("parent_span_id", JNull); ("name", (JStr "/delete")); ("start_time_unix_nano", (JNum (1723544132228102912)%Z)); ("end_time_unix_nano", (JNum (1723544132228219285)%Z)); ("attributes", (JArr [(JObj [("key", (JStr "http.method")); ("value", (JObj [("Value", (JObj [("StringValue", (JStr "GET"))]))]))]); (JObj [("key", (JStr "http.response")); ("value", (JObj [("Value", (JObj [("IntValue", (JStr "200"))]))]))])]))]); (JObj [("trace_id", (JStr "trace002")); ("span_id", (JStr "span002")); ("name", (JStr "/put")); ("start_time_unix_nano", (JNum (1723544132228102912)%Z)); ("end_time_unix_nano", (JNum (1723544132228219285)%Z)); ("attributes", (JArr [(JObj [("key", (JStr "http.method")); ("value", (JObj [("Value", (JObj [("StringValue", (JStr "PUT"))]))]))]); (JObj [("key", (JStr "http.response")); ("value", (JObj [("Value", (JObj [("IntValue", (JStr "200"))]))]))])]))])]))])]))])]))]).
Definition howto_mapping_1 : mapping :=
  [("job_id", mkFieldSpec [[mkAlt [["resource_spans"]; ["scope_spans"]; ["spans"]; ["trace_id"]] None None]] VString); ("event_id", mkFieldSpec [[mkAlt [["resource_spans"]; ["scope_spans"]; ["spans"]; ["span_id"]] None None]] VString)].
Definition howto_output_1 : list record :=
  [[("job_id", (JStr "trace001")); ("event_id", (JStr "span001"))]; [("job_id", (JStr "trace002")); ("event_id", (JStr "span002"))]].
Definition howto_mapping_3 : mapping :=
  [("job_name", mkFieldSpec [[mkAlt [["resource_spans"]; ["resource"; "attributes"]; ["key"]] (Some "service.name") (Some ["value"; "Value"; "StringValue"])]] VString); ("job_id", mkFieldSpec [[mkAlt [["resource_spans"]; ["scope_spans"]; ["spans"]; ["trace_id"]] None None]] VString); ("event_id", mkFieldSpec [[mkAlt [["resource_spans"]; ["scope_spans"]; ["spans"]; ["span_id"]] None None]] VString)].
Definition howto_output_3 : list record :=
  [[("job_name", (JStr "Test App")); ("job_id", (JStr "trace001")); ("event_id", (JStr "span001"))]; [("job_name", (JStr "Test App")); ("job_id", (JStr "trace002")); ("event_id", (JStr "span002"))]].
Definition howto_mapping_4 : mapping :=
  [("job_name", mkFieldSpec [[mkAlt [["resource_spans"]; ["resource"; "attributes"]; ["key"]] (Some "service.name") (Some ["value"; "Value"; "StringValue"])]] VString); ("job_id", mkFieldSpec [[mkAlt [["resource_spans"]; ["scope_spans"]; ["spans"]; ["trace_id"]] None None]] VString); ("event_type", mkFieldSpec [[mkAlt [["resource_spans"]; ["scope_spans"]; ["spans"]; ["name"]] None None]; [mkAlt [["resource_spans"]; ["scope_spans"]; ["spans"]; ["not_here"]] None None; mkAlt [["resource_spans"]; ["scope_spans"]; ["spans"]; ["attributes"]; ["key"]] (Some "http.response") (Some ["value"; "Value"; "IntValue"])]] VString); ("event_id", mkFieldSpec [[mkAlt [["resource_spans"]; ["scope_spans"]; ["spans"]; ["span_id"]] None None]] VString); ("start_timestamp", mkFieldSpec [[mkAlt [["resource_spans"]; ["scope_spans"]; ["spans"]; ["start_time_unix_nano"]] None None]] VString); ("end_timestamp", mkFieldSpec [[mkAlt [["resource_spans"]; ["scope_spans"]; ["spans"]; ["end_time_unix_nano"]] None None]] VString); ("application_name", mkFieldSpec [[mkAlt [["resource_spans"]; ["scope_spans"]; ["scope"; "name"]] None None]] VString); ("parent_event_id", mkFieldSpec [[mkAlt [["resource_spans"]; ["scope_spans"]; ["spans"]; ["parent_span_id"]] None None]] VString)].
Definition howto_output_4 : list record :=
  [[("job_name", (JStr "Test App")); ("job_id", (JStr "trace001")); ("event_type", (JStr "/delete_200")); ("event_id", (JStr "span001")); ("start_timestamp", (JStr "1723544132228102912")); ("end_timestamp", (JStr "1723544132228219285")); ("application_name", (JStr "Group 1")); ("parent_event_id", JNull)]; [("job_name", (JStr "Test App")); ("job_id", (JStr "trace002")); ("event_type", (JStr "/put_200")); ("event_id", (JStr "span002")); ("start_timestamp", (JStr "1723544132228102912")); ("end_timestamp", (JStr "1723544132228219285")); ("application_name", (JStr "Group 1")); ("parent_event_id", JNull)]].

Example howto_1_wf : wf_mapping howto_mapping_1 = true /\ regular howto_mapping_1 howto_doc = true
                     /\ simple_mapping howto_mapping_1 = true.
Proof. vm_compute. auto. Qed.

Example howto_1_spec : flatten_spec howto_mapping_1 howto_doc = howto_output_1.
Proof. vm_compute. reflexivity. Qed.

Example howto_3_wf : wf_mapping howto_mapping_3 = true /\ regular howto_mapping_3 howto_doc = true.
Proof. vm_compute. auto. Qed.

Example howto_3_spec : flatten_spec howto_mapping_3 howto_doc = howto_output_3.
Proof. vm_compute. reflexivity. Qed.

Example howto_4_wf : wf_mapping howto_mapping_4 = true /\ regular howto_mapping_4 howto_doc = true.
Proof. vm_compute. auto. Qed.

Example howto_4_syntactic : wf_mapping_syntactic howto_mapping_4 = true.
Proof. vm_compute. reflexivity. Qed.

Example howto_4_spec : flatten_spec howto_mapping_4 howto_doc = howto_output_4.
Proof. vm_compute. reflexivity. Qed.

Example howto_4_program : raw howto_mapping_4 howto_doc = howto_output_4.
Proof. vm_compute. reflexivity. Qed.

Example howto_4_events : extract howto_mapping_4 howto_doc = howto_output_4.
Proof. vm_compute. reflexivity. Qed.

Example howto_4_both :
  flatten_spec howto_mapping_4 howto_doc = howto_output_4
  /\ extract howto_mapping_4 howto_doc = howto_output_4.
Proof. exact (conj howto_4_spec howto_4_events). Qed.

(* one JSON per line: the same document twice, with a line in between none of whose records is valid *)
Example howto_4_lines :
  extract_lines howto_mapping_4 [howto_doc; JObj [("resource_spans", JArr [JNum 1%Z])]; howto_doc]
  = (howto_output_4 ++ howto_output_4)%list.
Proof. vm_compute. reflexivity. Qed.

Example parse_key_path_example :
  parse_key_path "resource_spans.[].scope_spans.[].scope.name"
  = [["resource_spans"]; ["scope_spans"]; ["scope"; "name"]].
Proof. vm_compute. reflexivity. Qed.
