(* Json.v -- JSON values for the C13 model (integers only; floats are outside the model).

   HOW TO WRITE A PYTHON JSON VALUE AS A COQ TERM (for the harness)
   ----------------------------------------------------------------
     None            ->  JNull
     True / False    ->  JBool true / JBool false
     int n           ->  JNum n          (write negative numbers as (-5); scope Z, e.g. (JNum 17), (JNum (-5)))
     str s           ->  JStr "s"        (Coq string literal: double every '"' as '""'.  If s contains a byte
                                          outside 32..126, write   JStr (sb [b1;b2;...])   where b1,b2,... are the
                                          UTF-8 bytes of s as nat literals; sb is defined below)
     list [a, b]     ->  JArr [A; B]
     dict {k: v,...} ->  JObj [("k", V); ...]   (in Python iteration order = insertion order = what jq sees;
                                                 keys are distinct in Python; the model's lookup takes the first match)
     float           ->  NOT MODELLED (reject the document)

   Worked example:
     {"a": [1, None, {"b": "x\"y"}], "c": -3, "d": True}
   is
     JObj [("a", JArr [JNum 1; JNull; JObj [("b", JStr "x""y")]]); ("c", JNum (-3)); ("d", JBool true)]

   This file contains only definitions (no proofs). *)

From Coq Require Import ZArith List String Ascii Bool DecimalString Decimal.
Import ListNotations.
Open Scope string_scope.

Inductive json : Type :=
| JNull
| JBool (b : bool)
| JNum (z : Z)
| JStr (s : string)
| JArr (l : list json)
| JObj (kvs : list (string * json)).

(* harness helper: a string from its bytes *)
Fixpoint sb (l : list nat) : string :=
  match l with
  | [] => EmptyString
  | n :: r => String (ascii_of_nat n) (sb r)
  end.

(* ---------- equality ---------- *)

Fixpoint json_eqb (a b : json) {struct a} : bool :=
  match a, b with
  | JNull, JNull => true
  | JBool x, JBool y => Bool.eqb x y
  | JNum x, JNum y => Z.eqb x y
  | JStr x, JStr y => String.eqb x y
  | JArr l1, JArr l2 =>
      (fix go (l1 l2 : list json) {struct l1} : bool :=
         match l1, l2 with
         | [], [] => true
         | x :: xs, y :: ys => json_eqb x y && go xs ys
         | _, _ => false
         end) l1 l2
  | JObj k1, JObj k2 =>
      (fix go (l1 l2 : list (string * json)) {struct l1} : bool :=
         match l1, l2 with
         | [], [] => true
         | (ka, x) :: xs, (kb, y) :: ys => String.eqb ka kb && json_eqb x y && go xs ys
         | _, _ => false
         end) k1 k2
  | _, _ => false
  end.

Definition is_null (v : json) : bool :=
  match v with JNull => true | _ => false end.

(* jq truthiness: everything except false and null *)
Definition truthy (v : json) : bool :=
  match v with JNull => false | JBool false => false | _ => true end.

(* ---------- lookup ---------- *)

Fixpoint assoc_lookup {A : Type} (k : string) (kvs : list (string * A)) : option A :=
  match kvs with
  | [] => None
  | (k', v) :: r => if String.eqb k k' then Some v else assoc_lookup k r
  end.

(* jq  v.k  /  v."k" :  None = jq error "Cannot index T with string" *)
Definition index (v : json) (k : string) : option json :=
  match v with
  | JNull => Some JNull
  | JObj kvs => match assoc_lookup k kvs with Some r => Some r | None => Some JNull end
  | _ => None
  end.

(* jq  v.k1.k2...kn  (None = jq error) *)
Fixpoint get_path (ks : list string) (v : json) : option json :=
  match ks with
  | [] => Some v
  | k :: r => match index v k with Some w => get_path r w | None => None end
  end.

(* "absent values are null": a path that cannot be followed gives null *)
Definition get_or_null (ks : list string) (v : json) : json :=
  match get_path ks v with Some r => r | None => JNull end.

(* jq  v.[] : array elements / object member values; None = "Cannot iterate over T" *)
Definition elements (v : json) : option (list json) :=
  match v with
  | JArr l => Some l
  | JObj kvs => Some (map snd kvs)
  | _ => None
  end.

(* ---------- numbers and strings as text ---------- *)

Definition dec_nat (n : nat) : string := NilEmpty.string_of_uint (Nat.to_uint n).
Definition dec_Z (z : Z) : string := NilZero.string_of_int (Z.to_int z).

Definition hex_digit (n : nat) : ascii :=
  ascii_of_nat (if Nat.ltb n 10 then 48 + n else 87 + n).

(* JSON string escaping as done by jq 1.7.1 (jvp_dump_string, non-ASCII bytes are copied) *)
Definition escape_char (c : ascii) : string :=
  let n := nat_of_ascii c in
  if Nat.eqb n 34 then "\"""
  else if Nat.eqb n 92 then "\\"
  else if Nat.eqb n 8 then "\b"
  else if Nat.eqb n 9 then "\t"
  else if Nat.eqb n 10 then "\n"
  else if Nat.eqb n 12 then "\f"
  else if Nat.eqb n 13 then "\r"
  else if Nat.ltb n 32 || Nat.eqb n 127
       then "\u00" ++ String (hex_digit (Nat.div n 16)) (String (hex_digit (Nat.modulo n 16)) EmptyString)
  else String c EmptyString.

Fixpoint escape_string (s : string) : string :=
  match s with
  | EmptyString => EmptyString
  | String c r => escape_char c ++ escape_string r
  end.

Definition quote (s : string) : string := """" ++ escape_string s ++ """".

(* jq tojson: compact serialisation, object members in stored order *)
Fixpoint tojson (v : json) : string :=
  match v with
  | JNull => "null"
  | JBool true => "true"
  | JBool false => "false"
  | JNum z => dec_Z z
  | JStr s => quote s
  | JArr l =>
      "[" ++ (fix go (l : list json) (first : bool) : string :=
                match l with
                | [] => ""
                | x :: r => (if first then "" else ",") ++ tojson x ++ go r false
                end) l true ++ "]"
  | JObj kvs =>
      "{" ++ (fix go (l : list (string * json)) (first : bool) : string :=
                match l with
                | [] => ""
                | (k, x) :: r => (if first then "" else ",") ++ quote k ++ ":" ++ tojson x ++ go r false
                end) kvs true ++ "}"
  end.

(* jq tostring: strings unchanged, everything else serialised *)
Definition tostring (v : json) : string :=
  match v with JStr s => s | _ => tojson v end.

(* ---------- objects ---------- *)

(* set a member: replace in place when present, append otherwise (jq insertion order) *)
Fixpoint obj_set (k : string) (v : json) (o : list (string * json)) : list (string * json) :=
  match o with
  | [] => [(k, v)]
  | (k', v') :: r => if String.eqb k k' then (k', v) :: r else (k', v') :: obj_set k v r
  end.

Definition obj_merge (a b : list (string * json)) : list (string * json) :=
  fold_left (fun acc kv => obj_set (fst kv) (snd kv) acc) b a.

(* jq  a + b  (None = "T and U cannot be added").  Numbers are exact integers here (jq uses doubles). *)
Definition json_add (a b : json) : option json :=
  match a, b with
  | JNull, _ => Some b
  | _, JNull => Some a
  | JNum x, JNum y => Some (JNum (x + y))
  | JStr x, JStr y => Some (JStr (x ++ y))
  | JArr x, JArr y => Some (JArr (x ++ y)%list)
  | JObj x, JObj y => Some (JObj (obj_merge x y))
  | _, _ => None
  end.

(* jq add on the element list: reduce .[] as $x (null; . + $x) *)
Fixpoint add_from (acc : json) (l : list json) : option json :=
  match l with
  | [] => Some acc
  | x :: r => match json_add acc x with Some acc' => add_from acc' r | None => None end
  end.

(* ---------- arrays ---------- *)

(* jq flatten (unbounded depth) on the element list *)
Fixpoint flatten_json (v : json) : list json :=
  match v with
  | JArr l => (fix go (l : list json) : list json :=
                 match l with [] => [] | x :: r => (flatten_json x ++ go r)%list end) l
  | _ => [v]
  end.

Definition flatten_list (l : list json) : list json := flat_map flatten_json l.

(* jq join(sep) on the element list:
   reduce .[] as $i (null; (if .==null then "" else .+$x end) +
                           ($i | if type=="boolean" or type=="number" then tojson else . end)) // ""
   None = error (an array or object element). *)
Definition join_piece (v : json) : option string :=
  match v with
  | JNull => Some ""
  | JBool _ => Some (tojson v)
  | JNum _ => Some (tojson v)
  | JStr s => Some s
  | _ => None
  end.

Fixpoint join_pieces (l : list json) : option (list string) :=
  match l with
  | [] => Some []
  | x :: r => match join_piece x with
              | Some s => match join_pieces r with Some ss => Some (s :: ss) | None => None end
              | None => None
              end
  end.

Definition json_join (sep : string) (l : list json) : option string :=
  match join_pieces l with
  | Some ss => Some (String.concat sep ss)
  | None => None
  end.
