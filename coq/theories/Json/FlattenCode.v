(* FlattenCode.v -- the EXACT behaviour of the compiled jq program, stated over json with the same traversal
   as FlattenSpec.v (flatten_gen), and the boolean predicate `regular` delimiting the inputs on which it
   coincides with the documented semantics.

   The program differs from the documentation in two places only:

   * priority lists are resolved with jq's `//`, which skips `false` as well as null, and yields its LAST
     operand unchanged when no earlier one is truthy (pick_code);
   * the key/value lookup builds `[ .[] | select(try .KEY) | {(.KEY): .VALUE} ] | add | ."key_value"` under
     one `try ... catch null`: every element whose key is truthy takes part in the object construction, so
     one element with a non-string (truthy) key, or one element on which the value path cannot be
     followed, makes the WHOLE lookup null even when the wanted element is present (kv_lookup_code).

   Definitions only. *)

From Coq Require Import ZArith List String Ascii Bool.
From V Require Import Json.Json Json.Mapping Json.FlattenSpec.
Import ListNotations.
Open Scope string_scope.

(* a // b // ... // z *)
Fixpoint pick_code (l : list json) : json :=
  match l with
  | [] => JNull
  | [v] => v
  | v :: r => if truthy v then v else pick_code r
  end.

(* the (key, value) members built from the elements that pass select(try .KEY); None = a jq error *)
Fixpoint kv_pairs (kseg vseg : segment) (l : list json) : option (list (string * json)) :=
  match l with
  | [] => Some []
  | e :: r =>
      match get_path kseg e with
      | Some k =>
          if truthy k then
            match k, get_path vseg e with
            | JStr s, Some v =>
                match kv_pairs kseg vseg r with Some ps => Some ((s, v) :: ps) | None => None end
            | _, _ => None
            end
          else kv_pairs kseg vseg r
      | None => kv_pairs kseg vseg r
      end
  end.

(* the member for key kv after `add` has merged the singleton objects: the last pair wins *)
Definition last_value (kv : string) (ps : list (string * json)) : json :=
  fold_left (fun acc p => if String.eqb (fst p) kv then snd p else acc) ps JNull.

Definition kv_lookup_code (kseg : segment) (kv : string) (vseg : segment) (arr : json) : json :=
  match elements arr with
  | None => JNull
  | Some l =>
      match kv_pairs kseg vseg l with
      | Some ps => last_value kv ps
      | None => JNull
      end
  end.

Definition code_sem : sem := mkSem pick_code kv_lookup_code.

Definition flatten_code (m : mapping) (doc : json) : list record := flatten_gen code_sem m doc.

(* ---------- inputs on which code and documentation agree ---------- *)

Definition is_false (v : json) : bool :=
  match v with JBool false => true | _ => false end.

Definition is_str (v : json) : bool :=
  match v with JStr _ => true | _ => false end.

(* every element that takes part in the object construction has a string key and a followable value path *)
Definition attrs_regular (kseg vseg : segment) (arr : json) : bool :=
  match elements arr with
  | None => true
  | Some l =>
      forallb (fun e => match get_path kseg e with
                        | Some k => if truthy k
                                    then is_str k && match get_path vseg e with Some _ => true | None => false end
                                    else true
                        | None => true
                        end) l
  end.

Definition alt_regular (s : senv) (a : alt) : bool :=
  match a_key_value a with
  | None => true
  | Some _ => attrs_regular (alt_field a) (alt_value_path a)
                (get_or_null (alt_attr a) (selected s (alt_levels a)))
  end.

(* no alternative of a genuine priority list evaluates to `false` *)
Definition comp_regular (s : senv) (c : list alt) : bool :=
  forallb (alt_regular s) c
  && (Nat.leb (List.length c) 1
      || forallb (fun a => negb (is_false (alt_value code_sem s a))) c).

Definition regular (m : mapping) (doc : json) : bool :=
  forallb (fun s => forallb (fun nf => forallb (comp_regular s) (fs_comps (snd nf))) m)
          (selections m doc).

(* mappings for which every document is regular: no key_value lookups, no priority lists *)
Definition simple_mapping (m : mapping) : bool :=
  forallb (fun nf => forallb (fun c => Nat.leb (List.length c) 1
                                       && forallb (fun a => match a_key_value a with None => true | Some _ => false end) c)
                             (fs_comps (snd nf))) m.
