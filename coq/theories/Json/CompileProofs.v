(* CompileProofs.v -- the compiled jq program computes exactly flatten_code, for every document. *)

From Coq Require Import ZArith List String Ascii Bool Arith Lia.
From V Require Import Json.Json Json.Jq Json.Mapping Json.FlattenSpec Json.FlattenCode
  Json.JsonProofs Json.JqProofs Json.MappingProofs.
Import ListNotations.
Open Scope string_scope.

(* ---------- paths ---------- *)

Lemma eval_path_expr_err : forall ks rho base x,
  eval rho base x = err -> eval rho (path_expr base ks) x = err.
Proof.
  induction ks as [|k ks IH]; intros rho base x H; simpl.
  - exact H.
  - apply IH. rewrite eval_field. rewrite H. reflexivity.
Qed.

Lemma eval_path_expr : forall ks rho base x y,
  eval rho base x = ok [y] -> eval rho (path_expr base ks) x = of_opt (get_path ks y).
Proof.
  induction ks as [|k ks IH]; intros rho base x y H; simpl.
  - exact H.
  - unfold path_expr in *. simpl.
    destruct (index y k) as [w|] eqn:E.
    + apply IH. rewrite eval_field. rewrite H. rewrite bind_ok_single. rewrite E. reflexivity.
    + apply eval_path_expr_err. rewrite eval_field. rewrite H. rewrite bind_ok_single. rewrite E. reflexivity.
Qed.

Definition val_or_null (o : option json) : json := match o with Some v => v | None => JNull end.

(* a path from a variable; an unbound variable behaves like null under `try ... catch null` *)
Lemma eval_var_path : forall ks rho v x,
  eval rho (path_expr (QVar v) ks) x =
  match assoc_lookup v rho with
  | Some y => of_opt (get_path ks y)
  | None => err
  end.
Proof.
  intros ks rho v x. destruct (assoc_lookup v rho) as [y|] eqn:E.
  - apply eval_path_expr. simpl. rewrite E. reflexivity.
  - apply eval_path_expr_err. simpl. rewrite E. reflexivity.
Qed.

Lemma eval_id_path : forall ks rho x, eval rho (path_expr QId ks) x = of_opt (get_path ks x).
Proof. intros. apply eval_path_expr. reflexivity. Qed.

(* ---------- one array level ---------- *)

Lemma level_elems_null : forall seg, level_elems seg JNull = [JNull].
Proof. intro seg. unfold level_elems. rewrite get_path_null. reflexivity. Qed.

Lemma eval_level_expr : forall rho pn seg x,
  eval rho (level_expr pn seg) x = ok (level_elems seg (val_or_null (assoc_lookup (var_name pn) rho))).
Proof.
  intros rho pn seg x. unfold level_expr. rewrite eval_paren.
  cbn [eval]. rewrite eval_var_path.
  destruct (assoc_lookup (var_name pn) rho) as [y|]; simpl val_or_null.
  - unfold level_elems. rewrite bind_of_opt. destruct (get_path seg y) as [w|].
    + destruct (elements w); reflexivity.
    + reflexivity.
  - rewrite level_elems_null. reflexivity.
Qed.

(* ---------- iter_tree, with the loop over the children named ---------- *)

Fixpoint iter_children (cs : list (segment * ptree)) (pre : list segment) (s : senv) : list senv :=
  match cs with
  | [] => [s]
  | (seg, c) :: cs' =>
      flat_map (iter_children cs' pre)
        (flat_map (fun e => iter_tree c (pre ++ [seg])%list (((pre ++ [seg])%list, e) :: s))
                  (level_elems seg (selected s pre)))
  end.

Lemma iter_tree_eq : forall cs pre s, iter_tree (PNode cs) pre s = iter_children cs pre s.
Proof.
  intros cs pre. simpl. induction cs as [|[seg c] cs IH]; intro s.
  - reflexivity.
  - simpl. apply flat_map_ext. intro a. apply IH.
Qed.

(* the binders of the children of a node, named *)
Fixpoint child_binders (n : nat) (cs : list (segment * vtree)) : list binder :=
  match cs with
  | [] => []
  | (s, c) :: r => (build_base_variable_jq_query c (Some (n, s)) ++ child_binders n r)%list
  end.

Lemma build_base_eq : forall n cs parent,
  build_base_variable_jq_query (VNode n cs) parent =
  (match parent with
   | None => (QId, var_name n)
   | Some (pn, path) => (level_expr pn path, var_name n)
   end) :: child_binders n cs.
Proof.
  intros n cs parent. simpl. f_equal. induction cs as [|[s c] cs IH]; simpl.
  - reflexivity.
  - rewrite IH. reflexivity.
Qed.

(* ---------- the two environments ---------- *)

Section WithRoot.

Variable root : vtree.
Variable doc : json.
Hypothesis root_inj : forall p q k, num_at root p = Some k -> num_at root q = Some k -> p = q.
Hypothesis root_wf : wf_vtree root.

(* the jq environment and the selection of the specification agree on every node of the tree *)
Definition agree (rho : env) (s : senv) : Prop :=
  forall p k, num_at root p = Some k -> assoc_lookup (var_name k) rho = senv_lookup p s.

Lemma prefix_eqb_true : forall p q, prefix_eqb p q = true -> p = q.
Proof.
  intros p q. unfold prefix_eqb. destruct (list_eq_dec (list_eq_dec string_dec) p q); [auto|discriminate].
Qed.

Lemma prefix_eqb_refl : forall p, prefix_eqb p p = true.
Proof.
  intro p. unfold prefix_eqb. destruct (list_eq_dec (list_eq_dec string_dec) p p); [reflexivity|contradiction].
Qed.

Lemma agree_push : forall rho s p k e,
  agree rho s -> num_at root p = Some k -> agree ((var_name k, e) :: rho) ((p, e) :: s).
Proof.
  intros rho s p k e Ha Hp q k' Hq. cbn [assoc_lookup senv_lookup].
  destruct (String.eqb (var_name k') (var_name k)) eqn:E.
  - apply String.eqb_eq in E. apply var_name_inj in E. subst k'.
    assert (q = p) by (eapply root_inj; eassumption). subst q.
    rewrite prefix_eqb_refl. reflexivity.
  - destruct (prefix_eqb q p) eqn:E2.
    + apply prefix_eqb_true in E2. subst q. rewrite Hp in Hq. inversion Hq; subst.
      rewrite string_eqb_refl in E. discriminate.
    + apply Ha. exact Hq.
Qed.

Lemma agree_push_other : forall rho s n v,
  (forall k, n <> var_name k) -> agree rho s -> agree ((n, v) :: rho) s.
Proof.
  intros rho s n v Hn Ha p k Hp. cbn [assoc_lookup].
  destruct (String.eqb (var_name k) n) eqn:E.
  - apply String.eqb_eq in E. exfalso. apply (Hn k). symmetry. exact E.
  - apply Ha. exact Hp.
Qed.

Lemma agree_selected : forall rho s p k,
  agree rho s -> num_at root p = Some k ->
  val_or_null (assoc_lookup (var_name k) rho) = selected s p.
Proof. intros rho s p k Ha Hp. rewrite (Ha p k Hp). reflexivity. Qed.

(* ---------- the variable-binding phase ---------- *)

Fixpoint vtree_ind_F (P : vtree -> Prop)
  (H : forall n cs, Forall (fun sc => P (snd sc)) cs -> P (VNode n cs)) (t : vtree) : P t :=
  match t with
  | VNode n cs =>
      H n cs ((fix go (cs : list (segment * vtree)) : Forall (fun sc => P (snd sc)) cs :=
                 match cs with
                 | [] => Forall_nil _
                 | (s, c) :: r => Forall_cons (s, c) (vtree_ind_F P H c) (go r)
                 end) cs)
  end.

Lemma vtree_ind' : forall (P : vtree -> Prop),
  (forall n cs, (forall s c, In (s, c) cs -> P c) -> P (VNode n cs)) ->
  forall t, P t.
Proof.
  intros P H. apply vtree_ind_F. intros n cs HF. apply H. intros s c Hin.
  rewrite Forall_forall in HF. apply (HF (s, c) Hin).
Qed.

Lemma tree_phase : forall t pre,
  node_at root pre = Some t ->
  forall (k : env -> res) (K : senv -> list json),
    (forall rho s, agree rho s -> k rho = ok (K s)) ->
    forall rho s, agree rho s ->
      chain doc (child_binders (vt_num t) (vt_children t)) k rho
      = ok (flat_map K (iter_tree (erase t) pre s)).
Proof.
  intro t. induction t as [n cs IHt] using vtree_ind'. intros pre Hat.
  assert (Hwf : wf_vtree (VNode n cs)) by (eapply node_at_wf; eassumption).
  inversion Hwf as [n' cs' Hnd Hch]; subst.
  rewrite erase_eq. simpl vt_num. simpl vt_children.
  assert (Hnum : num_at root pre = Some n) by (unfold num_at; rewrite Hat; reflexivity).
  (* generalise over a suffix of the children *)
  assert (Hgen : forall cs0, (forall s c, In (s, c) cs0 -> In (s, c) cs) ->
            forall (k : env -> res) (K : senv -> list json),
              (forall rho s, agree rho s -> k rho = ok (K s)) ->
              forall rho s, agree rho s ->
                chain doc (child_binders n cs0) k rho
                = ok (flat_map K (iter_children (erase_children cs0) pre s))).
  { induction cs0 as [|[seg c] cs0 IHcs]; intros Hsub k K Hk rho s Ha.
    - simpl. rewrite (Hk rho s Ha). rewrite app_nil_r. reflexivity.
    - simpl child_binders. destruct c as [nc ccs] eqn:Ec. rewrite build_base_eq. rewrite <- Ec.
      assert (Hin : In (seg, c) cs) by (apply Hsub; left; subst c; reflexivity).
      assert (Hfc : find_child seg cs = Some c) by (apply find_child_nodup; assumption).
      assert (Hatc : node_at root (pre ++ [seg]) = Some c).
      { rewrite (node_at_app pre root (VNode n cs) [seg] Hat). simpl. rewrite Hfc. reflexivity. }
      assert (Hnumc : num_at root (pre ++ [seg]) = Some nc).
      { unfold num_at. rewrite Hatc. subst c. reflexivity. }
      rewrite <- app_comm_cons. cbn [chain]. rewrite eval_level_expr.
      rewrite (agree_selected rho s pre n Ha Hnum).
      set (k' := chain doc (child_binders n cs0) k).
      set (K' := fun s1 => flat_map K (iter_children (erase_children cs0) pre s1)).
      assert (Hk' : forall rho1 s1, agree rho1 s1 -> k' rho1 = ok (K' s1)).
      { intros rho1 s1 Ha1. unfold k', K'. apply IHcs; try assumption.
        intros s0 c0 H0. apply Hsub. right. exact H0. }
      rewrite (bind_ok_all _ _
                 (fun e => flat_map K' (iter_tree (erase c) (pre ++ [seg]) (((pre ++ [seg])%list, e) :: s)))).
      + f_equal. simpl erase_children. simpl iter_children. subst c. simpl fst. simpl snd.
        rewrite flat_map_flat_map. unfold K'.
        rewrite flat_map_flat_map. reflexivity.
      + intros e _. rewrite chain_app.
        assert (Hc : chain doc (child_binders (vt_num c) (vt_children c)) k' ((var_name nc, e) :: rho)
                     = ok (flat_map K' (iter_tree (erase c) (pre ++ [seg]) (((pre ++ [seg])%list, e) :: s)))).
        { apply (IHt seg c Hin (pre ++ [seg])%list Hatc k' K' Hk').
          apply agree_push; assumption. }
        subst c. simpl vt_num in Hc. simpl vt_children in Hc. exact Hc. }
  intros k K Hk rho s Ha. rewrite iter_tree_eq. apply Hgen; auto.
Qed.

End WithRoot.

(* ---------- the shape of well-formed key paths ---------- *)

Lemma skipn_length_app : forall (A : Type) (l1 l2 : list A), skipn (List.length l1) (l1 ++ l2) = l2.
Proof. intros A l1 l2. induction l1 as [|x l1 IH]; simpl; auto. Qed.

Lemma two_last : forall (A : Type) (l : list A) (d : A),
  2 <= List.length l -> l = (removelast (removelast l) ++ [last (removelast l) d; last l d])%list.
Proof.
  intros A l d Hlen.
  assert (Hne : l <> []) by (intro H; rewrite H in Hlen; simpl in Hlen; lia).
  assert (Hl : List.length l = List.length (removelast l) + 1).
  { rewrite (app_removelast_last d Hne) at 1. rewrite app_length. reflexivity. }
  assert (Hne2 : removelast l <> []).
  { intro H. rewrite H in Hl. simpl in Hl. lia. }
  etransitivity; [apply (app_removelast_last d Hne)|].
  pose proof (app_removelast_last d Hne2) as E2.
  remember (removelast l) as r eqn:Er. clear Er. rewrite E2 at 1. rewrite <- app_assoc. reflexivity.
Qed.

Lemma skipn_removelast : forall (A : Type) (l : list A) (d : A),
  l <> [] -> skipn (List.length (removelast l)) l = [last l d].
Proof.
  intros A l d Hne.
  transitivity (skipn (List.length (removelast l)) (removelast l ++ [last l d])).
  - rewrite <- (app_removelast_last d Hne). reflexivity.
  - apply skipn_length_app.
Qed.

Lemma skipn_removelast2 : forall (A : Type) (l : list A) (d : A),
  2 <= List.length l ->
  skipn (List.length (removelast (removelast l))) l = [last (removelast l) d; last l d].
Proof.
  intros A l d Hlen.
  transitivity (skipn (List.length (removelast (removelast l)))
                      (removelast (removelast l) ++ [last (removelast l) d; last l d])).
  - rewrite <- (two_last _ l d Hlen). reflexivity.
  - apply skipn_length_app.
Qed.

Lemma alt_rest_direct : forall a,
  a_key_value a = None -> a_key_path a <> [] -> alt_rest a = [alt_field a].
Proof.
  intros a Hkv Hne. unfold alt_rest, alt_levels, alt_field. rewrite Hkv.
  apply skipn_removelast. exact Hne.
Qed.

Lemma alt_rest_kv : forall a kv,
  a_key_value a = Some kv -> 2 <= List.length (a_key_path a) -> alt_rest a = [alt_attr a; alt_field a].
Proof.
  intros a kv Hkv Hlen. unfold alt_rest, alt_levels, alt_field, alt_attr. rewrite Hkv.
  apply skipn_removelast2. exact Hlen.
Qed.

Lemma wf_alt_direct : forall a,
  wf_alt a = true -> a_key_value a = None -> a_key_path a <> [].
Proof.
  intros a H Hkv. unfold wf_alt in H. rewrite Hkv in H.
  apply andb_true_iff in H. destruct H as [_ H]. apply andb_true_iff in H. destruct H as [H _].
  apply Nat.leb_le in H. intro E. rewrite E in H. simpl in H. lia.
Qed.

Lemma wf_alt_kv : forall a kv,
  wf_alt a = true -> a_key_value a = Some kv -> 2 <= List.length (a_key_path a).
Proof.
  intros a kv H Hkv. unfold wf_alt in H. rewrite Hkv in H.
  apply andb_true_iff in H. destruct H as [_ H].
  repeat (apply andb_true_iff in H; destruct H as [H _]).
  apply Nat.leb_le in H. exact H.
Qed.

(* ---------- the key/value lookup ---------- *)

Definition kv_elem_expr (kseg vseg : segment) : jq :=
  QPipe (QSelect (QTry (path_expr QId kseg))) (QObjDyn (path_expr QId kseg) (path_expr QId vseg)).

Definition kv_elem (kseg vseg : segment) (e : json) : res :=
  match get_path kseg e with
  | Some k =>
      if truthy k then
        match k, get_path vseg e with
        | JStr s, Some v => ok [singleton (s, v)]
        | _, _ => err
        end
      else ok []
  | None => ok []
  end.

Lemma eval_kv_elem : forall rho kseg vseg e,
  eval rho (kv_elem_expr kseg vseg) e = kv_elem kseg vseg e.
Proof.
  intros rho kseg vseg e. unfold kv_elem_expr, kv_elem. rewrite eval_pipe.
  cbn [eval]. rewrite eval_id_path.
  destruct (get_path kseg e) as [k|] eqn:Ek; simpl of_opt.
  - change (fst (ok [k]), false) with (ok [k]). rewrite bind_ok_single. destruct (truthy k) eqn:Et.
    + rewrite bind_ok_single. rewrite !eval_id_path. rewrite Ek. simpl of_opt. rewrite bind_ok_single.
      rewrite bind_of_opt.
      destruct (get_path vseg e) as [v|].
      * destruct k; reflexivity.
      * destruct k; reflexivity.
    + rewrite bind_ok_nil. reflexivity.
  - reflexivity.
Qed.

Lemma bind_list_kv : forall kseg vseg l,
  match kv_pairs kseg vseg l with
  | Some ps => bind_list l (kv_elem kseg vseg) = (map singleton ps, false)
  | None => snd (bind_list l (kv_elem kseg vseg)) = true
  end.
Proof.
  intros kseg vseg l. induction l as [|e l IH]; simpl.
  - reflexivity.
  - unfold kv_elem at 1 3. destruct (get_path kseg e) as [k|].
    + destruct (truthy k).
      * destruct k; try reflexivity.
        destruct (get_path vseg e) as [v|]; [|reflexivity].
        destruct (kv_pairs kseg vseg l) as [ps|].
        -- simpl. rewrite IH. reflexivity.
        -- simpl. destruct (bind_list l (kv_elem kseg vseg)) as [o f]. simpl in *. exact IH.
      * destruct (kv_pairs kseg vseg l) as [ps|].
        -- simpl. rewrite IH. reflexivity.
        -- simpl. destruct (bind_list l (kv_elem kseg vseg)) as [o f]. simpl in *. exact IH.
    + destruct (kv_pairs kseg vseg l) as [ps|].
      * simpl. rewrite IH. reflexivity.
      * simpl. destruct (bind_list l (kv_elem kseg vseg)) as [o f]. simpl in *. exact IH.
Qed.

Lemma eval_kv_lookup : forall rho n attr kseg vseg kv x,
  eval rho (QParen (QTryCatchNull (QParen
             (QPipe (QCollect (QPipe (QIter (path_expr (QVar (var_name n)) attr)) (kv_elem_expr kseg vseg)))
                    (QPipe QAdd (QFieldStr QId kv)))))) x
  = ok [kv_lookup_code kseg kv vseg
          (get_or_null attr (val_or_null (assoc_lookup (var_name n) rho)))].
Proof.
  intros rho n attr kseg vseg kv x.
  rewrite eval_paren.
  (* the iteration over the attribute array *)
  assert (Hiter : eval rho (QIter (path_expr (QVar (var_name n)) attr)) x
                  = match elements (get_or_null attr (val_or_null (assoc_lookup (var_name n) rho))) with
                    | Some l => ok l
                    | None => err
                    end).
  { cbn [eval]. rewrite eval_var_path. unfold get_or_null.
    destruct (assoc_lookup (var_name n) rho) as [y|]; simpl val_or_null.
    - rewrite bind_of_opt. destruct (get_path attr y) as [w|]; reflexivity.
    - rewrite get_path_null. reflexivity. }
  set (arr := get_or_null attr (val_or_null (assoc_lookup (var_name n) rho))) in *.
  assert (Hcollect : eval rho (QCollect (QPipe (QIter (path_expr (QVar (var_name n)) attr))
                                               (kv_elem_expr kseg vseg))) x
                     = match elements arr with
                       | Some l => match kv_pairs kseg vseg l with
                                   | Some ps => ok [JArr (map singleton ps)]
                                   | None => err
                                   end
                       | None => err
                       end).
  { change (eval rho (QCollect (QPipe (QIter (path_expr (QVar (var_name n)) attr)) (kv_elem_expr kseg vseg))) x)
      with (let '(o, f) := eval rho (QPipe (QIter (path_expr (QVar (var_name n)) attr)) (kv_elem_expr kseg vseg)) x
            in if f then err else ok [JArr o]).
    rewrite eval_pipe. rewrite Hiter.
    destruct (elements arr) as [l|]; [|reflexivity].
    rewrite (bind_ext _ _ (kv_elem kseg vseg)) by (intro y; apply eval_kv_elem).
    unfold bind, ok. pose proof (bind_list_kv kseg vseg l) as Hkv.
    destruct (kv_pairs kseg vseg l) as [ps|].
    - rewrite Hkv. reflexivity.
    - destruct (bind_list l (kv_elem kseg vseg)) as [o f]. simpl in Hkv. subst f. reflexivity. }
  change (eval rho (QTryCatchNull (QParen (QPipe (QCollect (QPipe (QIter (path_expr (QVar (var_name n)) attr))
                                                                   (kv_elem_expr kseg vseg)))
                                                 (QPipe QAdd (QFieldStr QId kv))))) x)
    with (let '(o, f) := eval rho (QPipe (QCollect (QPipe (QIter (path_expr (QVar (var_name n)) attr))
                                                          (kv_elem_expr kseg vseg)))
                                         (QPipe QAdd (QFieldStr QId kv))) x
          in if f then ((o ++ [JNull])%list, false) else (o, false)).
  rewrite eval_pipe. rewrite Hcollect. unfold kv_lookup_code.
  destruct (elements arr) as [l|]; [|reflexivity].
  destruct (kv_pairs kseg vseg l) as [ps|]; [|reflexivity].
  rewrite bind_ok_single. rewrite eval_pipe.
  destruct (add_from_singletons kv ps JNull (or_introl eq_refl)) as [a' [Hadd Hidx]].
  assert (HA : eval rho QAdd (JArr (map singleton ps)) = ok [a']).
  { cbn [eval elements]. rewrite Hadd. reflexivity. }
  rewrite HA. rewrite bind_ok_single.
  assert (HF : eval rho (QFieldStr QId kv) a' = ok [last_value kv ps]).
  { cbn [eval]. rewrite bind_ok_single. rewrite Hidx. reflexivity. }
  rewrite HF. reflexivity.
Qed.

(* ---------- one alternative ---------- *)

Lemma eval_alt_expr : forall rho s n a x,
  wf_alt a = true ->
  val_or_null (assoc_lookup (var_name n) rho) = selected s (alt_levels a) ->
  eval rho (alt_expr (n, a)) x = ok [alt_value code_sem s a].
Proof.
  intros rho s n a x Hwf Hsel. unfold alt_expr, alt_value.
  destruct (a_key_value a) as [kv|] eqn:Hkv.
  - rewrite (alt_rest_kv a kv Hkv (wf_alt_kv a kv Hwf Hkv)). simpl nth.
    fold (alt_value_path a). fold (kv_elem_expr (alt_field a) (alt_value_path a)).
    rewrite eval_kv_lookup. rewrite Hsel. reflexivity.
  - rewrite (alt_rest_direct a Hkv (wf_alt_direct a Hwf Hkv)). simpl nth.
    rewrite eval_paren. cbn [eval]. rewrite eval_var_path. rewrite <- Hsel.
    unfold get_or_null.
    destruct (assoc_lookup (var_name n) rho) as [y|]; simpl val_or_null.
    + destruct (get_path (alt_field a) y); reflexivity.
    + rewrite get_path_null. reflexivity.
Qed.

(* ---------- priority lists and joins ---------- *)

Definition bound_to (rho : env) (n : string) (v : json) : Prop := assoc_lookup n rho = Some v.

Lemma eval_alt_chain : forall tight rho x names vals,
  names <> [] -> Forall2 (bound_to rho) names vals ->
  eval rho (alt_chain tight names) x = ok [pick_code vals].
Proof.
  intros tight rho x names vals Hne H. induction H as [|n v names vals Hnv Hrest IH].
  - contradiction.
  - destruct Hrest as [|n2 v2 names2 vals2 Hnv2 Hrest2].
    + simpl. unfold bound_to in Hnv. rewrite Hnv. reflexivity.
    + change (alt_chain tight (n :: n2 :: names2))
        with (QAlt tight (QVar n) (alt_chain tight (n2 :: names2))).
      change (pick_code (v :: v2 :: vals2)) with (if truthy v then v else pick_code (v2 :: vals2)).
      cbn [eval]. unfold bound_to in Hnv. rewrite Hnv. simpl of_opt. unfold ok at 1. cbn [filter].
      destruct (truthy v).
      * reflexivity.
      * apply IH. discriminate.
Qed.

Definition str_or_null (p : json) : json := if is_null p then JNull else JStr (tostring p).

Lemma eval_string_component : forall rho x names vals,
  names <> [] -> Forall2 (bound_to rho) names vals ->
  eval rho (string_component names) x = ok [str_or_null (pick_code vals)].
Proof.
  intros rho x names vals Hne H. unfold string_component.
  rewrite eval_paren. rewrite eval_pipe. rewrite (eval_alt_chain false rho x names vals Hne H).
  rewrite bind_ok_single. rewrite eval_paren.
  set (p := pick_code vals).
  change (eval rho (QIf (QEq QId QNull) QNull (QParen (QPipe QId QTostring))) p)
    with (bind (eval rho (QEq QId QNull) p)
            (fun vc => if truthy vc then eval rho QNull p else eval rho (QParen (QPipe QId QTostring)) p)).
  rewrite eval_eq_null. rewrite bind_ok_single. unfold str_or_null.
  destruct (is_null p); reflexivity.
Qed.

Lemma eval_comma_list : forall rho x es vs,
  es <> [] -> Forall2 (fun e v => eval rho e x = ok [v]) es vs ->
  eval rho (comma_list es) x = ok vs.
Proof.
  intros rho x es vs Hne H. induction H as [|e v es vs Hev Hrest IH].
  - contradiction.
  - destruct Hrest as [|e2 v2 es2 vs2 Hev2 Hrest2].
    + simpl. exact Hev.
    + change (comma_list (e :: e2 :: es2)) with (QComma e (comma_list (e2 :: es2))).
      cbn [eval]. rewrite Hev. unfold ok at 1. rewrite IH by discriminate. reflexivity.
Qed.

Lemma any_scan_is_null : forall rho l,
  any_scan (fun y => eval rho (QEq QId QNull) y) l = ok [JBool (existsb is_null l)].
Proof.
  intros rho l. induction l as [|y l IH]; cbn [any_scan existsb].
  - reflexivity.
  - rewrite eval_eq_null. unfold scan_one. cbn [fst snd ok existsb truthy]. destruct (is_null y); cbn [orb].
    + reflexivity.
    + exact IH.
Qed.

Lemma all_scan_is_null : forall rho l,
  all_scan (fun y => eval rho (QEq QId QNull) y) l = ok [JBool (forallb is_null l)].
Proof.
  intros rho l. induction l as [|y l IH]; cbn [all_scan forallb].
  - reflexivity.
  - rewrite eval_eq_null. unfold scan_one. cbn [fst snd ok existsb truthy negb]. destruct (is_null y); cbn [orb andb negb].
    + exact IH.
    + reflexivity.
Qed.

Lemma existsb_str_or_null : forall ps, existsb is_null (map str_or_null ps) = existsb is_null ps.
Proof.
  induction ps as [|p ps IH]; simpl; [reflexivity|].
  rewrite IH. unfold str_or_null. destruct (is_null p); reflexivity.
Qed.

Lemma map_str_or_null_nonnull : forall ps,
  existsb is_null ps = false -> map str_or_null ps = map JStr (map tostring ps).
Proof.
  induction ps as [|p ps IH]; simpl; intro H; [reflexivity|].
  apply orb_false_iff in H. destruct H as [H1 H2]. unfold str_or_null at 1. rewrite H1.
  rewrite IH by exact H2. reflexivity.
Qed.

Definition vars_bound (rho : env) (variables : list (list string)) (vals : list (list json)) : Prop :=
  Forall2 (fun names vs => names <> [] /\ Forall2 (bound_to rho) names vs) variables vals.

Lemma eval_handle_string : forall rho x variables vals,
  variables <> [] -> vars_bound rho variables vals ->
  eval rho (handle_string_joined_variables_jq_query variables) x
  = ok [string_field (map pick_code vals)].
Proof.
  intros rho x variables vals Hne Hb. unfold handle_string_joined_variables_jq_query.
  rewrite eval_paren. rewrite eval_pipe.
  assert (Hcomma : eval rho (comma_list (map string_component variables)) x
                   = ok (map str_or_null (map pick_code vals))).
  { apply eval_comma_list.
    - destruct variables; [contradiction|discriminate].
    - clear Hne. induction Hb as [|names vs variables vals [Hn Hv] Hrest IH]; simpl; constructor.
      + apply eval_string_component; assumption.
      + exact IH. }
  change (eval rho (QCollect (comma_list (map string_component variables))) x)
    with (let '(o, f) := eval rho (comma_list (map string_component variables)) x in
          if f then err else ok [JArr o]).
  rewrite Hcomma. unfold ok at 1. rewrite bind_ok_single.
  set (cs := map str_or_null (map pick_code vals)).
  change (eval rho (QIf (QAny (QEq QId QNull)) QNull (QJoin "_")) (JArr cs))
    with (bind (any_scan (fun y => eval rho (QEq QId QNull) y) cs)
            (fun vc => if truthy vc then ok [JNull]
                       else match json_join "_" cs with Some s => ok [JStr s] | None => err end)).
  rewrite any_scan_is_null. rewrite bind_ok_single. unfold string_field.
  unfold cs. rewrite existsb_str_or_null.
  destruct (existsb is_null (map pick_code vals)) eqn:E; simpl truthy; cbv iota.
  - reflexivity.
  - rewrite (map_str_or_null_nonnull _ E). rewrite json_join_strs. reflexivity.
Qed.

Lemma eval_plus_fold : forall rho x es ps,
  Forall2 (fun e p => eval rho e x = ok [JArr [p]]) es ps ->
  forall acc l, eval rho acc x = ok [JArr l] ->
  eval rho (fold_left QPlus es acc) x = ok [JArr (l ++ ps)].
Proof.
  intros rho x es ps H. induction H as [|e p es ps Hep Hrest IH]; intros acc l Hacc; simpl.
  - rewrite app_nil_r. exact Hacc.
  - replace (l ++ p :: ps)%list with ((l ++ [p]) ++ ps)%list by (rewrite <- app_assoc; reflexivity).
    apply IH. cbn [eval]. rewrite Hep. rewrite bind_ok_single. rewrite Hacc. rewrite bind_ok_single.
    reflexivity.
Qed.

Lemma eval_handle_array : forall rho x variables vals,
  variables <> [] -> vars_bound rho variables vals ->
  eval rho (handle_array_joined_variables_jq_query variables) x
  = ok [array_field (map pick_code vals)].
Proof.
  intros rho x variables vals Hne Hb. unfold handle_array_joined_variables_jq_query.
  rewrite eval_pipe. rewrite eval_paren.
  assert (Hplus : eval rho (plus_list (map (fun pv => QCollect (alt_chain true pv)) variables)) x
                  = ok [JArr (map pick_code vals)]).
  { destruct Hb as [|names vs variables vals [Hn Hv] Hrest]; [contradiction|].
    simpl map. unfold plus_list.
    apply (eval_plus_fold rho x _ (map pick_code vals) ) with (l := [pick_code vs]).
    - clear Hne. induction Hrest as [|names2 vs2 variables vals [Hn2 Hv2] Hrest2 IH]; simpl; constructor.
      + cbn [eval]. rewrite (eval_alt_chain true rho x names2 vs2 Hn2 Hv2). reflexivity.
      + exact IH.
    - cbn [eval]. rewrite (eval_alt_chain true rho x names vs Hn Hv). reflexivity. }
  rewrite Hplus. rewrite bind_ok_single. rewrite eval_pipe.
  set (ps := map pick_code vals).
  assert (Hfl : eval rho QFlatten (JArr ps) = ok [JArr (flatten_list ps)]) by reflexivity.
  rewrite Hfl. rewrite bind_ok_single. rewrite eval_paren.
  set (fl := flatten_list ps).
  assert (Hcond : eval rho (QAnd (QParen (QPipe QId (QAll (QEq QId QNull)))) (QNeq QId QEmptyArr)) (JArr fl)
                  = ok [JBool (forallb is_null fl && nonempty fl)]).
  { change (eval rho (QAnd (QParen (QPipe QId (QAll (QEq QId QNull)))) (QNeq QId QEmptyArr)) (JArr fl))
      with (bind (bind (ok [JArr fl]) (fun y => match elements y with
                                               | Some l => all_scan (fun z => eval rho (QEq QId QNull) z) l
                                               | None => err
                                               end))
              (fun va => if truthy va
                         then bind (eval rho (QNeq QId QEmptyArr) (JArr fl)) (fun vb => ok [JBool (truthy vb)])
                         else ok [JBool false])).
    rewrite bind_ok_single. cbn [elements]. rewrite all_scan_is_null. rewrite bind_ok_single.
    destruct (forallb is_null fl); simpl truthy; cbv iota.
    - cbn [eval]. rewrite bind_ok_single. rewrite bind_ok_single. rewrite bind_ok_single.
      rewrite json_eqb_empty_arr_r. destruct fl; reflexivity.
    - reflexivity. }
  change (eval rho (QIf (QAnd (QParen (QPipe QId (QAll (QEq QId QNull)))) (QNeq QId QEmptyArr)) QNull QId) (JArr fl))
    with (bind (eval rho (QAnd (QParen (QPipe QId (QAll (QEq QId QNull)))) (QNeq QId QEmptyArr)) (JArr fl))
            (fun vc => if truthy vc then ok [JNull] else ok [JArr fl])).
  rewrite Hcond. rewrite bind_ok_single. unfold array_field. fold ps. fold fl.
  rewrite andb_comm. destruct (nonempty fl && forallb is_null fl); reflexivity.
Qed.

(* ---------- the field phase ---------- *)

Open Scope list_scope.

Definition nonvar (n : string) : Prop := forall k, n <> var_name k.

Lemma nonvar_concat : forall f i j, nonvar (concat_name (out_name f) i j).
Proof. intros f i j k H. symmetry in H. revert H. apply var_name_not_concat. Qed.

Lemma nonvar_out : forall f, nonvar (out_name f).
Proof. intros f k H. symmetry in H. revert H. apply var_name_not_out. Qed.

Definition strip_comp (uc : list ualt) : list alt := map snd uc.
Definition strip_field (uf : ufield_spec) : field_spec :=
  mkFieldSpec (map strip_comp (ufs_comps uf)) (ufs_type uf).
Definition strip_mapping (um : umapping) : mapping :=
  map (fun nuf => (fst nuf, strip_field (snd nuf))) um.

Section FieldPhase.

Variable root : vtree.
Variable doc : json.
Hypothesis root_inj : forall p q k, num_at root p = Some k -> num_at root q = Some k -> p = q.

Variable s : senv.
Variable rho0 : env.
Hypothesis Hagree : agree root rho0 s.

Definition aval (ua : ualt) : json := alt_value code_sem s (snd ua).

Fixpoint alt_bindings (out : string) (i j : nat) (alts : list ualt) : list (string * json) :=
  match alts with
  | [] => []
  | ua :: r => (concat_name out i j, aval ua) :: alt_bindings out i (S j) r
  end.

Fixpoint comp_bindings (out : string) (i : nat) (comps : list (list ualt)) : list (string * json) :=
  match comps with
  | [] => []
  | c :: r => (alt_bindings out i 0 c ++ comp_bindings out (S i) r)%list
  end.

Definition field_bindings_one (f : nat) (uf : ufield_spec) : list (string * json) :=
  (comp_bindings (out_name f) 0 (ufs_comps uf)
   ++ [(out_name f, field_value code_sem s (strip_field uf))])%list.

Fixpoint field_bindings (f : nat) (um : umapping) : list (string * json) :=
  match um with
  | [] => []
  | (_, uf) :: r => (field_bindings_one f uf ++ field_bindings (S f) r)%list
  end.

Lemma alt_bindings_names : forall out i alts j,
  map fst (alt_bindings out i j alts) = map snd (alt_binders out i j alts).
Proof. intros out i alts. induction alts as [|ua r IH]; intro j; simpl; [reflexivity|]. rewrite IH. reflexivity. Qed.

Lemma comp_bindings_names : forall out comps i,
  map fst (comp_bindings out i comps) = map snd (comp_binders out i comps).
Proof.
  intros out comps. induction comps as [|c r IH]; intro i; simpl; [reflexivity|].
  rewrite !map_app. rewrite IH. rewrite alt_bindings_names. reflexivity.
Qed.

Lemma field_bindings_one_names : forall f uf,
  map fst (field_bindings_one f uf) = map snd (get_jq_for_field_spec uf (out_name f)).
Proof.
  intros f uf. unfold field_bindings_one, get_jq_for_field_spec. rewrite !map_app.
  rewrite comp_bindings_names. reflexivity.
Qed.

Lemma field_bindings_names : forall um f,
  map fst (field_bindings f um) = map snd (field_binders f um).
Proof.
  induction um as [|[name uf] r IH]; intro f; simpl; [reflexivity|].
  rewrite !map_app. rewrite IH. rewrite field_bindings_one_names. reflexivity.
Qed.

Definition ualt_good (ua : ualt) : Prop :=
  wf_alt (snd ua) = true /\ num_at root (alt_levels (snd ua)) = Some (fst ua).

Definition ucomp_good (uc : list ualt) : Prop := uc <> [] /\ Forall ualt_good uc.

Definition ufield_good (uf : ufield_spec) : Prop :=
  ufs_comps uf <> [] /\ Forall ucomp_good (ufs_comps uf).

Lemma agree_pushes : forall (done : list (string * json)),
  Forall nonvar (map fst done) -> agree root (rev done ++ rho0) s.
Proof.
  intros done Hnv p k Hp. rewrite lookup_skip_pushed.
  - apply Hagree. exact Hp.
  - intro Hin. rewrite Forall_forall in Hnv. apply (Hnv _ Hin k). reflexivity.
Qed.

Lemma rev_snoc_env : forall (done : list (string * json)) n v,
  ((n, v) :: rev done ++ rho0 = rev (done ++ [(n, v)]) ++ rho0)%list.
Proof. intros. rewrite rev_app_distr. reflexivity. Qed.

Lemma alts_det : forall out_f i alts j done,
  Forall ualt_good alts -> Forall nonvar (map fst done) ->
  det_chain doc (alt_binders (out_name out_f) i j alts) (rev done ++ rho0)
            (rev (done ++ alt_bindings (out_name out_f) i j alts) ++ rho0).
Proof.
  intros out_f i alts. induction alts as [|ua r IH]; intros j done Hgood Hnv; simpl.
  - rewrite app_nil_r. constructor.
  - inversion Hgood as [|? ? [Hwf Hnum] Hgood']; subst.
    destruct ua as [n a]. simpl in Hwf, Hnum.
    eapply det_cons.
    + apply (eval_alt_expr _ s). 
      * exact Hwf.
      * apply (agree_selected root). 
        -- apply agree_pushes. exact Hnv.
        -- exact Hnum.
    + rewrite rev_snoc_env.
      replace (done ++ (concat_name (out_name out_f) i j, aval (n, a)) :: alt_bindings (out_name out_f) i (S j) r)%list
        with ((done ++ [(concat_name (out_name out_f) i j, aval (n, a))]) ++ alt_bindings (out_name out_f) i (S j) r)%list
        by (rewrite <- app_assoc; reflexivity).
      apply IH; [exact Hgood'|].
      rewrite map_app. apply Forall_app. split; [exact Hnv|]. constructor; [|constructor].
      apply nonvar_concat.
Qed.

Lemma Forall_nonvar_alt_bindings : forall f i alts j,
  Forall nonvar (map fst (alt_bindings (out_name f) i j alts)).
Proof.
  intros f i alts. induction alts as [|ua r IH]; intro j; simpl; constructor.
  - apply nonvar_concat.
  - apply IH.
Qed.

Lemma Forall_nonvar_comp_bindings : forall f comps i,
  Forall nonvar (map fst (comp_bindings (out_name f) i comps)).
Proof.
  intros f comps. induction comps as [|c r IH]; intro i; simpl.
  - constructor.
  - rewrite map_app. apply Forall_app. split; [apply Forall_nonvar_alt_bindings|apply IH].
Qed.

Lemma comps_det : forall out_f comps i done,
  Forall ucomp_good comps -> Forall nonvar (map fst done) ->
  det_chain doc (comp_binders (out_name out_f) i comps) (rev done ++ rho0)
            (rev (done ++ comp_bindings (out_name out_f) i comps) ++ rho0).
Proof.
  intros out_f comps. induction comps as [|c r IH]; intros i done Hgood Hnv; simpl.
  - rewrite app_nil_r. constructor.
  - inversion Hgood as [|? ? [Hne Hc] Hgood']; subst.
    eapply det_chain_app.
    + apply alts_det; eassumption.
    + rewrite app_assoc. apply IH; [exact Hgood'|].
      rewrite map_app. apply Forall_app. split; [exact Hnv|apply Forall_nonvar_alt_bindings].
Qed.

(* the variables of a component are bound to the values of its alternatives *)
Lemma names_bound : forall rho out i alts j,
  (forall n v, In (n, v) (alt_bindings out i j alts) -> bound_to rho n v) ->
  Forall2 (bound_to rho) (names_from out i j alts) (map aval alts).
Proof.
  intros rho out i alts. induction alts as [|ua r IH]; intros j H; simpl.
  - constructor.
  - constructor.
    + apply H. left. reflexivity.
    + apply IH. intros n v Hin. apply H. right. exact Hin.
Qed.

Lemma variables_bound : forall rho out comps i,
  Forall ucomp_good comps ->
  (forall n v, In (n, v) (comp_bindings out i comps) -> bound_to rho n v) ->
  vars_bound rho (variables_from out i comps) (map (map aval) comps).
Proof.
  intros rho out comps. induction comps as [|c r IH]; intros i Hgood H; simpl.
  - constructor.
  - inversion Hgood as [|? ? [Hne Hc] Hgood']; subst. constructor.
    + split.
      * destruct c; [contradiction|simpl; discriminate].
      * apply names_bound. intros n v Hin. apply H. simpl. apply in_or_app. left. exact Hin.
    + apply IH; [exact Hgood'|]. intros n v Hin. apply H. simpl. apply in_or_app. right. exact Hin.
Qed.

Lemma field_value_strip : forall uf,
  field_value code_sem s (strip_field uf)
  = match ufs_type uf with
    | VString => string_field (map pick_code (map (map aval) (ufs_comps uf)))
    | VArray => array_field (map pick_code (map (map aval) (ufs_comps uf)))
    end.
Proof.
  intro uf. unfold field_value, strip_field. simpl fs_comps. simpl fs_type.
  assert (E : map (component_value code_sem s) (map strip_comp (ufs_comps uf))
              = map pick_code (map (map aval) (ufs_comps uf))).
  { rewrite !map_map. apply map_ext. intro uc. unfold component_value, strip_comp. simpl pick.
    rewrite map_map. reflexivity. }
  rewrite E. reflexivity.
Qed.

Lemma field_one_det : forall f uf done,
  ufield_good uf -> Forall nonvar (map fst done) ->
  NoDup (map fst (done ++ field_bindings_one f uf)) ->
  det_chain doc (get_jq_for_field_spec uf (out_name f)) (rev done ++ rho0)
            (rev (done ++ field_bindings_one f uf) ++ rho0).
Proof.
  intros f uf done [Hne Hgood] Hnv Hnd. unfold get_jq_for_field_spec, field_bindings_one.
  eapply det_chain_app.
  - apply comps_det; eassumption.
  - rewrite app_assoc. eapply det_cons; [|rewrite rev_snoc_env; constructor].
    set (done' := (done ++ comp_bindings (out_name f) 0 (ufs_comps uf))%list).
    assert (Hvb : vars_bound (rev done' ++ rho0) (variables_from (out_name f) 0 (ufs_comps uf))
                             (map (map aval) (ufs_comps uf))).
    { apply variables_bound; [exact Hgood|]. intros n v Hin. unfold bound_to. apply lookup_pushed.
      - unfold field_bindings_one in Hnd. rewrite app_assoc in Hnd. rewrite map_app in Hnd.
        apply NoDup_app_l in Hnd. exact Hnd.
      - unfold done'. apply in_or_app. right. exact Hin. }
    assert (Hvne : variables_from (out_name f) 0 (ufs_comps uf) <> []).
    { destruct (ufs_comps uf); [contradiction|simpl; discriminate]. }
    rewrite eval_paren. rewrite field_value_strip.
    destruct (ufs_type uf); simpl handle_value_type_joined_variables_jq_query.
    + apply eval_handle_string; assumption.
    + apply eval_handle_array; assumption.
Qed.

Lemma Forall_nonvar_field_one : forall f uf, Forall nonvar (map fst (field_bindings_one f uf)).
Proof.
  intros f uf. unfold field_bindings_one. rewrite map_app. apply Forall_app. split.
  - apply Forall_nonvar_comp_bindings.
  - constructor; [apply nonvar_out|constructor].
Qed.

Lemma fields_det : forall um f done,
  Forall (fun nuf => ufield_good (snd nuf)) um -> Forall nonvar (map fst done) ->
  NoDup (map fst (done ++ field_bindings f um)) ->
  det_chain doc (field_binders f um) (rev done ++ rho0)
            (rev (done ++ field_bindings f um) ++ rho0).
Proof.
  induction um as [|[name uf] r IH]; intros f done Hgood Hnv Hnd; simpl.
  - rewrite app_nil_r. constructor.
  - inversion Hgood as [|? ? Hg Hgood']; subst. simpl in Hg.
    simpl in Hnd. rewrite app_assoc in Hnd.
    eapply det_chain_app.
    + apply field_one_det; try assumption.
      rewrite map_app in Hnd. apply NoDup_app_l in Hnd. exact Hnd.
    + rewrite app_assoc. apply IH; try assumption.
      rewrite map_app. apply Forall_app. split; [exact Hnv|apply Forall_nonvar_field_one].
Qed.

(* ---------- the final object ---------- *)

Definition urecord (um : umapping) : record :=
  map (fun nuf => (fst nuf, field_value code_sem s (strip_field (snd nuf)))) um.

Lemma obj_build_det : forall (fs : list (string * res)) (pairs : list (string * json)) acc,
  Forall2 (fun kr kv => fst kr = fst kv /\ snd kr = ok [snd kv]) fs pairs ->
  obj_build fs acc = ok [JObj (fold_left (fun a kv => obj_set (fst kv) (snd kv) a) pairs acc)].
Proof.
  intros fs pairs acc H. revert acc. induction H as [|[k r] [k' v] fs pairs [Hk Hr] Hrest IH]; intro acc; simpl.
  - reflexivity.
  - simpl in Hk, Hr. subst k' r. rewrite bind_ok_single. apply IH.
Qed.

Lemma fold_obj_set_fresh : forall (pairs acc : list (string * json)),
  NoDup (map fst acc ++ map fst pairs) ->
  fold_left (fun a kv => obj_set (fst kv) (snd kv) a) pairs acc = (acc ++ pairs)%list.
Proof.
  induction pairs as [|[k v] pairs IH]; intros acc Hnd; simpl.
  - rewrite app_nil_r. reflexivity.
  - rewrite obj_set_fresh.
    + rewrite IH.
      * rewrite <- app_assoc. reflexivity.
      * rewrite map_app. simpl. rewrite <- app_assoc. exact Hnd.
    + apply assoc_lookup_none_notin. simpl in Hnd. apply NoDup_remove_2 in Hnd.
      intro Hin. apply Hnd. apply in_or_app. left. exact Hin.
Qed.

Lemma field_outputs_eval : forall rho um f,
  (forall f' name uf, nth_error um f' = Some (name, uf) ->
                      bound_to rho (out_name (f + f')) (field_value code_sem s (strip_field uf))) ->
  Forall2 (fun kr kv => fst kr = fst kv /\ snd kr = ok [snd kv])
          (map (fun kf => let '(k, fe) := kf in (k, eval rho fe doc)) (field_outputs f um))
          (urecord um).
Proof.
  intros rho um. induction um as [|[name uf] r IH]; intros f H; simpl.
  - constructor.
  - constructor.
    + split; [reflexivity|]. simpl. specialize (H 0 name uf eq_refl). rewrite Nat.add_0_r in H.
      unfold bound_to in H. rewrite H. reflexivity.
    + apply IH. intros f' name' uf' Hn. specialize (H (S f') name' uf' Hn).
      rewrite Nat.add_succ_r in H. exact H.
Qed.

Lemma out_binding_in : forall um f f' name uf,
  nth_error um f' = Some (name, uf) ->
  In (out_name (f + f'), field_value code_sem s (strip_field uf)) (field_bindings f um).
Proof.
  induction um as [|[name0 uf0] r IH]; intros f f' name uf Hn.
  - destruct f'; discriminate.
  - simpl. apply in_or_app. destruct f' as [|f'].
    + left. simpl in Hn. inversion Hn; subst. rewrite Nat.add_0_r. unfold field_bindings_one.
      apply in_or_app. right. left. reflexivity.
    + right. simpl in Hn. rewrite Nat.add_succ_r. apply (IH (S f) f' name uf Hn).
Qed.

Lemma final_object : forall um,
  NoDup (map fst (field_bindings 0 um)) ->
  NoDup (map fst um) ->
  eval (rev (field_bindings 0 um) ++ rho0) (QObj (field_outputs 0 um)) doc
  = ok [JObj (urecord um)].
Proof.
  intros um Hnd Hndf.
  change (eval (rev (field_bindings 0 um) ++ rho0) (QObj (field_outputs 0 um)) doc)
    with (obj_build (map (fun kf => let '(k, fe) := kf in
                                    (k, eval (rev (field_bindings 0 um) ++ rho0) fe doc))
                         (field_outputs 0 um)) []).
  rewrite (obj_build_det _ (urecord um)).
  - rewrite fold_obj_set_fresh.
    + reflexivity.
    + simpl. unfold urecord. rewrite map_map. simpl. exact Hndf.
  - apply field_outputs_eval. intros f' name uf Hn. unfold bound_to. apply lookup_pushed.
    + exact Hnd.
    + apply (out_binding_in um 0 f' name uf Hn).
Qed.

End FieldPhase.

(* ---------- putting the phases together ---------- *)

Lemma eval_as_chain : forall x bs fin rho,
  eval rho (as_chain bs fin) x = chain x bs (fun rho' => eval rho' fin x) rho.
Proof.
  intros x bs fin. induction bs as [|[e v] bs IH]; intro rho; simpl.
  - reflexivity.
  - apply bind_ext. intro y. apply IH.
Qed.

Lemma comp_ok_strip : forall root uc c, comp_ok root uc c -> strip_comp uc = c.
Proof.
  intros root uc c H. unfold strip_comp. induction H as [|ua a uc c [Hs _] Hrest IH]; simpl.
  - reflexivity.
  - rewrite Hs. rewrite IH. reflexivity.
Qed.

Lemma comps_ok_strip : forall root ucs cs, comps_ok root ucs cs -> map strip_comp ucs = cs.
Proof.
  intros root ucs cs H. induction H as [|uc c ucs cs Hc Hrest IH]; simpl.
  - reflexivity.
  - rewrite (comp_ok_strip root uc c Hc). rewrite IH. reflexivity.
Qed.

Lemma fields_ok_strip : forall root um m, Forall2 (field_ok root) um m -> strip_mapping um = m.
Proof.
  intros root um m H. unfold strip_mapping.
  induction H as [|[n uf] [n' fs] um m [Hn [Ht Hc]] Hrest IH]; simpl.
  - reflexivity.
  - simpl in Hn, Ht, Hc. subst n'. rewrite IH. f_equal. f_equal.
    unfold strip_field. rewrite (comps_ok_strip root _ _ Hc). rewrite Ht. destruct fs; reflexivity.
Qed.

Lemma comp_ok_good : forall root uc c,
  comp_ok root uc c -> nonempty c = true -> forallb wf_alt c = true -> ucomp_good root uc.
Proof.
  intros root uc c H Hne Hwf. split.
  - destruct H; [discriminate|discriminate].
  - induction H as [|ua a uc c [Hs Hnum] Hrest IH]; constructor.
    + simpl in Hwf. apply andb_true_iff in Hwf. destruct Hwf as [Hwa _]. split.
      * rewrite Hs. exact Hwa.
      * rewrite Hs. exact Hnum.
    + simpl in Hwf. apply andb_true_iff in Hwf. destruct Hwf as [_ Hwr].
      destruct Hrest as [|ua2 a2 uc2 c2 H2 Hrest2]; [constructor|].
      apply IH; [reflexivity|exact Hwr].
Qed.

Lemma comps_ok_good : forall root ucs cs,
  comps_ok root ucs cs ->
  forallb (fun c => nonempty c && forallb wf_alt c) cs = true ->
  Forall (ucomp_good root) ucs.
Proof.
  intros root ucs cs H Hwf. induction H as [|uc c ucs cs Hc Hrest IH]; constructor.
  - simpl in Hwf. apply andb_true_iff in Hwf. destruct Hwf as [Hw _].
    apply andb_true_iff in Hw. destruct Hw as [Hne Hwa]. eapply comp_ok_good; eassumption.
  - simpl in Hwf. apply andb_true_iff in Hwf. destruct Hwf as [_ Hw]. apply IH. exact Hw.
Qed.

Lemma fields_ok_good : forall root um m,
  Forall2 (field_ok root) um m ->
  forallb (fun nf => quoted_ok (fst nf) && wf_field (snd nf)) m = true ->
  Forall (fun nuf => ufield_good root (snd nuf)) um.
Proof.
  intros root um m H Hwf. induction H as [|[n uf] [n' fs] um m [Hn [Ht Hc]] Hrest IH]; constructor.
  - simpl in *. apply andb_true_iff in Hwf. destruct Hwf as [Hw _].
    apply andb_true_iff in Hw. destruct Hw as [_ Hw]. unfold wf_field in Hw.
    apply andb_true_iff in Hw. destruct Hw as [Hne Hcs]. split.
    + destruct Hc; [discriminate|discriminate].
    + eapply comps_ok_good; eassumption.
  - simpl in Hwf. apply andb_true_iff in Hwf. destruct Hwf as [_ Hw]. apply IH. exact Hw.
Qed.

Lemma urecord_strip : forall s um, urecord s um = record_of code_sem (strip_mapping um) s.
Proof. intros s um. unfold urecord, record_of, strip_mapping. rewrite map_map. reflexivity. Qed.

Lemma map_fst_strip : forall um, map fst (strip_mapping um) = map fst um.
Proof. intro um. unfold strip_mapping. rewrite map_map. reflexivity. Qed.

Theorem compile_exact : forall m doc,
  wf_mapping m = true ->
  eval [] (compile m) doc = ok (map record_to_json (flatten_code m doc)).
Proof.
  intros m doc Hwf. unfold compile, jq_field_mapping_to_jq_query.
  destruct (update_field_specs_with_variables m) as [root um] eqn:E.
  destruct (update_field_specs_sound m root um E) as [[n HI] [Hnum0 [Hok Herase]]].
  unfold wf_mapping in Hwf. apply andb_true_iff in Hwf. destruct Hwf as [Hwf Hnames].
  unfold wf_fields in Hwf. apply andb_true_iff in Hwf. destruct Hwf as [Hfields Hfn].
  unfold binder_names in Hnames. rewrite E in Hnames. apply nodupb_NoDup in Hnames.
  apply nodupb_NoDup in Hfn.
  pose proof (fields_ok_strip root um m Hok) as Hstrip.
  pose proof (fields_ok_good root um m Hok Hfields) as Hgood.
  destruct HI as [Hrwf Hrle Hrinj].
  unfold get_jq_query_from_field_mapping_with_variables_and_var_tree.
  rewrite eval_as_chain. unfold all_binders, get_jq_using_field_mapping. simpl fst. simpl snd.
  destruct root as [n0 cs] eqn:Eroot. simpl in Hnum0. subst n0.
  rewrite build_base_eq. rewrite <- app_comm_cons. cbn [chain].
  change (eval [] QId doc) with (ok [doc]). rewrite bind_ok_single. rewrite chain_app.
  rewrite <- Eroot in *.
  (* names *)
  unfold get_jq_using_field_mapping in Hnames. simpl fst in Hnames.
  (* the tree phase, then the field phase as its continuation *)
  assert (Hat : node_at root [] = Some root) by reflexivity.
  assert (Hag0 : agree root [(var_name 0, doc)] [([], doc)]).
  { intros p k Hp. cbn [assoc_lookup senv_lookup].
    destruct p as [|seg p].
    - rewrite num_at_nil in Hp. rewrite Eroot in Hp. simpl in Hp. inversion Hp; subst.
      rewrite string_eqb_refl. reflexivity.
    - assert (Hk : k <> 0).
      { intro Hk. subst k. assert (H0 : num_at root [] = Some 0) by (rewrite Eroot; reflexivity).
        pose proof (Hrinj _ _ _ Hp H0). discriminate. }
      destruct (String.eqb (var_name k) (var_name 0)) eqn:Ev.
      + apply String.eqb_eq in Ev. apply var_name_inj in Ev. contradiction.
      + reflexivity. }
  pose proof (tree_phase root doc Hrinj Hrwf root [] Hat
                (chain doc (field_binders 0 um)
                       (fun rho' => eval rho' (QObj (field_outputs 0 um)) doc))
                (fun s => [record_to_json (record_of code_sem m s)])) as Htp.
  assert (Hcont : forall rho s, agree root rho s ->
            chain doc (field_binders 0 um) (fun rho' => eval rho' (QObj (field_outputs 0 um)) doc) rho
            = ok [record_to_json (record_of code_sem m s)]).
  { intros rho s Ha.
    pose proof (fields_det root doc s rho Ha um 0 [] Hgood (Forall_nil _)) as Hdet.
    simpl app in Hdet. simpl rev in Hdet. simpl app in Hdet.
    assert (Hnd : NoDup (map fst (field_bindings s 0 um))).
    { rewrite field_bindings_names. exact Hnames. }
    specialize (Hdet Hnd).
    rewrite (det_chain_run _ _ _ _ _ Hdet).
    rewrite (final_object doc s rho um Hnd).
    - rewrite urecord_strip. rewrite Hstrip. reflexivity.
    - rewrite <- map_fst_strip. rewrite Hstrip. exact Hfn. }
  specialize (Htp Hcont _ _ Hag0).
  rewrite Eroot in Htp. simpl vt_num in Htp. simpl vt_children in Htp. rewrite <- Eroot in Htp.
  rewrite Htp. rewrite Herase. f_equal. unfold flatten_code, flatten_gen, selections.
  rewrite flat_map_singleton. rewrite map_map. reflexivity.
Qed.
