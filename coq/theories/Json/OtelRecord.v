(* OtelRecord.v -- which extracted records become an OTelEvent, and the extraction pipeline.

   `valid r` models "OTelEvent(r as keyword arguments) does not raise ValidationError" for pydantic 2.9.2 / pydantic-core 2.23.4
   (lax mode), as determined by experiment (/root/c13_scratch/exp3.py, exp7.py, leg4.py):
     job_name, job_id, event_type, event_id, application_name : required, must be a str (an int, bool,
                                       None, list or dict is rejected: lax mode does not coerce to str)
     start_timestamp, end_timestamp : required; an int, a bool (True -> 1), or a str accepted by
                                       pydantic-core's str -> int conversion (int_string below)
     parent_event_id                 : required key; None or a str
     child_event_ids                 : may be missing; None or a list whose items are all str
     other keys                      : ignored
   Floats are outside the model.

   JSONDataSource.parse_json_stream: for each JSON document of the file (the whole file, or one per line
   when json_per_line), for each record produced by the compiled jq program: OTelEvent(record as keyword arguments), and on
   ValidationError the record is logged and skipped.

   Definitions only. *)

From Coq Require Import ZArith List String Ascii Bool Arith.
From V Require Import Json.Json Json.Jq Json.Mapping Json.FlattenSpec.
Import ListNotations.
Open Scope string_scope.

(* ---------- pydantic-core str -> int (lax) ---------- *)

Definition code (c : ascii) : nat := nat_of_ascii c.

Definition is_digit (c : ascii) : bool := Nat.leb 48 (code c) && Nat.leb (code c) 57.
Definition is_nonzero_digit (c : ascii) : bool := Nat.leb 49 (code c) && Nat.leb (code c) 57.

(* Rust str::trim: Unicode White_Space, here on the UTF-8 bytes *)
Definition ascii_ws (n : nat) : bool := (Nat.leb 9 n && Nat.leb n 13) || Nat.eqb n 32.

Fixpoint drop_ws (s : string) : string :=
  match s with
  | String c1 r1 =>
      if ascii_ws (code c1) then drop_ws r1
      else match r1 with
           | String c2 r2 =>
               if Nat.eqb (code c1) 194 && (Nat.eqb (code c2) 133 || Nat.eqb (code c2) 160)
               then drop_ws r2                                                 (* U+0085, U+00A0 *)
               else match r2 with
                    | String c3 r3 =>
                        let a := code c1 in let b := code c2 in let d := code c3 in
                        if (Nat.eqb a 225 && Nat.eqb b 154 && Nat.eqb d 128)   (* U+1680 *)
                           || (Nat.eqb a 226 && Nat.eqb b 128
                               && ((Nat.leb 128 d && Nat.leb d 138)            (* U+2000..U+200A *)
                                   || Nat.eqb d 168 || Nat.eqb d 169 || Nat.eqb d 175)) (* U+2028/9, U+202F *)
                           || (Nat.eqb a 226 && Nat.eqb b 129 && Nat.eqb d 159) (* U+205F *)
                           || (Nat.eqb a 227 && Nat.eqb b 128 && Nat.eqb d 128) (* U+3000 *)
                        then drop_ws r3
                        else s
                    | EmptyString => s
                    end
           | EmptyString => s
           end
  | EmptyString => s
  end.

Fixpoint rev_string_acc (s acc : string) : string :=
  match s with
  | EmptyString => acc
  | String c r => rev_string_acc r (String c acc)
  end.
Definition rev_string (s : string) : string := rev_string_acc s EmptyString.

(* the same white space, on the reversed byte string *)
Fixpoint drop_ws_rev (s : string) : string :=
  match s with
  | String c1 r1 =>
      if ascii_ws (code c1) then drop_ws_rev r1
      else match r1 with
           | String c2 r2 =>
               if Nat.eqb (code c2) 194 && (Nat.eqb (code c1) 133 || Nat.eqb (code c1) 160)
               then drop_ws_rev r2
               else match r2 with
                    | String c3 r3 =>
                        let a := code c3 in let b := code c2 in let d := code c1 in
                        if (Nat.eqb a 225 && Nat.eqb b 154 && Nat.eqb d 128)
                           || (Nat.eqb a 226 && Nat.eqb b 128
                               && ((Nat.leb 128 d && Nat.leb d 138)
                                   || Nat.eqb d 168 || Nat.eqb d 169 || Nat.eqb d 175))
                           || (Nat.eqb a 226 && Nat.eqb b 129 && Nat.eqb d 159)
                           || (Nat.eqb a 227 && Nat.eqb b 128 && Nat.eqb d 128)
                        then drop_ws_rev r3
                        else s
                    | EmptyString => s
                    end
           | EmptyString => s
           end
  | EmptyString => s
  end.

Definition trim (s : string) : string := rev_string (drop_ws_rev (rev_string (drop_ws s))).

(* strip_leading_zeros, first character already known to be '0'; `prev` is the character before s.
   None = reject *)
Fixpoint skip_zeros (prev : ascii) (s : string) : option string :=
  match s with
  | EmptyString => Some (String prev EmptyString)
  | String c r =>
      if Nat.eqb (code c) 48 || Nat.eqb (code c) 95 then skip_zeros c r
      else if is_nonzero_digit c || Nat.eqb (code c) 45 then Some s
      else if Nat.eqb (code c) 46 then Some (String prev s)
      else None
  end.

(* split at the first '.' *)
Fixpoint split_dot (s : string) : string * option string :=
  match s with
  | EmptyString => (EmptyString, None)
  | String c r =>
      if Nat.eqb (code c) 46 then (EmptyString, Some r)
      else let '(a, b) := split_dot r in (String c a, b)
  end.

Definition all_zero_nonempty (s : string) : bool :=
  match s with
  | EmptyString => false
  | _ => string_forallb (fun c => Nat.eqb (code c) 48) s
  end.

(* underscores only singly and between other characters; returns the text without them *)
Fixpoint strip_underscores_from (prev_us : bool) (s : string) : option string :=
  match s with
  | EmptyString => if prev_us then None else Some EmptyString
  | String c r =>
      if Nat.eqb (code c) 95
      then if prev_us then None else strip_underscores_from true r
      else match strip_underscores_from false r with
           | Some t => Some (String c t)
           | None => None
           end
  end.

Definition strip_underscores (s : string) : option string :=
  match s with
  | EmptyString => Some EmptyString
  | String c _ => if Nat.eqb (code c) 95 then None else strip_underscores_from false s
  end.

(* -?(0|[1-9][0-9]* ) *)
Definition plain_int (s : string) : bool :=
  let body := match s with
              | String c r => if Nat.eqb (code c) 45 then r else s
              | EmptyString => s
              end in
  match body with
  | EmptyString => false
  | String c r =>
      if Nat.eqb (code c) 48 then match r with EmptyString => true | _ => false end
      else is_nonzero_digit c && string_forallb is_digit r
  end.

Definition int_string (s0 : string) : bool :=
  let s := trim s0 in
  let '(neg, t) := match s with
                   | String c r => if Nat.eqb (code c) 45 then (true, r)
                                   else if Nat.eqb (code c) 43 then (false, r)
                                   else (false, s)
                   | EmptyString => (false, s)
                   end in
  match t with
  | EmptyString => false
  | String c r =>
      if negb (is_digit c) then false
      else
        match (if Nat.eqb (code c) 48 then skip_zeros c r else Some t) with
        | None => false
        | Some u =>
            let '(whole, frac) := split_dot u in
            match frac with
            | Some f => all_zero_nonempty f
            | None => true
            end
            && match strip_underscores whole with
               | None => false
               | Some w =>
                   let f := if neg then String "-" w else w in
                   plain_int f && Nat.leb (String.length f) 4300
               end
        end
  end.

(* ---------- OTelEvent(record as keyword arguments) ---------- *)

Definition is_string_value (o : option json) : bool :=
  match o with Some (JStr _) => true | _ => false end.

Definition is_int_value (o : option json) : bool :=
  match o with
  | Some (JNum _) => true
  | Some (JBool _) => true
  | Some (JStr s) => int_string s
  | _ => false
  end.

Definition is_optional_string_value (o : option json) : bool :=
  match o with Some JNull => true | Some (JStr _) => true | _ => false end.

Definition is_optional_string_list (o : option json) : bool :=
  match o with
  | None => true
  | Some JNull => true
  | Some (JArr l) => forallb (fun v => match v with JStr _ => true | _ => false end) l
  | _ => false
  end.

Definition valid (r : record) : bool :=
  is_string_value (assoc_lookup "job_name" r)
  && is_string_value (assoc_lookup "job_id" r)
  && is_string_value (assoc_lookup "event_type" r)
  && is_string_value (assoc_lookup "event_id" r)
  && is_int_value (assoc_lookup "start_timestamp" r)
  && is_int_value (assoc_lookup "end_timestamp" r)
  && is_string_value (assoc_lookup "application_name" r)
  && is_optional_string_value (assoc_lookup "parent_event_id" r)
  && is_optional_string_list (assoc_lookup "child_event_ids" r).

(* ---------- the pipeline ---------- *)

(* generate_records_from_compiled_jq on the outputs of the compiled program (always objects);
   None = the jq program raised (JQExtractionError), or produced something that is not an object *)
Fixpoint records_of_outputs (l : list json) : option (list record) :=
  match l with
  | [] => Some []
  | JObj r :: rest => match records_of_outputs rest with Some rs => Some (r :: rs) | None => None end
  | _ => None
  end.

Definition raw_records (m : mapping) (doc : json) : option (list record) :=
  let '(outs, failed) := eval [] (compile m) doc in
  if failed then None else records_of_outputs outs.

(* the OTelEvents (as the records they were built from) obtained from one document *)
Definition extract (m : mapping) (doc : json) : list record :=
  match raw_records m doc with
  | Some rs => filter valid rs
  | None => []
  end.

(* one JSON document per line *)
Definition extract_lines (m : mapping) (docs : list json) : list record :=
  flat_map (extract m) docs.
