(* NameProofs.v -- the jq variable names f"$out{f}" and f"$out{f}concat{i}{j}" are pairwise distinct as soon
   as every priority list has at most ten alternatives; hence the purely syntactic wf_mapping_syntactic
   implies wf_mapping. *)

From Coq Require Import List String Ascii Bool Arith Lia DecimalString Decimal DecimalNat.
From V Require Import Json.Json Json.Jq Json.Mapping Json.FlattenSpec Json.FlattenCode
  Json.JsonProofs Json.JqProofs Json.MappingProofs Json.CompileProofs.
Import ListNotations.
Open Scope string_scope.

(* ---------- digit strings ---------- *)

Definition digit (c : ascii) : bool :=
  Nat.leb 48 (nat_of_ascii c) && Nat.leb (nat_of_ascii c) 57.

Lemma string_of_uint_digits : forall d, string_forallb digit (NilEmpty.string_of_uint d) = true.
Proof. induction d; simpl; auto. Qed.

Lemma dec_nat_digits : forall n, string_forallb digit (dec_nat n) = true.
Proof. intro n. apply string_of_uint_digits. Qed.

Lemma string_forallb_app : forall p a b,
  string_forallb p (a ++ b) = string_forallb p a && string_forallb p b.
Proof.
  intros p a b. induction a as [|c a IH]; simpl.
  - reflexivity.
  - rewrite IH. rewrite andb_assoc. reflexivity.
Qed.

Lemma string_app_assoc : forall a b c : string, (a ++ b) ++ c = a ++ (b ++ c).
Proof. induction a as [|x a IH]; intros b c; simpl; [reflexivity|]. rewrite IH. reflexivity. Qed.

(* two digit strings followed by a non-digit *)
Lemma digits_split : forall s1 s2 c1 c2 r1 r2,
  string_forallb digit s1 = true -> string_forallb digit s2 = true ->
  digit c1 = false -> digit c2 = false ->
  s1 ++ String c1 r1 = s2 ++ String c2 r2 -> s1 = s2 /\ r1 = r2.
Proof.
  induction s1 as [|a s1 IH]; intros s2 c1 c2 r1 r2 H1 H2 Hc1 Hc2 H.
  - destruct s2 as [|b s2]; simpl in H.
    + injection H as Hc Hr. auto.
    + injection H as Hc Hr. subst. simpl in H2. rewrite Hc1 in H2. discriminate.
  - destruct s2 as [|b s2]; simpl in H.
    + injection H as Hc Hr. subst. simpl in H1. rewrite Hc2 in H1. discriminate.
    + injection H as Hab Hrest. subst. simpl in H1, H2.
      apply andb_true_iff in H1. destruct H1 as [_ H1]. apply andb_true_iff in H2. destruct H2 as [_ H2].
      destruct (IH s2 c1 c2 r1 r2 H1 H2 Hc1 Hc2 Hrest) as [E1 E2]. subst. auto.
Qed.

Lemma string_snoc_inj : forall s1 s2 c1 c2,
  s1 ++ String c1 "" = s2 ++ String c2 "" -> s1 = s2 /\ c1 = c2.
Proof.
  induction s1 as [|a s1 IH]; intros s2 c1 c2 H.
  - destruct s2 as [|b s2]; simpl in H.
    + injection H as Hc. auto.
    + injection H as Hc Hr. destruct s2; discriminate.
  - destruct s2 as [|b s2]; simpl in H.
    + injection H as Hc Hr. destruct s1; discriminate.
    + injection H as Hab Hrest. destruct (IH s2 c1 c2 Hrest) as [E1 E2]. subst. auto.
Qed.

Lemma dec_nat_small : forall j, j < 10 -> exists c, dec_nat j = String c "".
Proof.
  intros j H. do 10 (destruct j as [|j]; [eexists; reflexivity|]). lia.
Qed.

(* ---------- the names ---------- *)

Lemma out_name_inj : forall f g, out_name f = out_name g -> f = g.
Proof.
  intros f g H. unfold out_name in H. apply string_app_inj_l in H. apply dec_nat_inj. exact H.
Qed.

Lemma concat_name_eq : forall f i j,
  concat_name (out_name f) i j = "out" ++ (dec_nat f ++ String "c" ("oncat" ++ (dec_nat i ++ dec_nat j))).
Proof.
  intros. unfold concat_name, out_name. rewrite string_app_assoc. reflexivity.
Qed.

Lemma out_not_concat : forall f g i j, out_name f <> concat_name (out_name g) i j.
Proof.
  intros f g i j H. rewrite concat_name_eq in H. unfold out_name in H. apply string_app_inj_l in H.
  assert (Hd : string_forallb digit (dec_nat f) = true) by apply dec_nat_digits.
  rewrite H in Hd. rewrite string_forallb_app in Hd. apply andb_true_iff in Hd. destruct Hd as [_ Hd].
  simpl in Hd. discriminate.
Qed.

Lemma concat_name_inj : forall f g i j i' j',
  j < 10 -> j' < 10 ->
  concat_name (out_name f) i j = concat_name (out_name g) i' j' -> f = g /\ i = i' /\ j = j'.
Proof.
  intros f g i j i' j' Hj Hj' H. rewrite !concat_name_eq in H. apply string_app_inj_l in H.
  destruct (digits_split (dec_nat f) (dec_nat g) "c"%char "c"%char _ _ (dec_nat_digits f) (dec_nat_digits g) eq_refl eq_refl H) as [Hfg Hrest].
  apply dec_nat_inj in Hfg. apply string_app_inj_l in Hrest.
  destruct (dec_nat_small j Hj) as [c Hc]. destruct (dec_nat_small j' Hj') as [c' Hc'].
  rewrite Hc, Hc' in Hrest. destruct (string_snoc_inj _ _ _ _ Hrest) as [Hi Hcc].
  apply dec_nat_inj in Hi. split; [exact Hfg|]. split; [exact Hi|].
  apply dec_nat_inj. rewrite Hc, Hc'. rewrite Hcc. reflexivity.
Qed.

(* ---------- NoDup of the bound names ---------- *)

Lemma names_alt_in : forall out i alts j n,
  In n (map snd (alt_binders out i j alts)) ->
  exists j', j <= j' < j + List.length alts /\ n = concat_name out i j'.
Proof.
  intros out i alts. induction alts as [|ua r IH]; intros j n H; simpl in H.
  - contradiction.
  - destruct H as [H|H].
    + exists j. split; [simpl; lia|auto].
    + destruct (IH (S j) n H) as [j' [Hr Hn]]. exists j'. split; [simpl; lia|exact Hn].
Qed.

Lemma nodup_alt_names : forall f i alts j,
  j + List.length alts <= 10 -> NoDup (map snd (alt_binders (out_name f) i j alts)).
Proof.
  intros f i alts. induction alts as [|ua r IH]; intros j Hlen; simpl.
  - constructor.
  - simpl in Hlen. constructor.
    + intro Hin. destruct (names_alt_in _ _ _ _ _ Hin) as [j' [Hr Hn]].
      apply concat_name_inj in Hn; [|lia|lia]. lia.
    + apply IH. lia.
Qed.

Definition short_comps (comps : list (list ualt)) : Prop :=
  Forall (fun c => List.length c <= 10) comps.

Lemma names_comp_in : forall out comps i n,
  short_comps comps ->
  In n (map snd (comp_binders out i comps)) ->
  exists i' j', i <= i' /\ j' < 10 /\ n = concat_name out i' j'.
Proof.
  intros out comps. induction comps as [|c r IH]; intros i n Hs H; simpl in H.
  - contradiction.
  - inversion Hs as [|? ? Hc Hr]; subst. rewrite map_app in H. apply in_app_or in H. destruct H as [H|H].
    + destruct (names_alt_in _ _ _ _ _ H) as [j' [Hj Hn]]. exists i, j'. repeat split; [lia|lia|exact Hn].
    + destruct (IH (S i) n Hr H) as [i' [j' [Hi [Hj Hn]]]]. exists i', j'. repeat split; [lia|exact Hj|exact Hn].
Qed.

Lemma NoDup_app_intro : forall (A : Type) (l1 l2 : list A),
  NoDup l1 -> NoDup l2 -> (forall x, In x l1 -> In x l2 -> False) -> NoDup (l1 ++ l2).
Proof.
  intros A l1 l2 H1 H2 Hd. induction l1 as [|x l1 IH]; simpl.
  - exact H2.
  - inversion H1 as [|? ? Hx H1']; subst. constructor.
    + intro Hin. apply in_app_or in Hin. destruct Hin as [Hin|Hin]; [contradiction|].
      apply (Hd x); [left; reflexivity|exact Hin].
    + apply IH; [exact H1'|]. intros y Hy1 Hy2. apply (Hd y); [right; exact Hy1|exact Hy2].
Qed.

Lemma nodup_comp_names : forall f comps i,
  short_comps comps -> NoDup (map snd (comp_binders (out_name f) i comps)).
Proof.
  intros f comps. induction comps as [|c r IH]; intros i Hs; simpl.
  - constructor.
  - inversion Hs as [|? ? Hc Hr]; subst. rewrite map_app. apply NoDup_app_intro.
    + apply nodup_alt_names. simpl. exact Hc.
    + apply IH. exact Hr.
    + intros n H1 H2. destruct (names_alt_in _ _ _ _ _ H1) as [j1 [Hj1 Hn1]].
      destruct (names_comp_in _ _ _ _ Hr H2) as [i2 [j2 [Hi2 [Hj2 Hn2]]]].
      rewrite Hn1 in Hn2. apply concat_name_inj in Hn2; [|lia|lia]. lia.
Qed.

Definition short_fields (um : umapping) : Prop :=
  Forall (fun nuf => short_comps (ufs_comps (snd nuf))) um.

(* every name bound for the fields from index f on belongs to a field with index >= f *)
Lemma names_field_in : forall um f n,
  short_fields um ->
  In n (map snd (field_binders f um)) ->
  exists g, f <= g /\ (n = out_name g \/ exists i j, j < 10 /\ n = concat_name (out_name g) i j).
Proof.
  induction um as [|[name uf] r IH]; intros f n Hs H; simpl in H.
  - contradiction.
  - inversion Hs as [|? ? Hc Hr]; subst. simpl in Hc.
    rewrite map_app in H. apply in_app_or in H. destruct H as [H|H].
    + unfold get_jq_for_field_spec in H. rewrite map_app in H. apply in_app_or in H. destruct H as [H|H].
      * destruct (names_comp_in _ _ _ _ Hc H) as [i' [j' [_ [Hj Hn]]]].
        exists f. split; [lia|]. right. exists i', j'. auto.
      * simpl in H. destruct H as [H|[]]. exists f. split; [lia|]. left. auto.
    + destruct (IH (S f) n Hr H) as [g [Hg Hn]]. exists g. split; [lia|exact Hn].
Qed.

Lemma nodup_field_names : forall um f,
  short_fields um -> NoDup (map snd (field_binders f um)).
Proof.
  induction um as [|[name uf] r IH]; intros f Hs; simpl.
  - constructor.
  - inversion Hs as [|? ? Hc Hr]; subst. simpl in Hc. rewrite map_app. apply NoDup_app_intro.
    + unfold get_jq_for_field_spec. rewrite map_app. simpl. apply NoDup_app_singleton.
      * apply nodup_comp_names. exact Hc.
      * intro Hin. destruct (names_comp_in _ _ _ _ Hc Hin) as [i' [j' [_ [_ Hn]]]].
        revert Hn. apply out_not_concat.
    + apply IH. exact Hr.
    + intros n H1 H2.
      destruct (names_field_in r (S f) n Hr H2) as [g [Hg Hn2]].
      unfold get_jq_for_field_spec in H1. rewrite map_app in H1. apply in_app_or in H1.
      destruct H1 as [H1|H1].
      * destruct (names_comp_in _ _ _ _ Hc H1) as [i1 [j1 [_ [Hj1 Hn1]]]].
        destruct Hn2 as [Hn2|[i2 [j2 [Hj2 Hn2]]]].
        -- rewrite Hn1 in Hn2. symmetry in Hn2. revert Hn2. apply out_not_concat.
        -- rewrite Hn1 in Hn2. apply concat_name_inj in Hn2; [|lia|lia]. lia.
      * simpl in H1. destruct H1 as [H1|[]]. subst n.
        destruct Hn2 as [Hn2|[i2 [j2 [Hj2 Hn2]]]].
        -- apply out_name_inj in Hn2. lia.
        -- revert Hn2. apply out_not_concat.
Qed.

(* ---------- from the mapping to the updated mapping ---------- *)

Lemma nodupb_true : forall l, NoDup l -> nodupb l = true.
Proof.
  induction l as [|x l IH]; intro H; simpl.
  - reflexivity.
  - inversion H as [|? ? Hx Hnd]; subst. rewrite (IH Hnd). rewrite andb_true_r.
    apply negb_true_iff. destruct (existsb (String.eqb x) l) eqn:E; [|reflexivity].
    apply existsb_exists in E. destruct E as [y [Hy Heq]]. apply String.eqb_eq in Heq. subst y. contradiction.
Qed.

Lemma Forall2_same_length : forall (A B : Type) (R : A -> B -> Prop) l1 l2,
  Forall2 R l1 l2 -> List.length l1 = List.length l2.
Proof. intros A B R l1 l2 H. induction H; simpl; [reflexivity|]. rewrite IHForall2. reflexivity. Qed.

Lemma short_fields_of : forall root um m,
  Forall2 (field_ok root) um m -> few_alternatives m = true -> short_fields um.
Proof.
  intros root um m H Hf. induction H as [|[n uf] [n' fs] um m [_ [_ Hc]] Hrest IH].
  - constructor.
  - simpl in Hf. apply andb_true_iff in Hf. destruct Hf as [Hf1 Hf2]. constructor; [|apply IH; exact Hf2].
    simpl in *. clear IH Hrest Hf2. induction Hc as [|uc c ucs cs Huc Hrest IH].
    + constructor.
    + simpl in Hf1. apply andb_true_iff in Hf1. destruct Hf1 as [Hl Hf1]. constructor; [|apply IH; exact Hf1].
      apply Nat.leb_le in Hl. rewrite (Forall2_same_length _ _ _ _ _ Huc). exact Hl.
Qed.

Theorem wf_syntactic_wf : forall m, wf_mapping_syntactic m = true -> wf_mapping m = true.
Proof.
  intros m H. unfold wf_mapping_syntactic in H. apply andb_true_iff in H. destruct H as [Hf Hfew].
  unfold wf_mapping. rewrite Hf. simpl. unfold binder_names.
  destruct (update_field_specs_with_variables m) as [root um] eqn:E.
  destruct (update_field_specs_sound m root um E) as [_ [_ [Hok _]]].
  apply nodupb_true. unfold get_jq_using_field_mapping. simpl fst.
  apply nodup_field_names. eapply short_fields_of; eassumption.
Qed.

Theorem compile_exact_syntactic : forall m doc,
  wf_mapping_syntactic m = true ->
  eval [] (compile m) doc = ok (map record_to_json (flatten_code m doc)).
Proof. intros m doc H. apply compile_exact. apply wf_syntactic_wf. exact H. Qed.
