(* JqProofs.v -- lemmas about the evaluator: the stream monad, `as` chains in continuation form. *)

From Coq Require Import ZArith List String Ascii Bool Arith Lia.
From V Require Import Json.Json Json.Jq Json.JsonProofs.
Import ListNotations.
Open Scope string_scope.

(* ---------- bind ---------- *)

Lemma bind_ok_single : forall y f, bind (ok [y]) f = f y.
Proof.
  intros y f. unfold bind, ok. simpl. destruct (f y) as [o e]. destruct e; simpl.
  - reflexivity.
  - rewrite app_nil_r. reflexivity.
Qed.

Lemma bind_err : forall f, bind err f = err.
Proof. intro f. reflexivity. Qed.

Lemma bind_ok_nil : forall f, bind (ok []) f = ok [].
Proof. intro f. reflexivity. Qed.

Lemma bind_list_all_ok : forall l f g,
  (forall y, In y l -> f y = ok (g y)) -> bind_list l f = (flat_map g l, false).
Proof.
  induction l as [|y l IH]; intros f g H; simpl.
  - reflexivity.
  - rewrite (H y) by (left; reflexivity). unfold ok.
    rewrite (IH f g) by (intros z Hz; apply H; right; assumption). reflexivity.
Qed.

Lemma bind_ok_all : forall l f g,
  (forall y, In y l -> f y = ok (g y)) -> bind (ok l) f = ok (flat_map g l).
Proof.
  intros l f g H. unfold bind, ok. rewrite (bind_list_all_ok l f g H). reflexivity.
Qed.

Lemma bind_list_ext : forall l f g, (forall y, f y = g y) -> bind_list l f = bind_list l g.
Proof.
  induction l as [|y l IH]; intros f g H; simpl.
  - reflexivity.
  - rewrite (H y). rewrite (IH f g H). reflexivity.
Qed.

Lemma bind_ext : forall r f g, (forall y, f y = g y) -> bind r f = bind r g.
Proof.
  intros [l e] f g H. unfold bind. rewrite (bind_list_ext l f g H). reflexivity.
Qed.

Lemma bind_of_opt : forall o f,
  bind (of_opt o) f = match o with Some v => f v | None => err end.
Proof.
  intros [v|] f.
  - apply bind_ok_single.
  - reflexivity.
Qed.

(* ---------- evaluation equations (all by computation) ---------- *)

Lemma eval_paren : forall rho e x, eval rho (QParen e) x = eval rho e x.
Proof. reflexivity. Qed.

Lemma eval_pipe : forall rho a b x,
  eval rho (QPipe a b) x = bind (eval rho a x) (fun y => eval rho b y).
Proof. reflexivity. Qed.

Lemma eval_as : forall rho e v body x,
  eval rho (QAs e v body) x = bind (eval rho e x) (fun y => eval ((v, y) :: rho) body x).
Proof. reflexivity. Qed.

Lemma eval_field : forall rho e k x,
  eval rho (QField e k) x = bind (eval rho e x) (fun y => of_opt (index y k)).
Proof. reflexivity. Qed.

Lemma eval_eq_null : forall rho y, eval rho (QEq QId QNull) y = ok [JBool (is_null y)].
Proof.
  intros rho y. cbn [eval]. rewrite bind_ok_single. rewrite bind_ok_single.
  rewrite json_eqb_null_r. reflexivity.
Qed.

(* ---------- `E1 as $v1 | E2 as $v2 | ... | final` in continuation form ---------- *)

Fixpoint chain (x : json) (bs : list (jq * string)) (k : env -> res) (rho : env) : res :=
  match bs with
  | [] => k rho
  | (e, v) :: r => bind (eval rho e x) (fun y => chain x r k ((v, y) :: rho))
  end.

Lemma chain_ext : forall x bs k k' rho,
  (forall rho', k rho' = k' rho') -> chain x bs k rho = chain x bs k' rho.
Proof.
  intros x bs. induction bs as [|[e v] bs IH]; intros k k' rho H; simpl.
  - apply H.
  - apply bind_ext. intro y. apply IH. exact H.
Qed.

Lemma chain_app : forall x b1 b2 k rho,
  chain x (b1 ++ b2) k rho = chain x b1 (chain x b2 k) rho.
Proof.
  intros x b1. induction b1 as [|[e v] b1 IH]; intros b2 k rho; simpl.
  - reflexivity.
  - apply bind_ext. intro y. apply IH.
Qed.

(* a chain all of whose binders produce exactly one value *)
Inductive det_chain (x : json) : list (jq * string) -> env -> env -> Prop :=
| det_nil : forall rho, det_chain x [] rho rho
| det_cons : forall e v bs rho rho' y,
    eval rho e x = ok [y] ->
    det_chain x bs ((v, y) :: rho) rho' ->
    det_chain x ((e, v) :: bs) rho rho'.

Lemma det_chain_run : forall x bs rho rho' k,
  det_chain x bs rho rho' -> chain x bs k rho = k rho'.
Proof.
  intros x bs rho rho' k H. induction H as [rho|e v bs rho rho' y He Hd IH]; simpl.
  - reflexivity.
  - rewrite He. rewrite bind_ok_single. exact IH.
Qed.

Lemma det_chain_app : forall x b1 b2 rho rho1 rho2,
  det_chain x b1 rho rho1 -> det_chain x b2 rho1 rho2 -> det_chain x (b1 ++ b2) rho rho2.
Proof.
  intros x b1 b2 rho rho1 rho2 H1 H2. induction H1 as [rho|e v bs rho rho' y He Hd IH]; simpl.
  - exact H2.
  - eapply det_cons; [exact He|]. apply IH. exact H2.
Qed.

(* ---------- environments ---------- *)

Lemma lookup_pushed : forall (bnds : list (string * json)) rho n v,
  NoDup (map fst bnds) -> In (n, v) bnds -> assoc_lookup n (rev bnds ++ rho) = Some v.
Proof.
  intros bnds rho n v Hnd Hin.
  assert (Hl : assoc_lookup n (rev bnds) = Some v).
  { apply assoc_lookup_in_nodup.
    - rewrite map_rev. apply NoDup_rev. exact Hnd.
    - rewrite <- in_rev. exact Hin. }
  clear Hnd Hin. revert Hl. generalize (rev bnds) as l. induction l as [|[k' v'] l IH]; simpl; intro Hl.
  - discriminate.
  - destruct (String.eqb n k'); [exact Hl|]. apply IH. exact Hl.
Qed.

Lemma lookup_skip_pushed : forall (bnds : list (string * json)) rho n,
  ~ In n (map fst bnds) -> assoc_lookup n (rev bnds ++ rho) = assoc_lookup n rho.
Proof.
  intros bnds rho n Hn. apply assoc_lookup_app_none. apply assoc_lookup_none_notin.
  rewrite map_rev. intro H. rewrite <- in_rev in H. contradiction.
Qed.
