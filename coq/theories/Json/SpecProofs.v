(* SpecProofs.v -- the compiled program against the DOCUMENTED semantics:
   agreement on regular inputs, refutation witnesses elsewhere, and locality of the skipping. *)

From Coq Require Import ZArith List String Ascii Bool Arith Lia.
From V Require Import Json.Json Json.Jq Json.JqPrint Json.Mapping Json.FlattenSpec Json.FlattenCode
  Json.OtelRecord Json.JsonProofs Json.JqProofs Json.MappingProofs Json.CompileProofs.
Import ListNotations.
Open Scope string_scope.

(* ---------- priority lists ---------- *)

Lemma truthy_not_false : forall v, is_false v = false -> truthy v = negb (is_null v).
Proof. intros v H. destruct v as [| [|] | | | |]; try reflexivity. discriminate. Qed.

Lemma pick_agree_nofalse : forall l,
  forallb (fun v => negb (is_false v)) l = true -> pick_code l = pick_doc l.
Proof.
  induction l as [|v r IH]; intro H.
  - reflexivity.
  - simpl in H. apply andb_true_iff in H. destruct H as [Hv Hr]. apply negb_true_iff in Hv.
    destruct r as [|v2 r2].
    + simpl. destruct (is_null v) eqn:E; [destruct v; try discriminate; reflexivity|reflexivity].
    + change (pick_code (v :: v2 :: r2)) with (if truthy v then v else pick_code (v2 :: r2)).
      change (pick_doc (v :: v2 :: r2)) with (if is_null v then pick_doc (v2 :: r2) else v).
      rewrite (truthy_not_false v Hv). rewrite (IH Hr). destruct (is_null v); reflexivity.
Qed.

Lemma pick_agree_single : forall l, List.length l <= 1 -> pick_code l = pick_doc l.
Proof.
  intros [|v [|v2 r]] H.
  - reflexivity.
  - simpl. destruct v; reflexivity.
  - simpl in H. lia.
Qed.

(* ---------- key/value lookup ---------- *)

Lemma last_cons_default : forall (A : Type) (x d : A) (r : list A), last (x :: r) d = last r x.
Proof.
  intros A x d r. revert x d. induction r as [|y r IH]; intros x d.
  - reflexivity.
  - change (last (x :: y :: r) d) with (last (y :: r) d). rewrite (IH y d). rewrite (IH y x). reflexivity.
Qed.

Definition elem_regular (kseg vseg : segment) (e : json) : bool :=
  match get_path kseg e with
  | Some k => if truthy k
              then is_str k && match get_path vseg e with Some _ => true | None => false end
              else true
  | None => true
  end.

Lemma kv_agree_list : forall kseg kv vseg l,
  forallb (elem_regular kseg vseg) l = true ->
  exists ps, kv_pairs kseg vseg l = Some ps /\
    forall acc, fold_left (fun acc p => if String.eqb (fst p) kv then snd p else acc) ps acc
                = match filter (key_matches kseg kv) l with
                  | [] => acc
                  | e :: r => get_or_null vseg (last r e)
                  end.
Proof.
  intros kseg kv vseg l. induction l as [|e l IH]; intro H.
  - exists []. split; [reflexivity|]. intro acc. reflexivity.
  - simpl in H. apply andb_true_iff in H. destruct H as [He Hl].
    destruct (IH Hl) as [ps [Hps Hfold]]. unfold elem_regular in He.
    simpl kv_pairs. simpl filter. unfold key_matches at 1.
    destruct (get_path kseg e) as [k|] eqn:Ek.
    + destruct (truthy k) eqn:Et.
      * apply andb_true_iff in He. destruct He as [Hstr Hv].
        destruct k as [| | |sk| |]; try discriminate.
        destruct (get_path vseg e) as [v|] eqn:Ev; [|discriminate].
        rewrite Hps. exists ((sk, v) :: ps). split; [reflexivity|]. intro acc. simpl fold_left.
        rewrite Hfold. destruct (String.eqb sk kv).
        -- destruct (filter (key_matches kseg kv) l) as [|e2 r].
           ++ simpl. unfold get_or_null. rewrite Ev. reflexivity.
           ++ rewrite last_cons_default. reflexivity.
        -- reflexivity.
      * exists ps. split; [exact Hps|]. intro acc. rewrite Hfold.
        destruct k as [| [|] | | | |]; try discriminate; reflexivity.
    + exists ps. split; [exact Hps|]. intro acc. rewrite Hfold. reflexivity.
Qed.

Lemma kv_agree : forall kseg kv vseg arr,
  attrs_regular kseg vseg arr = true ->
  kv_lookup_code kseg kv vseg arr = kv_lookup_doc kseg kv vseg arr.
Proof.
  intros kseg kv vseg arr H. unfold attrs_regular in H. unfold kv_lookup_code, kv_lookup_doc.
  destruct (elements arr) as [l|]; [|reflexivity].
  destruct (kv_agree_list kseg kv vseg l H) as [ps [Hps Hfold]].
  rewrite Hps. unfold last_value. apply Hfold.
Qed.

(* ---------- values, records ---------- *)

Lemma alt_agree : forall s a,
  alt_regular s a = true -> alt_value code_sem s a = alt_value doc_sem s a.
Proof.
  intros s a H. unfold alt_regular in H. unfold alt_value.
  destruct (a_key_value a) as [kv|]; [|reflexivity].
  simpl kv_lookup. apply kv_agree. exact H.
Qed.

Lemma comp_agree : forall s c,
  comp_regular s c = true -> component_value code_sem s c = component_value doc_sem s c.
Proof.
  intros s c H. unfold comp_regular in H. apply andb_true_iff in H. destruct H as [Halts Hpick].
  unfold component_value. simpl pick.
  assert (Hmap : map (alt_value code_sem s) c = map (alt_value doc_sem s) c).
  { apply map_ext_in. intros a Hin. apply alt_agree. rewrite forallb_forall in Halts. apply Halts. exact Hin. }
  rewrite <- Hmap. apply orb_true_iff in Hpick. destruct Hpick as [Hlen|Hnf].
  - apply pick_agree_single. rewrite map_length. apply Nat.leb_le. exact Hlen.
  - apply pick_agree_nofalse. rewrite forallb_forall in Hnf. rewrite forallb_forall.
    intros v Hv. apply in_map_iff in Hv. destruct Hv as [a [Ha Hin]]. subst v. apply Hnf. exact Hin.
Qed.

Lemma field_agree : forall s fs,
  forallb (comp_regular s) (fs_comps fs) = true ->
  field_value code_sem s fs = field_value doc_sem s fs.
Proof.
  intros s fs H. unfold field_value.
  assert (Hmap : map (component_value code_sem s) (fs_comps fs) = map (component_value doc_sem s) (fs_comps fs)).
  { apply map_ext_in. intros c Hin. apply comp_agree. rewrite forallb_forall in H. apply H. exact Hin. }
  rewrite Hmap. reflexivity.
Qed.

Theorem regular_agree : forall m doc,
  regular m doc = true -> flatten_code m doc = flatten_spec m doc.
Proof.
  intros m doc H. unfold flatten_code, flatten_spec, flatten_gen. unfold regular in H.
  apply map_ext_in. intros s Hs. rewrite forallb_forall in H. specialize (H s Hs).
  unfold record_of. apply map_ext_in. intros nf Hnf. f_equal. apply field_agree.
  rewrite forallb_forall in H. apply H. exact Hnf.
Qed.

Lemma simple_regular : forall m doc, simple_mapping m = true -> regular m doc = true.
Proof.
  intros m doc H. unfold regular. apply forallb_forall. intros s _. apply forallb_forall. intros nf Hnf.
  unfold simple_mapping in H. rewrite forallb_forall in H. specialize (H nf Hnf).
  apply forallb_forall. intros c Hc. rewrite forallb_forall in H. specialize (H c Hc).
  apply andb_true_iff in H. destruct H as [Hlen Hnokv].
  unfold comp_regular. rewrite Hlen. rewrite orb_true_l. rewrite andb_true_r.
  apply forallb_forall. intros a Ha. rewrite forallb_forall in Hnokv. specialize (Hnokv a Ha).
  unfold alt_regular. destruct (a_key_value a); [discriminate|reflexivity].
Qed.

(* ---------- the main statements ---------- *)

(* compile_correct, on the inputs where the code follows the documentation *)
Theorem compile_correct_partial : forall m doc,
  wf_mapping m = true -> regular m doc = true ->
  eval [] (compile m) doc = ok (map record_to_json (flatten_spec m doc)).
Proof.
  intros m doc Hwf Hreg. rewrite (compile_exact m doc Hwf). rewrite (regular_agree m doc Hreg). reflexivity.
Qed.

(* for mappings without key_value lookups and without priority lists: EVERY document *)
Theorem compile_correct_simple : forall m,
  wf_mapping m = true -> simple_mapping m = true ->
  forall doc, eval [] (compile m) doc = ok (map record_to_json (flatten_spec m doc)).
Proof.
  intros m Hwf Hs doc. apply compile_correct_partial; [exact Hwf|]. apply simple_regular. exact Hs.
Qed.

(* ---------- compile_correct is FALSE in general: three independent witnesses ---------- *)

Definition direct (p : list segment) : alt := mkAlt p None None.

(* (1) fallback priority: a `false` value is "found" according to the documentation, but `//` skips it *)
Definition m_false : mapping :=
  [("event_type", mkFieldSpec [[direct [["a"]]; direct [["b"]]]] VString)].
Definition doc_false : json := JObj [("a", JBool false); ("b", JStr "x")].

Lemma m_false_results :
  wf_mapping m_false = true
  /\ eval [] (compile m_false) doc_false = ok [JObj [("event_type", JStr "x")]]
  /\ flatten_spec m_false doc_false = [[("event_type", JStr "false")]].
Proof. vm_compute. auto. Qed.

(* (2) key/value lookup: another attribute with a non-string key makes the whole lookup null *)
Definition m_kv : mapping :=
  [("job_name", mkFieldSpec [[mkAlt [["attrs"]; ["key"]] (Some "service.name") (Some ["value"])]] VString)].
Definition doc_kv_key : json :=
  JObj [("attrs", JArr [JObj [("key", JStr "service.name"); ("value", JStr "Frontend")];
                        JObj [("key", JNum 5); ("value", JStr "other")]])].

Lemma m_kv_key_results :
  wf_mapping m_kv = true
  /\ eval [] (compile m_kv) doc_kv_key = ok [JObj [("job_name", JNull)]]
  /\ flatten_spec m_kv doc_kv_key = [[("job_name", JStr "Frontend")]].
Proof. vm_compute. auto. Qed.

(* (3) key/value lookup: another attribute whose value path cannot be followed does the same *)
Definition m_kv2 : mapping :=
  [("job_name", mkFieldSpec [[mkAlt [["attrs"]; ["key"]] (Some "service.name")
                                    (Some ["value"; "StringValue"])]] VString)].
Definition doc_kv_val : json :=
  JObj [("attrs", JArr [JObj [("key", JStr "service.name"); ("value", JObj [("StringValue", JStr "Frontend")])];
                        JObj [("key", JStr "other"); ("value", JStr "plain")]])].

Lemma m_kv_val_results :
  wf_mapping m_kv2 = true
  /\ eval [] (compile m_kv2) doc_kv_val = ok [JObj [("job_name", JNull)]]
  /\ flatten_spec m_kv2 doc_kv_val = [[("job_name", JStr "Frontend")]].
Proof. vm_compute. auto. Qed.

Theorem compile_correct_refuted :
  exists m doc, wf_mapping m = true
                /\ eval [] (compile m) doc <> ok (map record_to_json (flatten_spec m doc)).
Proof.
  exists m_false, doc_false. split; [vm_compute; reflexivity|]. vm_compute. intro H. discriminate.
Qed.

Theorem compile_correct_refuted_kv_key :
  exists m doc, wf_mapping m = true
                /\ eval [] (compile m) doc <> ok (map record_to_json (flatten_spec m doc)).
Proof.
  exists m_kv, doc_kv_key. split; [vm_compute; reflexivity|]. vm_compute. intro H. discriminate.
Qed.

Theorem compile_correct_refuted_kv_value :
  exists m doc, wf_mapping m = true
                /\ eval [] (compile m) doc <> ok (map record_to_json (flatten_spec m doc)).
Proof.
  exists m_kv2, doc_kv_val. split; [vm_compute; reflexivity|]. vm_compute. intro H. discriminate.
Qed.

(* (4) outside wf_mapping: f"{out_var}concat{i}{j}" is ambiguous once i or j has two digits --
   component 1 / alternative 10 and component 11 / alternative 0 share the variable $out0concat110,
   and the later binding wins.  Here even the exact semantics (flatten_code) is missed. *)
Definition m_collide : mapping :=
  [("f", mkFieldSpec
           ([[direct [["c0"]]];
             map (fun k => direct [[k]]) ["p0"; "p1"; "p2"; "p3"; "p4"; "p5"; "p6"; "p7"; "p8"; "p9"; "p10"]]
            ++ map (fun k => [direct [[k]]]) ["c2"; "c3"; "c4"; "c5"; "c6"; "c7"; "c8"; "c9"; "c10"; "c11"])%list
           VString)].
Definition doc_collide : json :=
  JObj [("c0", JStr "0"); ("p10", JStr "right");
        ("c2", JStr "2"); ("c3", JStr "3"); ("c4", JStr "4"); ("c5", JStr "5"); ("c6", JStr "6");
        ("c7", JStr "7"); ("c8", JStr "8"); ("c9", JStr "9"); ("c10", JStr "10"); ("c11", JStr "wrong")].

Theorem name_collision_refuted :
  wf_mapping m_collide = false
  /\ eval [] (compile m_collide) doc_collide = ok [JObj [("f", JStr "0_wrong_2_3_4_5_6_7_8_9_10_wrong")]]
  /\ flatten_code m_collide doc_collide = [[("f", JStr "0_right_2_3_4_5_6_7_8_9_10_wrong")]].
Proof. vm_compute. auto. Qed.

(* ---------- extraction and skipping ---------- *)

Lemma records_of_outputs_map : forall rs, records_of_outputs (map record_to_json rs) = Some rs.
Proof.
  induction rs as [|r rs IH]; simpl.
  - reflexivity.
  - rewrite IH. reflexivity.
Qed.

Theorem raw_records_exact : forall m doc,
  wf_mapping m = true -> raw_records m doc = Some (flatten_code m doc).
Proof.
  intros m doc Hwf. unfold raw_records. rewrite (compile_exact m doc Hwf). unfold ok.
  apply records_of_outputs_map.
Qed.

(* the jq program never fails on a well-formed mapping, whatever the document *)
Theorem extraction_total : forall m doc,
  wf_mapping m = true -> snd (eval [] (compile m) doc) = false.
Proof. intros m doc Hwf. rewrite (compile_exact m doc Hwf). reflexivity. Qed.

Theorem extract_exact : forall m doc,
  wf_mapping m = true -> extract m doc = filter valid (flatten_code m doc).
Proof. intros m doc Hwf. unfold extract. rewrite (raw_records_exact m doc Hwf). reflexivity. Qed.

Theorem extract_spec : forall m doc,
  wf_mapping m = true -> regular m doc = true -> extract m doc = filter valid (flatten_spec m doc).
Proof.
  intros m doc Hwf Hreg. rewrite (extract_exact m doc Hwf). rewrite (regular_agree m doc Hreg). reflexivity.
Qed.

Theorem extract_lines_concat : forall m docs,
  extract_lines m docs = List.concat (map (extract m) docs).
Proof. intros m docs. unfold extract_lines. apply flat_map_concat_map. Qed.

Lemma filter_concat : forall (A : Type) (p : A -> bool) (ls : list (list A)),
  filter p (List.concat ls) = List.concat (map (filter p) ls).
Proof.
  intros A p ls. induction ls as [|l ls IH]; simpl.
  - reflexivity.
  - rewrite filter_app. rewrite IH. reflexivity.
Qed.

(* an invalid record is dropped and nothing else changes *)
Lemma skip_invalid : forall (l1 l2 : list record) r,
  valid r = false -> filter valid (l1 ++ r :: l2) = filter valid (l1 ++ l2).
Proof.
  intros l1 l2 r H. rewrite !filter_app. simpl. rewrite H. reflexivity.
Qed.

(* skipping is local: filtering the records of all documents together is the same as
   filtering per document, in whole-file (one document) and one-JSON-per-line mode alike *)
Theorem skip_local : forall m docs,
  wf_mapping m = true ->
  extract_lines m docs = filter valid (List.concat (map (flatten_code m) docs))
  /\ extract_lines m docs = List.concat (map (extract m) docs)
  /\ (forall doc, extract_lines m [doc] = extract m doc).
Proof.
  intros m docs Hwf. split; [|split].
  - rewrite extract_lines_concat. rewrite filter_concat. rewrite map_map. f_equal.
    apply map_ext. intro doc. apply extract_exact. exact Hwf.
  - apply extract_lines_concat.
  - intro doc. unfold extract_lines. simpl. apply app_nil_r.
Qed.

Theorem skip_local_spec : forall m docs,
  wf_mapping m = true -> forallb (regular m) docs = true ->
  extract_lines m docs = filter valid (List.concat (map (flatten_spec m) docs)).
Proof.
  intros m docs Hwf Hreg. destruct (skip_local m docs Hwf) as [H _]. rewrite H. f_equal. f_equal.
  apply map_ext_in. intros doc Hin. apply regular_agree. rewrite forallb_forall in Hreg. apply Hreg. exact Hin.
Qed.
