(* JqPrint.v -- concrete syntax of the jq fragment, laid out exactly as json_jq_converter.py lays it out
   (spacing and parentheses included), so that print_jq (compile m) is byte-for-byte the Python text.
   Definitions only. *)

From Coq Require Import List String Ascii Bool.
From V Require Import Json.Json Json.Jq.
Import ListNotations.
Open Scope string_scope.

Fixpoint print_jq (e : jq) : string :=
  match e with
  | QId => "."
  | QVar v => "$" ++ v
  | QNull => "null"
  | QEmptyArr => "[]"
  | QField e k => match e with QId => "." ++ k | _ => print_jq e ++ "." ++ k end
  | QFieldStr e k => match e with QId => "" | _ => print_jq e end ++ ".""" ++ k ++ """"
  | QIter e => match e with QId => "" | _ => print_jq e end ++ ".[]"
  | QParen e => "(" ++ print_jq e ++ ")"
  | QPipe a b => print_jq a ++ " | " ++ print_jq b
  | QComma a b => print_jq a ++ "," ++ print_jq b
  | QAs e v body => print_jq e ++ " as $" ++ v ++ " | " ++ print_jq body
  | QTry e => "try " ++ print_jq e
  | QTryCatchNull e => "try " ++ print_jq e ++ " catch null"
  | QSelect e => "select(" ++ print_jq e ++ ")"
  | QCollect e => "[" ++ print_jq e ++ "]"
  | QObjDyn k v => "{(" ++ print_jq k ++ "): " ++ print_jq v ++ "}"
  | QObj fields =>
      "{" ++ String.concat ","
               ((fix go (fs : list (string * jq)) : list string :=
                   match fs with
                   | [] => []
                   | (k, fe) :: r => (" """ ++ k ++ """: " ++ print_jq fe) :: go r
                   end) fields) ++ "}"
  | QAdd => "add"
  | QTostring => "tostring"
  | QFlatten => "flatten"
  | QJoin sep => "join(""" ++ sep ++ """)"
  | QAlt tight a b => print_jq a ++ (if tight then "//" else " // ") ++ print_jq b
  | QIf c t e => "if " ++ print_jq c ++ " then " ++ print_jq t ++ " else " ++ print_jq e ++ " end"
  | QEq a b => print_jq a ++ " == " ++ print_jq b
  | QNeq a b => print_jq a ++ " != " ++ print_jq b
  | QAnd a b => print_jq a ++ " and " ++ print_jq b
  | QAny e => "any(" ++ print_jq e ++ ")"
  | QAll e => "all(" ++ print_jq e ++ ")"
  | QPlus a b => print_jq a ++ " + " ++ print_jq b
  end.
