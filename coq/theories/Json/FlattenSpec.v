(* FlattenSpec.v -- the DOCUMENTED meaning of a field mapping (docs/user/json_data_converter_HOWTO.md),
   written directly over json values; no jq here.

   What the documentation fixes, and the decisions taken where it is silent (each decision is stated):

   * Paths.  "a nested object is represented by a `.`, and an array is represented by a `.[].`".  A key path
     is a list of segments; every segment but the last names an array level (with a key_value the last
     array is the attribute array in which the lookup is made, and is not a level).
   * Flattening.  "Every object within an array will be flattened and treated separately.  Nested arrays
     are then also flattened".  The array prefixes of all key paths form a tree (shared prefixes are shared
     levels, children in order of first appearance in the mapping).  Records are produced by nested
     iteration over that tree, depth first: one record per choice of one element at every level, so one
     record per innermost element, values of outer levels repeated ("the second field will be duplicated
     for each object in the fourth level array").  Arrays that are not nested in one another (sibling
     levels) are iterated one inside the other, i.e. they contribute their product. [decision]
   * What a level contributes (level_elems).  An array contributes its elements -- an empty array
     contributes none, hence no record.  "the same pathing structure as jq is used": an object where an
     array is expected contributes its member values, as jq's `.[]` does. [decision]  Anything else --
     absent key, null, a scalar, a path that cannot be followed -- contributes the single element null:
     absent values are null and the record is still produced. [decision]
   * Direct values.  The value at the remaining path, null when it cannot be followed (get_or_null).
   * key_value / value_paths.  "If key_value is provided, it checks if the key's value matches this value.
     It then follows the value_paths to retrieve the actual value": in the attribute array, the element
     whose key (at the key segment) is the string key_value; its value at value_path (null if it cannot be
     followed); null when no element matches or the attribute array is not there.  If several elements
     match, the LAST one is taken. [decision; the documentation does not say]
   * Fallback priority.  "The system will check the first key_path and if the key_value is not found, it
     will check the second key_path and so on": the first alternative whose value is not null; null if all
     are null.
   * String fields.  Components are turned into strings (a string as it is, anything else as compact JSON
     text) and joined with "_" "in the order provided".  If some component is null the whole field is
     null. [decision; the documentation does not say]
   * Array fields.  The component values in order, nested arrays spliced in (flattened at any depth);
     null when that list is non-empty and consists of nulls only. [decision; value_type array is used by
     the shipped configuration for child_event_ids but not described in the HOWTO]

   The definitions are parametrised by `sem` (how a priority list is resolved, how an attribute array is
   searched) only so that the exact behaviour of the code (FlattenCode.v) can be stated with the same
   traversal; `flatten_spec` is the instance `doc_sem` described above.

   Definitions only. *)

From Coq Require Import ZArith List String Ascii Bool.
From V Require Import Json.Json Json.Mapping.
Import ListNotations.
Open Scope string_scope.

Definition record := list (string * json).
Definition record_to_json (r : record) : json := JObj r.

(* ---------- the tree of array prefixes ---------- *)

Inductive ptree := PNode (children : list (segment * ptree)).

Definition pt_children (t : ptree) : list (segment * ptree) := match t with PNode c => c end.

Fixpoint pt_find (s : segment) (cs : list (segment * ptree)) : option ptree :=
  match cs with
  | [] => None
  | (s', c) :: r => if segment_eqb s s' then Some c else pt_find s r
  end.

Fixpoint pt_replace (s : segment) (c : ptree) (cs : list (segment * ptree)) : list (segment * ptree) :=
  match cs with
  | [] => []
  | (s', c') :: r => if segment_eqb s s' then (s', c) :: r else (s', c') :: pt_replace s c r
  end.

Fixpoint pt_insert (segs : list segment) (t : ptree) : ptree :=
  match segs with
  | [] => t
  | s :: rest =>
      match pt_find s (pt_children t) with
      | Some c => PNode (pt_replace s (pt_insert rest c) (pt_children t))
      | None => PNode (pt_children t ++ [(s, pt_insert rest (PNode []))])%list
      end
  end.

(* all alternatives of the mapping, in order of appearance *)
Definition all_alts (m : mapping) : list alt :=
  flat_map (fun nf => List.concat (fs_comps (snd nf))) m.

Definition array_tree (m : mapping) : ptree :=
  fold_left (fun t a => pt_insert (alt_levels a) t) (all_alts m) (PNode []).

(* ---------- nested iteration ---------- *)

(* the element currently selected for each array prefix ([] is the document itself) *)
Definition senv := list (list segment * json).

Definition prefix_eqb (p q : list segment) : bool :=
  if list_eq_dec (list_eq_dec string_dec) p q then true else false.

Fixpoint senv_lookup (p : list segment) (s : senv) : option json :=
  match s with
  | [] => None
  | (q, v) :: r => if prefix_eqb p q then Some v else senv_lookup p r
  end.

Definition selected (s : senv) (p : list segment) : json :=
  match senv_lookup p s with Some v => v | None => JNull end.

Definition level_elems (seg : segment) (v : json) : list json :=
  match get_path seg v with
  | Some w => match elements w with Some l => l | None => [JNull] end
  | None => [JNull]
  end.

(* all selections for the levels below the node at prefix `pre` *)
Fixpoint iter_tree (t : ptree) (pre : list segment) (s : senv) {struct t} : list senv :=
  match t with
  | PNode cs =>
      (fix go (cs : list (segment * ptree)) (s : senv) {struct cs} : list senv :=
         match cs with
         | [] => [s]
         | (seg, c) :: cs' =>
             flat_map (go cs')
               (flat_map (fun e => iter_tree c (pre ++ [seg])%list (((pre ++ [seg])%list, e) :: s))
                         (level_elems seg (selected s pre)))
         end) cs s
  end.

(* ---------- values ---------- *)

Record sem := mkSem {
  pick : list json -> json;                                   (* resolve a priority list *)
  kv_lookup : segment -> string -> segment -> json -> json    (* key seg, key_value, value path, attribute array *)
}.

Definition alt_field (a : alt) : segment := last (a_key_path a) [].
Definition alt_attr (a : alt) : segment := last (removelast (a_key_path a)) [].
Definition alt_value_path (a : alt) : segment :=
  match a_value_path a with Some p => p | None => [] end.

Definition alt_value (S : sem) (s : senv) (a : alt) : json :=
  let v := selected s (alt_levels a) in
  match a_key_value a with
  | None => get_or_null (alt_field a) v
  | Some kv => kv_lookup S (alt_field a) kv (alt_value_path a) (get_or_null (alt_attr a) v)
  end.

Definition component_value (S : sem) (s : senv) (c : list alt) : json :=
  pick S (map (alt_value S s) c).

Definition string_field (vals : list json) : json :=
  if existsb is_null vals then JNull
  else JStr (String.concat "_" (map tostring vals)).

Definition array_field (vals : list json) : json :=
  let l := flatten_list vals in
  if nonempty l && forallb is_null l then JNull else JArr l.

Definition field_value (S : sem) (s : senv) (fs : field_spec) : json :=
  let vals := map (component_value S s) (fs_comps fs) in
  match fs_type fs with
  | VString => string_field vals
  | VArray => array_field vals
  end.

Definition record_of (S : sem) (m : mapping) (s : senv) : record :=
  map (fun nf => (fst nf, field_value S s (snd nf))) m.

Definition selections (m : mapping) (doc : json) : list senv :=
  iter_tree (array_tree m) [] [([], doc)].

Definition flatten_gen (S : sem) (m : mapping) (doc : json) : list record :=
  map (record_of S m) (selections m doc).

(* ---------- the documented semantics ---------- *)

Fixpoint pick_doc (l : list json) : json :=
  match l with
  | [] => JNull
  | v :: r => if is_null v then pick_doc r else v
  end.

Definition key_matches (kseg : segment) (kv : string) (e : json) : bool :=
  match get_path kseg e with
  | Some (JStr s) => String.eqb s kv
  | _ => false
  end.

Definition kv_lookup_doc (kseg : segment) (kv : string) (vseg : segment) (arr : json) : json :=
  match elements arr with
  | None => JNull
  | Some l =>
      match filter (key_matches kseg kv) l with
      | [] => JNull
      | e :: r => get_or_null vseg (last r e)
      end
  end.

Definition doc_sem : sem := mkSem pick_doc kv_lookup_doc.

Definition flatten_spec (m : mapping) (doc : json) : list record := flatten_gen doc_sem m doc.
