(* Check.v -- the small executable interface used by the integrator's harness (vm_compute).

     compile_text m        : the jq program text; must equal Python's field_mapping_to_jq_query(m) byte for byte
     wf_mapping m          : (from Mapping.v) the mapping is in the modelled form; wf_mapping_syntactic m is the
                             purely syntactic sufficient condition (at most ten alternatives per priority list)
     extract m doc         : (from OtelRecord.v) records that become OTelEvents, via eval of the compiled program
     extract_lines m docs  : the same for a one-JSON-per-line file
     raw m doc             : all records produced by the compiled program ([] if it failed)
     spec_records m doc    : the documented flattening (FlattenSpec.flatten_spec)
     code_records m doc    : the exact behaviour of the code (FlattenCode.flatten_code)
     regular m doc         : (from FlattenCode.v) code and documentation are proved to agree on this input
     record_eqb / records_eqb : boolean equality on records / lists of records

   Terms for mappings and documents are written as explained at the top of Mapping.v and Json.v.
   Definitions only. *)

From Coq Require Import ZArith List String Ascii Bool.
From V Require Import Json.Json Json.Jq Json.JqPrint Json.Mapping Json.FlattenSpec Json.FlattenCode
  Json.OtelRecord.
Import ListNotations.
Open Scope string_scope.

Definition compile_text (m : mapping) : string := print_jq (compile m).

Definition spec_records (m : mapping) (doc : json) : list record := flatten_spec m doc.
Definition code_records (m : mapping) (doc : json) : list record := flatten_code m doc.

Definition raw (m : mapping) (doc : json) : list record :=
  match raw_records m doc with Some rs => rs | None => [] end.

Fixpoint record_eqb (a b : record) : bool :=
  match a, b with
  | [], [] => true
  | (k, v) :: r, (k', v') :: r' => String.eqb k k' && json_eqb v v' && record_eqb r r'
  | _, _ => false
  end.

Fixpoint records_eqb (a b : list record) : bool :=
  match a, b with
  | [], [] => true
  | x :: r, y :: r' => record_eqb x y && records_eqb r r'
  | _, _ => false
  end.

(* a key-path string "a.b.[].c" as the list of segments used in Mapping.alt (for convenience only) *)
Fixpoint split_on_dot_acc (s : string) (cur : string) : list string :=
  match s with
  | EmptyString => [cur]
  | String c r => if Ascii.eqb c "."%char then cur :: split_on_dot_acc r EmptyString
                  else split_on_dot_acc r (cur ++ String c EmptyString)
  end.

Fixpoint group_segments (keys : list string) (cur : segment) : list segment :=
  match keys with
  | [] => [cur]
  | k :: r => if String.eqb k "[]" then cur :: group_segments r []
              else group_segments r (cur ++ [k])%list
  end.

Definition parse_key_path (s : string) : list segment :=
  group_segments (split_on_dot_acc s EmptyString) [].
