(** Proofs about the gate-tree model of GateTree.v. *)
From Coq Require Import List Bool PArith Arith Lia Permutation Sorted.
From V Require Import Gate.GateTree.
Import ListNotations.

(** * Generic ordered lists *)

Record OrdLaws {A : Type} (cmp : A -> A -> comparison) : Prop := {
  ol_eq : forall x y, cmp x y = Eq -> x = y;
  ol_refl : forall x, cmp x x = Eq;
  ol_anti : forall x y, cmp x y = CompOpp (cmp y x);
  ol_trans : forall x y z, cmp x y = Lt -> cmp y z = Lt -> cmp x z = Lt
}.

Section OrdProofs.
  Context {A : Type} (cmp : A -> A -> comparison).
  Hypothesis L : OrdLaws cmp.
  Local Notation cmp_eq := (ol_eq cmp L).
  Local Notation cmp_refl := (ol_refl cmp L).
  Local Notation cmp_anti := (ol_anti cmp L).
  Local Notation cmp_trans := (ol_trans cmp L).

  Lemma sincb_cons x l :
    sincb cmp (x :: l) = true <-> (forall y, In y l -> cmp x y = Lt) /\ sincb cmp l = true.
  Proof.
    cbn [sincb]. rewrite andb_true_iff, forallb_forall.
    split; intros [H1 H2]; split; auto; intros y Hy; specialize (H1 y Hy).
    - destruct (cmp x y); try discriminate; auto.
    - rewrite H1; auto.
  Qed.

  Lemma ins_In x l y : In y (ins cmp x l) <-> y = x \/ In y l.
  Proof.
    induction l as [|z zs IH]; cbn [ins].
    - simpl; intuition.
    - destruct (cmp x z) eqn:E.
      + apply cmp_eq in E; subst. simpl; intuition (subst; auto).
      + simpl; intuition.
      + simpl. rewrite IH. intuition.
  Qed.

  Lemma ins_sinc x l : sincb cmp l = true -> sincb cmp (ins cmp x l) = true.
  Proof.
    induction l as [|a l IH]; cbn [ins]; intros H.
    - reflexivity.
    - destruct (cmp x a) eqn:E.
      + exact H.
      + apply sincb_cons. split; auto.
        intros y [->|Hy]; auto.
        apply sincb_cons in H as [H1 _]. eapply cmp_trans; eauto.
      + apply sincb_cons in H as [H1 H2]. apply sincb_cons; split; auto.
        intros y Hy. apply ins_In in Hy as [->|Hy]; auto.
        rewrite cmp_anti, E. reflexivity.
  Qed.

  Lemma sinc_ext l : forall l',
    sincb cmp l = true -> sincb cmp l' = true -> (forall x, In x l <-> In x l') -> l = l'.
  Proof.
    induction l as [|x r IH]; intros [|y r'] H H' Hi.
    - reflexivity.
    - exfalso. apply (Hi y). left; reflexivity.
    - exfalso. apply (Hi x). left; reflexivity.
    - apply sincb_cons in H as [H1 H2]. apply sincb_cons in H' as [H1' H2'].
      assert (x = y) as <-.
      { destruct (proj1 (Hi x) (or_introl eq_refl)) as [E|Hx]; auto.
        destruct (proj2 (Hi y) (or_introl eq_refl)) as [E|Hy]; auto.
        pose proof (H1 _ Hy) as C1. pose proof (H1' _ Hx) as C2.
        rewrite cmp_anti, C1 in C2. discriminate. }
      f_equal. apply IH; auto. intros z; split; intros Hz.
      + destruct (proj1 (Hi z) (or_intror Hz)) as [E|]; auto. subst z.
        pose proof (H1 _ Hz) as C. rewrite cmp_refl in C; discriminate.
      + destruct (proj2 (Hi z) (or_intror Hz)) as [E|]; auto. subst z.
        pose proof (H1' _ Hz) as C. rewrite cmp_refl in C; discriminate.
  Qed.

  Lemma uni_In a b y : In y (uni cmp a b) <-> In y a \/ In y b.
  Proof.
    induction a as [|x a IH]; cbn [uni fold_right].
    - simpl; intuition.
    - change (fold_right (ins cmp) b a) with (uni cmp a b).
      rewrite ins_In, IH. simpl. intuition.
  Qed.

  Lemma uni_sinc a b : sincb cmp b = true -> sincb cmp (uni cmp a b) = true.
  Proof.
    intros Hb. induction a as [|x a IH]; cbn [uni fold_right]; auto.
    apply ins_sinc. exact IH.
  Qed.

  Lemma nrm_In l y : In y (nrm cmp l) <-> In y l.
  Proof.
    change (nrm cmp l) with (uni cmp l []). rewrite uni_In. simpl; intuition.
  Qed.

  Lemma nrm_sinc l : sincb cmp (nrm cmp l) = true.
  Proof. change (nrm cmp l) with (uni cmp l []). apply uni_sinc. reflexivity. Qed.

  Lemma nrm_ext l l' : (forall x, In x l <-> In x l') -> nrm cmp l = nrm cmp l'.
  Proof.
    intros H. apply sinc_ext; try apply nrm_sinc.
    intros x. rewrite !nrm_In. apply H.
  Qed.

  Lemma nrm_id l : sincb cmp l = true -> nrm cmp l = l.
  Proof.
    intros H. apply sinc_ext; auto using nrm_sinc. intros x; apply nrm_In.
  Qed.

  Lemma sinc_NoDup l : sincb cmp l = true -> NoDup l.
  Proof.
    induction l as [|x l IH]; intros H; constructor.
    - apply sincb_cons in H as [H1 _]. intros Hx.
      pose proof (H1 _ Hx) as C. rewrite cmp_refl in C. discriminate.
    - apply sincb_cons in H as [_ H2]. auto.
  Qed.

  Lemma adjb_sincb l : adjb cmp l = true -> sincb cmp l = true.
  Proof.
    induction l as [|x r IH]; intros H; auto.
    apply sincb_cons. destruct r as [|y r'].
    - split; auto. intros ? [].
    - cbn [adjb] in H. apply andb_true_iff in H as [Hxy Hr].
      assert (Exy : cmp x y = Lt) by (destruct (cmp x y); auto; discriminate).
      specialize (IH Hr). split; auto.
      apply sincb_cons in IH as [Hy _].
      intros z [->|Hz]; auto. eapply cmp_trans; eauto.
  Qed.

  (** duplicate-keeping sort *)

  Definition wsorted (l : list A) : Prop := StronglySorted (fun x y => cmp x y <> Gt) l.

  Lemma le_trans x y z : cmp x y <> Gt -> cmp y z <> Gt -> cmp x z <> Gt.
  Proof.
    intros H1 H2. destruct (cmp x y) eqn:E1; try congruence.
    - apply cmp_eq in E1; subst; auto.
    - destruct (cmp y z) eqn:E2; try congruence.
      + apply cmp_eq in E2; subst. rewrite E1; discriminate.
      + rewrite (cmp_trans _ _ _ E1 E2). discriminate.
  Qed.

  Lemma insd_perm x l : Permutation (insd cmp x l) (x :: l).
  Proof.
    induction l as [|y l IH]; cbn [insd]; auto.
    destruct (cmp x y); auto.
    rewrite IH. apply perm_swap.
  Qed.

  Lemma isort_perm l : Permutation (isort cmp l) l.
  Proof.
    induction l as [|x l IH]; cbn [isort fold_right]; auto.
    rewrite insd_perm. constructor. exact IH.
  Qed.

  Lemma insd_sorted x l : wsorted l -> wsorted (insd cmp x l).
  Proof.
    induction l as [|y l IH]; cbn [insd]; intros H.
    - constructor; constructor.
    - inversion H as [|? ? Hs Hf]; subst.
      destruct (cmp x y) eqn:E.
      + constructor; auto. constructor.
        * rewrite E; discriminate.
        * eapply Forall_impl; [|exact Hf]. intros z Hz. cbv beta in *.
          apply le_trans with y; auto. rewrite E; discriminate.
      + constructor; auto. constructor.
        * rewrite E; discriminate.
        * eapply Forall_impl; [|exact Hf]. intros z Hz. cbv beta in *.
          apply le_trans with y; auto. rewrite E; discriminate.
      + constructor; [apply IH; exact Hs|].
        apply Forall_forall. intros z Hz.
        apply (Permutation_in _ (insd_perm x l)) in Hz. destruct Hz as [<-|Hz].
        * rewrite cmp_anti, E. discriminate.
        * rewrite Forall_forall in Hf. auto.
  Qed.

  Lemma isort_sorted l : wsorted (isort cmp l).
  Proof.
    induction l as [|x l IH]; cbn [isort fold_right].
    - constructor.
    - apply insd_sorted. exact IH.
  Qed.

  Lemma wsorted_perm_eq l : forall l', wsorted l -> wsorted l' -> Permutation l l' -> l = l'.
  Proof.
    induction l as [|x r IH]; intros [|y r'] H H' HP.
    - reflexivity.
    - apply Permutation_nil in HP. discriminate.
    - symmetry in HP. apply Permutation_nil in HP. discriminate.
    - inversion H as [|? ? Hs Hf]; subst. inversion H' as [|? ? Hs' Hf']; subst.
      rewrite Forall_forall in Hf, Hf'.
      assert (x = y) as <-.
      { assert (Hx : In x (y :: r')) by (eapply Permutation_in; [exact HP|left; auto]).
        assert (Hy : In y (x :: r)) by (eapply Permutation_in; [symmetry; exact HP|left; auto]).
        destruct Hx as [E|Hx]; auto. destruct Hy as [E|Hy]; auto.
        pose proof (Hf _ Hy) as C1. pose proof (Hf' _ Hx) as C2.
        destruct (cmp x y) eqn:E; try congruence.
        - apply cmp_eq; auto.
        - rewrite cmp_anti, E in C2. simpl in C2. congruence. }
      f_equal. apply IH; auto. eapply Permutation_cons_inv; eauto.
  Qed.

  Lemma isort_perm_eq l l' : Permutation l l' -> isort cmp l = isort cmp l'.
  Proof.
    intros HP. apply wsorted_perm_eq; try apply isort_sorted.
    rewrite !isort_perm. exact HP.
  Qed.

  (** lexicographic lifting keeps the four order laws *)

  Lemma lex_eq l : forall l', lex cmp l l' = Eq -> l = l'.
  Proof.
    induction l as [|x r IH]; intros [|y r']; cbn [lex]; intros H; try discriminate; auto.
    destruct (cmp x y) eqn:E; try discriminate.
    apply cmp_eq in E; subst. f_equal; auto.
  Qed.

  Lemma lex_refl l : lex cmp l l = Eq.
  Proof. induction l as [|x r IH]; cbn [lex]; auto. rewrite cmp_refl; auto. Qed.

  Lemma lex_anti l : forall l', lex cmp l l' = CompOpp (lex cmp l' l).
  Proof.
    induction l as [|x r IH]; intros [|y r']; cbn [lex]; auto.
    rewrite (cmp_anti x y). destruct (cmp y x); simpl; auto.
  Qed.

  Lemma lex_trans l1 : forall l2 l3,
    lex cmp l1 l2 = Lt -> lex cmp l2 l3 = Lt -> lex cmp l1 l3 = Lt.
  Proof.
    induction l1 as [|x r1 IH]; intros [|y r2] [|z r3]; cbn [lex]; try discriminate; auto.
    destruct (cmp x y) eqn:E1; try discriminate;
      destruct (cmp y z) eqn:E2; try discriminate; intros H1 H2.
    - apply cmp_eq in E1; apply cmp_eq in E2; subst. rewrite cmp_refl. eauto.
    - apply cmp_eq in E1; subst. rewrite E2. reflexivity.
    - apply cmp_eq in E2; subst. rewrite E1. reflexivity.
    - rewrite (cmp_trans _ _ _ E1 E2). reflexivity.
  Qed.

  Lemma lex_laws : OrdLaws (lex cmp).
  Proof. split; [exact lex_eq|exact lex_refl|exact lex_anti|exact lex_trans]. Qed.
End OrdProofs.

(** * Event sets *)

Lemma pos_cmp_trans x y z : Pos.compare x y = Lt -> Pos.compare y z = Lt -> Pos.compare x z = Lt.
Proof. rewrite !Pos.compare_lt_iff. apply Pos.lt_trans. Qed.

Lemma pos_laws : OrdLaws Pos.compare.
Proof.
  split; [exact Pos.compare_eq|exact Pos.compare_refl|intros x y; apply Pos.compare_antisym|exact pos_cmp_trans].
Qed.

Lemma set_laws : OrdLaws set_cmp.
Proof. exact (lex_laws _ pos_laws). Qed.

Lemma set_insert_In x s y : In y (set_insert x s) <-> y = x \/ In y s.
Proof. exact (ins_In _ pos_laws x s y). Qed.

Lemma set_union_In a b y : In y (set_union a b) <-> In y a \/ In y b.
Proof. exact (uni_In _ pos_laws a b y). Qed.

Lemma set_union_canonical a b : canonical b -> canonical (set_union a b).
Proof. exact (uni_sinc _ pos_laws a b). Qed.

Lemma norm_In l y : In y (norm l) <-> In y l.
Proof. exact (nrm_In _ pos_laws l y). Qed.

Lemma norm_canonical l : canonical (norm l).
Proof. exact (nrm_sinc _ pos_laws l). Qed.

Lemma canonical_ext s s' : canonical s -> canonical s' -> (forall x, In x s <-> In x s') -> s = s'.
Proof. exact (sinc_ext _ pos_laws s s'). Qed.

Lemma norm_id s : canonical s -> norm s = s.
Proof.
  intros H. apply canonical_ext; auto using norm_canonical. intros x; apply norm_In.
Qed.

Lemma norm_idem l : norm (norm l) = norm l.
Proof. apply norm_id, norm_canonical. Qed.

Lemma norm_ext l l' : (forall x, In x l <-> In x l') -> norm l = norm l'.
Proof.
  intros H. apply canonical_ext; auto using norm_canonical.
  intros x. rewrite !norm_In. apply H.
Qed.

Lemma norm_perm l l' : Permutation l l' -> norm l = norm l'.
Proof.
  intros H. apply norm_ext. intros x; split; apply Permutation_in; auto. symmetry; auto.
Qed.

Lemma canonical_NoDup s : canonical s -> NoDup s.
Proof. exact (sinc_NoDup _ pos_laws s). Qed.

Lemma set_union_nil_r x : canonical x -> set_union x [] = x.
Proof. intros H. change (set_union x []) with (norm x). apply norm_id; auto. Qed.

Lemma big_union_canonical ss : canonical (big_union ss).
Proof.
  induction ss as [|s ss IH]; cbn [big_union fold_right].
  - reflexivity.
  - apply set_union_canonical. exact IH.
Qed.

Lemma big_union_In ss y : In y (big_union ss) <-> exists s, In s ss /\ In y s.
Proof.
  induction ss as [|s ss IH]; cbn [big_union fold_right].
  - simpl. split; [intros []|intros (s & [] & _)].
  - change (fold_right set_union [] ss) with (big_union ss).
    rewrite set_union_In, IH. split.
    + intros [H|(s' & H1 & H2)]; [exists s|exists s']; simpl; auto.
    + intros (s' & [<-|H1] & H2); eauto.
Qed.

Lemma big_union_perm ss ss' : Permutation ss ss' -> big_union ss = big_union ss'.
Proof.
  intros HP. apply canonical_ext; try apply big_union_canonical.
  intros x. rewrite !big_union_In.
  split; intros (s & H1 & H2); exists s; split; auto.
  - eapply Permutation_in; eauto.
  - eapply Permutation_in; [symmetry; exact HP|exact H1].
Qed.

Lemma big_union_singletons es : big_union (map (fun e => [e]) es) = norm es.
Proof.
  induction es as [|e es IH]; auto.
  cbn [map big_union fold_right]. change (fold_right set_union [] (map (fun e => [e]) es))
    with (big_union (map (fun e => [e]) es)). rewrite IH. reflexivity.
Qed.

Lemma set_eqb_iff a : forall b, set_eqb a b = true <-> a = b.
Proof.
  induction a as [|x a IH]; intros [|y b]; cbn [set_eqb]; split; intros H;
    try discriminate; auto.
  - apply andb_true_iff in H as [H1 H2]. apply Pos.eqb_eq in H1. apply IH in H2. congruence.
  - inversion H; subst. rewrite Pos.eqb_refl. apply IH. reflexivity.
Qed.

Lemma mem_iff s l : mem s l = true <-> In s l.
Proof.
  unfold mem. rewrite existsb_exists. split.
  - intros (x & H1 & H2). apply set_eqb_iff in H2. subst; auto.
  - intros H. exists s; split; auto. apply set_eqb_iff; auto.
Qed.

(** order on event sets *)

Lemma norm_sets_In l s : In s (norm_sets l) <-> In s l.
Proof. exact (nrm_In _ set_laws l s). Qed.

Lemma norm_sets_canonical l : sets_canonical_b (norm_sets l) = true.
Proof. exact (nrm_sinc _ set_laws l). Qed.

Lemma sets_canonical_ext l l' :
  sets_canonical_b l = true -> sets_canonical_b l' = true ->
  (forall s, In s l <-> In s l') -> l = l'.
Proof. exact (sinc_ext _ set_laws l l'). Qed.

(** * Trees: induction principle with the children hypothesis *)

Lemma gtree_ind' (P : gtree -> Prop) :
  (forall e, P (Leaf e)) -> P Tau ->
  (forall op cs, Forall P cs -> P (Node op cs)) ->
  forall t, P t.
Proof.
  intros Hl Ht Hn. fix IH 1. intros [e| |op cs].
  - apply Hl.
  - exact Ht.
  - apply Hn. induction cs as [|c cs IHcs]; constructor.
    + apply IH.
    + exact IHcs.
Qed.

(** * Sub-lists *)

Lemma Sub_In {A} (s l : list A) x : Sub s l -> In x s -> In x l.
Proof.
  induction 1 as [|y s l H IH|y s l H IH]; simpl; intros Hx; auto.
  destruct Hx; auto.
Qed.

Lemma Sub_nil_r {A} (s : list A) : Sub s [] -> s = [].
Proof. inversion 1; auto. Qed.

Lemma Sub_map {A B} (f : A -> B) s l : Sub s l -> Sub (map f s) (map f l).
Proof. induction 1; simpl; constructor; auto. Qed.

Lemma Sub_map_inv {A B} (f : A -> B) l : forall s,
  Sub s (map f l) -> exists s', s = map f s' /\ Sub s' l.
Proof.
  induction l as [|x l IH]; simpl; intros s H.
  - apply Sub_nil_r in H. subst. exists []; split; auto. constructor.
  - inversion H as [|y s0 l0 H0|y s0 l0 H0]; subst.
    + destruct (IH _ H0) as (s' & -> & Hs). exists (x :: s'); split; auto. constructor; auto.
    + destruct (IH _ H0) as (s' & -> & Hs). exists s'; split; auto. constructor; auto.
Qed.

Lemma Sub_filter {A} (f : A -> bool) l : Sub (filter f l) l.
Proof.
  induction l as [|x l IH]; simpl; [constructor|].
  destruct (f x); constructor; auto.
Qed.

Lemma Sub_perm {A} (l l' : list A) : Permutation l l' ->
  forall s, Sub s l -> exists s', Permutation s s' /\ Sub s' l'.
Proof.
  induction 1 as [|x l l' HP IH|x y l|l l' l'' HP1 IH1 HP2 IH2]; intros s Hs.
  - exists s; split; auto.
  - inversion Hs as [|z s0 l0 H0|z s0 l0 H0]; subst.
    + destruct (IH _ H0) as (s' & P1 & S1). exists (x :: s'); split; auto. constructor; auto.
    + destruct (IH _ H0) as (s' & P1 & S1). exists s'; split; auto. constructor; auto.
  - inversion Hs as [|z s0 l0 H0|z s0 l0 H0]; subst;
      inversion H0 as [|z' s1 l1 H1|z' s1 l1 H1]; subst.
    + exists (x :: y :: s1); split; [apply perm_swap|repeat constructor; auto].
    + exists (y :: s0); split; auto. apply Sub_skip. constructor; auto.
    + exists (x :: s1); split; auto. constructor. apply Sub_skip; auto.
    + exists s; split; auto. repeat apply Sub_skip; auto.
  - destruct (IH1 _ Hs) as (s' & P1 & S1). destruct (IH2 _ S1) as (s'' & P2 & S2).
    exists s''; split; auto. etransitivity; eauto.
Qed.

(** * Admits: canonical sets only *)

Lemma Admits_canonical t : forall s, Admits t s -> canonical s.
Proof.
  induction t as [e| |op cs IH] using gtree_ind'; intros s H; inversion H; subst.
  - reflexivity.
  - reflexivity.
  - rewrite Forall_forall in IH. eauto.
  - apply big_union_canonical.
  - apply big_union_canonical.
Qed.

(** * outcomes computes Admits *)

Definition pick (l : list eset) (x : eset) : Prop := In x l.

Lemma prod_In a b s :
  In s (prod a b) <-> exists x y, In x a /\ In y b /\ s = set_union x y.
Proof.
  unfold prod. rewrite in_flat_map. split.
  - intros (x & Hx & Hs). apply in_map_iff in Hs as (y & <- & Hy). eauto.
  - intros (x & y & Hx & Hy & ->). exists x; split; auto. apply in_map; auto.
Qed.

Lemma and_comb_In ls : forall s,
  In s (and_comb ls) <-> exists ss, Forall2 pick ls ss /\ s = big_union ss.
Proof.
  induction ls as [|oc r IH]; intros s; cbn [and_comb fold_right].
  - split.
    + intros [<-|[]]. exists []; split; auto.
    + intros (ss & H & ->). inversion H; subst. left; auto.
  - change (fold_right prod [[]] r) with (and_comb r). rewrite prod_In. split.
    + intros (x & y & Hx & Hy & ->). apply IH in Hy as (ss & HF & ->).
      exists (x :: ss); split; [constructor; auto|reflexivity].
    + intros (ss & HF & ->). inversion HF as [|l x r' ss' Hx HF']; subst.
      exists x, (big_union ss'); repeat split; auto. apply IH. eauto.
Qed.

Lemma or_comb_In ls : forall s,
  In s (or_comb ls) <->
  exists sub ss, Sub sub ls /\ sub <> [] /\ Forall2 pick sub ss /\ s = big_union ss.
Proof.
  induction ls as [|oc r IH]; intros s; cbn [or_comb].
  - split; [intros []|]. intros (sub & ss & H & Hne & _). apply Sub_nil_r in H. congruence.
  - rewrite in_app_iff, prod_In. split.
    + intros [(x & y & Hx & [<-|Hy] & ->)|H].
      * exists [oc], [x]; repeat split.
        -- constructor. clear. induction r; constructor; auto.
        -- discriminate.
        -- constructor; auto.
      * apply IH in Hy as (sub & ss & H1 & H2 & H3 & ->).
        exists (oc :: sub), (x :: ss); repeat split.
        -- constructor; auto.
        -- discriminate.
        -- constructor; auto.
      * apply IH in H as (sub & ss & H1 & H2 & H3 & ->).
        exists sub, ss; repeat split; auto. constructor; auto.
    + intros (sub & ss & H1 & H2 & H3 & ->).
      inversion H1 as [|y s0 l0 H0|y s0 l0 H0]; subst.
      * inversion H3 as [|l x r' ss' Hx HF']; subst. left.
        exists x, (big_union ss'); repeat split; auto.
        destruct s0 as [|c s0].
        -- inversion HF'; subst. left; auto.
        -- right. apply IH. exists (c :: s0), ss'; repeat split; auto. discriminate.
      * right. apply IH. exists sub, ss; auto.
Qed.

Lemma xor_comb_In ls s : In s (xor_comb ls) <-> exists l, In l ls /\ In s l.
Proof. unfold xor_comb. rewrite in_concat. tauto. Qed.

Lemma pick_admits cs :
  Forall (fun c => forall s, In s (outcomes c) <-> Admits c s) cs ->
  forall ss, Forall2 pick (map outcomes cs) ss <-> Forall2 Admits cs ss.
Proof.
  induction 1 as [|c cs Hc Hcs IH]; intros ss; simpl.
  - split; inversion 1; constructor.
  - split; inversion 1; subst; constructor; try (apply IH; auto); apply Hc; auto.
Qed.

Theorem outcomes_Admits t : forall s, In s (outcomes t) <-> Admits t s.
Proof.
  induction t as [e| |op cs IH] using gtree_ind'; intros s.
  - simpl. split.
    + intros [<-|[]]. constructor.
    + inversion 1; auto.
  - simpl. split.
    + intros [<-|[]]. constructor.
    + inversion 1; auto.
  - cbn [outcomes]. rewrite norm_sets_In. destruct op; cbn [comb].
    + rewrite and_comb_In. split.
      * intros (ss & HF & ->). apply (pick_admits _ IH) in HF. econstructor; eauto.
      * inversion 1; subst. exists ss; split; auto. apply (pick_admits _ IH); auto.
    + rewrite or_comb_In. split.
      * intros (sub & ss & H1 & H2 & H3 & ->).
        apply Sub_map_inv in H1 as (sub' & -> & H1).
        assert (IH' : Forall (fun c => forall s, In s (outcomes c) <-> Admits c s) sub').
        { rewrite Forall_forall in *. intros c Hc. apply IH. eapply Sub_In; eauto. }
        apply (pick_admits _ IH') in H3.
        eapply A_or; eauto. intros ->. apply H2. reflexivity.
      * inversion 1 as [| | | |cs0 sub ss s0 H1 H2 H3 H4]; subst.
        assert (IH' : Forall (fun c => forall s, In s (outcomes c) <-> Admits c s) sub).
        { rewrite Forall_forall in *. intros c Hc. apply IH. eapply Sub_In; eauto. }
        exists (map outcomes sub), ss; repeat split.
        -- apply Sub_map; auto.
        -- destruct sub; [congruence|discriminate].
        -- apply (pick_admits _ IH'); auto.
    + rewrite xor_comb_In. rewrite Forall_forall in IH. split.
      * intros (l & Hl & Hs). apply in_map_iff in Hl as (c & <- & Hc).
        econstructor; eauto. apply IH; auto.
      * inversion 1; subst. exists (outcomes c); split.
        -- apply in_map; auto.
        -- apply IH; auto.
Qed.

Lemma outcomes_sorted t : sets_canonical_b (outcomes t) = true.
Proof. destruct t; try reflexivity. apply norm_sets_canonical. Qed.

Theorem outcomes_spec t s : In s (outcomes t) <-> Admits t s /\ canonical s.
Proof.
  rewrite outcomes_Admits. split; [|tauto]. intros H; split; auto.
  eapply Admits_canonical; eauto.
Qed.

Theorem admits_b_iff t s : admits_b t s = true <-> Admits t (norm s).
Proof. unfold admits_b. rewrite mem_iff. apply outcomes_Admits. Qed.

Lemma admits_b_canonical t s : canonical s -> (admits_b t s = true <-> Admits t s).
Proof. intros H. rewrite admits_b_iff, norm_id; tauto. Qed.

Theorem outcomes_ext t t' : (forall s, Admits t s <-> Admits t' s) -> outcomes t = outcomes t'.
Proof.
  intros H. apply sets_canonical_ext; try apply outcomes_sorted.
  intros s. rewrite !outcomes_Admits. apply H.
Qed.

(** * Validators *)

Lemma sound_b_unfold res F : sound_b res F = forallb (admits_b res) F.
Proof. reflexivity. Qed.

Lemma exact_b_unfold res F :
  exact_b res F = sound_b res F && forallb (fun s => mem s (map norm F)) (outcomes res).
Proof. reflexivity. Qed.

Theorem sound_b_spec res F :
  sound_b res F = true <-> forall s, In s F -> Admits res (norm s).
Proof.
  rewrite sound_b_unfold, forallb_forall.
  split; intros H s Hs; apply admits_b_iff; auto.
Qed.

(** strong form: no canonicity side condition is needed *)
Theorem exact_b_spec_strong res F :
  exact_b res F = true <-> forall s, Admits res s <-> In s (map norm F).
Proof.
  rewrite exact_b_unfold, andb_true_iff, sound_b_spec, forallb_forall. split.
  - intros [H1 H2] s. split.
    + intros H. apply mem_iff, H2, outcomes_Admits, H.
    + intros H. apply in_map_iff in H as (s0 & <- & H0). auto.
  - intros H. split.
    + intros s Hs. apply H. apply in_map; auto.
    + intros s Hs. apply mem_iff, H, outcomes_Admits, Hs.
Qed.

Theorem exact_b_spec res F :
  exact_b res F = true <-> forall s, canonical s -> (Admits res s <-> In s (map norm F)).
Proof.
  rewrite exact_b_spec_strong. split.
  - intros H s _. apply H.
  - intros H s. split; intros Hs.
    + apply H; auto. eapply Admits_canonical; eauto.
    + apply H; auto. apply in_map_iff in Hs as (s0 & <- & _). apply norm_canonical.
Qed.

Lemma map_norm_outcomes t : map norm (outcomes t) = outcomes t.
Proof.
  rewrite <- (map_id (outcomes t)) at 2. apply map_ext_in.
  intros s Hs. apply norm_id. apply outcomes_spec in Hs. tauto.
Qed.

(** when the family is itself the outcome list of a tree, exactness is equality of outcome lists *)
Theorem exact_b_outcomes res t : exact_b res (outcomes t) = true <-> outcomes res = outcomes t.
Proof.
  rewrite exact_b_spec_strong, map_norm_outcomes. split.
  - intros H. apply sets_canonical_ext; try apply outcomes_sorted.
    intros s. rewrite outcomes_Admits. apply H.
  - intros E s. rewrite <- E. symmetry. apply outcomes_Admits.
Qed.

Theorem exact_b_sound res F : exact_b res F = true -> sound_b res F = true.
Proof. rewrite exact_b_unfold, andb_true_iff. tauto. Qed.

Theorem c06_check_spec t res :
  c06_check t res = true <->
  (forall s, Admits t s -> Admits res s) /\
  (exact_class t = true -> forall s, Admits res s <-> Admits t s).
Proof.
  unfold c06_check. rewrite andb_true_iff, sound_b_spec. split.
  - intros [H1 H2]. split.
    + intros s Hs. rewrite <- (norm_id s) by (eapply Admits_canonical; eauto).
      apply H1, outcomes_Admits, Hs.
    + intros Hc. rewrite Hc in H2. cbn [implb] in H2.
      apply exact_b_outcomes in H2. intros s. rewrite <- !outcomes_Admits, H2. tauto.
  - intros [H1 H2]. split.
    + intros s Hs. apply outcomes_spec in Hs as [Hs Hc]. rewrite norm_id; auto.
    + destruct (exact_class t); cbn [implb]; auto.
      apply exact_b_outcomes, outcomes_ext. apply H2. reflexivity.
Qed.

(** * Invariance under permutation of children *)

Lemma Admits_perm op cs cs' s :
  Permutation cs cs' -> Admits (Node op cs) s -> Admits (Node op cs') s.
Proof.
  intros HP H. inversion H as [| |cs0 c s0 Hc Hs|cs0 ss s0 HF E|cs0 sub ss s0 H1 H2 H3 E]; subst.
  - econstructor; eauto. eapply Permutation_in; eauto.
  - destruct (Permutation_Forall2 HP HF) as (ss' & HP' & HF').
    econstructor; eauto. apply big_union_perm; auto.
  - destruct (Sub_perm _ _ HP _ H1) as (sub' & HPs & Hsub').
    destruct (Permutation_Forall2 HPs H3) as (ss' & HP' & HF').
    eapply A_or; eauto.
    + intros ->. symmetry in HPs. apply Permutation_nil in HPs. auto.
    + apply big_union_perm; auto.
Qed.

Theorem Admits_perm_iff op cs cs' s :
  Permutation cs cs' -> (Admits (Node op cs) s <-> Admits (Node op cs') s).
Proof. intros HP; split; apply Admits_perm; auto. symmetry; auto. Qed.

Theorem outcomes_perm op cs cs' :
  Permutation cs cs' -> outcomes (Node op cs) = outcomes (Node op cs').
Proof. intros HP. apply outcomes_ext. intros s. apply Admits_perm_iff; auto. Qed.

Lemma tperm_map_outcomes cs : forall cs1,
  Forall (fun c => forall t', tperm c t' -> outcomes c = outcomes t') cs ->
  Forall2 tperm cs cs1 -> map outcomes cs = map outcomes cs1.
Proof.
  induction cs as [|c cs IH]; intros cs1 HF H2; inversion H2; subst; auto.
  inversion HF; subst. simpl. f_equal; auto.
Qed.

Theorem outcomes_perm_invariant t : forall t', tperm t t' -> outcomes t = outcomes t'.
Proof.
  induction t as [e| |op cs IH] using gtree_ind'; intros t' Hp; inversion Hp; subst; auto.
  transitivity (outcomes (Node op cs1)).
  - cbn [outcomes]. f_equal. f_equal. apply tperm_map_outcomes; auto.
  - apply outcomes_perm; auto.
Qed.

Corollary Admits_perm_invariant t t' s : tperm t t' -> (Admits t s <-> Admits t' s).
Proof.
  intros Hp. rewrite <- !outcomes_Admits, (outcomes_perm_invariant _ _ Hp). tauto.
Qed.

(** * Order on trees: the encoding is injective *)

Lemma encode_head t : exists k r, encode t = k :: r /\ k <> 2%positive.
Proof.
  destruct t as [e| |op cs]; cbn [encode]; eexists; eexists; split; eauto; try discriminate.
  destruct op; discriminate.
Qed.

Lemma op_tok_inj o o' : op_tok o = op_tok o' -> o = o'.
Proof. destruct o, o'; simpl; intros H; auto; discriminate. Qed.

Lemma encode_inj_gen t : forall t' r r',
  encode t ++ r = encode t' ++ r' -> t = t' /\ r = r'.
Proof.
  induction t as [e| |op cs IH] using gtree_ind'; intros t' r r' H.
  - destruct t' as [e'| |op' cs']; cbn [encode app] in H; try discriminate.
    + inversion H; subst; auto.
    + destruct op'; discriminate.
  - destruct t' as [e'| |op' cs']; cbn [encode app] in H; try discriminate.
    + inversion H; auto.
    + destruct op'; discriminate.
  - destruct t' as [e'| |op' cs']; cbn [encode app] in H.
    + destruct op; discriminate.
    + destruct op; discriminate.
    + inversion H as [[Ho Hr]]. apply op_tok_inj in Ho. subst op'.
      rewrite <- !app_assoc in Hr. cbn [app] in Hr.
      assert (Hcs : cs = cs' /\ r = r').
      { clear H. revert cs' Hr. induction IH as [|c cs Hc Hcs IHcs]; intros cs' Hr.
        - destruct cs' as [|c' cs']; cbn [map concat app] in Hr.
          + inversion Hr; auto.
          + destruct (encode_head c') as (k & q & E & Hk). rewrite E in Hr.
            cbn [app] in Hr. inversion Hr. congruence.
        - destruct cs' as [|c' cs']; cbn [map concat app] in Hr.
          + destruct (encode_head c) as (k & q & E & Hk). rewrite E in Hr.
            cbn [app] in Hr. inversion Hr. congruence.
          + rewrite <- !app_assoc in Hr. apply Hc in Hr as [-> Hr].
            apply IHcs in Hr as [-> ->]. auto. }
      destruct Hcs as [-> ->]. auto.
Qed.

Lemma encode_inj t t' : encode t = encode t' -> t = t'.
Proof.
  intros H. apply (encode_inj_gen t t' [] []). rewrite !app_nil_r. exact H.
Qed.

Lemma tcmp_laws : OrdLaws tcmp.
Proof.
  pose proof (lex_laws _ pos_laws) as L. unfold tcmp. split.
  - intros x y H. apply encode_inj. apply (ol_eq _ L); auto.
  - intros x. apply (ol_refl _ L).
  - intros x y. apply (ol_anti _ L).
  - intros x y z. apply (ol_trans _ L).
Qed.

(** * canon_tree *)

Theorem tperm_canon_tree t : tperm t (canon_tree t).
Proof.
  induction t as [e| |op cs IH] using gtree_ind'; cbn [canon_tree]; try constructor.
  apply tp_node with (map canon_tree cs).
  - induction IH; simpl; constructor; auto.
  - symmetry. apply isort_perm.
Qed.

Theorem outcomes_canon_tree t : outcomes (canon_tree t) = outcomes t.
Proof. symmetry. apply outcomes_perm_invariant, tperm_canon_tree. Qed.

Corollary Admits_canon_tree t s : Admits (canon_tree t) s <-> Admits t s.
Proof. rewrite <- !outcomes_Admits, outcomes_canon_tree. tauto. Qed.

Lemma canon_tree_node_perm op cs cs' :
  Permutation (map canon_tree cs) (map canon_tree cs') ->
  canon_tree (Node op cs) = canon_tree (Node op cs').
Proof. intros HP. cbn [canon_tree]. f_equal. apply (isort_perm_eq _ tcmp_laws); auto. Qed.

Theorem tperm_canon_eq t : forall t', tperm t t' -> canon_tree t = canon_tree t'.
Proof.
  induction t as [e| |op cs IH] using gtree_ind'; intros t' Hp; inversion Hp; subst; auto.
  apply canon_tree_node_perm.
  assert (E : map canon_tree cs = map canon_tree cs1).
  { clear Hp H3. revert cs1 H1. induction IH as [|c cs Hc Hcs IHcs]; intros cs1 H1;
      inversion H1; subst; simpl; auto. f_equal; auto. }
  rewrite E. apply Permutation_map; auto.
Qed.

Corollary canon_tree_idem t : canon_tree (canon_tree t) = canon_tree t.
Proof. symmetry. apply tperm_canon_eq, tperm_canon_tree. Qed.

Corollary canon_eq_outcomes t t' : canon_tree t = canon_tree t' -> outcomes t = outcomes t'.
Proof. intros H. rewrite <- (outcomes_canon_tree t), H. apply outcomes_canon_tree. Qed.

(** * Gates over plain events *)

Lemma Forall2_leaves es : forall ss,
  Forall2 Admits (map Leaf es) ss <-> ss = map (fun e => [e]) es.
Proof.
  induction es as [|e es IH]; intros ss; simpl; split; intros H.
  - inversion H; auto.
  - subst; constructor.
  - inversion H as [|? x ? ss' Hx HF]; subst. inversion Hx; subst. f_equal. apply IH; auto.
  - subst. constructor; [constructor|]. apply IH; auto.
Qed.

Theorem xor_leaves es s :
  Admits (Node GXor (map Leaf es)) s <-> exists e, In e es /\ s = [e].
Proof.
  split.
  - inversion 1 as [| |cs c s0 Hc Hs| |]; subst.
    apply in_map_iff in Hc as (e & <- & He). inversion Hs; subst. eauto.
  - intros (e & He & ->). apply A_xor with (Leaf e); [apply in_map; auto|constructor].
Qed.

Theorem and_leaves es s : Admits (Node GAnd (map Leaf es)) s <-> s = norm es.
Proof.
  split.
  - inversion 1 as [| | |cs ss s0 HF E|]; subst.
    apply Forall2_leaves in HF. subst. apply big_union_singletons.
  - intros ->. econstructor.
    + apply Forall2_leaves. reflexivity.
    + symmetry. apply big_union_singletons.
Qed.

Theorem or_leaves es s :
  Admits (Node GOr (map Leaf es)) s <-> canonical s /\ s <> [] /\ incl s es.
Proof.
  split.
  - inversion 1 as [| | | |cs sub ss s0 H1 H2 H3 E]; subst.
    apply Sub_map_inv in H1 as (es' & -> & Hsub).
    apply Forall2_leaves in H3. subst. rewrite big_union_singletons.
    split; [apply norm_canonical|]. split.
    + destruct es' as [|e es']; [exfalso; apply H2; reflexivity|]. intros E.
      assert (Hin : In e (norm (e :: es'))) by (apply norm_In; left; auto).
      rewrite E in Hin. destruct Hin.
    + intros x Hx. rewrite norm_In in Hx. exact (Sub_In _ _ _ Hsub Hx).
  - intros (Hc & Hne & Hi).
    set (f := fun e => existsb (Pos.eqb e) s).
    assert (Hf : forall x, In x (filter f es) <-> In x s).
    { intros x. rewrite filter_In. unfold f. rewrite existsb_exists. split.
      - intros (_ & y & Hy & E). apply Pos.eqb_eq in E. subst; auto.
      - intros Hx. split; auto. exists x; split; auto. apply Pos.eqb_refl. }
    apply A_or with (sub := map Leaf (filter f es)) (ss := map (fun e => [e]) (filter f es)).
    + apply Sub_map, Sub_filter.
    + destruct s as [|x s]; [congruence|]. intros E.
      assert (Hx : In x (filter f es)) by (apply Hf; left; auto).
      destruct (filter f es); [destruct Hx|discriminate].
    + apply Forall2_leaves. reflexivity.
    + rewrite big_union_singletons. apply canonical_ext; auto using norm_canonical.
      intros x. rewrite norm_In. symmetry. apply Hf.
Qed.

(** * Structural predicates *)

Lemma all_nodes_node p op cs :
  all_nodes p (Node op cs) = p (Node op cs) && forallb (all_nodes p) cs.
Proof. reflexivity. Qed.

Theorem all_nodes_spec p t :
  all_nodes p t = true <-> forall u, subtree u t -> p u = true.
Proof.
  induction t as [e| |op cs IH] using gtree_ind'.
  - simpl. rewrite andb_true_r. split.
    + intros H u Hu. inversion Hu; subst; auto.
    + intros H. apply H. constructor.
  - simpl. rewrite andb_true_r. split.
    + intros H u Hu. inversion Hu; subst; auto.
    + intros H. apply H. constructor.
  - rewrite all_nodes_node, andb_true_iff, forallb_forall. rewrite Forall_forall in IH. split.
    + intros [H1 H2] u Hu. inversion Hu; subst; auto.
      eapply IH; eauto.
    + intros H. split.
      * apply H. constructor.
      * intros c Hc. apply IH; auto. intros u Hu. apply H. econstructor; eauto.
Qed.

Theorem plain_or_spec t :
  plain_or t = true <->
  forall cs, subtree (Node GOr cs) t -> forall c, In c cs -> exists e, c = Leaf e.
Proof.
  unfold plain_or. rewrite all_nodes_spec. split.
  - intros H cs Hs c Hc. specialize (H _ Hs). cbn [plain_or_l] in H.
    rewrite forallb_forall in H. specialize (H _ Hc). destruct c; try discriminate. eauto.
  - intros H u Hu. destruct u as [| |[] cs]; auto. cbn [plain_or_l].
    apply forallb_forall. intros c Hc. destruct (H _ Hu _ Hc) as (e & ->). reflexivity.
Qed.

Theorem no_and_two_or_spec t :
  no_and_two_or t = true <->
  forall cs, subtree (Node GAnd cs) t -> length (filter is_or cs) <= 1.
Proof.
  unfold no_and_two_or. rewrite all_nodes_spec. split.
  - intros H cs Hs. specialize (H _ Hs). cbn [no_and_two_or_l] in H. apply Nat.leb_le; auto.
  - intros H u Hu. destruct u as [| |[] cs]; auto. cbn [no_and_two_or_l]. apply Nat.leb_le; auto.
Qed.

Theorem alternating_spec t :
  alternating t = true <->
  forall op cs cs', subtree (Node op cs) t -> ~ In (Node op cs') cs.
Proof.
  unfold alternating. rewrite all_nodes_spec. split.
  - intros H op cs cs' Hs Hc. specialize (H _ Hs). cbn [alternating_l] in H.
    rewrite forallb_forall in H. specialize (H _ Hc). cbn [top_ok] in H.
    destruct op; discriminate.
  - intros H u Hu. destruct u as [| |op cs]; auto. cbn [alternating_l].
    apply forallb_forall. intros c Hc. destruct c as [| |op' cs']; auto. cbn [top_ok].
    destruct op, op'; auto; exfalso; eapply H; eauto.
Qed.

Theorem no_tau_spec t : no_tau t = true <-> ~ subtree Tau t.
Proof.
  unfold no_tau. rewrite all_nodes_spec. split.
  - intros H Hs. specialize (H _ Hs). discriminate.
  - intros H u Hu. destruct u; auto.
Qed.

Theorem arity_ok_spec t :
  arity_ok t = true <-> forall op cs, subtree (Node op cs) t -> 2 <= length cs.
Proof.
  unfold arity_ok. rewrite all_nodes_spec. split.
  - intros H op cs Hs. specialize (H _ Hs). cbn [arity_l] in H. apply Nat.leb_le; auto.
  - intros H u Hu. destruct u as [| |op cs]; auto. cbn [arity_l]. apply Nat.leb_le. eauto.
Qed.

Lemma nodupb_spec l : nodupb l = true <-> NoDup l.
Proof.
  induction l as [|x l IH]; cbn [nodupb].
  - split; auto. constructor.
  - rewrite andb_true_iff, negb_true_iff, IH. split.
    + intros [H1 H2]. constructor; auto. intros Hx.
      assert (existsb (Pos.eqb x) l = true); [|congruence].
      apply existsb_exists. exists x; split; auto. apply Pos.eqb_refl.
    + inversion 1; subst. split; auto.
      destruct (existsb (Pos.eqb x) l) eqn:E; auto.
      apply existsb_exists in E as (y & Hy & E). apply Pos.eqb_eq in E. subst. contradiction.
Qed.

Theorem distinct_leaves_spec t : distinct_leaves t = true <-> NoDup (leaves t).
Proof. apply nodupb_spec. Qed.

Lemma depth_node op cs d :
  depth (Node op cs) <= S d <-> forall c, In c cs -> depth c <= d.
Proof.
  cbn [depth]. rewrite <- Nat.succ_le_mono. induction cs as [|c cs IH]; simpl.
  - split; [intros _ ? []|lia].
  - rewrite Nat.max_lub_iff, IH. split.
    + intros [H1 H2] x [<-|Hx]; auto.
    + intros H; split; auto.
Qed.

(** * A tree without tau in which every gate has a child never admits the empty set *)

Lemma set_union_nil a b : set_union a b = [] -> a = [] /\ b = [].
Proof.
  intros H. split.
  - destruct a as [|x a]; auto.
    assert (Hx : In x (set_union (x :: a) b)) by (apply set_union_In; left; left; auto).
    rewrite H in Hx. destruct Hx.
  - destruct b as [|x b]; auto.
    assert (Hx : In x (set_union a (x :: b))) by (apply set_union_In; right; left; auto).
    rewrite H in Hx. destruct Hx.
Qed.

Theorem no_empty_outcome t : no_tau t = true -> arity_ok t = true -> ~ Admits t [].
Proof.
  induction t as [e| |op cs IH] using gtree_ind'; intros Ht Ha H.
  - inversion H.
  - discriminate.
  - unfold no_tau, arity_ok in Ht, Ha. rewrite all_nodes_node, andb_true_iff in Ht, Ha.
    destruct Ht as [_ Ht], Ha as [Ha1 Ha]. rewrite forallb_forall in Ht, Ha.
    rewrite Forall_forall in IH.
    inversion H as [| |cs0 c s0 Hc Hs|cs0 ss s0 HF E|cs0 sub ss s0 H1 H2 H3 E]; subst.
    + apply (IH c); [exact Hc|apply Ht; exact Hc|apply Ha; exact Hc|exact Hs].
    + destruct HF as [|c x cs' ss' Hx HF]; [discriminate|].
      cbn [big_union fold_right] in E. symmetry in E. apply set_union_nil in E as [-> _].
      assert (Hc : In c (c :: cs')) by (left; reflexivity).
      apply (IH c); [exact Hc|apply Ht; exact Hc|apply Ha; exact Hc|exact Hx].
    + destruct H3 as [|c x sub' ss' Hx HF]; [congruence|].
      cbn [big_union fold_right] in E. symmetry in E. apply set_union_nil in E as [-> _].
      assert (Hc : In c cs) by (apply (Sub_In _ _ c H1); left; reflexivity).
      apply (IH c); [exact Hc|apply Ht; exact Hc|apply Ha; exact Hc|exact Hx].
Qed.

Corollary no_empty_in_domain n t : in_domain n t = true -> ~ In [] (outcomes t).
Proof.
  unfold in_domain. rewrite !andb_true_iff. intros [[[[[H1 H2] _] _] _] _] H.
  apply outcomes_Admits in H. eapply no_empty_outcome; eauto.
Qed.

(** * Examples (also serve as non-vacuity witnesses) *)

Definition ex_mixed : gtree :=
  Node GAnd [Leaf 1; Node GOr [Leaf 2; Leaf 3]; Node GXor [Leaf 4; Leaf 5]]%positive.

Lemma ex_mixed_outcomes :
  outcomes ex_mixed
  = [[1; 2; 3; 4]; [1; 2; 3; 5]; [1; 2; 4]; [1; 2; 5]; [1; 3; 4]; [1; 3; 5]]%positive.
Proof. vm_compute. reflexivity. Qed.

Lemma ex_mixed_in_domain : in_domain 5 ex_mixed = true /\ exact_class ex_mixed = true.
Proof. vm_compute. auto. Qed.

Lemma ex_mixed_admits : Admits ex_mixed [1; 2; 3; 5]%positive /\ ~ Admits ex_mixed [1; 4; 5]%positive.
Proof.
  split.
  - apply (admits_b_canonical ex_mixed); reflexivity.
  - intros H. apply (admits_b_canonical ex_mixed) in H; [discriminate|reflexivity].
Qed.

(** the harness may hand over sets in any order with repeats *)
Lemma ex_unnormalised_family :
  exact_b ex_mixed [[4; 2; 1]; [5; 2; 1; 2]; [3; 1; 4]; [5; 3; 1]; [1; 2; 3; 4]; [3; 2; 1; 5];
                    [1; 2; 4]]%positive = true.
Proof. vm_compute. reflexivity. Qed.

(** optional choice: tau under XOR admits the empty set *)
Lemma ex_tau_outcomes : outcomes (Node GXor [Tau; Leaf 1%positive]) = [[]; [1%positive]].
Proof. vm_compute. reflexivity. Qed.

(** OR(1,2) returned for the XOR family {{1},{2}}: sound, not exact (it also admits {1,2}) *)
Lemma ex_sound_not_exact :
  let res := Node GOr [Leaf 1; Leaf 2]%positive in
  let F := [[1]; [2]]%positive in
  sound_b res F = true /\ exact_b res F = false /\
  Admits res [1; 2]%positive /\ ~ In [1; 2]%positive (map norm F).
Proof.
  cbv zeta. repeat split; try (vm_compute; reflexivity).
  - apply admits_b_canonical; reflexivity.
  - simpl. intros [H|[H|[]]]; discriminate.
Qed.

(** XOR(1,2) returned for the family {{1,2}}: not even sound *)
Lemma ex_not_sound : sound_b (Node GXor [Leaf 1; Leaf 2]%positive) [[2; 1]]%positive = false.
Proof. vm_compute. reflexivity. Qed.

(** order of children is irrelevant; canon_tree picks the representative *)
Lemma ex_canon :
  canon_tree (Node GAnd [Node GXor [Leaf 5; Leaf 4]; Node GOr [Leaf 3; Leaf 2]; Leaf 1]%positive)
  = canon_tree ex_mixed.
Proof. vm_compute. reflexivity. Qed.

(** AND with two OR children (outside the exactness sub-class, inside the domain) *)
Lemma ex_and_two_or :
  let t := Node GAnd [Node GOr [Leaf 1; Leaf 2]; Node GOr [Leaf 3; Leaf 4]]%positive in
  in_domain 4 t = true /\ exact_class t = false /\ plain_or t = true /\ no_and_two_or t = false.
Proof. vm_compute. auto. Qed.
