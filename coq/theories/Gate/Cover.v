(** * [get_weighted_cover] of /repo/tel2puml/utils.py:14-60, transcribed over lists.

    Python sets become lists: the iteration order of the Python set [event_sets] is the order of
    the list [E]; [weighted_cover] is kept in insertion order. Every set is normalised on entry
    ([norm]: strictly increasing, duplicate-free), and [inter]/[diff] are filters, so [length] is
    Python's [len] throughout. The float key  len(s & u) / len(s)**2  is compared exactly by
    cross-multiplication ([key_lt]); [max] keeps the FIRST maximal element, as Python does.
    A [ZeroDivisionError] (an empty frozenset among the event sets while the loop runs) is the
    result [Crash]. [OutOfFuel] is an artefact of the fuel-based loop and is proved unreachable
    (CoverProofs.gwc_fuel). Definitions only; proofs in CoverProofs.v. *)
From Coq Require Import List Bool PArith Arith.
From V Require Import Gate.GateTree.
Import ListNotations.

Definition memp (x : positive) (s : eset) : bool := existsb (Pos.eqb x) s.
Definition inter (a b : eset) : eset := filter (fun x => memp x b) a.
Definition diff (a b : eset) : eset := filter (fun x => negb (memp x b)) a.
Definition subsetb (a b : eset) : bool := forallb (fun x => memp x b) a.
Definition seteqb (a b : eset) : bool := subsetb a b && subsetb b a.
Definition is_empty (s : eset) : bool := match s with [] => true | _ => false end.

Inductive cres :=
| OutOfFuel
| Crash
| NoCover                  (* Python returns None *)
| Cover (C : list eset).   (* Python returns the set C *)

(** key(a) < key(b), where key(s) = |s & u| / |s|^2 *)
Definition key_lt (u a b : eset) : bool :=
  length (inter a u) * (length b * length b) <? length (inter b u) * (length a * length a).

(** [max(event_sets, key=...)]: first maximal element *)
Fixpoint argmax (u best : eset) (l : list eset) : eset :=
  match l with
  | [] => best
  | s :: r => if key_lt u best s then argmax u s r else argmax u best r
  end.

(** [weighted_cover.add(subset)] *)
Definition add_set (s : eset) (wc : list eset) : list eset :=
  if existsb (seteqb s) wc then wc else wc ++ [s].

(** the [while universe:] loop *)
Fixpoint cover_loop (fuel : nat) (E : list eset) (u : eset) (wc : list eset) : cres :=
  match u with
  | [] => Cover wc
  | _ :: _ =>
      match fuel with
      | O => OutOfFuel
      | S f =>
          match E with
          | [] => Crash
          | e0 :: er =>
              let s := argmax u e0 er in
              let u' := diff u s in
              if length u' =? length u then NoCover
              else cover_loop f E u' (add_set s wc)
          end
      end
  end.

(** [if event_set & cover_set == cover_set: event_set -= cover_set] *)
Definition reduce (acc c : eset) : eset :=
  if seteqb (inter acc c) c then diff acc c else acc.

Definition get_weighted_cover (E : list eset) (U : eset) : cres :=
  let U1 := norm U in
  (* if universe in event_sets: event_sets.remove(universe) *)
  let E1 := filter (fun s => negb (seteqb s U1)) (map norm E) in
  match E1 with
  | [] => NoCover
  | _ :: _ =>
      if negb (is_empty U1) && existsb is_empty E1 then Crash
      else
        match cover_loop (S (length U1)) E1 U1 [] with
        | Cover wc =>
            if forallb (fun s => is_empty (fold_left reduce wc s)) E1 then
              (* for x, y in permutations(weighted_cover, 2): if len(x & y) > 0: return None *)
              if forallb (fun x => forallb (fun y => seteqb x y || is_empty (inter x y)) wc) wc
              then Cover wc else NoCover
            else NoCover
        | r => r
        end
  end.
