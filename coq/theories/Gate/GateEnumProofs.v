(** Proofs about the enumeration of GateEnum.v: soundness and (full, for every n) completeness
    up to the order of children, plus computed facts (counts, distinctness of representatives,
    agreement with the brute-force enumerator for n <= 4). *)
From Coq Require Import List Bool PArith NArith Arith Lia Permutation Orders Mergesort.
From V Require Import Gate.GateTree Gate.GateProofs Gate.GateEnum.
Import ListNotations.

(** * List utilities *)

Lemma prod_list_map_In {A B} (f : B -> list A) (P : list B) : forall xs,
  In xs (prod_list (map f P)) <-> Forall2 (fun x b => In x (f b)) xs P.
Proof.
  induction P as [|b P IH]; intros xs; cbn [map prod_list].
  - split.
    + intros [<-|[]]. constructor.
    + inversion 1. left; auto.
  - rewrite in_flat_map. split.
    + intros (x & Hx & Hxs). apply in_map_iff in Hxs as (ys & <- & Hys).
      constructor; auto. apply IH; auto.
    + inversion 1 as [|x b' ys P' Hx Hys]; subst.
      exists x; split; auto. apply in_map. apply IH; auto.
Qed.

Lemma Forall2_In_l {A B} (R : A -> B -> Prop) l l' x :
  Forall2 R l l' -> In x l -> exists y, In y l' /\ R x y.
Proof.
  induction 1 as [|a b l l' Hab HF IH]; simpl; intros Hx; [destruct Hx|].
  destruct Hx as [<-|Hx]; eauto. destruct (IH Hx) as (y & Hy & Hr); eauto.
Qed.

Lemma Forall2_imp {A B} (R R' : A -> B -> Prop) l l' :
  (forall a b, R a b -> R' a b) -> Forall2 R l l' -> Forall2 R' l l'.
Proof. intros H. induction 1; constructor; auto. Qed.

Lemma F2_len {A B} {R : A -> B -> Prop} {l l'} : Forall2 R l l' -> length l = length l'.
Proof. induction 1; simpl; auto. Qed.

Lemma NoDup_map_inj {A B} (f : A -> B) l x y :
  NoDup (map f l) -> In x l -> In y l -> f x = f y -> x = y.
Proof.
  induction l as [|a l IH]; simpl; intros Hn Hx Hy E; [destruct Hx|].
  inversion Hn as [|? ? Hnot Hn']; subst.
  destruct Hx as [<-|Hx], Hy as [<-|Hy]; auto.
  - exfalso. apply Hnot. rewrite E. apply in_map; auto.
  - exfalso. apply Hnot. rewrite <- E. apply in_map; auto.
Qed.

(** * Set partitions *)

Definition nonempty {A} (B : list A) : Prop := B <> [].

Lemma ins_each_In {A} (x : A) M1 C M2 :
  In (M1 ++ (x :: C) :: M2) (ins_each x (M1 ++ C :: M2)).
Proof.
  induction M1 as [|B M1 IH]; cbn [app ins_each].
  - left; auto.
  - right. apply in_map. exact IH.
Qed.

Lemma ins_each_sound {A} (x : A) P : forall P',
  In P' (ins_each x P) ->
  Permutation (concat P') (x :: concat P) /\
  (Forall nonempty P -> Forall nonempty P') /\ length P' = length P.
Proof.
  induction P as [|B Q IH]; cbn [ins_each]; intros P' H; [destruct H|].
  destruct H as [<-|H].
  - repeat split; auto. intros HF. inversion HF; subst. constructor; auto. discriminate.
  - apply in_map_iff in H as (Q' & <- & HQ'). destruct (IH _ HQ') as (H1 & H2 & H3).
    repeat split.
    + cbn [concat]. rewrite H1. symmetry. apply Permutation_middle.
    + intros HF. inversion HF; subst. constructor; auto.
    + simpl. congruence.
Qed.

Lemma parts_sound {A} (l : list A) : forall P,
  In P (parts l) -> Permutation (concat P) l /\ Forall nonempty P.
Proof.
  induction l as [|x r IH]; cbn [parts]; intros P H.
  - destruct H as [<-|[]]. split; auto.
  - apply in_flat_map in H as (Q & HQ & H). destruct (IH _ HQ) as [H1 H2].
    destruct H as [<-|H].
    + split; [cbn [concat app]; auto|]. constructor; auto. discriminate.
    + destruct (ins_each_sound _ _ _ H) as (H3 & H4 & _). split; auto.
      rewrite H3. auto.
Qed.

Lemma concat_nonempty_nil {A} (P : list (list A)) :
  Forall nonempty P -> concat P = [] -> P = [].
Proof.
  destruct P as [|B Q]; auto. intros HF H. inversion HF; subst.
  cbn [concat] in H. apply app_eq_nil in H as [H _]. contradiction.
Qed.

Theorem parts_complete {A} (l : list A) : forall P0,
  Forall nonempty P0 -> Permutation (concat P0) l ->
  exists P P0', In P (parts l) /\ Permutation P0 P0' /\ Forall2 (@Permutation A) P0' P.
Proof.
  induction l as [|x r IH]; intros P0 HF HP.
  - apply Permutation_sym, Permutation_nil in HP.
    apply concat_nonempty_nil in HP; auto. subst.
    exists [], []. repeat split; simpl; auto.
  - assert (Hx : In x (concat P0)).
    { eapply Permutation_in; [symmetry; exact HP|left; auto]. }
    apply in_concat in Hx as (B & HB & HxB).
    apply in_split in HB as (L1 & L2 & ->).
    apply in_split in HxB as (B1 & B2 & ->).
    assert (HP' : Permutation (concat L1 ++ (B1 ++ B2) ++ concat L2) r).
    { rewrite concat_app in HP. cbn [concat] in HP.
      apply Permutation_cons_inv with x. rewrite <- HP.
      rewrite <- !app_assoc. cbn [app]. rewrite !(app_assoc (concat L1) B1).
      apply Permutation_middle. }
    apply Forall_app in HF as [HF1 HF2]. inversion HF2 as [|? ? _ HF3]; subst.
    assert (HB : Permutation (B1 ++ x :: B2) (x :: B1 ++ B2)).
    { symmetry. apply Permutation_middle. }
    destruct (B1 ++ B2) as [|b B'] eqn:EB.
    + (* x alone in its block *)
      destruct (IH (L1 ++ L2)) as (P & Q0' & HPin & HPq & HF2').
      { apply Forall_app; auto. }
      { rewrite concat_app. exact HP'. }
      exists ([x] :: P), ((B1 ++ x :: B2) :: Q0'). repeat split.
      * cbn [parts]. apply in_flat_map. exists P; split; auto. left; auto.
      * rewrite <- Permutation_middle. constructor. exact HPq.
      * constructor; auto.
    + (* x joins the block b :: B' *)
      destruct (IH (L1 ++ (b :: B') :: L2)) as (P & P1' & HPin & HPq & HF2').
      { apply Forall_app; split; auto. constructor; auto. discriminate. }
      { rewrite concat_app. cbn [concat]. exact HP'. }
      assert (Hin : In (b :: B') P1').
      { eapply Permutation_in; [exact HPq|]. apply in_elt. }
      apply in_split in Hin as (K1 & K2 & ->).
      apply Forall2_app_inv_l in HF2' as (M1 & M & HK1 & HK & ->).
      inversion HK as [|? C ? M2 HC HK2]; subst.
      exists (M1 ++ (x :: C) :: M2), (K1 ++ (B1 ++ x :: B2) :: K2). repeat split.
      * cbn [parts]. apply in_flat_map. exists (M1 ++ C :: M2); split; auto.
        right. apply ins_each_In.
      * apply Permutation_elt. eapply Permutation_app_inv. exact HPq.
      * apply Forall2_app; auto. constructor; auto.
        rewrite HB. constructor. exact HC.
Qed.

(** * The sequence 1..n *)

Lemma pos_seq_canonical n : canonical (pos_seq n).
Proof.
  unfold pos_seq, canonical, canonical_b. generalize 0 as a.
  induction n as [|n IH]; intros a; [reflexivity|].
  cbn [seq map]. apply sincb_cons. split; auto.
  intros y Hy. apply in_map_iff in Hy as (k & <- & Hk). apply in_seq in Hk.
  apply Pos.compare_lt_iff. lia.
Qed.

Lemma pos_seq_NoDup n : NoDup (pos_seq n).
Proof. apply canonical_NoDup, pos_seq_canonical. Qed.

(** * Soundness of the enumeration *)

Definition good (d : nat) (po : option gop) (S : list positive) (t : gtree) : Prop :=
  depth t <= d /\ top_ok po t = true /\ alternating t = true /\ arity_ok t = true /\
  no_tau t = true /\ Permutation (leaves t) S.

Lemma top_ok_allowed po op cs : top_ok po (Node op cs) = allowed po op.
Proof. destruct po; reflexivity. Qed.

Lemma In_ops op : In op ops.
Proof. destruct op; simpl; auto. Qed.

Lemma good_children d op cs P :
  Forall2 (fun c B => good d (Some op) B c) cs P ->
  (forall c, In c cs ->
     depth c <= d /\ top_ok (Some op) c = true /\ alternating c = true /\
     arity_ok c = true /\ no_tau c = true) /\
  Permutation (concat (map leaves cs)) (concat P).
Proof.
  induction 1 as [|c B cs P Hc HF [IH1 IH2]].
  - split; [intros c []|reflexivity].
  - destruct Hc as (H1 & H2 & H3 & H4 & H5 & H6). split.
    + intros c' [<-|Hc']; [repeat split; assumption|apply IH1; exact Hc'].
    + cbn [map concat]. apply Permutation_app; assumption.
Qed.

Theorem enum_at_sound d : forall po S t, In t (enum_at d po S) -> good d po S t.
Proof.
  induction d as [|d IH]; intros po S t H.
  - destruct S as [|e [|e' S']]; cbn [enum_at] in H; try destruct H as [<-|[]]; try destruct H.
    repeat split; simpl; auto. destruct po; auto.
  - destruct S as [|e [|e' S']]; cbn [enum_at] in H.
    + destruct H.
    + destruct H as [<-|[]]. repeat split; simpl; auto with arith. destruct po; auto.
    + apply in_flat_map in H as (op & _ & H).
      destruct (allowed po op) eqn:Ea; [|destruct H].
      apply in_flat_map in H as (P & HP & H). apply filter_In in HP as [HP Hlen].
      apply in_map_iff in H as (cs & <- & Hcs).
      apply prod_list_map_In in Hcs.
      assert (HG : Forall2 (fun c B => good d (Some op) B c) cs P).
      { eapply Forall2_imp; [|exact Hcs]. intros c B Hc. apply IH; auto. }
      destruct (good_children _ _ _ _ HG) as [Hch Hperm].
      apply parts_sound in HP as [HP _]. apply Nat.leb_le in Hlen.
      rewrite <- (F2_len HG) in Hlen.
      unfold good, alternating, arity_ok, no_tau. rewrite !all_nodes_node.
      repeat split.
      * apply depth_node. intros c Hc. apply Hch; auto.
      * rewrite top_ok_allowed. exact Ea.
      * apply andb_true_iff; split; apply forallb_forall; intros c Hc; apply Hch; auto.
      * apply andb_true_iff; split; [apply Nat.leb_le; exact Hlen|].
        apply forallb_forall; intros c Hc; apply Hch; auto.
      * apply andb_true_iff; split; [reflexivity|].
        apply forallb_forall; intros c Hc; apply Hch; auto.
      * cbn [leaves]. rewrite Hperm. exact HP.
Qed.

Theorem enum_trees_sound n t : In t (enum_trees n) -> in_domain n t = true.
Proof.
  intros H. apply enum_at_sound in H as (H1 & _ & H3 & H4 & H5 & H6).
  unfold in_domain. rewrite H3, H4, H5. cbn [andb].
  apply andb_true_iff; split; [apply andb_true_iff; split|].
  - apply Nat.leb_le; auto.
  - apply distinct_leaves_spec. eapply Permutation_NoDup; [symmetry; exact H6|].
    apply pos_seq_NoDup.
  - apply set_eqb_iff. rewrite (norm_perm _ _ H6). apply norm_id, pos_seq_canonical.
Qed.

(** * Completeness of the enumeration (every n) *)

Lemma leaves_nonempty t : no_tau t = true -> arity_ok t = true -> leaves t <> [].
Proof.
  induction t as [e| |op cs IH] using gtree_ind'; intros Ht Ha.
  - discriminate.
  - discriminate.
  - unfold no_tau, arity_ok in Ht, Ha. rewrite all_nodes_node, andb_true_iff in Ht, Ha.
    destruct Ht as [_ Ht], Ha as [Ha1 Ha]. cbn [arity_l] in Ha1. apply Nat.leb_le in Ha1.
    destruct cs as [|c cs]; [simpl in Ha1; lia|].
    cbn [forallb] in Ht, Ha. apply andb_true_iff in Ht as [Ht _], Ha as [Ha _].
    inversion IH as [|? ? Hc _]; subst. cbn [leaves map concat].
    intros E. apply app_eq_nil in E as [E _]. revert E. apply Hc; auto.
Qed.

Lemma build_children d op cs P :
  Forall (fun c => forall d po S,
            depth c <= d -> top_ok po c = true -> alternating c = true ->
            arity_ok c = true -> no_tau c = true -> Permutation (leaves c) S ->
            In (canon_tree c) (map canon_tree (enum_at d po S))) cs ->
  (forall c, In c cs ->
     depth c <= d /\ top_ok (Some op) c = true /\ alternating c = true /\
     arity_ok c = true /\ no_tau c = true) ->
  Forall2 (fun c B => Permutation (leaves c) B) cs P ->
  exists cs', Forall2 (fun c' B => In c' (enum_at d (Some op) B)) cs' P /\
              map canon_tree cs' = map canon_tree cs.
Proof.
  intros HI Hch HF. induction HF as [|c B cs P HcB HF IH].
  - exists []; split; auto.
  - inversion HI as [|? ? Hc HI']; subst.
    destruct IH as (cs' & H1 & H2); auto.
    { intros c' Hc'. apply Hch. right; auto. }
    destruct (Hch c (or_introl eq_refl)) as (G1 & G2 & G3 & G4 & G5).
    specialize (Hc d (Some op) B G1 G2 G3 G4 G5 HcB).
    apply in_map_iff in Hc as (c' & Ec & Hc').
    exists (c' :: cs'); split; [constructor; auto|]. simpl. congruence.
Qed.

Theorem enum_at_complete t : forall d po S,
  depth t <= d -> top_ok po t = true -> alternating t = true ->
  arity_ok t = true -> no_tau t = true -> Permutation (leaves t) S ->
  In (canon_tree t) (map canon_tree (enum_at d po S)).
Proof.
  induction t as [e| |op cs IH] using gtree_ind'; intros d po S Hd Hpo Halt Har Hnt HS.
  - cbn [leaves] in HS. apply Permutation_length_1_inv in HS. subst.
    destruct d; simpl; auto.
  - discriminate.
  - pose proof (leaves_nonempty _ Hnt Har) as Hne.
    pose proof Halt as Halt'. pose proof Har as Har'. pose proof Hnt as Hnt'.
    unfold alternating, arity_ok, no_tau in Halt', Har', Hnt'.
    rewrite all_nodes_node, andb_true_iff in Halt', Har', Hnt'.
    destruct Halt' as [Ha1 Ha2], Har' as [Hr1 Hr2], Hnt' as [_ Hn2].
    cbn [alternating_l] in Ha1. cbn [arity_l] in Hr1. apply Nat.leb_le in Hr1.
    rewrite forallb_forall in Ha1, Ha2, Hr2, Hn2.
    destruct d as [|d]; [cbn [depth] in Hd; lia|].
    assert (Hch : forall c, In c cs ->
              depth c <= d /\ top_ok (Some op) c = true /\ alternating c = true /\
              arity_ok c = true /\ no_tau c = true).
    { intros c Hc. repeat split; auto. apply (proj1 (depth_node op cs d) Hd); auto. }
    assert (HPne : Forall nonempty (map leaves cs)).
    { apply Forall_forall. intros B HB. apply in_map_iff in HB as (c & <- & Hc).
      apply leaves_nonempty; apply Hch; auto. }
    cbn [leaves] in HS, Hne.
    destruct (parts_complete S (map leaves cs) HPne HS) as (P & P0' & HPin & HPq & HF2).
    apply Permutation_sym, Permutation_map_inv in HPq as (cs1 & -> & Hcs1).
    assert (HF2' : Forall2 (fun c B => Permutation (leaves c) B) cs1 P).
    { clear - HF2. revert P HF2. induction cs1 as [|c cs1 IHc]; intros P HF2;
        inversion HF2; subst; constructor; auto. }
    assert (IH1 : Forall (fun c => forall d po S,
                   depth c <= d -> top_ok po c = true -> alternating c = true ->
                   arity_ok c = true -> no_tau c = true -> Permutation (leaves c) S ->
                   In (canon_tree c) (map canon_tree (enum_at d po S))) cs1).
    { rewrite Forall_forall in *. intros c Hc. apply IH.
      eapply Permutation_in; [symmetry; exact Hcs1|exact Hc]. }
    assert (Hch1 : forall c, In c cs1 ->
              depth c <= d /\ top_ok (Some op) c = true /\ alternating c = true /\
              arity_ok c = true /\ no_tau c = true).
    { intros c Hc. apply Hch. eapply Permutation_in; [symmetry; exact Hcs1|exact Hc]. }
    destruct (build_children d op cs1 P IH1 Hch1 HF2') as (cs' & Hcs' & Ecs').
    assert (Hlen : 2 <= length P).
    { rewrite <- (F2_len HF2'), <- (Permutation_length Hcs1). exact Hr1. }
    assert (HSlen : 2 <= length S).
    { destruct (parts_sound _ _ HPin) as [Hc Hn]. rewrite <- (Permutation_length Hc).
      destruct P as [|B1 [|B2 P']]; simpl in Hlen; try lia.
      inversion Hn as [|? ? HB1 Hn']; subst. inversion Hn' as [|? ? HB2 _]; subst.
      cbn [concat]. rewrite !app_length.
      destruct B1; [exfalso; apply HB1; reflexivity|].
      destruct B2; [exfalso; apply HB2; reflexivity|]. simpl. lia. }
    destruct S as [|e [|e' S']]; try (simpl in HSlen; lia).
    apply in_map_iff. exists (Node op cs'). split.
    + apply canon_tree_node_perm. rewrite Ecs'. apply Permutation_map. symmetry. exact Hcs1.
    + cbn [enum_at]. apply in_flat_map. exists op; split; [apply In_ops|].
      rewrite <- (top_ok_allowed po op cs), Hpo.
      apply in_flat_map. exists P; split.
      * apply filter_In; split; auto. apply Nat.leb_le; auto.
      * apply in_map. apply prod_list_map_In. exact Hcs'.
Qed.

Theorem enum_trees_complete n t :
  in_domain n t = true -> In (canon_tree t) (map canon_tree (enum_trees n)).
Proof.
  unfold in_domain. rewrite !andb_true_iff.
  intros [[[[[H1 H2] H3] H4] H5] H6].
  apply Nat.leb_le in H4. apply distinct_leaves_spec in H5. apply set_eqb_iff in H6.
  apply enum_at_complete; auto.
  apply NoDup_Permutation; auto using pos_seq_NoDup.
  intros x. rewrite <- H6, norm_In. tauto.
Qed.

(** every in-domain tree equals an enumerated one up to the order of children *)
Corollary enum_trees_complete_tperm n t :
  in_domain n t = true ->
  exists t', In t' (enum_trees n) /\ canon_tree t' = canon_tree t /\ outcomes t' = outcomes t.
Proof.
  intros H. apply enum_trees_complete in H. apply in_map_iff in H as (t' & E & Ht').
  exists t'; repeat split; auto. apply canon_eq_outcomes; auto.
Qed.

(** * Computed facts *)

Theorem enum_counts :
  map (fun n => N.of_nat (length (enum_trees n))) [1; 2; 3; 4; 5; 6]
  = [1; 3; 21; 243; 2493; 27099]%N.
Proof. vm_compute. reflexivity. Qed.

Theorem enum_exact_class_counts :
  map (fun n => N.of_nat (length (enum_exact_class n))) [1; 2; 3; 4; 5; 6]
  = [1; 3; 15; 112; 943; 8592]%N.
Proof. vm_compute. reflexivity. Qed.

(** stdlib merge sort on trees, used only to make the distinctness check fast *)
Module TreeOrder <: Orders.TotalLeBool.
  Definition t := gtree.
  Definition leb (x y : gtree) : bool := match tcmp x y with Gt => false | _ => true end.
  Lemma leb_total : forall x y, leb x y = true \/ leb y x = true.
  Proof.
    intros x y. unfold leb. rewrite (ol_anti _ tcmp_laws y x).
    destruct (tcmp x y); simpl; auto.
  Qed.
End TreeOrder.
Module TreeSort := Mergesort.Sort TreeOrder.

Lemma strictly_sorted_NoDup l : trees_strictly_sorted (TreeSort.sort l) = true -> NoDup l.
Proof.
  intros H. apply (adjb_sincb _ tcmp_laws) in H. apply (sinc_NoDup _ tcmp_laws) in H.
  eapply Permutation_NoDup; [|exact H]. symmetry. apply TreeSort.Permuted_sort.
Qed.

(** one representative per unordered tree (computed, n <= 6) *)
Theorem enum_trees_canon_NoDup n : n <= 6 -> NoDup (map canon_tree (enum_trees n)).
Proof.
  intros Hn. apply strictly_sorted_NoDup.
  do 7 (destruct n as [|n]; [vm_compute; reflexivity|]). lia.
Qed.

Theorem enum_trees_one_rep n t t' :
  n <= 6 -> In t (enum_trees n) -> In t' (enum_trees n) -> tperm t t' -> t = t'.
Proof.
  intros Hn Ht Ht' Hp. eapply NoDup_map_inj; eauto using enum_trees_canon_NoDup.
  apply tperm_canon_eq; auto.
Qed.

(** agreement with the independent brute-force enumerator (computed, n <= 4) *)
Theorem brute_agrees n :
  n <= 4 ->
  nrm tcmp (map canon_tree (brute_trees n)) = nrm tcmp (map canon_tree (enum_trees n)).
Proof.
  intros Hn. do 5 (destruct n as [|n]; [vm_compute; reflexivity|]). lia.
Qed.
