(** Proofs about the transcription of [get_weighted_cover] (Cover.v). *)
From Coq Require Import List Bool PArith Arith Lia.
From V Require Import Gate.GateTree Gate.GateProofs Gate.Cover.
Import ListNotations.

(** * Set operations *)

Lemma memp_iff x s : memp x s = true <-> In x s.
Proof.
  unfold memp. rewrite existsb_exists. split.
  - intros (y & Hy & E). apply Pos.eqb_eq in E. subst; auto.
  - intros H. exists x; split; auto. apply Pos.eqb_refl.
Qed.

Lemma inter_In a b x : In x (inter a b) <-> In x a /\ In x b.
Proof. unfold inter. rewrite filter_In, memp_iff. tauto. Qed.

Lemma diff_In a b x : In x (diff a b) <-> In x a /\ ~ In x b.
Proof.
  unfold diff. rewrite filter_In, negb_true_iff. split; intros [H1 H2]; split; auto.
  - intros Hb. apply memp_iff in Hb. congruence.
  - destruct (memp x b) eqn:E; auto. exfalso. apply H2, memp_iff, E.
Qed.

Lemma subsetb_iff a b : subsetb a b = true <-> incl a b.
Proof.
  unfold subsetb, incl. rewrite forallb_forall.
  split; intros H x Hx; apply memp_iff; auto.
Qed.

Lemma seteqb_iff a b : seteqb a b = true <-> (forall x, In x a <-> In x b).
Proof.
  unfold seteqb. rewrite andb_true_iff, !subsetb_iff. unfold incl. split.
  - intros [H1 H2] x; split; auto.
  - intros H; split; intros x; apply H.
Qed.

Lemma is_empty_iff s : is_empty s = true <-> s = [].
Proof. destruct s; simpl; split; intros; auto; discriminate. Qed.

Lemma filter_length {A} (f : A -> bool) l : length (filter f l) <= length l.
Proof. induction l as [|x l IH]; simpl; auto. destruct (f x); simpl; lia. Qed.

(** * The loop *)

Lemma argmax_In u l : forall best, In (argmax u best l) (best :: l).
Proof.
  induction l as [|s r IH]; intros best; cbn [argmax].
  - left; auto.
  - destruct (key_lt u best s).
    + right. apply IH.
    + destruct (IH best) as [H|H]; [left|right; right]; auto.
Qed.

Lemma add_set_incl s wc c : In c wc -> In c (add_set s wc).
Proof. unfold add_set. destruct (existsb (seteqb s) wc); auto. intros; apply in_or_app; auto. Qed.

Lemma add_set_has s wc : exists s', In s' (add_set s wc) /\ seteqb s s' = true.
Proof.
  unfold add_set. destruct (existsb (seteqb s) wc) eqn:E.
  - apply existsb_exists in E as (s' & H1 & H2). eauto.
  - exists s; split; [apply in_or_app; right; left; auto|].
    apply seteqb_iff. tauto.
Qed.

Lemma add_set_inv s wc c : In c (add_set s wc) -> In c wc \/ c = s.
Proof.
  unfold add_set. destruct (existsb (seteqb s) wc); auto.
  intros H. apply in_app_or in H as [H|[H|[]]]; auto.
Qed.

Lemma cover_loop_cover f E : forall u wc C,
  cover_loop f E u wc = Cover C ->
  (forall c, In c wc -> In c C) /\
  (forall x, In x u -> exists c, In c C /\ In x c) /\
  (forall c, In c C -> In c wc \/ In c E).
Proof.
  induction f as [|f IH]; intros u wc C H; destruct u as [|x0 u0]; cbn [cover_loop] in H;
    try discriminate.
  - inversion H; subst. repeat split; auto. intros x [].
  - inversion H; subst. repeat split; auto. intros x [].
  - destruct E as [|e0 er]; [discriminate|].
    set (u := x0 :: u0) in *. set (s := argmax u e0 er) in *.
    destruct (length (diff u s) =? length u); [discriminate|].
    apply IH in H as (H1 & H2 & H3). repeat split.
    + intros c Hc. apply H1, add_set_incl, Hc.
    + intros x Hx. destruct (memp x s) eqn:Ex.
      * apply memp_iff in Ex. destruct (add_set_has s wc) as (s' & Hs' & Es).
        exists s'; split; auto. apply (proj1 (seteqb_iff _ _) Es); auto.
      * apply H2. apply diff_In; split; auto. rewrite <- memp_iff, Ex. discriminate.
    + intros c Hc. apply H3 in Hc as [Hc|Hc]; auto.
      apply add_set_inv in Hc as [Hc| ->]; auto. right. apply argmax_In.
Qed.

Lemma cover_loop_fuel f E : forall u wc, length u < f -> cover_loop f E u wc <> OutOfFuel.
Proof.
  induction f as [|f IH]; intros u wc Hf; [lia|].
  destruct u as [|x0 u0]; cbn [cover_loop]; [discriminate|].
  destruct E as [|e0 er]; [discriminate|].
  set (u := x0 :: u0) in *. set (s := argmax u e0 er).
  destruct (length (diff u s) =? length u) eqn:El; [discriminate|].
  apply IH. apply Nat.eqb_neq in El.
  pose proof (filter_length (fun x => negb (memp x s)) u) as Hle.
  fold (diff u s) in Hle. lia.
Qed.

(** * The subset-removal pass *)

Lemma reduce_spec acc c :
  reduce acc c = if subsetb c acc then diff acc c else acc.
Proof.
  unfold reduce.
  assert (E : seteqb (inter acc c) c = subsetb c acc); [|rewrite E; auto].
  apply eq_true_iff_eq. rewrite seteqb_iff, subsetb_iff. unfold incl. split.
  - intros H x Hx. apply H in Hx. apply inter_In in Hx. tauto.
  - intros H x. rewrite inter_In. split; [tauto|]. intros Hx; split; auto.
Qed.

Lemma reduce_empty wc : forall acc s,
  incl acc s -> fold_left reduce wc acc = [] ->
  forall x, In x acc -> exists c, In c wc /\ incl c s /\ In x c.
Proof.
  induction wc as [|c wc IH]; intros acc s Hs H x Hx; cbn [fold_left] in H.
  - subst. destruct Hx.
  - rewrite reduce_spec in H. destruct (subsetb c acc) eqn:Ec.
    + apply subsetb_iff in Ec. destruct (memp x c) eqn:Ex.
      * apply memp_iff in Ex. exists c; repeat split; simpl; auto.
        intros y Hy. apply Hs, Ec, Hy.
      * destruct (IH (diff acc c) s) with (x := x) as (c' & H1 & H2 & H3); auto.
        -- intros y Hy. apply diff_In in Hy. apply Hs; tauto.
        -- apply diff_In; split; auto. rewrite <- memp_iff, Ex. discriminate.
        -- exists c'; simpl; auto.
    + destruct (IH acc s Hs H x Hx) as (c' & H1 & H2 & H3). exists c'; simpl; auto.
Qed.

(** * Main theorem *)

Definition same (a b : eset) : Prop := forall x, In x a <-> In x b.
Definition disjoint (a b : eset) : Prop := forall x, In x a -> ~ In x b.
(** [s] is the union of the members of [C] it contains *)
Definition union_of_contained (C : list eset) (s : eset) : Prop :=
  forall x, In x s <-> exists c, In c C /\ incl c s /\ In x c.

Theorem cover_partition E U C :
  get_weighted_cover E U = Cover C ->
  (forall a b, In a C -> In b C -> same a b \/ disjoint a b) /\
  (forall s, In s E -> ~ same s U -> union_of_contained C s) /\
  (forall x, In x U -> exists c, In c C /\ In x c) /\
  (forall c, In c C -> exists s, In s E /\ c = norm s /\ ~ same s U).
Proof.
  unfold get_weighted_cover.
  set (U1 := norm U). set (E1 := filter (fun s => negb (seteqb s U1)) (map norm E)).
  assert (HE1 : forall c, In c E1 <-> exists s, In s E /\ c = norm s /\ ~ same s U).
  { intros c. unfold E1. rewrite filter_In, in_map_iff, negb_true_iff. split.
    - intros [(s & <- & Hs) Hn]. exists s; repeat split; auto. intros Hsame.
      assert (seteqb (norm s) U1 = true); [|congruence].
      apply seteqb_iff. intros x. unfold U1. rewrite !norm_In. apply Hsame.
    - intros (s & Hs & -> & Hn). split; eauto.
      destruct (seteqb (norm s) U1) eqn:Eq; auto. exfalso. apply Hn.
      intros x. rewrite seteqb_iff in Eq. specialize (Eq x). unfold U1 in Eq.
      rewrite !norm_In in Eq. exact Eq. }
  destruct E1 as [|e0 er] eqn:EE; [discriminate|]. rewrite <- EE in *. clear EE e0 er.
  destruct (negb (is_empty U1) && existsb is_empty E1); [discriminate|].
  destruct (cover_loop (S (length U1)) E1 U1 []) as [| | |wc] eqn:EL; try discriminate.
  destruct (forallb (fun s => is_empty (fold_left reduce wc s)) E1) eqn:E2; [|discriminate].
  destruct (forallb (fun x => forallb (fun y => seteqb x y || is_empty (inter x y)) wc) wc)
    eqn:E3; [|discriminate].
  intros H; inversion H; subst C; clear H.
  apply cover_loop_cover in EL as (_ & L2 & L3).
  rewrite forallb_forall in E2, E3. repeat split.
  - intros a b Ha Hb. specialize (E3 a Ha). rewrite forallb_forall in E3.
    specialize (E3 b Hb). apply orb_true_iff in E3 as [E3|E3].
    + left. exact (proj1 (seteqb_iff a b) E3).
    + right. apply is_empty_iff in E3. intros x Hxa Hxb.
      assert (Hx : In x (inter a b)) by (apply inter_In; auto). rewrite E3 in Hx. destruct Hx.
  - intros Hx.
    assert (Hin : In (norm s) E1) by (apply HE1; eauto).
    specialize (E2 _ Hin). apply is_empty_iff in E2.
    destruct (reduce_empty wc (norm s) (norm s) (incl_refl _) E2 x) as (c & H1 & H2 & H3).
    { apply norm_In; auto. }
    exists c; repeat split; auto. intros y Hy. apply norm_In. auto.
  - intros (c & _ & Hc & Hx). auto.
  - intros x Hx. apply L2. unfold U1. apply norm_In; auto.
  - intros c Hc. apply HE1. destruct (L3 c Hc) as [[]|]; auto.
Qed.

(** the fuel-based loop never runs out of fuel *)
Theorem gwc_fuel E U : get_weighted_cover E U <> OutOfFuel.
Proof.
  unfold get_weighted_cover.
  destruct (filter _ (map norm E)) as [|e0 er]; [discriminate|].
  destruct (_ && _); [discriminate|].
  pose proof (cover_loop_fuel (S (length (norm U))) (e0 :: er) (norm U) [] (Nat.lt_succ_diag_r _)) as Hf.
  destruct (cover_loop _ _ _ _); try congruence; try discriminate.
  destruct (forallb _ _); [|discriminate]. destruct (forallb _ _); discriminate.
Qed.

(** when every event set lies inside the universe (the situation at the only call site,
    logic_detection.py:396-404) the cover is a partition of the universe and EVERY event set,
    the universe included, is the union of the cover members it contains *)
Theorem cover_partition_sub E U C :
  (forall s, In s E -> incl s U) ->
  get_weighted_cover E U = Cover C ->
  (forall a b, In a C -> In b C -> same a b \/ disjoint a b) /\
  (forall s, In s E -> union_of_contained C s) /\
  (forall x, In x U <-> exists c, In c C /\ In x c).
Proof.
  intros Hsub H. destruct (cover_partition _ _ _ H) as (P1 & P2 & P3 & P4).
  assert (HC : forall c, In c C -> incl c U).
  { intros c Hc x Hx. destruct (P4 c Hc) as (s & Hs & -> & _).
    rewrite norm_In in Hx. exact (Hsub s Hs x Hx). }
  split; [exact P1|]. split.
  - intros s Hs x. split.
    + intros Hx.
      assert (Hdec : same s U \/ ~ same s U).
      { destruct (seteqb s U) eqn:Eq; [left; exact (proj1 (seteqb_iff s U) Eq)|right].
        intros Hsame. apply (proj2 (seteqb_iff s U)) in Hsame. congruence. }
      destruct Hdec as [Hsame|Hsame]; [|apply (P2 s Hs Hsame); exact Hx].
      destruct (P3 x) as (c & Hc & Hxc); [apply Hsame; exact Hx|].
      exists c; repeat split; auto. intros y Hy. apply Hsame. exact (HC c Hc y Hy).
    + intros (c & _ & Hc & Hxc). apply Hc; exact Hxc.
  - intros x. split; [apply P3|]. intros (c & Hc & Hx). exact (HC c Hc x Hx).
Qed.

(** The statement as first phrased - "every set of E that is a subset of U is the union of the
    members of C it contains" - is false when E contains U itself together with a set reaching
    outside U: the universe is removed from the event sets before the checks. *)
Theorem cover_partition_refuted :
  exists E U C s,
    get_weighted_cover E U = Cover C /\ In s E /\ incl s U /\ ~ union_of_contained C s.
Proof.
  exists [[1; 2]; [1]; [2; 3]]%positive, [1; 2]%positive,
         [[1]; [2; 3]]%positive, [1; 2]%positive.
  split; [vm_compute; reflexivity|]. split; [left; auto|]. split; [apply incl_refl|].
  intros H. destruct (proj1 (H 2%positive)) as (c & Hc & Hi & Hx); [right; left; auto|].
  destruct Hc as [<-|[<-|[]]].
  - destruct Hx as [Hx|[]]. discriminate.
  - assert (H3 : In 3%positive [1; 2]%positive) by (apply Hi; right; left; auto).
    destruct H3 as [H3|[H3|[]]]; discriminate.
Qed.

(** non-vacuity: a genuine cover *)
Example cover_example :
  get_weighted_cover [[1; 2]; [3]; [1; 2; 3]; [3; 2; 1]]%positive [1; 2; 3]%positive
  = Cover [[3]; [1; 2]]%positive.
Proof. vm_compute. reflexivity. Qed.

Example cover_example_none :
  get_weighted_cover [[1; 2]; [2; 3]]%positive [1; 2; 3]%positive = NoCover.
Proof. vm_compute. reflexivity. Qed.

Example cover_example_crash :
  get_weighted_cover [[]; [1]]%positive [1; 2]%positive = Crash.
Proof. vm_compute. reflexivity. Qed.
