(** * Gate trees (AND / OR / XOR) over event sets: model for property C06.

    Source: /repo/tel2puml/logic_detection.py [calculate_logic_gates] returns a pm4py ProcessTree
    whose operators are '+' (AND), 'O' (OR), 'X' (XOR); leaves carry an event name, or are [tau]
    ("nothing", only produced as a child of XOR = "this choice is optional").

    ** How the harness writes terms

    - Events: number the distinct event names 1, 2, 3, ... and write them as [positive] literals.
      With [Open Scope positive_scope] and [Import ListNotations] the literal [3] is a positive.
    - A tree: [Leaf 3], [Tau], [Node GAnd [c1; c2; ...]], [Node GOr [...]], [Node GXor [...]]
        pm4py Operator.PARALLEL ('+') -> GAnd      Operator.OR ('O') -> GOr
        pm4py Operator.XOR ('X')      -> GXor      label None / tau  -> Tau
      Children in the order pm4py lists them (order is semantically irrelevant: see
      [outcomes_perm_invariant]). Any other operator (sequence, loop) is out of the model: the
      harness must report it instead of translating it.
    - An event set: a list of positives in ANY order, duplicates allowed, e.g. [[2;1;2]];
      every validator normalises it with [norm]. A family F: a list of such lists, any order.
    - A check:   [Eval vm_compute in (sound_b res F, exact_b res F).]
      or         [Goal exact_b res F = true. Proof. vm_compute. reflexivity. Qed.]
      or, for a domain tree t:  [Eval vm_compute in c06_check t res.]  with F := outcomes t.

    This file contains definitions only; proofs are in GateProofs.v. *)
From Coq Require Import List Bool PArith Arith Permutation.
Import ListNotations.

(** ** Generic ordered-list toolkit (parametrised by a three-way comparison) *)

Definition is_lt (c : comparison) : bool := match c with Lt => true | _ => false end.

Section Ord.
  Context {A : Type} (cmp : A -> A -> comparison).

  (** insertion into a strictly increasing list, dropping duplicates *)
  Fixpoint ins (x : A) (l : list A) : list A :=
    match l with
    | [] => [x]
    | y :: ys => match cmp x y with
                 | Lt => x :: l
                 | Eq => l
                 | Gt => y :: ins x ys
                 end
    end.

  (** sort + de-duplicate *)
  Definition nrm (l : list A) : list A := fold_right ins [] l.

  (** union of [a] into the strictly increasing list [b] *)
  Definition uni (a b : list A) : list A := fold_right ins b a.

  (** insertion keeping duplicates (for sorting children of a tree) *)
  Fixpoint insd (x : A) (l : list A) : list A :=
    match l with
    | [] => [x]
    | y :: ys => match cmp x y with
                 | Gt => y :: insd x ys
                 | _ => x :: l
                 end
    end.

  Definition isort (l : list A) : list A := fold_right insd [] l.

  (** strictly increasing *)
  Fixpoint sincb (l : list A) : bool :=
    match l with
    | [] => true
    | x :: r => forallb (fun y => is_lt (cmp x y)) r && sincb r
    end.

  (** adjacent-only strictly increasing check (linear; equivalent to [sincb] for a transitive order) *)
  Fixpoint adjb (l : list A) : bool :=
    match l with
    | [] => true
    | x :: r => match r with
                | [] => true
                | y :: _ => is_lt (cmp x y) && adjb r
                end
    end.

  (** lexicographic lifting to lists *)
  Fixpoint lex (l l' : list A) : comparison :=
    match l, l' with
    | [], [] => Eq
    | [], _ :: _ => Lt
    | _ :: _, [] => Gt
    | x :: r, y :: r' => match cmp x y with
                         | Eq => lex r r'
                         | c => c
                         end
    end.
End Ord.

(** ** Event sets: strictly increasing lists of positives *)

Definition eset := list positive.

Definition set_insert : positive -> eset -> eset := ins Pos.compare.
Definition norm : list positive -> eset := nrm Pos.compare.
Definition set_union (a b : eset) : eset := uni Pos.compare a b.
Definition canonical_b (s : eset) : bool := sincb Pos.compare s.
Definition canonical (s : eset) : Prop := canonical_b s = true.

Fixpoint set_eqb (a b : eset) : bool :=
  match a, b with
  | [], [] => true
  | x :: r, y :: r' => Pos.eqb x y && set_eqb r r'
  | _, _ => false
  end.

Definition mem (s : eset) (l : list eset) : bool := existsb (set_eqb s) l.

Definition big_union (ss : list eset) : eset := fold_right set_union [] ss.

(** order on event sets, and canonical lists of event sets *)
Definition set_cmp : eset -> eset -> comparison := lex Pos.compare.
Definition norm_sets : list eset -> list eset := nrm set_cmp.
Definition sets_canonical_b (l : list eset) : bool := sincb set_cmp l.

(** ** Trees *)

Inductive gop := GAnd | GOr | GXor.

Inductive gtree :=
| Leaf (e : positive)
| Tau
| Node (op : gop) (cs : list gtree).

Definition op_eqb (a b : gop) : bool :=
  match a, b with
  | GAnd, GAnd | GOr, GOr | GXor, GXor => true
  | _, _ => false
  end.

(** sub-list = order-preserving selection of members *)
Inductive Sub {A : Type} : list A -> list A -> Prop :=
| Sub_nil : Sub [] []
| Sub_take x s l : Sub s l -> Sub (x :: s) (x :: l)
| Sub_skip x s l : Sub s l -> Sub s (x :: l).

(** ** Declarative semantics: which event sets a gate tree admits *)

Inductive Admits : gtree -> eset -> Prop :=
| A_leaf e : Admits (Leaf e) [e]
| A_tau : Admits Tau []
| A_xor cs c s :
    In c cs -> Admits c s -> Admits (Node GXor cs) s
| A_and cs ss s :
    Forall2 Admits cs ss -> s = big_union ss -> Admits (Node GAnd cs) s
| A_or cs sub ss s :
    Sub sub cs -> sub <> [] -> Forall2 Admits sub ss -> s = big_union ss ->
    Admits (Node GOr cs) s.

(** ** Executable semantics *)

Definition prod (a b : list eset) : list eset :=
  flat_map (fun x => map (set_union x) b) a.

Definition and_comb (ls : list (list eset)) : list eset := fold_right prod [[]] ls.

Fixpoint or_comb (ls : list (list eset)) : list eset :=
  match ls with
  | [] => []
  | oc :: r => let rest := or_comb r in prod oc ([] :: rest) ++ rest
  end.

Definition xor_comb (ls : list (list eset)) : list eset := concat ls.

Definition comb (op : gop) : list (list eset) -> list eset :=
  match op with GAnd => and_comb | GOr => or_comb | GXor => xor_comb end.

(** all admitted sets, each canonical, the list strictly increasing for [set_cmp] *)
Fixpoint outcomes (t : gtree) : list eset :=
  match t with
  | Leaf e => [[e]]
  | Tau => [[]]
  | Node op cs => norm_sets (comb op (map outcomes cs))
  end.

Definition admits_b (t : gtree) (s : eset) : bool := mem (norm s) (outcomes t).

(** ** Validators used by the harness.
    [sound_b res F] is convertible to [forallb (admits_b res) F] (lemma [sound_b_unfold]) but
    computes [outcomes res] once. *)

Definition sound_b (res : gtree) (F : list eset) : bool :=
  let O := outcomes res in forallb (fun s => mem (norm s) O) F.

Definition exact_b (res : gtree) (F : list eset) : bool :=
  let O := outcomes res in
  let NF := map norm F in
  forallb (fun s => mem (norm s) O) F && forallb (fun s => mem s NF) O.

(** ** Structural predicates *)

Fixpoint all_nodes (p : gtree -> bool) (t : gtree) : bool :=
  p t && match t with
         | Node _ cs => forallb (all_nodes p) cs
         | _ => true
         end.

Inductive subtree : gtree -> gtree -> Prop :=
| st_refl t : subtree t t
| st_child u op cs c : In c cs -> subtree u c -> subtree u (Node op cs).

Definition is_leaf (t : gtree) : bool := match t with Leaf _ => true | _ => false end.
Definition is_or (t : gtree) : bool := match t with Node GOr _ => true | _ => false end.

(** root operator differs from [po] *)
Definition top_ok (po : option gop) (t : gtree) : bool :=
  match po, t with
  | Some o, Node o' _ => negb (op_eqb o o')
  | _, _ => true
  end.

Definition plain_or_l (t : gtree) : bool :=
  match t with Node GOr cs => forallb is_leaf cs | _ => true end.
Definition no_and_two_or_l (t : gtree) : bool :=
  match t with Node GAnd cs => length (filter is_or cs) <=? 1 | _ => true end.
Definition alternating_l (t : gtree) : bool :=
  match t with Node op cs => forallb (top_ok (Some op)) cs | _ => true end.
Definition no_tau_l (t : gtree) : bool :=
  match t with Tau => false | _ => true end.
Definition arity_l (t : gtree) : bool :=
  match t with Node _ cs => 2 <=? length cs | _ => true end.

Definition plain_or : gtree -> bool := all_nodes plain_or_l.
Definition no_and_two_or : gtree -> bool := all_nodes no_and_two_or_l.
Definition alternating : gtree -> bool := all_nodes alternating_l.
Definition no_tau : gtree -> bool := all_nodes no_tau_l.
Definition arity_ok : gtree -> bool := all_nodes arity_l.

Fixpoint depth (t : gtree) : nat :=
  match t with
  | Node _ cs => S (fold_right Nat.max 0 (map depth cs))
  | _ => 0
  end.

Fixpoint leaves (t : gtree) : list positive :=
  match t with
  | Leaf e => [e]
  | Tau => []
  | Node _ cs => concat (map leaves cs)
  end.

Fixpoint nodupb (l : list positive) : bool :=
  match l with
  | [] => true
  | x :: r => negb (existsb (Pos.eqb x) r) && nodupb r
  end.

Definition distinct_leaves (t : gtree) : bool := nodupb (leaves t).

(** [1; 2; ...; n] *)
Definition pos_seq (n : nat) : list positive := map Pos.of_succ_nat (seq 0 n).

(** the finite domain of C06 for [n] events *)
Definition in_domain (n : nat) (t : gtree) : bool :=
  no_tau t && arity_ok t && alternating t && (depth t <=? 3) && distinct_leaves t
  && set_eqb (norm (leaves t)) (pos_seq n).

(** the sub-class on which exactness is claimed *)
Definition exact_class (t : gtree) : bool := plain_or t && no_and_two_or t.

(** per-case verdict for a domain tree [t] and the tree [res] returned by the code on [outcomes t] *)
Definition c06_check (t res : gtree) : bool :=
  sound_b res (outcomes t) && implb (exact_class t) (exact_b res (outcomes t)).

(** ** Canonical form up to the order of children *)

(** prefix-free token encoding; trees are ordered by the lexicographic order of their encodings *)
Definition op_tok (o : gop) : positive :=
  match o with GAnd => 3 | GOr => 4 | GXor => 5 end%positive.

Fixpoint encode (t : gtree) : list positive :=
  match t with
  | Leaf e => [6; e]
  | Tau => [1]
  | Node op cs => op_tok op :: concat (map encode cs) ++ [2]
  end%positive.

Definition tcmp (t u : gtree) : comparison := lex Pos.compare (encode t) (encode u).

Fixpoint canon_tree (t : gtree) : gtree :=
  match t with
  | Node op cs => Node op (isort tcmp (map canon_tree cs))
  | _ => t
  end.

(** equality up to reordering children, at every level *)
Inductive tperm : gtree -> gtree -> Prop :=
| tp_leaf e : tperm (Leaf e) (Leaf e)
| tp_tau : tperm Tau Tau
| tp_node op cs cs1 cs2 :
    Forall2 tperm cs cs1 -> Permutation cs1 cs2 -> tperm (Node op cs) (Node op cs2).
