(** * Enumeration of the finite domain of property C06.

    [enum_trees n] lists the gate trees whose leaf set is exactly {1..n}: no tau, every gate with
    at least two children, operators alternating between levels, depth <= 3 (a leaf has depth 0).
    Children lists are considered up to order: one representative per unordered tree is produced
    (the children of a gate are ordered by the largest event below them, each block increasing).
    [brute_trees] is an independent slower enumerator (all ORDERED trees, filtered by [in_domain])
    used as a cross-check. Definitions only; proofs in GateEnumProofs.v. *)
From Coq Require Import List Bool PArith Arith Permutation.
From V Require Import Gate.GateTree.
Import ListNotations.

Section Lists.
  Context {A : Type}.

  (** all ways of putting [x] in front of one block of [P] *)
  Fixpoint ins_each (x : A) (P : list (list A)) : list (list (list A)) :=
    match P with
    | [] => []
    | B :: Q => ((x :: B) :: Q) :: map (cons B) (ins_each x Q)
    end.

  (** all set partitions of the (duplicate-free) list [l]; every partition exactly once *)
  Fixpoint parts (l : list A) : list (list (list A)) :=
    match l with
    | [] => [[]]
    | x :: r => flat_map (fun P => ([x] :: P) :: ins_each x P) (parts r)
    end.

  (** cartesian product: one element from each list *)
  Fixpoint prod_list (ls : list (list A)) : list (list A) :=
    match ls with
    | [] => [[]]
    | l :: r => let rest := prod_list r in flat_map (fun x => map (cons x) rest) l
    end.
End Lists.

Definition ops : list gop := [GAnd; GOr; GXor].

Definition allowed (po : option gop) (op : gop) : bool :=
  match po with Some o => negb (op_eqb o op) | None => true end.

(** trees of depth <= d over exactly the events [S], root operator different from [po] *)
Fixpoint enum_at (d : nat) (po : option gop) (S : list positive) : list gtree :=
  match S with
  | [] => []
  | [e] => [Leaf e]
  | _ :: _ :: _ =>
      match d with
      | O => []
      | Datatypes.S d' =>
          let Ps := filter (fun P => 2 <=? length P) (parts S) in
          flat_map (fun op =>
            if allowed po op then
              flat_map (fun P => map (Node op) (prod_list (map (enum_at d' (Some op)) P))) Ps
            else []) ops
      end
  end.

Definition enum_trees (n : nat) : list gtree := enum_at 3 None (pos_seq n).

(** the part of the domain on which exactness is claimed *)
Definition enum_exact_class (n : nat) : list gtree := filter exact_class (enum_trees n).

(** ** Independent brute-force enumerator: every ORDERED tree (all orders of children, all
    orders of events inside blocks are produced through the permutations of the event list),
    filtered by [in_domain]. Exponentially slower; used for n <= 4 as a cross-check. *)

Section Perms.
  Context {A : Type}.
  Fixpoint ins_all (x : A) (l : list A) : list (list A) :=
    match l with
    | [] => [[x]]
    | y :: r => (x :: l) :: map (cons y) (ins_all x r)
    end.
  Fixpoint perms (l : list A) : list (list A) :=
    match l with
    | [] => [[]]
    | x :: r => flat_map (ins_all x) (perms r)
    end.
  (** all ways of cutting a list into consecutive non-empty segments *)
  Fixpoint cuts (l : list A) : list (list (list A)) :=
    match l with
    | [] => [[]]
    | x :: r =>
        flat_map (fun P => match P with
                           | [] => [[[x]]]
                           | B :: Q => [[x] :: P; (x :: B) :: Q]
                           end) (cuts r)
    end.
End Perms.

(** ordered trees with leaf SEQUENCE exactly [S] (left to right), any operators, depth <= d,
    arity >= 2; no alternation constraint (left to the filter) *)
Fixpoint brute_seq (d : nat) (S : list positive) : list gtree :=
  match S with
  | [] => []
  | [e] => [Leaf e]
  | _ :: _ :: _ =>
      match d with
      | O => []
      | Datatypes.S d' =>
          let Ps := filter (fun P => 2 <=? length P) (cuts S) in
          flat_map (fun op =>
            flat_map (fun P => map (Node op) (prod_list (map (brute_seq d') P))) Ps) ops
      end
  end.

Definition brute_trees (n : nat) : list gtree :=
  filter (in_domain n) (flat_map (brute_seq 3) (perms (pos_seq n))).

(** list-of-trees utilities for computed checks *)
Definition tree_sort (l : list gtree) : list gtree := isort tcmp l.
Definition trees_strictly_sorted (l : list gtree) : bool := adjb tcmp l.
Definition tree_mem (t : gtree) (l : list gtree) : bool :=
  existsb (fun u => match tcmp t u with Eq => true | _ => false end) l.
