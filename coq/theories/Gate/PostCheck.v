(** * Executable glue for a harness around the post-processing model (PostProcess.v).

    ** How the harness writes terms (same conventions as GateTree.v)
    - Events: the event named 'E<n>' is the [positive] literal [n]. With [Open Scope positive_scope]
      and [Import ListNotations] the literal [3] is a positive.
    - An event set: a list of positives in ANY order, e.g. [[2;1]]; a family [F]: a list of such lists,
      in the iteration order of the Python set (the order is irrelevant for every check below).
    - A pm4py [ProcessTree] node [n]:
        [n.operator is None] and [n.label is None]      ->  [PTau]
        [n.operator is None] and [n.label == 'E<k>']    ->  [PLeaf k]
        otherwise  [PNode op [c1; c2; ...]]  with the children in the order of [n.children] and
        [op] chosen by [n.operator.value]:  '->' [PSeq], 'X' [PXor], '+' [PAnd], 'O' [POr],
        '*' [PLoop], anything else [POther].
    - [miner] is the subtree [children[1]] of the tree returned by
      [discover_process_tree_inductive], deep-copied BEFORE [calculate_logic_gates] mutates it;
      [final] is the tree returned by [calculate_logic_gates].
    - [ord]: one pair [(U, E)] per call of [get_weighted_cover], [U] the universe (labels only) and
      [E] the event sets argument in the iteration order of that Python set; [[]] if not recorded.
    - A check:  [Eval vm_compute in (post_agrees F miner final).]

    Definitions only. *)
From Coq Require Import List Bool PArith Arith.
From V Require Import Gate.GateTree Gate.Cover Gate.PostProcess.
Import ListNotations.

(** [post F miner] equals [final] modulo the order of children *)
Definition post_agrees (F : list eset) (miner final : ptree) : bool :=
  ptree_eq_mod_order (post F miner) final.

(** the same with the recorded iteration orders, and for runs in which Python raised *)
Definition fres_agrees (r : fres ptree) (expected : fres ptree) : bool :=
  match r, expected with
  | FOk x, FOk y => ptree_eq_mod_order x y
  | FValueError, FValueError | FZeroDivisionError, FZeroDivisionError => true
  | _, _ => false
  end.

Definition post_agrees_with (ord : list (eset * list eset)) (F : list eset) (miner : ptree)
    (final : fres ptree) : bool :=
  fres_agrees (post_res ord F miner) final.

(** hypotheses of PostProcessProofs.post_sound_partial *)
Definition im_fits_b := PostProcess.im_fits_b.
Definition im_shape_b := PostProcess.im_shape_b.
Definition im_tight_b := PostProcess.im_tight_b.
Definition cover_safe_b := PostProcess.cover_safe_b.
Definition nonempty_sets_b := PostProcess.nonempty_sets_b.

Definition post_hyps_b (F : list eset) (miner : ptree) : bool :=
  nonempty_sets_b F && im_fits_b F miner && im_shape_b miner && im_tight_b F miner
  && cover_safe_b F miner.

(** the conclusion: the final tree admits every observed set *)
Definition post_sound_b (F : list eset) (final : ptree) : bool := PostProcess.im_fits_b F final.

(** the final tree as a gate tree (None if a '->', '*' or other operator survives) *)
Definition final_gtree (F : list eset) (miner : ptree) : option gtree := to_gtree (post F miner).
