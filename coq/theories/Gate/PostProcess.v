(** * The post-processing half of /repo/tel2puml/logic_detection.py, transcribed.

    [calculate_logic_gates(event_sets)] (logic_detection.py:83-102) is
      (1) [calculate_process_tree_from_event_sets]: pm4py's inductive miner on permuted pseudo-traces.
          This is an external library and stays an ORACLE: its result is an input of this model;
      (2) [reduce_process_tree_to_preferred_logic_gates] (l.191-212): takes [process_tree.children[1]]
          and runs [process_or_gates] then [process_missing_and_gates] on it, mutating it in place;
      (3) [calculate_repeats_in_tree] (l.637-657).
    [post] below is (2)+(3) applied to the ALREADY EXTRACTED subtree [children[1]], for families in which
    no event is repeated inside a set (every count is 1).

    ** Step (3) when no event repeats
    [ev.get_event_set_counts] maps every event to [{1}], so the [max(count) > 1] branch
    ([create_branch_tree_from_logic_gate_tree]) is never taken, and the result is
    [remove_defunct_sequence_logic(logic_gate_tree)] (l.683-698). That function tests
    [node.operator == Operator.SEQUENCE] where [Operator] is the enum DEFINED IN logic_detection.py
    (l.27), whereas every sequence node of the tree carries pm4py's own enum member
    [pm4py.objects.process_tree.obj.Operator.SEQUENCE]. Members of different [Enum] classes are never
    equal (checked in the sandbox: the comparison prints [False]), and step (2) only ever creates
    nodes with the local [Operator.PARALLEL] / [Operator.OR]. Hence the test is false at every node
    and the function only rebuilds each [children] list ([node.children = [f(c) for c in children]]):
    it is the identity on the structure. It is transcribed below as exactly that map
    ([remove_defunct_sequence_logic]); PostProcessProofs.remove_defunct_sequence_logic_id proves it is
    the identity. (All the OTHER operator tests of step (2) compare [.value] strings, which do agree
    between the two enums.)

    ** Why there is an annotated tree type [atree]
    The Python code mutates pm4py [ProcessTree] objects which carry a [parent] pointer, and
    [filter_defunct_or_gates] consults [node.parent], NOT the node it reached [node] from. The two
    differ after [infer_or_gate_from_node] has re-parented nodes:
      - the grandchildren collected in [removed_tau_children] get [parent = node]; when the node does
        NOT become an OR they end up as children of the fresh [new_child_or] while their [parent]
        still designates the '+' node: an OR among them is therefore never flattened (tag [Stuck]);
      - when an OR node N is flattened into its parent, N's children are appended to the parent's list
        but keep [parent = N], a node that is no longer in the tree (tag [Det0]); if such a child is an
        OR and is visited again, [N.children.remove(child)] succeeds the first time (tag becomes
        [Det1]) and raises [ValueError] the second time (reachable: four nested convertible '+'
        nodes, checked in the sandbox).
    The tag of a node records which of these situations its [parent] pointer is in; [Own] = the pointer
    designates the node whose [children] list currently contains it (true of every node of a tree
    returned by pm4py: checked by the harness, field "pok"). Tags only matter on OR nodes.

    ** Iteration orders of Python sets
    - [check_is_or_operator] is an existential over [event_sets]: order-independent.
    - [process_missing_and_gates] builds the set [recursive_event_set] and [get_weighted_cover] takes
      [max] over it: ties are broken by the iteration order of that set, which is not a function of
      the family. The model takes a table [ord : list (eset * list eset)] giving, for a universe [U],
      the order in which Python iterated (the harness records it); sets of the table that are not
      subsets of [U] in [F] are ignored and missing ones are appended, so [ord] is only an ORDER HINT
      and [ord := []] (order of [F]) is always meaningful. The children built from the cover are in
      set-iteration order too; trees are compared modulo the order of children ([ptree_eq_mod_order]).

    Definitions only; proofs are in PostProcessProofs.v. *)
From Coq Require Import List Bool PArith Arith.
From V Require Import Gate.GateTree Gate.Cover.
Import ListNotations.

(** ** Process trees as returned by the miner *)

(** '->', 'X', '+', 'O', '*', anything else ('<>', 'PO', 'BR') *)
Inductive pop := PSeq | PXor | PAnd | POr | PLoop | POther.

Inductive ptree :=
| PLeaf (e : positive)                 (* operator None, label 'E<e>' *)
| PTau                                 (* operator None, label None: prints as "tau" *)
| PNode (op : pop) (cs : list ptree).

Definition pop_eqb (a b : pop) : bool :=
  match a, b with
  | PSeq, PSeq | PXor, PXor | PAnd, PAnd | POr, POr | PLoop, PLoop | POther, POther => true
  | _, _ => false
  end.

Fixpoint psize (t : ptree) : nat :=
  match t with
  | PNode _ cs => S (fold_right (fun c n => psize c + n) 0 cs)
  | _ => 1
  end.

(** ** Trees with the state of the [parent] pointer *)

Inductive tag := Own | Stuck | Det0 | Det1.

Inductive atree :=
| ALeaf (e : positive)
| ATau
| ANode (g : tag) (op : pop) (cs : list atree).

Fixpoint annot (t : ptree) : atree :=
  match t with
  | PLeaf e => ALeaf e
  | PTau => ATau
  | PNode op cs => ANode Own op (map annot cs)
  end.

Fixpoint erase (a : atree) : ptree :=
  match a with
  | ALeaf e => PLeaf e
  | ATau => PTau
  | ANode _ op cs => PNode op (map erase cs)
  end.

Fixpoint asize (a : atree) : nat :=
  match a with
  | ANode _ _ cs => S (fold_right (fun c n => asize c + n) 0 cs)
  | _ => 1
  end.

Definition is_tau (a : atree) : bool := match a with ATau => true | _ => false end.

Definition set_tag (g : tag) (a : atree) : atree :=
  match a with ANode _ op cs => ANode g op cs | _ => a end.

(** [get_non_operator_successor_labels] (l.68-80); a tau leaf yields [None], which is in no event set *)
Fixpoint labels (a : atree) : list positive :=
  match a with
  | ALeaf e => [e]
  | ATau => []
  | ANode _ _ cs => flat_map labels cs
  end.

(** ** [process_or_gates] *)

(** [check_is_or_operator] (l.248-290) *)
Definition check_is_or_operator (F : list eset) (non_tau_children removed_tau_children : list atree)
  : bool :=
  match non_tau_children with
  | [] => true
  | _ :: _ =>
      let non_tau_successors_set := flat_map labels non_tau_children in
      let removed_tau_children_set := flat_map labels removed_tau_children in
      existsb (fun s => negb (is_empty (inter s non_tau_successors_set))
                        && is_empty (inter s removed_tau_children_set)) F
  end.

(** the three-way classification of the children of a '+' node (l.311-318): a child whose operator is
    neither None nor 'X' lands in NEITHER list *)
Definition is_non_tau_child (c : atree) : bool :=
  match c with
  | ALeaf _ | ATau => true
  | ANode _ PXor gcs => negb (existsb is_tau gcs)
  | ANode _ _ _ => false
  end.

Definition is_tau_child (c : atree) : bool :=
  match c with
  | ANode _ PXor gcs => existsb is_tau gcs
  | _ => false
  end.

Definition non_tau_grandchildren (c : atree) : list atree :=
  match c with
  | ANode _ _ gcs => filter (fun g => negb (is_tau g)) gcs
  | _ => []
  end.

(** [infer_or_gate_from_node] (l.293-350) *)
Definition infer_or_gate_from_node (F : list eset) (node : atree) : atree :=
  match node with
  | ANode g PAnd cs =>
      let tau_children := filter is_tau_child cs in
      let non_tau_children := filter is_non_tau_child cs in
      match tau_children with
      | [] => node
      | _ :: _ =>
          let removed_tau_children := flat_map non_tau_grandchildren tau_children in
          if check_is_or_operator F non_tau_children removed_tau_children then
            if 1 <? length non_tau_children then
              ANode g POr (map (set_tag Own) removed_tau_children ++ [ANode Own PAnd non_tau_children])
            else
              ANode g POr (map (set_tag Own) removed_tau_children ++ non_tau_children)
          else
            (* [new_child_or]: its children keep [parent = node], a '+' node *)
            ANode g PAnd (non_tau_children ++ [ANode Own POr (map (set_tag Stuck) removed_tau_children)])
      end
  | _ => node
  end.

(** [get_extended_or_gates_from_process_tree] (l.231-245): top-down, the recursion runs over the NEW
    children; [n] is fuel (the recursion is not structural) *)
Fixpoint get_extended_or_gates_from_process_tree (n : nat) (F : list eset) (t : atree) : atree :=
  match n with
  | O => t
  | S n' =>
      match infer_or_gate_from_node F t with
      | ANode g op cs => ANode g op (map (get_extended_or_gates_from_process_tree n' F) cs)
      | t' => t'
      end
  end.

(** results of the passes that can raise *)
Inductive fres (A : Type) :=
| FOk (a : A)
| FValueError                      (* list.remove(x): x not in list *)
| FZeroDivisionError               (* len(s & universe) / len(s)**2 with s empty *)
| FFuel.                           (* artefact of the fuelled loops *)
Arguments FOk {A} a.
Arguments FValueError {A}.
Arguments FZeroDivisionError {A}.
Arguments FFuel {A}.

(** [ProcessTree.__eq__] (pm4py/objects/process_tree/obj.py), the test used by [list.remove]:
    [aeq item x] is [item == x]. Deviation: pm4py's and tel2puml's [Operator] members with the same
    value are identified here, whereas Python distinguishes them; this can only matter for two
    distinct subtrees of one tree that carry no label at all. *)
Definition is_nil {A : Type} (l : list A) : bool := match l with [] => true | _ => false end.

Definition childless (a : atree) : bool :=
  match a with
  | ALeaf _ => false
  | ATau => true
  | ANode _ _ cs => is_nil cs
  end.

Fixpoint aeq (a b : atree) : bool :=
  match a with
  | ALeaf e => match b with ALeaf e' => Pos.eqb e e' | _ => false end
  | ATau => childless b
  | ANode _ op [] => childless b
  | ANode _ op cs =>
      match b with
      | ANode _ op' cs' =>
          pop_eqb op op' &&
          (fix all2 (l : list atree) (l' : list atree) : bool :=
             match l, l' with
             | [], [] => true
             | x :: r, y :: r' => aeq x y && all2 r r'
             | _, _ => false
             end) cs cs'
      | _ => false
      end
  end.

(** [l.remove(x)]: drop the first element equal to [x] *)
Fixpoint remove_first (x : atree) (l : list atree) : option (list atree) :=
  match l with
  | [] => None
  | y :: r => if aeq y x then Some r
              else match remove_first x r with Some r' => Some (y :: r') | None => None end
  end.

Fixpoint set_nth {A : Type} (i : nat) (x : A) (l : list A) : list A :=
  match l, i with
  | [], _ => []
  | _ :: r, O => x :: r
  | y :: r, S j => y :: set_nth j x r
  end.

(** a child appended to its grandparent's list keeps [parent = ] the removed node *)
Definition detach (c : atree) : atree :=
  match c with ANode Own op cs => ANode Det0 op cs | _ => c end.

(** the loop [for node in process_tree.children: ...] of [filter_defunct_or_gates] (l.361-367): a
    Python list iterator is an index into the LIVE list, which the body shortens ([remove]) and
    extends; [i] is that index, [L] the current list, [por] = "the iterated node is an OR",
    [rec] = the recursive call *)
Fixpoint filter_loop (n : nat) (rec : atree -> fres atree) (por : bool) (i : nat) (L : list atree)
  : fres (list atree) :=
  match n with
  | O => FFuel
  | S n' =>
      match nth_error L i with
      | None => FOk L
      | Some node =>
          match rec node with
          | FOk node1 =>
              let L1 := set_nth i node1 L in
              match node1 with
              | ANode g POr ncs =>
                  match g with
                  | Own =>
                      if por then
                        match remove_first node1 L1 with
                        | Some L2 => filter_loop n' rec por (S i) (L2 ++ map detach ncs)
                        | None => FValueError
                        end
                      else filter_loop n' rec por (S i) L1
                  | Stuck => filter_loop n' rec por (S i) L1
                  | Det0 => filter_loop n' rec por (S i) (set_nth i (ANode Det1 POr ncs) L1)
                  | Det1 => FValueError
                  end
              | _ => filter_loop n' rec por (S i) L1
              end
          | FValueError => FValueError
          | FZeroDivisionError => FZeroDivisionError
          | FFuel => FFuel
          end
      end
  end.

(** [filter_defunct_or_gates] (l.353-367) *)
Fixpoint filter_defunct_or_gates (n : nat) (t : atree) : fres atree :=
  match n with
  | O => FFuel
  | S n' =>
      match t with
      | ANode g op cs =>
          match filter_loop n' (filter_defunct_or_gates n') (pop_eqb op POr) 0 cs with
          | FOk cs' => FOk (ANode g op cs')
          | FValueError => FValueError
          | FZeroDivisionError => FZeroDivisionError
          | FFuel => FFuel
          end
      | _ => FOk t
      end
  end.

(** [process_or_gates] (l.215-228) *)
Definition process_or_gates (F : list eset) (t : ptree) : fres ptree :=
  let a := get_extended_or_gates_from_process_tree (psize t) F (annot t) in
  match filter_defunct_or_gates (S (S (asize a))) a with
  | FOk a' => FOk (erase a')
  | FValueError => FValueError
  | FZeroDivisionError => FZeroDivisionError
  | FFuel => FFuel
  end.

(** ** [process_missing_and_gates] (l.370-434) *)

Definition is_pleafish (t : ptree) : bool := match t with PNode _ _ => false | _ => true end.
Definition is_ptau (t : ptree) : bool := match t with PTau => true | _ => false end.
Definition plabel (t : ptree) : list positive := match t with PLeaf e => [e] | _ => [] end.

Definition has_set (s : eset) (l : list eset) : bool := existsb (seteqb s) l.

(** the iteration order of [recursive_event_set] (the universe itself still included):
    the sets of the hint that are subsets of [U] in [F], then the remaining subsets of [U] in [F] *)
Definition recursive_event_set (ord : list (eset * list eset)) (F : list eset) (U : eset)
  : list eset :=
  let base := filter (fun s => subsetb s U) (map norm F) in
  let hint := match find (fun p => seteqb (fst p) U) ord with
              | Some p => map norm (snd p)
              | None => []
              end in
  filter (fun s => has_set s base) hint ++ filter (fun s => negb (has_set s hint)) base.

Definition cover_child (c : eset) : ptree :=
  match c with
  | [e] => PLeaf e
  | _ => PNode PAnd (map PLeaf c)
  end.

(** the body of the [if ... == Operator.OR.value] block for an OR node with children [cs]:
    [FOk None] = children left alone, [FOk (Some cs')] = children replaced *)
Definition missing_and_children (ord : list (eset * list eset)) (F : list eset) (cs : list ptree)
  : fres (option (list ptree)) :=
  if forallb is_pleafish cs then
    let U := norm (flat_map plabel cs) in
    let E := recursive_event_set ord F U in
    if existsb is_ptau cs then
      (* [None] is a member of the universe: it is never covered, so the [while] loop ends with
         [return None] - unless [max] divides by zero first *)
      if existsb is_empty E then FZeroDivisionError else FOk None
    else
      match get_weighted_cover E U with
      | Cover C => FOk (Some (map cover_child C))
      | NoCover => FOk None
      | Crash => FZeroDivisionError
      | OutOfFuel => FFuel
      end
  else FOk None.

(** structural: after a replacement the new children are leaves or '+' nodes over leaves, on which
    the recursive calls of l.433-434 do nothing *)
Fixpoint process_missing_and_gates (ord : list (eset * list eset)) (F : list eset) (t : ptree)
  : fres ptree :=
  match t with
  | PNode op cs =>
      let recurse :=
        match (fix go (l : list ptree) : fres (list ptree) :=
                 match l with
                 | [] => FOk []
                 | c :: r =>
                     match process_missing_and_gates ord F c with
                     | FOk c' => match go r with
                                 | FOk r' => FOk (c' :: r')
                                 | FValueError => FValueError
                                 | FZeroDivisionError => FZeroDivisionError
                                 | FFuel => FFuel
                                 end
                     | FValueError => FValueError
                     | FZeroDivisionError => FZeroDivisionError
                     | FFuel => FFuel
                     end
                 end) cs with
        | FOk cs' => FOk (PNode op cs')
        | FValueError => FValueError
        | FZeroDivisionError => FZeroDivisionError
        | FFuel => FFuel
        end in
      if pop_eqb op POr then
        match missing_and_children ord F cs with
        | FOk (Some cs') => FOk (PNode op cs')
        | FOk None => recurse
        | FValueError => FValueError
        | FZeroDivisionError => FZeroDivisionError
        | FFuel => FFuel
        end
      else recurse
  | _ => FOk t
  end.

(** ** Step (3) for non-repeating families: see the header *)
Fixpoint remove_defunct_sequence_logic (t : ptree) : ptree :=
  match t with
  | PNode op cs => PNode op (map remove_defunct_sequence_logic cs)
  | _ => t
  end.

Definition calculate_repeats_in_tree (t : ptree) : ptree := remove_defunct_sequence_logic t.

(** ** [reduce_process_tree_to_preferred_logic_gates] on [children[1]], then step (3) *)
Definition post_res (ord : list (eset * list eset)) (F : list eset) (t : ptree) : fres ptree :=
  match process_or_gates F t with
  | FOk t1 =>
      match process_missing_and_gates ord F t1 with
      | FOk t2 => FOk (calculate_repeats_in_tree t2)
      | e => e
      end
  | e => e
  end.

(** total version: when Python raises there is no tree; [post] then returns its input *)
Definition post_with (ord : list (eset * list eset)) (F : list eset) (t : ptree) : ptree :=
  match post_res ord F t with FOk r => r | _ => t end.

Definition post (F : list eset) (t : ptree) : ptree := post_with [] F t.

(** ** Conversion to gate trees: [None] if a '->', '*' or other operator survives *)
Fixpoint to_gtree (t : ptree) : option gtree :=
  match t with
  | PLeaf e => Some (Leaf e)
  | PTau => Some Tau
  | PNode op cs =>
      let go := (fix go (l : list ptree) : option (list gtree) :=
                   match l with
                   | [] => Some []
                   | c :: r => match to_gtree c, go r with
                               | Some c', Some r' => Some (c' :: r')
                               | _, _ => None
                               end
                   end) cs in
      match op, go with
      | PAnd, Some cs' => Some (Node GAnd cs')
      | POr, Some cs' => Some (Node GOr cs')
      | PXor, Some cs' => Some (Node GXor cs')
      | _, _ => None
      end
  end.

(** ** Equality modulo the order of children *)

Definition pop_tok (o : pop) : positive :=
  match o with PSeq => 3 | PXor => 4 | PAnd => 5 | POr => 7 | PLoop => 8 | POther => 9 end%positive.

(** prefix-free token encoding (1 = tau, 2 = end of children, 6 = leaf marker) *)
Fixpoint pencode (t : ptree) : list positive :=
  match t with
  | PLeaf e => [6; e]
  | PTau => [1]
  | PNode op cs => pop_tok op :: flat_map pencode cs ++ [2]
  end%positive.

Definition pcmp (t u : ptree) : comparison := lex Pos.compare (pencode t) (pencode u).

Fixpoint pcanon (t : ptree) : ptree :=
  match t with
  | PNode op cs => PNode op (isort pcmp (map pcanon cs))
  | _ => t
  end.

Fixpoint ptree_eqb (t u : ptree) : bool :=
  match t, u with
  | PLeaf e, PLeaf e' => Pos.eqb e e'
  | PTau, PTau => true
  | PNode op cs, PNode op' cs' =>
      pop_eqb op op' &&
      (fix all2 (l l' : list ptree) : bool :=
         match l, l' with
         | [], [] => true
         | x :: r, y :: r' => ptree_eqb x y && all2 r r'
         | _, _ => false
         end) cs cs'
  | _, _ => false
  end.

Definition ptree_eq_mod_order (t u : ptree) : bool := ptree_eqb (pcanon t) (pcanon u).

(** ** Set semantics of a process tree (which SETS of events a run can produce)
    Leaf e: {e}; tau: {}; 'X': one child; '+': the union of one admitted set per child; '->' behaves
    like '+' for sets; 'O': the union over a non-empty sub-list of children (as [GateTree.Admits]);
    '*' and other operators admit nothing (a tree that needs them does not satisfy [im_fits]). *)
Inductive padmits : ptree -> eset -> Prop :=
| pa_leaf e : padmits (PLeaf e) [e]
| pa_tau : padmits PTau []
| pa_xor cs c s : In c cs -> padmits c s -> padmits (PNode PXor cs) s
| pa_and cs ss s : Forall2 padmits cs ss -> s = big_union ss -> padmits (PNode PAnd cs) s
| pa_seq cs ss s : Forall2 padmits cs ss -> s = big_union ss -> padmits (PNode PSeq cs) s
| pa_or cs sub ss s :
    Sub sub cs -> sub <> [] -> Forall2 padmits sub ss -> s = big_union ss ->
    padmits (PNode POr cs) s.

(** executable version *)
Definition pcomb (op : pop) : list (list eset) -> list eset :=
  match op with
  | PAnd | PSeq => and_comb
  | POr => or_comb
  | PXor => xor_comb
  | PLoop | POther => fun _ => []
  end.

Fixpoint poutcomes (t : ptree) : list eset :=
  match t with
  | PLeaf e => [[e]]
  | PTau => [[]]
  | PNode op cs => norm_sets (pcomb op (map poutcomes cs))
  end.

Definition padmits_b (t : ptree) (s : eset) : bool := mem (norm s) (poutcomes t).

(** ** Hypotheses of the soundness theorem, as booleans *)

(** the miner's tree replays every observed set (Leemans' fitness guarantee, here a hypothesis) *)
Definition im_fits_b (F : list eset) (t : ptree) : bool :=
  let O := poutcomes t in forallb (fun s => mem (norm s) O) F.

Fixpoint pleaves (t : ptree) : list positive :=
  match t with
  | PLeaf e => [e]
  | PTau => []
  | PNode _ cs => flat_map pleaves cs
  end.

(** may admit the empty set *)
Fixpoint pnullable (t : ptree) : bool :=
  match t with
  | PLeaf _ => false
  | PTau => true
  | PNode op cs =>
      match op with
      | PXor | POr => existsb pnullable cs
      | PAnd | PSeq => forallb pnullable cs
      | PLoop | POther => false
      end
  end.

Fixpoint pall (p : ptree -> bool) (t : ptree) : bool :=
  p t && match t with PNode _ cs => forallb (pall p) cs | _ => true end.

Definition leaf_or_xor (c : ptree) : bool :=
  match c with PLeaf _ | PNode PXor _ => true | _ => false end.

(** only 'X' and '+' operators; every child of a '+' node is a labelled leaf or an 'X' node (so that
    the classification of l.311-318 drops nothing) *)
Definition gate_l (t : ptree) : bool :=
  match t with
  | PNode PXor _ => true
  | PNode PAnd cs => forallb leaf_or_xor cs
  | PNode _ _ => false
  | _ => true
  end.

(** every operator node has a labelled leaf below it *)
Definition labelful_l (t : ptree) : bool :=
  match t with PNode _ _ => negb (is_nil (pleaves t)) | _ => true end.

Definition shape_l (t : ptree) : bool := gate_l t && labelful_l t.

(** [im_shape]: the above at every node, and every activity labels exactly one leaf *)
Definition im_shape_b (t : ptree) : bool := pall shape_l t && nodupb (pleaves t).

(** [im_tight]: whenever an observed set meets the leaves of a '+' node, it meets the leaves of each of
    its 'X' children that has no tau child (a mandatory branch is not replayed by the empty run).
    The inductive miner puts [X(tau, .)] on top of a sub-log that contains the empty trace, so a
    branch without that tau was discovered from a sub-log in which it always contributes. *)
Definition p_is_tau_child (c : ptree) : bool :=
  match c with PNode PXor gcs => existsb is_ptau gcs | _ => false end.

Definition tight_l (F : list eset) (t : ptree) : bool :=
  match t with
  | PNode PAnd cs =>
      forallb (fun s => is_empty (inter s (pleaves t))
                        || forallb (fun c => p_is_tau_child c || negb (is_empty (inter s (pleaves c)))) cs) F
  | _ => true
  end.

Definition im_tight_b (F : list eset) (t : ptree) : bool := pall (tight_l F) t.

(** for every OR node over leaves (the nodes [process_missing_and_gates] may rebuild): no observed set
    straddles its universe [U] (meets it without being inside it) - or no observed set lies inside
    [U] at all, in which case [get_weighted_cover] is called on the empty set and returns None *)
Definition straddle_free_l (F : list eset) (t : ptree) : bool :=
  match t with
  | PNode POr cs =>
      implb (forallb is_pleafish cs)
            (let U := flat_map plabel cs in
             forallb (fun s => is_empty (inter s U) || subsetb s U) F
             || forallb (fun s => negb (subsetb s U)) F)
  | _ => true
  end.

Definition straddle_free_b (F : list eset) (t : ptree) : bool := pall (straddle_free_l F) t.

(** the same, evaluated on the tree [process_missing_and_gates] receives *)
Definition cover_safe_b (F : list eset) (t : ptree) : bool :=
  match process_or_gates F t with
  | FOk t1 => straddle_free_b F t1
  | _ => false
  end.

Definition nonempty_sets_b (F : list eset) : bool := forallb (fun s => negb (is_empty s)) F.
