(** Proofs about the transcription of the post-processing half of logic_detection.py
    (PostProcess.v): semantics, refutation of unconditional soundness, and the partial theorem. *)
From Coq Require Import List Bool PArith Arith Lia Permutation.
From V Require Import Gate.GateTree Gate.GateProofs Gate.Cover Gate.CoverProofs Gate.PostProcess.
Import ListNotations.

(** * Part A: trees, semantics, executable semantics *)

Lemma ptree_ind' (P : ptree -> Prop) :
  (forall e, P (PLeaf e)) -> P PTau ->
  (forall op cs, Forall P cs -> P (PNode op cs)) ->
  forall t, P t.
Proof.
  intros Hl Ht Hn. fix IH 1. intros [e| |op cs].
  - apply Hl.
  - exact Ht.
  - apply Hn. induction cs as [|c cs IHcs]; constructor.
    + apply IH.
    + exact IHcs.
Qed.

Lemma atree_ind' (P : atree -> Prop) :
  (forall e, P (ALeaf e)) -> P ATau ->
  (forall g op cs, Forall P cs -> P (ANode g op cs)) ->
  forall t, P t.
Proof.
  intros Hl Ht Hn. fix IH 1. intros [e| |g op cs].
  - apply Hl.
  - exact Ht.
  - apply Hn. induction cs as [|c cs IHcs]; constructor.
    + apply IH.
    + exact IHcs.
Qed.

Lemma padmits_canonical t : forall s, padmits t s -> canonical s.
Proof.
  induction t as [e| |op cs IH] using ptree_ind'; intros s H; inversion H; subst.
  - reflexivity.
  - reflexivity.
  - rewrite Forall_forall in IH. eauto.
  - apply big_union_canonical.
  - apply big_union_canonical.
  - apply big_union_canonical.
Qed.

Lemma pick_padmits cs :
  Forall (fun c => forall s, In s (poutcomes c) <-> padmits c s) cs ->
  forall ss, Forall2 pick (map poutcomes cs) ss <-> Forall2 padmits cs ss.
Proof.
  induction 1 as [|c cs Hc Hcs IH]; intros ss; simpl.
  - split; inversion 1; constructor.
  - split; inversion 1; subst; constructor; try (apply IH; auto); apply Hc; auto.
Qed.

Theorem poutcomes_padmits t : forall s, In s (poutcomes t) <-> padmits t s.
Proof.
  induction t as [e| |op cs IH] using ptree_ind'; intros s.
  - simpl. split.
    + intros [<-|[]]. constructor.
    + inversion 1; auto.
  - simpl. split.
    + intros [<-|[]]. constructor.
    + inversion 1; auto.
  - cbn [poutcomes]. rewrite norm_sets_In. destruct op; cbn [pcomb].
    + (* Seq *) rewrite and_comb_In. split.
      * intros (ss & HF & ->). apply (pick_padmits _ IH) in HF. eapply pa_seq; eauto.
      * inversion 1; subst. exists ss; split; auto. apply (pick_padmits _ IH); auto.
    + (* Xor *) rewrite xor_comb_In. rewrite Forall_forall in IH. split.
      * intros (l & Hl & Hs). apply in_map_iff in Hl as (c & <- & Hc).
        econstructor; eauto. apply IH; auto.
      * inversion 1; subst. exists (poutcomes c); split.
        -- apply in_map; auto.
        -- apply IH; auto.
    + (* And *) rewrite and_comb_In. split.
      * intros (ss & HF & ->). apply (pick_padmits _ IH) in HF. eapply pa_and; eauto.
      * inversion 1; subst. exists ss; split; auto. apply (pick_padmits _ IH); auto.
    + (* Or *) rewrite or_comb_In. split.
      * intros (sub & ss & H1 & H2 & H3 & ->).
        apply Sub_map_inv in H1 as (sub' & -> & H1).
        assert (IH' : Forall (fun c => forall s, In s (poutcomes c) <-> padmits c s) sub').
        { rewrite Forall_forall in *. intros c Hc. apply IH. eapply Sub_In; eauto. }
        apply (pick_padmits _ IH') in H3.
        eapply pa_or; eauto. intros ->. apply H2. reflexivity.
      * inversion 1 as [| | | | |cs0 sub ss s0 H1 H2 H3 H4]; subst.
        assert (IH' : Forall (fun c => forall s, In s (poutcomes c) <-> padmits c s) sub).
        { rewrite Forall_forall in *. intros c Hc. apply IH. eapply Sub_In; eauto. }
        exists (map poutcomes sub), ss; repeat split.
        -- apply Sub_map; auto.
        -- destruct sub; [congruence|discriminate].
        -- apply (pick_padmits _ IH'); auto.
    + (* Loop *) split; [intros []|inversion 1].
    + (* Other *) split; [intros []|inversion 1].
Qed.

Theorem padmits_b_iff t s : padmits_b t s = true <-> padmits t (norm s).
Proof. unfold padmits_b. rewrite mem_iff. apply poutcomes_padmits. Qed.

Theorem im_fits_b_spec F t :
  im_fits_b F t = true <-> (forall s, In s F -> padmits t (norm s)).
Proof.
  unfold im_fits_b. rewrite forallb_forall. split; intros H s Hs.
  - apply poutcomes_padmits, mem_iff, H, Hs.
  - apply mem_iff, poutcomes_padmits, H, Hs.
Qed.

(** [padmits] is [GateTree.Admits] on the trees that convert *)
Lemma to_gtree_node op cs g :
  to_gtree (PNode op cs) = Some g ->
  exists gop gs, g = Node gop gs /\
    Forall2 (fun c c' => to_gtree c = Some c') cs gs /\
    ((op = PAnd /\ gop = GAnd) \/ (op = POr /\ gop = GOr) \/ (op = PXor /\ gop = GXor)).
Proof.
  cbn [to_gtree].
  set (go := fix go (l : list ptree) : option (list gtree) :=
               match l with
               | [] => Some []
               | c :: r => match to_gtree c, go r with
                           | Some c', Some r' => Some (c' :: r')
                           | _, _ => None
                           end
               end).
  assert (Hgo : forall l gs, go l = Some gs -> Forall2 (fun c c' => to_gtree c = Some c') l gs).
  { induction l as [|c r IHr]; intros gs H; cbn in H.
    - inversion H; constructor.
    - destruct (to_gtree c) eqn:Ec; [|discriminate]. destruct (go r) eqn:Er; [|discriminate].
      inversion H; subst. constructor; auto. }
  destruct (go cs) as [gs|] eqn:E.
  - apply Hgo in E. intros H. destruct op; inversion H; subst; eauto 10.
  - destruct op; discriminate.
Qed.

Lemma Forall2_Sub {A B} (R : A -> B -> Prop) l l' : Forall2 R l l' ->
  forall s, Sub s l -> exists s', Sub s' l' /\ Forall2 R s s'.
Proof.
  induction 1 as [|x y l l' Hxy HF IH]; intros s Hs.
  - apply Sub_nil_r in Hs. subst. exists []; split; constructor.
  - inversion Hs as [|z s0 l0 H0|z s0 l0 H0]; subst.
    + destruct (IH _ H0) as (s' & S1 & F1). exists (y :: s'); split; constructor; auto.
    + destruct (IH _ H0) as (s' & S1 & F1). exists s'; split; auto. constructor; auto.
Qed.

Lemma Forall2_flip {A B} (R : A -> B -> Prop) l l' :
  Forall2 R l l' -> Forall2 (fun b a => R a b) l' l.
Proof. induction 1; constructor; auto. Qed.

Lemma Forall2_length' {A B} (R : A -> B -> Prop) l l' : Forall2 R l l' -> length l = length l'.
Proof. induction 1; simpl; auto. Qed.

Theorem to_gtree_padmits t : forall g, to_gtree t = Some g -> forall s, padmits t s <-> Admits g s.
Proof.
  induction t as [e| |op cs IH] using ptree_ind'; intros g Hg s.
  - inversion Hg; subst. split; inversion 1; constructor.
  - inversion Hg; subst. split; inversion 1; constructor.
  - apply to_gtree_node in Hg as (gop & gs & -> & HF & Hop).
    assert (Hch : forall sub sub' ss, Forall2 (fun c c' => to_gtree c = Some c') sub sub' ->
                  (forall c, In c sub -> In c cs) ->
                  (Forall2 padmits sub ss <-> Forall2 Admits sub' ss)).
    { intros sub sub' ss H. revert ss. induction H as [|c c' sub sub' Hc H IHs]; intros ss Hin.
      - split; inversion 1; constructor.
      - rewrite Forall_forall in IH.
        split; inversion 1; subst; constructor;
          try (apply IHs; auto; intros; apply Hin; right; auto);
          apply (IH c (Hin c (or_introl eq_refl)) c' Hc); auto. }
    destruct Hop as [[-> ->]|[[-> ->]|[-> ->]]].
    + split; inversion 1; subst; econstructor; eauto; eapply Hch; eauto.
    + split.
      * inversion 1 as [| | | | |cs0 sub ss s0 H1 H2 H3 H4]; subst.
        destruct (Forall2_Sub _ _ _ HF _ H1) as (sub' & S1 & F1).
        eapply A_or with (sub := sub') (ss := ss); eauto.
        -- intros ->. inversion F1; subst. congruence.
        -- eapply Hch; eauto. intros c Hc. eapply Sub_In; eauto.
      * inversion 1 as [| | | |cs0 sub' ss s0 H1 H2 H3 H4]; subst.
        destruct (Forall2_Sub _ _ _ (Forall2_flip _ _ _ HF) _ H1) as (sub & S1 & F1).
        apply Forall2_flip in F1.
        eapply pa_or with (sub := sub) (ss := ss); eauto.
        -- intros ->. inversion F1; subst. congruence.
        -- eapply Hch; eauto. intros c Hc. eapply Sub_In; eauto.
    + rewrite Forall_forall in IH. split.
      * inversion 1 as [| |cs0 c s0 Hc Hs| | |]; subst.
        destruct (Forall2_Sub _ _ _ HF [c]) as (sub' & S1 & F1).
        { clear -Hc. induction cs as [|x cs IHc]; [destruct Hc|].
          destruct Hc as [->|Hc].
          - constructor. clear. induction cs; constructor; auto.
          - apply Sub_skip; auto. }
        inversion F1 as [|? c' ? ? Hc' F2]; subst. inversion F2; subst.
        eapply A_xor; [eapply Sub_In; eauto; left; auto|]. apply (IH c Hc c' Hc'); auto.
      * inversion 1 as [| |cs0 c' s0 Hc Hs| |]; subst.
        destruct (Forall2_Sub _ _ _ (Forall2_flip _ _ _ HF) [c']) as (sub & S1 & F1).
        { clear -Hc. induction gs as [|x gs IHc]; [destruct Hc|].
          destruct Hc as [->|Hc].
          - constructor. clear. induction gs; constructor; auto.
          - apply Sub_skip; auto. }
        inversion F1 as [|? c ? ? Hc' F2]; subst. inversion F2; subst.
        assert (Hin : In c cs) by (eapply Sub_In; eauto; left; auto).
        eapply pa_xor; [exact Hin|]. apply (IH c Hin c' Hc'); auto.
Qed.

(** * Part C: step (3) is the identity when no event repeats *)

Theorem remove_defunct_sequence_logic_id t : remove_defunct_sequence_logic t = t.
Proof.
  induction t as [e| |op cs IH] using ptree_ind'; auto.
  cbn [remove_defunct_sequence_logic]. f_equal.
  induction IH as [|c cs Hc _ IHcs]; simpl; congruence.
Qed.

Corollary calculate_repeats_in_tree_id t : calculate_repeats_in_tree t = t.
Proof. apply remove_defunct_sequence_logic_id. Qed.

(** * Part B: the unconditional statement is false *)

Lemma padmits_b_canonical t s : canonical s -> (padmits_b t s = true <-> padmits t s).
Proof. intros H. rewrite padmits_b_iff, norm_id; tauto. Qed.

(** Witness 1 (produced by pm4py for this very family, PYTHONHASHSEED=1): a '+' node directly under
    a '+' node lands in neither [tau_children] nor [non_tau_children] and is dropped. *)
Definition refute_F1 : list eset := [[4; 5]; [3; 5]; [1; 4]]%positive.
Definition refute_t1 : ptree :=
  PNode PAnd [PNode PXor [PTau; PLeaf 1];
              PNode PAnd [PNode PXor [PTau; PLeaf 5]; PNode PXor [PLeaf 3; PLeaf 4]]]%positive.

Lemma refute_t1_post : post refute_F1 refute_t1 = PNode POr [PLeaf 1%positive].
Proof. vm_compute. reflexivity. Qed.

Theorem post_sound_refuted :
  exists F t, F <> [] /\ (forall s, In s F -> padmits t s) /\
              exists s, In s F /\ ~ padmits (post F t) s.
Proof.
  exists refute_F1, refute_t1. split; [discriminate|]. split.
  - intros s Hs. assert (Hc : canonical s).
    { destruct Hs as [<-|[<-|[<-|[]]]]; reflexivity. }
    apply (padmits_b_canonical _ _ Hc).
    destruct Hs as [<-|[<-|[<-|[]]]]; vm_compute; reflexivity.
  - exists [4; 5]%positive. split; [left; reflexivity|].
    intros H. assert (Hc : canonical [4; 5]%positive) by reflexivity.
    apply (padmits_b_canonical _ _ Hc) in H. vm_compute in H. discriminate.
Qed.

(** Witness 2 (also produced by pm4py, PYTHONHASHSEED=2): the tree satisfies [im_shape] and
    [im_tight]; the observed set {2,6} straddles the universe {4,5,6} of the inner OR, which
    [process_missing_and_gates] rebuilds from {5} and {4,6} only. *)
Definition refute_F2 : list eset :=
  [[5]; [1; 2; 3]; [2; 3; 4; 5; 6]; [2; 6]; [2; 4; 5; 6]; [4; 6]]%positive.
Definition refute_t2 : ptree :=
  PNode PAnd [PNode PXor [PTau; PLeaf 2]; PNode PXor [PTau; PLeaf 3];
              PNode PXor [PNode PAnd [PNode PXor [PTau; PLeaf 6]; PNode PXor [PTau; PLeaf 5];
                                      PNode PXor [PTau; PLeaf 4]];
                          PLeaf 1]]%positive.

Theorem post_sound_refuted_cover :
  exists F t, nonempty_sets_b F = true /\ (forall s, In s F -> padmits t (norm s)) /\
              im_shape_b t = true /\ im_tight_b F t = true /\
              exists s, In s F /\ ~ padmits (post F t) (norm s).
Proof.
  exists refute_F2, refute_t2. split; [reflexivity|]. split; [|split; [|split]].
  - apply im_fits_b_spec. vm_compute. reflexivity.
  - vm_compute. reflexivity.
  - vm_compute. reflexivity.
  - exists [2; 6]%positive. split; [right; right; right; left; reflexivity|].
    intros H. apply padmits_b_iff in H. vm_compute in H. discriminate.
Qed.

(** * Part D: extensional introduction / elimination rules, projections *)

Lemma eq_big_union s ss :
  canonical s -> (forall x, In x s <-> exists s', In s' ss /\ In x s') -> s = big_union ss.
Proof.
  intros Hc H. apply canonical_ext; auto; [apply big_union_canonical|].
  intros x. rewrite big_union_In. apply H.
Qed.

Definition optadm (c : ptree) (o : option eset) : Prop :=
  match o with Some s => padmits c s | None => True end.

Fixpoint somes (os : list (option eset)) : list eset :=
  match os with
  | [] => []
  | Some s :: r => s :: somes r
  | None :: r => somes r
  end.

Lemma somes_In os s : In s (somes os) <-> In (Some s) os.
Proof.
  induction os as [|[s'|] os IH]; simpl; [tauto| |].
  - rewrite IH. split; intros [H|H]; auto; [left; congruence|inversion H; auto].
  - rewrite IH. split; [auto|]. intros [H|H]; [discriminate|auto].
Qed.

Lemma somes_app a b : somes (a ++ b) = somes a ++ somes b.
Proof. induction a as [|[s|] a IH]; simpl; congruence. Qed.

Lemma somes_map_Some ss : somes (map Some ss) = ss.
Proof. induction ss; simpl; congruence. Qed.

Lemma or_intro_opt cs os :
  Forall2 optadm cs os -> somes os <> [] -> padmits (PNode POr cs) (big_union (somes os)).
Proof.
  intros HF Hne.
  assert (H : exists sub, Sub sub cs /\ Forall2 padmits sub (somes os)).
  { clear Hne. induction HF as [|c o cs os Hc HF (sub & S1 & F1)].
    - exists []; split; constructor.
    - destruct o as [s|]; simpl.
      + exists (c :: sub); split; constructor; auto.
      + exists sub; split; auto. constructor; auto. }
  destruct H as (sub & S1 & F1).
  eapply pa_or; eauto. intros ->. inversion F1; congruence.
Qed.

Lemma or_elim_opt cs s :
  padmits (PNode POr cs) s ->
  exists os, Forall2 optadm cs os /\ somes os <> [] /\ s = big_union (somes os).
Proof.
  inversion 1 as [| | | | |cs0 sub ss s0 H1 H2 H3 H4]; subst.
  assert (Hos : exists os, Forall2 optadm cs os /\ somes os = ss).
  { clear H2 H. revert ss H3. induction H1 as [|c sub cs S1 IH|c sub cs S1 IH]; intros ss H3.
    - inversion H3; subst. exists []; split; constructor.
    - inversion H3 as [|? sc ? ss' Hc H3']; subst. destruct (IH _ H3') as (os & F1 & E1).
      exists (Some sc :: os); split; [constructor; auto|simpl; congruence].
    - destruct (IH _ H3) as (os & F1 & E1). exists (None :: os); split; [constructor; simpl; auto|auto]. }
  destruct Hos as (os & F1 & <-). exists os; repeat split; auto.
  intros E. rewrite E in H3. inversion H3; subst. congruence.
Qed.

Lemma padmits_leaves t : forall s, padmits t s -> incl s (pleaves t).
Proof.
  induction t as [e| |op cs IH] using ptree_ind'; intros s H x Hx.
  - inversion H; subst. exact Hx.
  - inversion H; subst. destruct Hx.
  - rewrite Forall_forall in IH. cbn [pleaves]. apply in_flat_map.
    assert (Hgen : forall sub ss, (forall c, In c sub -> In c cs) -> Forall2 padmits sub ss ->
                   In x (big_union ss) -> exists c, In c cs /\ In x (pleaves c)).
    { intros sub ss Hin HF Hb. apply big_union_In in Hb as (sc & Hsc & Hxs).
      revert Hsc. induction HF as [|c sc' sub ss Hc HF IHF]; intros Hsc; [destruct Hsc|].
      destruct Hsc as [->|Hsc].
      - exists c; split; [apply Hin; left; auto|]. eapply IH; eauto. apply Hin; left; auto.
      - apply IHF; auto. intros c' Hc'. apply Hin; right; auto. }
    inversion H; subst.
    + exists c; split; auto. eapply IH; eauto.
    + eapply Hgen; eauto.
    + eapply Hgen; eauto.
    + eapply Hgen; eauto. intros c Hc. eapply Sub_In; eauto.
Qed.

(** [s] is the projection of the observed set [st] on the leaves of [t] *)
Definition link (st : eset) (t : ptree) (s : eset) : Prop :=
  forall x, In x s <-> In x st /\ In x (pleaves t).

Definition olink (st : eset) (c : ptree) (o : option eset) : Prop :=
  match o with
  | Some sc => link st c sc
  | None => forall x, In x st -> ~ In x (pleaves c)
  end.

Lemma NoDup_app_disjoint {A} (a b : list A) x : NoDup (a ++ b) -> In x a -> In x b -> False.
Proof.
  induction a as [|y a IH]; simpl; intros H Ha Hb; [destruct Ha|].
  inversion H; subst. destruct Ha as [->|Ha].
  - apply H2. apply in_or_app; auto.
  - auto.
Qed.

Lemma NoDup_app_l {A} (a b : list A) : NoDup (a ++ b) -> NoDup a.
Proof.
  induction a as [|y a IH]; simpl; intros H; [constructor|].
  inversion H; subst. constructor; auto. intros Hy. apply H2, in_or_app; auto.
Qed.

Lemma NoDup_app_r {A} (a b : list A) : NoDup (a ++ b) -> NoDup b.
Proof. induction a as [|y a IH]; simpl; intros H; auto. inversion H; auto. Qed.

Lemma link_opt st cs os :
  NoDup (flat_map pleaves cs) -> Forall2 optadm cs os ->
  (forall x, (exists s', In s' (somes os) /\ In x s') <-> In x st /\ In x (flat_map pleaves cs)) ->
  Forall2 (olink st) cs os.
Proof.
  intros Hnd HF. revert Hnd. induction HF as [|c o cs os Hc HF IH]; intros Hnd Hl; [constructor|].
  cbn [flat_map] in Hnd, Hl.
  assert (Htail : forall x, (exists s', In s' (somes os) /\ In x s') ->
                            In x (flat_map pleaves cs)).
  { intros x (s' & Hs' & Hx). clear -HF Hs' Hx. revert Hs'.
    induction HF as [|c o cs os Hc HF IH]; simpl; intros Hs'; [destruct Hs'|].
    apply in_or_app. destruct o as [sc|]; simpl in Hs'.
    - destruct Hs' as [->|Hs']; [left; eapply padmits_leaves; eauto|right; auto].
    - right; auto. }
  constructor.
  - destruct o as [sc|]; simpl.
    + intros x. split.
      * intros Hx. split; [|eapply padmits_leaves; eauto].
        apply (proj1 (Hl x)). exists sc; split; simpl; auto.
      * intros [Hst Hlc]. destruct (proj2 (Hl x)) as (s' & Hs' & Hxs').
        { split; auto. apply in_or_app; auto. }
        simpl in Hs'. destruct Hs' as [<-|Hs']; auto.
        exfalso. eapply NoDup_app_disjoint; eauto.
    + intros x Hst Hlc. destruct (proj2 (Hl x)) as (s' & Hs' & Hxs').
      { split; auto. apply in_or_app; auto. }
      simpl in Hs'. eapply NoDup_app_disjoint; eauto.
  - apply IH; [eapply NoDup_app_r; eauto|]. intros x. split.
    + intros Hx. split; [|auto]. apply (proj1 (Hl x)).
      destruct Hx as (s' & Hs' & Hx). exists s'; split; auto.
      destruct o; simpl; auto.
    + intros [Hst Hlc]. destruct (proj2 (Hl x)) as (s' & Hs' & Hxs').
      { split; auto. apply in_or_app; auto. }
      destruct o as [sc|]; simpl in Hs'; [|eauto].
      destruct Hs' as [<-|Hs']; [|eauto].
      exfalso. eapply NoDup_app_disjoint; eauto. eapply padmits_leaves; eauto.
Qed.

Lemma Forall2_optadm_Some cs ss : Forall2 padmits cs ss -> Forall2 optadm cs (map Some ss).
Proof. induction 1; simpl; constructor; auto. Qed.

Lemma link_and st cs ss :
  NoDup (flat_map pleaves cs) -> Forall2 padmits cs ss ->
  (forall x, In x (big_union ss) <-> In x st /\ In x (flat_map pleaves cs)) ->
  Forall2 (link st) cs ss.
Proof.
  intros Hnd HF Hl.
  assert (H : Forall2 (olink st) cs (map Some ss)).
  { apply link_opt; auto using Forall2_optadm_Some. intros x.
    rewrite somes_map_Some, <- big_union_In. apply Hl. }
  clear -H. remember (map Some ss) as os eqn:E. revert ss E.
  induction H as [|c o cs os Hc H IH]; intros [|s ss] E; try discriminate; constructor.
  - inversion E; subst. exact Hc.
  - inversion E; subst. apply IH; auto.
Qed.

Lemma link_nonempty st t s : link st t s -> s <> [] -> exists x, In x st /\ In x (pleaves t).
Proof. intros H Hne. destruct s as [|x s]; [congruence|]. exists x. apply H. left; auto. Qed.
