(** Proofs about the transcription of the post-processing half of logic_detection.py
    (PostProcess.v): semantics, refutation of unconditional soundness, and the partial theorem. *)
From Coq Require Import List Bool PArith Arith Lia Permutation.
From V Require Import Gate.GateTree Gate.GateProofs Gate.Cover Gate.CoverProofs Gate.PostProcess.
Import ListNotations.

(** * Part A: trees, semantics, executable semantics *)

Lemma ptree_ind' (P : ptree -> Prop) :
  (forall e, P (PLeaf e)) -> P PTau ->
  (forall op cs, Forall P cs -> P (PNode op cs)) ->
  forall t, P t.
Proof.
  intros Hl Ht Hn. fix IH 1. intros [e| |op cs].
  - apply Hl.
  - exact Ht.
  - apply Hn. induction cs as [|c cs IHcs]; constructor.
    + apply IH.
    + exact IHcs.
Qed.

Lemma atree_ind' (P : atree -> Prop) :
  (forall e, P (ALeaf e)) -> P ATau ->
  (forall g op cs, Forall P cs -> P (ANode g op cs)) ->
  forall t, P t.
Proof.
  intros Hl Ht Hn. fix IH 1. intros [e| |g op cs].
  - apply Hl.
  - exact Ht.
  - apply Hn. induction cs as [|c cs IHcs]; constructor.
    + apply IH.
    + exact IHcs.
Qed.

Lemma padmits_canonical t : forall s, padmits t s -> canonical s.
Proof.
  induction t as [e| |op cs IH] using ptree_ind'; intros s H; inversion H; subst.
  - reflexivity.
  - reflexivity.
  - rewrite Forall_forall in IH. eauto.
  - apply big_union_canonical.
  - apply big_union_canonical.
  - apply big_union_canonical.
Qed.

Lemma pick_padmits cs :
  Forall (fun c => forall s, In s (poutcomes c) <-> padmits c s) cs ->
  forall ss, Forall2 pick (map poutcomes cs) ss <-> Forall2 padmits cs ss.
Proof.
  induction 1 as [|c cs Hc Hcs IH]; intros ss; simpl.
  - split; inversion 1; constructor.
  - split; inversion 1; subst; constructor; try (apply IH; auto); apply Hc; auto.
Qed.

Theorem poutcomes_padmits t : forall s, In s (poutcomes t) <-> padmits t s.
Proof.
  induction t as [e| |op cs IH] using ptree_ind'; intros s.
  - simpl. split.
    + intros [<-|[]]. constructor.
    + inversion 1; auto.
  - simpl. split.
    + intros [<-|[]]. constructor.
    + inversion 1; auto.
  - cbn [poutcomes]. rewrite norm_sets_In. destruct op; cbn [pcomb].
    + (* Seq *) rewrite and_comb_In. split.
      * intros (ss & HF & ->). apply (pick_padmits _ IH) in HF. eapply pa_seq; eauto.
      * inversion 1; subst. exists ss; split; auto. apply (pick_padmits _ IH); auto.
    + (* Xor *) rewrite xor_comb_In. rewrite Forall_forall in IH. split.
      * intros (l & Hl & Hs). apply in_map_iff in Hl as (c & <- & Hc).
        econstructor; eauto. apply IH; auto.
      * inversion 1; subst. exists (poutcomes c); split.
        -- apply in_map; auto.
        -- apply IH; auto.
    + (* And *) rewrite and_comb_In. split.
      * intros (ss & HF & ->). apply (pick_padmits _ IH) in HF. eapply pa_and; eauto.
      * inversion 1; subst. exists ss; split; auto. apply (pick_padmits _ IH); auto.
    + (* Or *) rewrite or_comb_In. split.
      * intros (sub & ss & H1 & H2 & H3 & ->).
        apply Sub_map_inv in H1 as (sub' & -> & H1).
        assert (IH' : Forall (fun c => forall s, In s (poutcomes c) <-> padmits c s) sub').
        { rewrite Forall_forall in *. intros c Hc. apply IH. eapply Sub_In; eauto. }
        apply (pick_padmits _ IH') in H3.
        eapply pa_or; eauto. intros ->. apply H2. reflexivity.
      * inversion 1 as [| | | | |cs0 sub ss s0 H1 H2 H3 H4]; subst.
        assert (IH' : Forall (fun c => forall s, In s (poutcomes c) <-> padmits c s) sub).
        { rewrite Forall_forall in *. intros c Hc. apply IH. eapply Sub_In; eauto. }
        exists (map poutcomes sub), ss; repeat split.
        -- apply Sub_map; auto.
        -- destruct sub; [congruence|discriminate].
        -- apply (pick_padmits _ IH'); auto.
    + (* Loop *) split; [intros []|inversion 1].
    + (* Other *) split; [intros []|inversion 1].
Qed.

Theorem padmits_b_iff t s : padmits_b t s = true <-> padmits t (norm s).
Proof. unfold padmits_b. rewrite mem_iff. apply poutcomes_padmits. Qed.

Theorem im_fits_b_spec F t :
  im_fits_b F t = true <-> (forall s, In s F -> padmits t (norm s)).
Proof.
  unfold im_fits_b. rewrite forallb_forall. split; intros H s Hs.
  - apply poutcomes_padmits, mem_iff, H, Hs.
  - apply mem_iff, poutcomes_padmits, H, Hs.
Qed.

(** [padmits] is [GateTree.Admits] on the trees that convert *)
Lemma to_gtree_node op cs g :
  to_gtree (PNode op cs) = Some g ->
  exists gop gs, g = Node gop gs /\
    Forall2 (fun c c' => to_gtree c = Some c') cs gs /\
    ((op = PAnd /\ gop = GAnd) \/ (op = POr /\ gop = GOr) \/ (op = PXor /\ gop = GXor)).
Proof.
  cbn [to_gtree].
  set (go := fix go (l : list ptree) : option (list gtree) :=
               match l with
               | [] => Some []
               | c :: r => match to_gtree c, go r with
                           | Some c', Some r' => Some (c' :: r')
                           | _, _ => None
                           end
               end).
  assert (Hgo : forall l gs, go l = Some gs -> Forall2 (fun c c' => to_gtree c = Some c') l gs).
  { induction l as [|c r IHr]; intros gs H; cbn in H.
    - inversion H; constructor.
    - destruct (to_gtree c) eqn:Ec; [|discriminate]. destruct (go r) eqn:Er; [|discriminate].
      inversion H; subst. constructor; auto. }
  destruct (go cs) as [gs|] eqn:E.
  - apply Hgo in E. intros H. destruct op; inversion H; subst; eauto 10.
  - destruct op; discriminate.
Qed.

Lemma Forall2_Sub {A B} (R : A -> B -> Prop) l l' : Forall2 R l l' ->
  forall s, Sub s l -> exists s', Sub s' l' /\ Forall2 R s s'.
Proof.
  induction 1 as [|x y l l' Hxy HF IH]; intros s Hs.
  - apply Sub_nil_r in Hs. subst. exists []; split; constructor.
  - inversion Hs as [|z s0 l0 H0|z s0 l0 H0]; subst.
    + destruct (IH _ H0) as (s' & S1 & F1). exists (y :: s'); split; constructor; auto.
    + destruct (IH _ H0) as (s' & S1 & F1). exists s'; split; auto. constructor; auto.
Qed.

Lemma Forall2_flip {A B} (R : A -> B -> Prop) l l' :
  Forall2 R l l' -> Forall2 (fun b a => R a b) l' l.
Proof. induction 1; constructor; auto. Qed.

Lemma Forall2_length' {A B} (R : A -> B -> Prop) l l' : Forall2 R l l' -> length l = length l'.
Proof. induction 1; simpl; auto. Qed.

Theorem to_gtree_padmits t : forall g, to_gtree t = Some g -> forall s, padmits t s <-> Admits g s.
Proof.
  induction t as [e| |op cs IH] using ptree_ind'; intros g Hg s.
  - inversion Hg; subst. split; inversion 1; constructor.
  - inversion Hg; subst. split; inversion 1; constructor.
  - apply to_gtree_node in Hg as (gop & gs & -> & HF & Hop).
    assert (Hch : forall sub sub' ss, Forall2 (fun c c' => to_gtree c = Some c') sub sub' ->
                  (forall c, In c sub -> In c cs) ->
                  (Forall2 padmits sub ss <-> Forall2 Admits sub' ss)).
    { intros sub sub' ss H. revert ss. induction H as [|c c' sub sub' Hc H IHs]; intros ss Hin.
      - split; inversion 1; constructor.
      - rewrite Forall_forall in IH.
        split; inversion 1; subst; constructor;
          try (apply IHs; auto; intros; apply Hin; right; auto);
          apply (IH c (Hin c (or_introl eq_refl)) c' Hc); auto. }
    destruct Hop as [[-> ->]|[[-> ->]|[-> ->]]].
    + split; inversion 1; subst; econstructor; eauto; eapply Hch; eauto.
    + split.
      * inversion 1 as [| | | | |cs0 sub ss s0 H1 H2 H3 H4]; subst.
        destruct (Forall2_Sub _ _ _ HF _ H1) as (sub' & S1 & F1).
        eapply A_or with (sub := sub') (ss := ss); eauto.
        -- intros ->. inversion F1; subst. congruence.
        -- eapply Hch; eauto. intros c Hc. eapply Sub_In; eauto.
      * inversion 1 as [| | | |cs0 sub' ss s0 H1 H2 H3 H4]; subst.
        destruct (Forall2_Sub _ _ _ (Forall2_flip _ _ _ HF) _ H1) as (sub & S1 & F1).
        apply Forall2_flip in F1.
        eapply pa_or with (sub := sub) (ss := ss); eauto.
        -- intros ->. inversion F1; subst. congruence.
        -- eapply Hch; eauto. intros c Hc. eapply Sub_In; eauto.
    + rewrite Forall_forall in IH. split.
      * inversion 1 as [| |cs0 c s0 Hc Hs| | |]; subst.
        destruct (Forall2_Sub _ _ _ HF [c]) as (sub' & S1 & F1).
        { clear -Hc. induction cs as [|x cs IHc]; [destruct Hc|].
          destruct Hc as [->|Hc].
          - constructor. clear. induction cs; constructor; auto.
          - apply Sub_skip; auto. }
        inversion F1 as [|? c' ? ? Hc' F2]; subst. inversion F2; subst.
        eapply A_xor; [eapply Sub_In; eauto; left; auto|]. apply (IH c Hc c' Hc'); auto.
      * inversion 1 as [| |cs0 c' s0 Hc Hs| |]; subst.
        destruct (Forall2_Sub _ _ _ (Forall2_flip _ _ _ HF) [c']) as (sub & S1 & F1).
        { clear -Hc. induction gs as [|x gs IHc]; [destruct Hc|].
          destruct Hc as [->|Hc].
          - constructor. clear. induction gs; constructor; auto.
          - apply Sub_skip; auto. }
        inversion F1 as [|? c ? ? Hc' F2]; subst. inversion F2; subst.
        assert (Hin : In c cs) by (eapply Sub_In; eauto; left; auto).
        eapply pa_xor; [exact Hin|]. apply (IH c Hin c' Hc'); auto.
Qed.

(** * Part C: step (3) is the identity when no event repeats *)

Theorem remove_defunct_sequence_logic_id t : remove_defunct_sequence_logic t = t.
Proof.
  induction t as [e| |op cs IH] using ptree_ind'; auto.
  cbn [remove_defunct_sequence_logic]. f_equal.
  induction IH as [|c cs Hc _ IHcs]; simpl; congruence.
Qed.

Corollary calculate_repeats_in_tree_id t : calculate_repeats_in_tree t = t.
Proof. apply remove_defunct_sequence_logic_id. Qed.

(** * Part B: the unconditional statement is false *)

Lemma padmits_b_canonical t s : canonical s -> (padmits_b t s = true <-> padmits t s).
Proof. intros H. rewrite padmits_b_iff, norm_id; tauto. Qed.

(** Witness 1 (produced by pm4py for this very family, PYTHONHASHSEED=1): a '+' node directly under
    a '+' node lands in neither [tau_children] nor [non_tau_children] and is dropped. *)
Definition refute_F1 : list eset := [[4; 5]; [3; 5]; [1; 4]]%positive.
Definition refute_t1 : ptree :=
  PNode PAnd [PNode PXor [PTau; PLeaf 1];
              PNode PAnd [PNode PXor [PTau; PLeaf 5]; PNode PXor [PLeaf 3; PLeaf 4]]]%positive.

Lemma refute_t1_post : post refute_F1 refute_t1 = PNode POr [PLeaf 1%positive].
Proof. vm_compute. reflexivity. Qed.

Theorem post_sound_refuted :
  exists F t, F <> [] /\ (forall s, In s F -> padmits t s) /\
              exists s, In s F /\ ~ padmits (post F t) s.
Proof.
  exists refute_F1, refute_t1. split; [discriminate|]. split.
  - intros s Hs. assert (Hc : canonical s).
    { destruct Hs as [<-|[<-|[<-|[]]]]; reflexivity. }
    apply (padmits_b_canonical _ _ Hc).
    destruct Hs as [<-|[<-|[<-|[]]]]; vm_compute; reflexivity.
  - exists [4; 5]%positive. split; [left; reflexivity|].
    intros H. assert (Hc : canonical [4; 5]%positive) by reflexivity.
    apply (padmits_b_canonical _ _ Hc) in H. vm_compute in H. discriminate.
Qed.

(** Witness 2 (also produced by pm4py, PYTHONHASHSEED=2): the tree satisfies [im_shape] and
    [im_tight]; the observed set {2,6} straddles the universe {4,5,6} of the inner OR, which
    [process_missing_and_gates] rebuilds from {5} and {4,6} only. *)
Definition refute_F2 : list eset :=
  [[5]; [1; 2; 3]; [2; 3; 4; 5; 6]; [2; 6]; [2; 4; 5; 6]; [4; 6]]%positive.
Definition refute_t2 : ptree :=
  PNode PAnd [PNode PXor [PTau; PLeaf 2]; PNode PXor [PTau; PLeaf 3];
              PNode PXor [PNode PAnd [PNode PXor [PTau; PLeaf 6]; PNode PXor [PTau; PLeaf 5];
                                      PNode PXor [PTau; PLeaf 4]];
                          PLeaf 1]]%positive.

Theorem post_sound_refuted_cover :
  exists F t, nonempty_sets_b F = true /\ (forall s, In s F -> padmits t (norm s)) /\
              im_shape_b t = true /\ im_tight_b F t = true /\
              exists s, In s F /\ ~ padmits (post F t) (norm s).
Proof.
  exists refute_F2, refute_t2. split; [reflexivity|]. split; [|split; [|split]].
  - apply im_fits_b_spec. vm_compute. reflexivity.
  - vm_compute. reflexivity.
  - vm_compute. reflexivity.
  - exists [2; 6]%positive. split; [right; right; right; left; reflexivity|].
    intros H. apply padmits_b_iff in H. vm_compute in H. discriminate.
Qed.

(** * Part D: extensional introduction / elimination rules, projections *)

Lemma eq_big_union s ss :
  canonical s -> (forall x, In x s <-> exists s', In s' ss /\ In x s') -> s = big_union ss.
Proof.
  intros Hc H. apply canonical_ext; auto; [apply big_union_canonical|].
  intros x. rewrite big_union_In. apply H.
Qed.

Definition optadm (c : ptree) (o : option eset) : Prop :=
  match o with Some s => padmits c s | None => True end.

Fixpoint somes (os : list (option eset)) : list eset :=
  match os with
  | [] => []
  | Some s :: r => s :: somes r
  | None :: r => somes r
  end.

Lemma somes_In os s : In s (somes os) <-> In (Some s) os.
Proof.
  induction os as [|[s'|] os IH]; simpl; [tauto| |].
  - rewrite IH. split; intros [H|H]; auto; [left; congruence|inversion H; auto].
  - rewrite IH. split; [auto|]. intros [H|H]; [discriminate|auto].
Qed.

Lemma somes_app a b : somes (a ++ b) = somes a ++ somes b.
Proof. induction a as [|[s|] a IH]; simpl; congruence. Qed.

Lemma somes_map_Some ss : somes (map Some ss) = ss.
Proof. induction ss; simpl; congruence. Qed.

Lemma or_intro_opt cs os :
  Forall2 optadm cs os -> somes os <> [] -> padmits (PNode POr cs) (big_union (somes os)).
Proof.
  intros HF Hne.
  assert (H : exists sub, Sub sub cs /\ Forall2 padmits sub (somes os)).
  { clear Hne. induction HF as [|c o cs os Hc HF (sub & S1 & F1)].
    - exists []; split; constructor.
    - destruct o as [s|]; simpl.
      + exists (c :: sub); split; constructor; auto.
      + exists sub; split; auto. constructor; auto. }
  destruct H as (sub & S1 & F1).
  eapply pa_or; eauto. intros ->. inversion F1; congruence.
Qed.

Lemma or_elim_opt cs s :
  padmits (PNode POr cs) s ->
  exists os, Forall2 optadm cs os /\ somes os <> [] /\ s = big_union (somes os).
Proof.
  inversion 1 as [| | | | |cs0 sub ss s0 H1 H2 H3 H4]; subst.
  assert (Hos : exists os, Forall2 optadm cs os /\ somes os = ss).
  { clear H2 H. revert ss H3. induction H1 as [|c sub cs S1 IH|c sub cs S1 IH]; intros ss H3.
    - inversion H3; subst. exists []; split; constructor.
    - inversion H3 as [|? sc ? ss' Hc H3']; subst. destruct (IH _ H3') as (os & F1 & E1).
      exists (Some sc :: os); split; [constructor; auto|simpl; congruence].
    - destruct (IH _ H3) as (os & F1 & E1). exists (None :: os); split; [constructor; simpl; auto|auto]. }
  destruct Hos as (os & F1 & <-). exists os; repeat split; auto.
  intros E. rewrite E in H3. inversion H3; subst. congruence.
Qed.

Lemma padmits_leaves t : forall s, padmits t s -> incl s (pleaves t).
Proof.
  induction t as [e| |op cs IH] using ptree_ind'; intros s H x Hx.
  - inversion H; subst. exact Hx.
  - inversion H; subst. destruct Hx.
  - rewrite Forall_forall in IH. cbn [pleaves]. apply in_flat_map.
    assert (Hgen : forall sub ss, (forall c, In c sub -> In c cs) -> Forall2 padmits sub ss ->
                   In x (big_union ss) -> exists c, In c cs /\ In x (pleaves c)).
    { intros sub ss Hin HF Hb. apply big_union_In in Hb as (sc & Hsc & Hxs).
      revert Hsc. induction HF as [|c sc' sub ss Hc HF IHF]; intros Hsc; [destruct Hsc|].
      destruct Hsc as [->|Hsc].
      - exists c; split; [apply Hin; left; auto|]. eapply IH; eauto. apply Hin; left; auto.
      - apply IHF; auto. intros c' Hc'. apply Hin; right; auto. }
    inversion H; subst.
    + exists c; split; auto. eapply IH; eauto.
    + apply (Hgen cs ss); auto.
    + apply (Hgen cs ss); auto.
    + apply (Hgen sub ss); auto. intros c0 Hc0. eapply Sub_In; eauto.
Qed.

(** [s] is the projection of the observed set [st] on the leaves of [t] *)
Definition link (st : eset) (t : ptree) (s : eset) : Prop :=
  forall x, In x s <-> In x st /\ In x (pleaves t).

Definition olink (st : eset) (c : ptree) (o : option eset) : Prop :=
  match o with
  | Some sc => link st c sc
  | None => forall x, In x st -> ~ In x (pleaves c)
  end.

Lemma NoDup_app_disjoint {A} (a b : list A) x : NoDup (a ++ b) -> In x a -> In x b -> False.
Proof.
  induction a as [|y a IH]; simpl; intros H Ha Hb; [destruct Ha|].
  inversion H; subst. destruct Ha as [->|Ha].
  - apply H2. apply in_or_app; auto.
  - auto.
Qed.

Lemma NoDup_app_l {A} (a b : list A) : NoDup (a ++ b) -> NoDup a.
Proof.
  induction a as [|y a IH]; simpl; intros H; [constructor|].
  inversion H; subst. constructor; auto. intros Hy. apply H2, in_or_app; auto.
Qed.

Lemma NoDup_app_r {A} (a b : list A) : NoDup (a ++ b) -> NoDup b.
Proof. induction a as [|y a IH]; simpl; intros H; auto. inversion H; auto. Qed.

Lemma link_opt st cs os :
  NoDup (flat_map pleaves cs) -> Forall2 optadm cs os ->
  (forall x, (exists s', In s' (somes os) /\ In x s') <-> In x st /\ In x (flat_map pleaves cs)) ->
  Forall2 (olink st) cs os.
Proof.
  intros Hnd HF. revert Hnd. induction HF as [|c o cs os Hc HF IH]; intros Hnd Hl; [constructor|].
  cbn [flat_map] in Hnd, Hl.
  assert (Htail : forall x, (exists s', In s' (somes os) /\ In x s') ->
                            In x (flat_map pleaves cs)).
  { intros x (s' & Hs' & Hx). clear -HF Hs' Hx. revert Hs'.
    induction HF as [|c o cs os Hc HF IH]; simpl; intros Hs'; [destruct Hs'|].
    apply in_or_app. destruct o as [sc|]; simpl in Hs'.
    - destruct Hs' as [->|Hs']; [left; eapply padmits_leaves; eauto|right; auto].
    - right; auto. }
  constructor.
  - destruct o as [sc|]; simpl.
    + intros x. split.
      * intros Hx. split; [|eapply padmits_leaves; eauto].
        apply (proj1 (Hl x)). exists sc; split; simpl; auto.
      * intros [Hst Hlc]. destruct (proj2 (Hl x)) as (s' & Hs' & Hxs').
        { split; auto. apply in_or_app; auto. }
        simpl in Hs'. destruct Hs' as [<-|Hs']; auto.
        exfalso. eapply NoDup_app_disjoint; eauto.
    + intros x Hst Hlc. destruct (proj2 (Hl x)) as (s' & Hs' & Hxs').
      { split; auto. apply in_or_app; auto. }
      simpl in Hs'. eapply NoDup_app_disjoint; eauto.
  - apply IH; [eapply NoDup_app_r; eauto|]. intros x. split.
    + intros Hx. split; [|auto]. apply (proj1 (Hl x)).
      destruct Hx as (s' & Hs' & Hx). exists s'; split; auto.
      destruct o; simpl; auto.
    + intros [Hst Hlc]. destruct (proj2 (Hl x)) as (s' & Hs' & Hxs').
      { split; auto. apply in_or_app; auto. }
      destruct o as [sc|]; simpl in Hs'; [|eauto].
      destruct Hs' as [<-|Hs']; [|eauto].
      exfalso. eapply NoDup_app_disjoint; eauto. eapply padmits_leaves; eauto.
Qed.

Lemma Forall2_optadm_Some cs ss : Forall2 padmits cs ss -> Forall2 optadm cs (map Some ss).
Proof. induction 1; simpl; constructor; auto. Qed.

Lemma link_and st cs ss :
  NoDup (flat_map pleaves cs) -> Forall2 padmits cs ss ->
  (forall x, In x (big_union ss) <-> In x st /\ In x (flat_map pleaves cs)) ->
  Forall2 (link st) cs ss.
Proof.
  intros Hnd HF Hl.
  assert (H : Forall2 (olink st) cs (map Some ss)).
  { apply link_opt; auto using Forall2_optadm_Some. intros x.
    rewrite somes_map_Some, <- big_union_In. apply Hl. }
  clear -H. remember (map Some ss) as os eqn:E. revert ss E.
  induction H as [|c o cs os Hc H IH]; intros [|s ss] E; try discriminate; constructor.
  - inversion E; subst. exact Hc.
  - inversion E; subst. apply IH; auto.
Qed.

Lemma link_nonempty st t s : link st t s -> s <> [] -> exists x, In x st /\ In x (pleaves t).
Proof. intros H Hne. destruct s as [|x s]; [congruence|]. exists x. apply H. left; auto. Qed.

(** * Part E: [get_extended_or_gates_from_process_tree] without the parent-pointer tags *)

Definition p_is_non_tau_child (c : ptree) : bool :=
  match c with
  | PLeaf _ | PTau => true
  | PNode PXor gcs => negb (existsb is_ptau gcs)
  | PNode _ _ => false
  end.

Definition p_ntg (c : ptree) : list ptree :=
  match c with
  | PNode _ gcs => filter (fun g => negb (is_ptau g)) gcs
  | _ => []
  end.

Definition pcheck (F : list eset) (nt rem : list ptree) : bool :=
  match nt with
  | [] => true
  | _ :: _ =>
      existsb (fun s => negb (is_empty (inter s (flat_map pleaves nt)))
                        && is_empty (inter s (flat_map pleaves rem))) F
  end.

Definition pinfer (F : list eset) (t : ptree) : ptree :=
  match t with
  | PNode PAnd cs =>
      let T := filter p_is_tau_child cs in
      let N := filter p_is_non_tau_child cs in
      match T with
      | [] => t
      | _ :: _ =>
          let R := flat_map p_ntg T in
          if pcheck F N R then
            if 1 <? length N then PNode POr (R ++ [PNode PAnd N]) else PNode POr (R ++ N)
          else PNode PAnd (N ++ [PNode POr R])
      end
  | _ => t
  end.

Fixpoint pext (n : nat) (F : list eset) (t : ptree) : ptree :=
  match n with
  | O => t
  | S n' =>
      match pinfer F t with
      | PNode op cs => PNode op (map (pext n' F) cs)
      | t' => t'
      end
  end.

Lemma filter_map_comm {A B} (f : A -> B) (p : A -> bool) (q : B -> bool) l :
  (forall x, q (f x) = p x) -> filter q (map f l) = map f (filter p l).
Proof.
  intros H. induction l as [|x l IH]; simpl; auto. rewrite H. destruct (p x); simpl; congruence.
Qed.

Lemma existsb_map {A B} (f : A -> B) (q : B -> bool) l : existsb q (map f l) = existsb (fun x => q (f x)) l.
Proof. induction l; simpl; congruence. Qed.

Lemma flat_map_map {A B C} (f : A -> B) (g : B -> list C) l :
  flat_map g (map f l) = flat_map (fun x => g (f x)) l.
Proof. induction l; simpl; congruence. Qed.

Lemma is_ptau_erase a : is_ptau (erase a) = is_tau a.
Proof. destruct a; reflexivity. Qed.

Lemma erase_set_tag g a : erase (set_tag g a) = erase a.
Proof. destruct a; reflexivity. Qed.

Lemma map_erase_set_tag g l : map erase (map (set_tag g) l) = map erase l.
Proof. rewrite map_map. apply map_ext. apply erase_set_tag. Qed.

Lemma erase_annot t : erase (annot t) = t.
Proof.
  induction t as [e| |op cs IH] using ptree_ind'; auto. cbn [annot erase]. f_equal.
  rewrite map_map. induction IH as [|c cs Hc _ IHc]; simpl; congruence.
Qed.

Lemma labels_erase a : pleaves (erase a) = labels a.
Proof.
  induction a as [e| |g op cs IH] using atree_ind'; auto. cbn [erase pleaves labels].
  rewrite flat_map_map. induction IH as [|c cs Hc _ IHc]; simpl; congruence.
Qed.

Lemma flat_labels_erase l : flat_map pleaves (map erase l) = flat_map labels l.
Proof. rewrite flat_map_map. apply flat_map_ext. apply labels_erase. Qed.

Lemma existsb_is_tau_erase l : existsb is_ptau (map erase l) = existsb is_tau l.
Proof. rewrite existsb_map. induction l; simpl; auto. rewrite is_ptau_erase; congruence. Qed.

Lemma tau_child_erase c : p_is_tau_child (erase c) = is_tau_child c.
Proof. destruct c as [| |g [] cs]; cbn; auto. apply existsb_is_tau_erase. Qed.

Lemma non_tau_child_erase c : p_is_non_tau_child (erase c) = is_non_tau_child c.
Proof. destruct c as [| |g [] cs]; cbn; auto. f_equal. apply existsb_is_tau_erase. Qed.

Lemma ntg_erase c : p_ntg (erase c) = map erase (non_tau_grandchildren c).
Proof.
  destruct c as [| |g op cs]; cbn; auto. apply filter_map_comm. intros x.
  rewrite is_ptau_erase. reflexivity.
Qed.

Lemma flat_map_ntg_erase l : flat_map p_ntg (map erase l) = map erase (flat_map non_tau_grandchildren l).
Proof.
  induction l as [|c l IH]; simpl; auto. rewrite map_app, ntg_erase. congruence.
Qed.

Lemma check_erase F nt rem :
  check_is_or_operator F nt rem = pcheck F (map erase nt) (map erase rem).
Proof.
  unfold check_is_or_operator, pcheck. destruct nt as [|c nt]; auto.
  change (map erase (c :: nt)) with (erase c :: map erase nt).
  rewrite <- (flat_labels_erase (c :: nt)), <- (flat_labels_erase rem). reflexivity.
Qed.

Lemma infer_erase F a : erase (infer_or_gate_from_node F a) = pinfer F (erase a).
Proof.
  destruct a as [e| |g op cs]; auto. destruct op; auto.
  cbn [infer_or_gate_from_node erase pinfer].
  rewrite (filter_map_comm erase is_tau_child p_is_tau_child cs tau_child_erase).
  rewrite (filter_map_comm erase is_non_tau_child p_is_non_tau_child cs non_tau_child_erase).
  destruct (filter is_tau_child cs) as [|c0 T] eqn:ET; [reflexivity|].
  change (map erase (c0 :: T)) with (erase c0 :: map erase T) at 1.
  cbv iota. rewrite flat_map_ntg_erase, <- check_erase.
  destruct (check_is_or_operator _ _ _).
  - rewrite map_length. destruct (1 <? _); cbn [erase]; rewrite map_app, map_erase_set_tag; reflexivity.
  - cbn [erase]. rewrite map_app. cbn [map erase]. rewrite map_erase_set_tag. reflexivity.
Qed.

Lemma ext_erase F n : forall a,
  erase (get_extended_or_gates_from_process_tree n F a) = pext n F (erase a).
Proof.
  induction n as [|n IH]; intros a; [reflexivity|].
  cbn [get_extended_or_gates_from_process_tree pext]. rewrite <- infer_erase.
  destruct (infer_or_gate_from_node F a) as [e| |g op cs]; auto.
  cbn [erase]. f_equal. rewrite !map_map. apply map_ext. intros c. apply IH.
Qed.

(** [pinfer] on the three kinds of nodes *)
Lemma pinfer_not_and F t : (forall cs, t <> PNode PAnd cs) -> pinfer F t = t.
Proof. destruct t as [| |[] cs]; auto. intros H. destruct (H cs eq_refl). Qed.

Lemma pext_0_map F l : map (pext 0 F) l = l.
Proof.
  induction l as [|x l IH]; [reflexivity|].
  change (map (pext 0 F) (x :: l)) with (x :: map (pext 0 F) l). rewrite IH. reflexivity.
Qed.

Lemma pext_or F n R : pext n F (PNode POr R) = PNode POr (map (pext (pred n) F) R).
Proof. destruct n; [change (pred 0) with 0; rewrite pext_0_map|]; reflexivity. Qed.

Lemma pext_and_plain F n N :
  filter p_is_tau_child N = [] -> pext n F (PNode PAnd N) = PNode PAnd (map (pext (pred n) F) N).
Proof.
  intros H. destruct n; [change (pred 0) with 0; rewrite pext_0_map; reflexivity|].
  cbn [pext pinfer pred]. rewrite H. reflexivity.
Qed.

Lemma pext_leafish F n t : is_pleafish t = true -> pext n F t = t.
Proof. destruct t; try discriminate; destruct n; reflexivity. Qed.

(** ** Soundness of the OR conversion (weak form: the empty contribution may be lost) *)

Lemma pall_node p op cs :
  pall p (PNode op cs) = true <-> p (PNode op cs) = true /\ Forall (fun c => pall p c = true) cs.
Proof. cbn [pall]. rewrite andb_true_iff, forallb_forall, Forall_forall. tauto. Qed.

Lemma leaf_or_xor_classes c :
  leaf_or_xor c = true -> p_is_non_tau_child c = negb (p_is_tau_child c).
Proof. destruct c as [| |[] cs]; try discriminate; reflexivity. Qed.

Lemma tau_child_form c :
  p_is_tau_child c = true -> exists gcs, c = PNode PXor gcs /\ existsb is_ptau gcs = true.
Proof. destruct c as [| |[] cs]; try discriminate. eauto. Qed.

Lemma pleaves_filter_nontau gcs :
  flat_map pleaves (filter (fun g => negb (is_ptau g)) gcs) = flat_map pleaves gcs.
Proof.
  induction gcs as [|g gcs IH]; simpl; auto. destruct g; simpl; congruence.
Qed.

Lemma pleaves_ntg c : p_is_tau_child c = true -> flat_map pleaves (p_ntg c) = pleaves c.
Proof.
  intros H. apply tau_child_form in H as (gcs & -> & _). cbn [p_ntg pleaves].
  apply pleaves_filter_nontau.
Qed.

Lemma in_flat_leaves c cs x : In c cs -> In x (pleaves c) -> In x (flat_map pleaves cs).
Proof. intros. apply in_flat_map. eauto. Qed.

Lemma link_child st op cs c s :
  link st (PNode op cs) s -> In c cs -> padmits c s -> link st c s.
Proof.
  intros Hl Hc Hp x. split.
  - intros Hx. split; [apply Hl; auto|eapply padmits_leaves; eauto].
  - intros [H1 H2]. apply Hl. split; auto. cbn [pleaves]. eapply in_flat_leaves; eauto.
Qed.

Lemma all_none (f : ptree -> ptree) l :
  Forall2 optadm (map f l) (map (fun _ => None) l) /\ somes (map (fun _ : ptree => @None eset) l) = [].
Proof. induction l as [|x l [IH1 IH2]]; simpl; split; auto; constructor; simpl; auto. Qed.

Lemma single_some (f : ptree -> ptree) l g s :
  In g l -> padmits (f g) s -> exists os, Forall2 optadm (map f l) os /\ somes os = [s].
Proof.
  induction l as [|y l IH]; intros Hg Hp; [destruct Hg|].
  destruct Hg as [->|Hg].
  - exists (Some s :: map (fun _ => None) l). destruct (all_none f l) as [H1 H2].
    split; [constructor; auto|simpl; congruence].
  - destruct (IH Hg Hp) as (os & H1 & H2). exists (None :: os); split; auto.
    constructor; simpl; auto.
Qed.

Lemma tau_child_claim st (fR : ptree -> ptree) c sc :
  p_is_tau_child c = true -> padmits c sc -> link st c sc ->
  (forall g sg, In g (p_ntg c) -> padmits g sg -> link st g sg -> sg <> [] -> padmits (fR g) sg) ->
  exists os, Forall2 optadm (map fR (p_ntg c)) os /\
             (forall x, (exists s', In s' (somes os) /\ In x s') <-> In x sc).
Proof.
  intros Ht Hp Hl HR. apply tau_child_form in Ht as (gcs & -> & _).
  inversion Hp as [| |cs0 g s0 Hg Hpg| | |]; subst.
  destruct sc as [|x0 sc0] eqn:Esc.
  - destruct (all_none fR (p_ntg (PNode PXor gcs))) as [H1 H2].
    eexists; split; [exact H1|]. rewrite H2. intros x; split; [intros (s' & [] & _)|intros []].
  - rewrite <- Esc in *. assert (Hne : sc <> []) by (rewrite Esc; discriminate).
    assert (Hg' : In g (p_ntg (PNode PXor gcs))).
    { cbn [p_ntg]. apply filter_In; split; auto. destruct g; auto.
      inversion Hpg; subst. congruence. }
    assert (Hlg : link st g sc) by (eapply link_child; eauto).
    destruct (single_some fR _ g sc Hg' (HR g sc Hg' Hpg Hlg Hne)) as (os & H1 & H2).
    exists os; split; auto. rewrite H2. intros x; split.
    + intros (s' & [<-|[]] & Hx); auto.
    + intros Hx. exists sc; split; simpl; auto.
Qed.

Lemma Forall2_imp {A B} (R R' : A -> B -> Prop) l l' :
  (forall a b, R a b -> R' a b) -> Forall2 R l l' -> Forall2 R' l l'.
Proof. intros H. induction 1; constructor; auto. Qed.

Definition child_claim (fR fN : ptree -> ptree) (c : ptree) (sc : eset) : Prop :=
  if p_is_tau_child c then
    exists os, Forall2 optadm (map fR (p_ntg c)) os /\
               (forall x, (exists s', In s' (somes os) /\ In x s') <-> In x sc)
  else padmits (fN c) sc.

Lemma split_children (fR fN : ptree -> ptree) cs ss :
  Forall (fun c => leaf_or_xor c = true) cs ->
  Forall2 (child_claim fR fN) cs ss ->
  exists osR ssN,
    Forall2 optadm (map fR (flat_map p_ntg (filter p_is_tau_child cs))) osR /\
    Forall2 padmits (map fN (filter p_is_non_tau_child cs)) ssN /\
    (forall x, In x (big_union ss) <->
               (exists s', In s' (somes osR) /\ In x s') \/ (exists s', In s' ssN /\ In x s')) /\
    Forall2 (fun c sc => p_is_tau_child c = true ->
                         forall x, In x sc -> exists s', In s' (somes osR) /\ In x s') cs ss.
Proof.
  intros Hsh HF. induction HF as [|c sc cs ss Hc HF IH].
  - exists [], []. simpl. repeat split; try constructor; try tauto.
    intros [(s' & [] & _)|(s' & [] & _)].
  - inversion Hsh as [|? ? Hc1 Hsh']; subst.
    destruct (IH Hsh') as (osR & ssN & H1 & H2 & H3 & H4).
    assert (Hweak : forall os, Forall2 (fun c sc => p_is_tau_child c = true ->
               forall x, In x sc -> exists s', In s' (somes (os ++ osR)) /\ In x s') cs ss).
    { intros os. eapply Forall2_imp; [|exact H4]. intros a b Hab Ha x Hx.
      destruct (Hab Ha x Hx) as (s' & Hs' & Hxs). exists s'; split; auto.
      rewrite somes_app. apply in_or_app; auto. }
    unfold child_claim in Hc. cbn [filter]. rewrite (leaf_or_xor_classes _ Hc1).
    destruct (p_is_tau_child c) eqn:Et; cbn [negb].
    + destruct Hc as (os & Ho1 & Ho2).
      exists (os ++ osR), ssN. cbn [flat_map]. rewrite map_app. repeat split.
      * apply Forall2_app; auto.
      * auto.
      * cbn [big_union fold_right]. fold (big_union ss). rewrite set_union_In, H3, <- Ho2.
        rewrite somes_app. intros [(s' & Hs' & Hx)|[(s' & Hs' & Hx)|R]]; auto.
        -- left. exists s'; split; auto. apply in_or_app; auto.
        -- left. exists s'; split; auto. apply in_or_app; auto.
      * cbn [big_union fold_right]. fold (big_union ss). rewrite set_union_In, H3, <- Ho2.
        rewrite somes_app. intros [(s' & Hs' & Hx)|R]; auto.
        apply in_app_or in Hs' as [Hs'|Hs']; eauto.
      * constructor; [|apply Hweak]. intros _ x Hx. apply Ho2 in Hx as (s' & Hs' & Hx).
        exists s'; split; auto. rewrite somes_app. apply in_or_app; auto.
    + exists osR, (sc :: ssN). cbn [map]. repeat split.
      * auto.
      * constructor; auto.
      * cbn [big_union fold_right]. fold (big_union ss). rewrite set_union_In, H3.
        intros [Hx|[L|(s' & Hs' & Hx)]]; auto.
        -- right. exists sc; split; simpl; auto.
        -- right. exists s'; split; simpl; auto.
      * cbn [big_union fold_right]. fold (big_union ss). rewrite set_union_In, H3.
        intros [L|(s' & [<-|Hs'] & Hx)]; auto. right; right; eauto.
      * constructor; [congruence|exact H4].
Qed.

Lemma Forall2_conj {A B} (R R' : A -> B -> Prop) l l' :
  Forall2 R l l' -> Forall2 R' l l' -> Forall2 (fun a b => R a b /\ R' a b) l l'.
Proof.
  induction 1; intros H'; inversion H'; subst; constructor; auto.
Qed.

Lemma Forall2_In_l {A B} (R : A -> B -> Prop) l l' x :
  Forall2 R l l' -> In x l -> exists y, In y l' /\ R x y.
Proof.
  induction 1 as [|a b l l' Hab HF IH]; intros Hx; [destruct Hx|].
  destruct Hx as [->|Hx]; [exists b; simpl; auto|].
  destruct (IH Hx) as (y & Hy & Hr). exists y; simpl; auto.
Qed.

Lemma Forall2_impl_In {A B} (R R' : A -> B -> Prop) l l' :
  (forall a b, In a l -> R a b -> R' a b) -> Forall2 R l l' -> Forall2 R' l l'.
Proof.
  intros H HF. induction HF as [|a b l l' Hab HF IH]; constructor.
  - apply H; simpl; auto.
  - apply IH. intros a' b' Ha'. apply H. simpl; auto.
Qed.

Lemma NoDup_flat_map_in {A B} (f : A -> list B) l c : NoDup (flat_map f l) -> In c l -> NoDup (f c).
Proof.
  induction l as [|y l IH]; simpl; intros H Hc; [destruct Hc|].
  destruct Hc as [->|Hc]; [eapply NoDup_app_l; eauto|apply IH; auto; eapply NoDup_app_r; eauto].
Qed.

Lemma nontau_not_tau c : p_is_non_tau_child c = true -> p_is_tau_child c = false.
Proof. destruct c as [| |[] cs]; try discriminate; auto. cbn. intros H. apply negb_true_iff in H. auto. Qed.

Lemma filter_tau_nontau cs : filter p_is_tau_child (filter p_is_non_tau_child cs) = [].
Proof.
  induction cs as [|c cs IH]; simpl; auto. destruct (p_is_non_tau_child c) eqn:E; auto.
  simpl. rewrite (nontau_not_tau _ E). auto.
Qed.

Lemma inter_nonempty a b : is_empty (inter a b) = false <-> exists x, In x a /\ In x b.
Proof.
  split.
  - destruct (inter a b) as [|x l] eqn:E; [discriminate|]. intros _. exists x.
    apply inter_In. rewrite E. left; auto.
  - intros (x & Ha & Hb). destruct (inter a b) as [|y l] eqn:E; auto.
    assert (H : In x (inter a b)) by (apply inter_In; auto). rewrite E in H. destruct H.
Qed.

Section Pass1.
  Variable F : list eset.
  Variable s0 : eset.
  Hypothesis Hs0 : In s0 F.

  Lemma pext_sound : forall n t,
    pall gate_l t = true -> pall (tight_l F) t = true -> NoDup (pleaves t) ->
    forall s, padmits t s -> link s0 t s -> s = [] \/ padmits (pext n F t) s.
  Proof.
    induction n as [n IH] using lt_wf_ind. intros t Hg Ht Hnd s Hp Hl.
    destruct n as [|m]; [right; exact Hp|].
    destruct t as [e| |op cs]; [right; exact Hp|right; exact Hp|].
    apply pall_node in Hg as [Hg1 Hgc]. apply pall_node in Ht as [Ht1 Htc].
    rewrite Forall_forall in Hgc, Htc. cbn [pleaves] in Hnd.
    destruct op; try discriminate.
    - (* Xor *)
      cbn [pext pinfer]. inversion Hp as [| |cs0 c s1 Hc Hpc| | |]; subst.
      assert (Hlc : link s0 c s) by (eapply link_child; eauto).
      destruct (IH m (Nat.lt_succ_diag_r m) c (Hgc c Hc) (Htc c Hc)
                  (NoDup_flat_map_in _ _ _ Hnd Hc) s Hpc Hlc) as [E|H]; auto.
      right. eapply pa_xor; [apply in_map; exact Hc|exact H].
    - (* And *)
      destruct s as [|x0 s'] eqn:Es; [left; reflexivity|right]. rewrite <- Es in *.
      assert (Hne : s <> []) by (rewrite Es; discriminate). clear Es x0 s'.
      inversion Hp as [| | |cs0 ss s1 HF Hs| |]; subst cs0 s1.
      assert (HL : Forall2 (link s0) cs ss).
      { apply link_and; auto. intros x. rewrite <- Hs. apply Hl. }
      assert (Hsh : Forall (fun c => leaf_or_xor c = true) cs).
      { cbn [gate_l] in Hg1. rewrite forallb_forall in Hg1. apply Forall_forall. exact Hg1. }
      (* tightness: every mandatory child contributes *)
      assert (Htight : forall c, In c cs -> p_is_tau_child c = false ->
                                 exists x, In x s0 /\ In x (pleaves c)).
      { cbn [tight_l] in Ht1. rewrite forallb_forall in Ht1. specialize (Ht1 s0 Hs0).
        apply orb_true_iff in Ht1 as [Ht1|Ht1].
        - exfalso. destruct (link_nonempty _ _ _ Hl Hne) as (x & Hx1 & Hx2).
          assert (E : is_empty (inter s0 (pleaves (PNode PAnd cs))) = false)
            by (apply inter_nonempty; eauto).
          congruence.
        - rewrite forallb_forall in Ht1. intros c Hc Hct. specialize (Ht1 c Hc).
          rewrite Hct in Ht1. cbn [orb] in Ht1. apply negb_true_iff in Ht1.
          apply inter_nonempty in Ht1. exact Ht1. }
      assert (Hclaim : forall kR kN, kR <= m -> kN <= m ->
                Forall2 (child_claim (pext kR F) (pext kN F)) cs ss).
      { intros kR kN HkR HkN.
        eapply Forall2_impl_In; [|exact (Forall2_conj _ _ _ _ HF HL)].
        intros c sc Hc [Hpc Hlc]. unfold child_claim.
        destruct (p_is_tau_child c) eqn:Ect.
        - apply (tau_child_claim s0); auto. intros g sg Hg Hpg Hlg Hsg.
          destruct (tau_child_form _ Ect) as (gcs & -> & _).
          assert (Hgin : In g gcs) by (cbn [p_ntg] in Hg; apply filter_In in Hg; tauto).
          specialize (Hgc _ Hc). specialize (Htc _ Hc).
          apply pall_node in Hgc as [_ Hgg]. apply pall_node in Htc as [_ Htg].
          rewrite Forall_forall in Hgg, Htg.
          pose proof (NoDup_flat_map_in _ _ _ Hnd Hc) as Hndc. cbn [pleaves] in Hndc.
          destruct (IH kR (proj2 (Nat.lt_succ_r _ _) HkR) g (Hgg g Hgin) (Htg g Hgin)
                      (NoDup_flat_map_in _ _ _ Hndc Hgin) sg Hpg Hlg) as [E|H]; [congruence|auto].
        - destruct (Htight c Hc Ect) as (x & Hx1 & Hx2).
          assert (Hsc : sc <> []).
          { intros ->. apply (proj2 (Hlc x)); auto. }
          destruct (IH kN (proj2 (Nat.lt_succ_r _ _) HkN) c (Hgc c Hc) (Htc c Hc)
                      (NoDup_flat_map_in _ _ _ Hnd Hc) sc Hpc Hlc) as [E|H]; [congruence|auto]. }
      assert (Hcan : canonical s) by (rewrite Hs; apply big_union_canonical).
      cbn [pext pinfer].
      destruct (filter p_is_tau_child cs) as [|c0 T'] eqn:ET.
      + (* no optional child: the node is left alone *)
        eapply pa_and; [|exact Hs].
        assert (H := Hclaim m m (le_n _) (le_n _)).
        clear -H ET. induction H as [|c sc cs ss Hc H IHH]; cbn [map]; constructor.
        * unfold child_claim in Hc. cbn [filter] in ET. destruct (p_is_tau_child c); [discriminate|auto].
        * apply IHH. cbn [filter] in ET. destruct (p_is_tau_child c); [discriminate|auto].
      + cbv iota. rewrite <- ET.
        set (T := filter p_is_tau_child cs). set (N := filter p_is_non_tau_child cs).
        set (R := flat_map p_ntg T).
        destruct (pcheck F N R) eqn:Echk.
        * destruct (1 <? length N) eqn:Elen; cbv iota.
          -- (* OR over the optional parts and one AND of the mandatory ones *)
             destruct (split_children _ _ _ _ Hsh (Hclaim m (pred m) (le_n _) (Nat.le_pred_l _)))
               as (osR & ssN & H1 & H2 & H3 & _).
             fold T in H1. fold R in H1. fold N in H2.
             rewrite map_app. cbn [map]. rewrite (pext_and_plain F m N (filter_tau_nontau cs)).
             set (os := osR ++ [Some (big_union ssN)]).
             assert (Hos : Forall2 optadm (map (pext m F) R ++ [PNode PAnd (map (pext (pred m) F) N)]) os).
             { apply Forall2_app; auto. constructor; [|constructor]. simpl.
               eapply pa_and; eauto. }
             assert (E : s = big_union (somes os)).
             { apply eq_big_union; auto. intros x. unfold os. rewrite somes_app. cbn [somes].
               rewrite Hs, H3. split.
               - intros [(s' & Hs' & Hx)|Hx].
                 + exists s'; split; auto. apply in_or_app; auto.
                 + exists (big_union ssN); split; [apply in_or_app; right; left; auto|].
                   apply big_union_In. exact Hx.
               - intros (s' & Hs' & Hx). apply in_app_or in Hs' as [Hs'|[<-|[]]]; eauto.
                 right. apply big_union_In in Hx. exact Hx. }
             rewrite E. apply or_intro_opt; auto. unfold os. rewrite somes_app. cbn [somes].
             intros H0. apply app_eq_nil in H0 as [_ H0]. discriminate.
          -- (* OR over the optional parts and the (at most one) mandatory child *)
             destruct (split_children _ _ _ _ Hsh (Hclaim m m (le_n _) (le_n _)))
               as (osR & ssN & H1 & H2 & H3 & _).
             fold T in H1. fold R in H1. fold N in H2.
             rewrite map_app.
             set (os := osR ++ map Some ssN).
             assert (Hos : Forall2 optadm (map (pext m F) R ++ map (pext m F) N) os).
             { apply Forall2_app; auto. apply Forall2_optadm_Some; auto. }
             assert (Hsom : somes os = somes osR ++ ssN).
             { unfold os. rewrite somes_app, somes_map_Some. reflexivity. }
             assert (Hiff : forall x, In x s <-> exists s', In s' (somes os) /\ In x s').
             { intros x. rewrite Hsom, Hs, H3. split.
               - intros [(s' & Hs' & Hx)|(s' & Hs' & Hx)]; exists s'; split; auto; apply in_or_app; auto.
               - intros (s' & Hs' & Hx). apply in_app_or in Hs' as [Hs'|Hs']; eauto. }
             assert (E : s = big_union (somes os)) by (apply eq_big_union; auto).
             rewrite E. apply or_intro_opt; auto.
             intros H0. destruct s as [|x s']; [congruence|].
             destruct (proj1 (Hiff x) (or_introl eq_refl)) as (s'' & Hs'' & _).
             rewrite H0 in Hs''. destruct Hs''.
        * (* AND of the mandatory children and one OR of the optional parts *)
          cbv iota.
          destruct (split_children _ _ _ _ Hsh (Hclaim (pred m) m (Nat.le_pred_l _) (le_n _)))
            as (osR & ssN & H1 & H2 & H3 & H5).
          fold T in H1. fold R in H1. fold N in H2.
          rewrite map_app. cbn [map]. rewrite pext_or.
          (* some optional part is present: this is what [check_is_or_operator] = False says *)
          assert (HsomR : somes osR <> []).
          { unfold pcheck in Echk. destruct N as [|c1 N'] eqn:EN; [discriminate|].
            rewrite <- EN in Echk.
            assert (Hc1 : In c1 cs /\ p_is_non_tau_child c1 = true).
            { apply filter_In. fold N. rewrite EN. left; auto. }
            destruct Hc1 as [Hc1 Hc1n].
            destruct (Htight c1 Hc1 (nontau_not_tau _ Hc1n)) as (x & Hx1 & Hx2).
            pose proof (existsb_nth) as _.
            assert (Hall : forall s1, In s1 F ->
                     (negb (is_empty (inter s1 (flat_map pleaves N)))
                      && is_empty (inter s1 (flat_map pleaves R))) = false).
            { intros s1 Hs1. destruct (_ && _) eqn:E1; auto.
              assert (existsb (fun s => negb (is_empty (inter s (flat_map pleaves N)))
                                        && is_empty (inter s (flat_map pleaves R))) F = true)
                by (apply existsb_exists; eauto).
              congruence. }
            specialize (Hall s0 Hs0).
            assert (E1 : is_empty (inter s0 (flat_map pleaves N)) = false).
            { apply inter_nonempty. exists x; split; auto. eapply in_flat_leaves; eauto.
              rewrite EN. left; auto. }
            rewrite E1 in Hall. cbn [negb andb] in Hall.
            apply inter_nonempty in Hall as (y & Hy1 & Hy2).
            unfold R in Hy2. apply in_flat_map in Hy2 as (g & Hg & Hyg).
            apply in_flat_map in Hg as (c & Hc & Hgc').
            assert (Hc' : In c cs /\ p_is_tau_child c = true) by (apply filter_In; exact Hc).
            destruct Hc' as [Hcin Hct].
            assert (Hyc : In y (pleaves c)).
            { rewrite <- (pleaves_ntg _ Hct). eapply in_flat_leaves; eauto. }
            destruct (Forall2_In_l _ _ _ _ (Forall2_conj _ _ _ _ HL H5) Hcin) as (sc & _ & Hlc & H5c).
            destruct (H5c Hct y (proj2 (Hlc y) (conj Hy1 Hyc))) as (s' & Hs' & _).
            intros H0. rewrite H0 in Hs'. destruct Hs'. }
          eapply pa_and with (ss := ssN ++ [big_union (somes osR)]).
          -- apply Forall2_app; auto. constructor; [|constructor]. apply or_intro_opt; auto.
          -- apply eq_big_union; auto. intros x. rewrite Hs, H3. split.
             ++ intros [(s' & Hs' & Hx)|(s' & Hs' & Hx)].
                ** exists (big_union (somes osR)); split; [apply in_or_app; right; left; auto|].
                   apply big_union_In; eauto.
                ** exists s'; split; auto. apply in_or_app; auto.
             ++ intros (s' & Hs' & Hx). apply in_app_or in Hs' as [Hs'|[<-|[]]]; eauto.
                left. apply big_union_In in Hx. exact Hx.
  Qed.
End Pass1.

(** ** The OR conversion permutes the leaves and keeps every node labelled *)

Lemma flat_map_perm_pointwise (f : ptree -> ptree) cs :
  (forall c, In c cs -> Permutation (pleaves (f c)) (pleaves c)) ->
  Permutation (flat_map pleaves (map f cs)) (flat_map pleaves cs).
Proof.
  induction cs as [|c cs IH]; intros H; simpl; auto.
  apply Permutation_app; [apply H; left; auto|apply IH; intros; apply H; right; auto].
Qed.

Lemma partition_perm cs :
  Forall (fun c => leaf_or_xor c = true) cs ->
  Permutation (flat_map pleaves (filter p_is_tau_child cs) ++
               flat_map pleaves (filter p_is_non_tau_child cs)) (flat_map pleaves cs).
Proof.
  induction 1 as [|c cs Hc _ IH]; simpl; auto.
  rewrite (leaf_or_xor_classes _ Hc). destruct (p_is_tau_child c); cbn [negb flat_map].
  - rewrite <- app_assoc. apply Permutation_app_head. exact IH.
  - etransitivity; [apply Permutation_app_swap_app|]. apply Permutation_app_head. exact IH.
Qed.

Lemma pleaves_R T :
  Forall (fun c => p_is_tau_child c = true) T ->
  flat_map pleaves (flat_map p_ntg T) = flat_map pleaves T.
Proof.
  induction 1 as [|c T Hc _ IH]; simpl; auto.
  rewrite flat_map_app, (pleaves_ntg _ Hc), IH. reflexivity.
Qed.

Lemma filter_Forall {A} (p : A -> bool) l : Forall (fun x => p x = true) (filter p l).
Proof. apply Forall_forall. intros x Hx. apply filter_In in Hx. tauto. Qed.

Lemma gate_children_R cs g :
  (forall c, In c cs -> pall gate_l c = true) ->
  In g (flat_map p_ntg (filter p_is_tau_child cs)) -> pall gate_l g = true.
Proof.
  intros H Hg. apply in_flat_map in Hg as (c & Hc & Hg). apply filter_In in Hc as [Hc Hct].
  apply tau_child_form in Hct as (gcs & -> & _). cbn [p_ntg] in Hg. apply filter_In in Hg as [Hg _].
  specialize (H _ Hc). apply pall_node in H as [_ H]. rewrite Forall_forall in H. auto.
Qed.

Lemma pinfer_leaves F cs :
  Forall (fun c => leaf_or_xor c = true) cs ->
  Permutation (pleaves (pinfer F (PNode PAnd cs))) (flat_map pleaves cs).
Proof.
  intros Hsh. cbn [pinfer]. destruct (filter p_is_tau_child cs) as [|c0 T'] eqn:ET; [reflexivity|].
  cbv iota. rewrite <- ET.
  assert (HR : flat_map pleaves (flat_map p_ntg (filter p_is_tau_child cs))
               = flat_map pleaves (filter p_is_tau_child cs)) by (apply pleaves_R, filter_Forall).
  destruct (pcheck _ _ _); [destruct (1 <? _)|]; cbn [pleaves]; rewrite flat_map_app; cbn [flat_map pleaves];
    rewrite ?app_nil_r, HR.
  - apply partition_perm; auto.
  - apply partition_perm; auto.
  - etransitivity; [apply Permutation_app_comm|]. apply partition_perm; auto.
Qed.

Section Pass1Inv.
  Variable F : list eset.

  Lemma pext_leaves : forall n t,
    pall gate_l t = true -> Permutation (pleaves (pext n F t)) (pleaves t).
  Proof.
    induction n as [n IH] using lt_wf_ind. intros t Hg.
    destruct n as [|m]; [reflexivity|].
    destruct t as [e| |op cs]; [reflexivity|reflexivity|].
    apply pall_node in Hg as [Hg1 Hgc]. rewrite Forall_forall in Hgc.
    destruct op; try discriminate.
    - cbn [pext pinfer pleaves]. apply flat_map_perm_pointwise. intros c Hc. apply IH; auto.
    - assert (Hsh : Forall (fun c => leaf_or_xor c = true) cs).
      { cbn [gate_l] in Hg1. rewrite forallb_forall in Hg1. apply Forall_forall. exact Hg1. }
      etransitivity; [|apply (pinfer_leaves F cs Hsh)].
      assert (HN : forall c, In c (filter p_is_non_tau_child cs) -> pall gate_l c = true).
      { intros c Hc. apply filter_In in Hc as [Hc _]. auto. }
      pose proof (gate_children_R cs) as HRg.
      cbn [pext pinfer]. destruct (filter p_is_tau_child cs) as [|c0 T'] eqn:ET.
      + cbn [pleaves]. apply flat_map_perm_pointwise. intros c Hc. apply IH; auto.
      + cbv iota. rewrite <- ET in *.
        destruct (pcheck _ _ _); [destruct (1 <? _)|]; cbv iota; cbn [pleaves];
          rewrite map_app, !flat_map_app.
        * apply Permutation_app.
          -- apply flat_map_perm_pointwise. intros g Hg. apply IH; auto.
          -- cbn [map flat_map]. rewrite !app_nil_r.
             rewrite (pext_and_plain F m _ (filter_tau_nontau cs)). cbn [pleaves].
             apply flat_map_perm_pointwise. intros c Hc. apply IH; auto. lia.
        * apply Permutation_app; apply flat_map_perm_pointwise; intros g Hg; apply IH; auto.
        * apply Permutation_app.
          -- apply flat_map_perm_pointwise. intros c Hc. apply IH; auto.
          -- cbn [map flat_map]. rewrite !app_nil_r. rewrite pext_or. cbn [pleaves].
             apply flat_map_perm_pointwise. intros g Hg. apply IH; auto. lia.
  Qed.

  Lemma perm_nonempty {A} (l l' : list A) : Permutation l l' -> is_nil l' = false -> is_nil l = false.
  Proof.
    intros H E. destruct l; auto. apply Permutation_nil in H. subst. discriminate.
  Qed.

  Lemma labelful_child_nonempty c :
    leaf_or_xor c = true -> pall labelful_l c = true -> is_nil (pleaves c) = false.
  Proof.
    destruct c as [| |[] cs]; try discriminate; auto.
    intros _ H. apply pall_node in H as [H _]. cbn [labelful_l] in H. apply negb_true_iff in H. auto.
  Qed.

  Lemma pext_labelful : forall n t,
    pall gate_l t = true -> pall labelful_l t = true -> pall labelful_l (pext n F t) = true.
  Proof.
    induction n as [n IH] using lt_wf_ind. intros t Hg Hlab.
    destruct n as [|m]; [exact Hlab|].
    destruct t as [e| |op cs]; [exact Hlab|exact Hlab|].
    assert (Hroot : labelful_l (pext (S m) F (PNode op cs)) = true).
    { pose proof (pext_leaves (S m) _ Hg) as HP.
      apply pall_node in Hlab as [Hl1 _]. cbn [labelful_l] in Hl1. apply negb_true_iff in Hl1.
      pose proof (perm_nonempty _ _ HP Hl1) as Hne.
      destruct (pext (S m) F (PNode op cs)); auto. cbn [labelful_l]. rewrite Hne. reflexivity. }
    revert Hroot.
    apply pall_node in Hg as [Hg1 Hgc]. apply pall_node in Hlab as [Hl1 Hlc].
    rewrite Forall_forall in Hgc, Hlc.
    destruct op; try discriminate.
    - cbn [pext pinfer]. intros Hroot. apply pall_node. split; auto.
      apply Forall_forall. intros c' Hc'. apply in_map_iff in Hc' as (c & <- & Hc). apply IH; auto.
    - assert (Hsh : forall c, In c cs -> leaf_or_xor c = true).
      { cbn [gate_l] in Hg1. rewrite forallb_forall in Hg1. exact Hg1. }
      assert (HNg : forall c, In c (filter p_is_non_tau_child cs) -> In c cs).
      { intros c Hc. apply filter_In in Hc as [Hc _]. auto. }
      pose proof (fun g => gate_children_R cs g Hgc) as HRg.
      assert (HRl : forall g, In g (flat_map p_ntg (filter p_is_tau_child cs)) ->
                              pall labelful_l g = true /\ is_nil (pleaves g) = false).
      { intros g Hg. apply in_flat_map in Hg as (c & Hc & Hg). apply filter_In in Hc as [Hc Hct].
        apply tau_child_form in Hct as (gcs & -> & _). cbn [p_ntg] in Hg.
        apply filter_In in Hg as [Hg Hgt].
        specialize (Hlc _ Hc). apply pall_node in Hlc as [_ H]. rewrite Forall_forall in H.
        split; auto. specialize (H _ Hg). destruct g as [| |op' gcs']; [reflexivity|discriminate|].
        apply pall_node in H as [H _]. cbn [labelful_l] in H. apply negb_true_iff in H. auto. }
      assert (Hmap : forall k l, k < S m ->
                (forall c, In c l -> pall gate_l c = true /\ pall labelful_l c = true) ->
                Forall (fun c => pall labelful_l c = true) (map (pext k F) l)).
      { intros k l Hk Hl. apply Forall_forall. intros c' Hc'.
        apply in_map_iff in Hc' as (c & <- & Hc). destruct (Hl c Hc). apply IH; auto. }
      assert (Hflat_ne : forall k l c, In c l -> pall gate_l c = true -> is_nil (pleaves c) = false ->
                is_nil (flat_map pleaves (map (pext k F) l)) = false).
      { intros k l c Hc Hcg Hcn. destruct (flat_map pleaves (map (pext k F) l)) eqn:E; auto.
        assert (Hin : forall x, In x (pleaves (pext k F c)) -> In x (flat_map pleaves (map (pext k F) l))).
        { intros x Hx. apply in_flat_map. exists (pext k F c); split; auto. apply in_map; auto. }
        rewrite E in Hin. pose proof (perm_nonempty _ _ (pext_leaves k c Hcg) Hcn) as Hne.
        destruct (pleaves (pext k F c)) as [|x r]; [discriminate|]. destruct (Hin x (or_introl eq_refl)). }
      cbn [pext pinfer]. destruct (filter p_is_tau_child cs) as [|c0 T'] eqn:ET.
      + intros Hroot. apply pall_node. split; [exact Hroot|]. apply Hmap; [lia|]. intros c Hc; split; auto.
      + cbv iota. rewrite <- ET in *.
        assert (Hc0 : In c0 (filter p_is_tau_child cs)) by (rewrite ET; left; auto).
        assert (HmapR : forall k, k < S m ->
                  Forall (fun c => pall labelful_l c = true)
                         (map (pext k F) (flat_map p_ntg (filter p_is_tau_child cs)))).
        { intros k Hk. apply Hmap; [exact Hk|]. intros g Hg.
          split; [apply HRg; exact Hg|apply HRl; exact Hg]. }
        assert (HmapN : forall k, k < S m ->
                  Forall (fun c => pall labelful_l c = true)
                         (map (pext k F) (filter p_is_non_tau_child cs))).
        { intros k Hk. apply Hmap; [exact Hk|]. intros c Hc.
          split; [apply Hgc|apply Hlc]; apply HNg; exact Hc. }
        destruct (pcheck _ _ _); [destruct (1 <? length _) eqn:Elen|]; cbv iota; intros Hroot;
          apply pall_node; (split; [exact Hroot|]); rewrite map_app; apply Forall_app; split.
        * apply HmapR; lia.
        * constructor; [|constructor].
          rewrite (pext_and_plain F m _ (filter_tau_nontau cs)). apply pall_node. split.
          -- cbn [labelful_l pleaves]. apply negb_true_iff.
             destruct (filter p_is_non_tau_child cs) as [|c1 N'] eqn:EN; [discriminate|].
             rewrite <- EN in *.
             assert (Hc1 : In c1 (filter p_is_non_tau_child cs)) by (rewrite EN; left; auto).
             apply (Hflat_ne _ _ c1 Hc1); [apply Hgc, HNg, Hc1|].
             apply labelful_child_nonempty; [apply Hsh, HNg, Hc1|apply Hlc, HNg, Hc1].
          -- apply HmapN; lia.
        * apply HmapR; lia.
        * apply HmapN; lia.
        * apply HmapN; lia.
        * constructor; [|constructor]. rewrite pext_or. apply pall_node. split.
          -- cbn [labelful_l pleaves]. apply negb_true_iff.
             apply filter_In in Hc0 as [Hc0 Hc0t].
             pose proof (labelful_child_nonempty c0 (Hsh _ Hc0) (Hlc _ Hc0)) as Hne0.
             rewrite <- (pleaves_ntg _ Hc0t) in Hne0.
             destruct (p_ntg c0) as [|g0 r0] eqn:Eg; [discriminate|].
             assert (Hg0 : In g0 (flat_map p_ntg (filter p_is_tau_child cs))).
             { apply in_flat_map. exists c0; split; [apply filter_In; auto|rewrite Eg; left; auto]. }
             apply (Hflat_ne _ _ g0 Hg0); [apply HRg, Hg0|apply HRl, Hg0].
          -- apply HmapR; lia.
  Qed.
End Pass1Inv.

(** * Part F: [filter_defunct_or_gates] *)

Definition refines (t t' : ptree) : Prop := forall s, padmits t s -> padmits t' s.

Definition agood (a : atree) : Prop := pall labelful_l (erase a) = true.

Definition lgood (L : list atree) : Prop := NoDup (flat_map labels L) /\ Forall agood L.

Lemma childless_labels x : childless x = true -> labels x = [].
Proof. destruct x as [| |g op [|c cs]]; try discriminate; reflexivity. Qed.

Definition all2aeq : list atree -> list atree -> bool :=
  fix all2 (l l' : list atree) : bool :=
    match l, l' with
    | [], [] => true
    | x :: r, y :: r' => aeq x y && all2 r r'
    | _, _ => false
    end.

Lemma aeq_node g op c cs g' op' cs' :
  aeq (ANode g op (c :: cs)) (ANode g' op' cs') = pop_eqb op op' && all2aeq (c :: cs) cs'.
Proof. reflexivity. Qed.

Lemma aeq_labels y : forall x, aeq y x = true -> labels y = labels x.
Proof.
  induction y as [e| |g op cs IH] using atree_ind'; intros x H.
  - destruct x; try discriminate. cbn in H. apply Pos.eqb_eq in H. subst; reflexivity.
  - cbn in H. rewrite (childless_labels _ H). reflexivity.
  - destruct cs as [|c cs]; [cbn in H; rewrite (childless_labels _ H); reflexivity|].
    destruct x as [| |g' op' cs']; try discriminate.
    rewrite aeq_node in H. apply andb_true_iff in H as [_ H]. cbn [labels].
    revert cs' H. generalize (c :: cs) IH. clear. intros l IH.
    induction IH as [|a l Ha _ IHl]; intros [|b l'] H; try discriminate; auto.
    cbn [all2aeq] in H. apply andb_true_iff in H as [H1 H2].
    cbn [flat_map]. rewrite (Ha _ H1), (IHl _ H2). reflexivity.
Qed.

Lemma aeq_refl x : aeq x x = true.
Proof.
  induction x as [e| |g op cs IH] using atree_ind'.
  - cbn. apply Pos.eqb_refl.
  - reflexivity.
  - destruct cs as [|c cs]; [reflexivity|]. rewrite aeq_node.
    assert (E : pop_eqb op op = true) by (destruct op; reflexivity). rewrite E. cbn [andb].
    generalize (c :: cs) IH. clear. intros l IH.
    induction IH as [|a l Ha _ IHl]; auto. cbn [all2aeq]. rewrite Ha, IHl. reflexivity.
Qed.

Lemma remove_first_unique x l1 l2 :
  NoDup (flat_map labels (l1 ++ x :: l2)) -> labels x <> [] ->
  remove_first x (l1 ++ x :: l2) = Some (l1 ++ l2).
Proof.
  intros Hnd Hne. induction l1 as [|y l1 IH]; cbn [app remove_first].
  - rewrite aeq_refl. reflexivity.
  - cbn [app flat_map] in Hnd. destruct (aeq y x) eqn:E.
    + exfalso. apply aeq_labels in E. destruct (labels x) as [|z r] eqn:Ex; [congruence|].
      apply (NoDup_app_disjoint _ _ z Hnd); [rewrite E; left; auto|].
      rewrite flat_map_app. apply in_or_app; right. cbn [flat_map]. apply in_or_app; left.
      rewrite Ex; left; auto.
    + rewrite IH; auto. eapply NoDup_app_r; eauto.
Qed.

Lemma nth_split_set {A} (L : list A) i x :
  nth_error L i = Some x ->
  exists l1 l2, L = l1 ++ x :: l2 /\ forall y z, set_nth i y (l1 ++ z :: l2) = l1 ++ y :: l2.
Proof.
  revert i. induction L as [|a L IH]; intros [|i] H; try discriminate.
  - inversion H; subst. exists [], L; split; auto.
  - cbn in H. destruct (IH _ H) as (l1 & l2 & -> & Hs). exists (a :: l1), l2; split; auto.
    intros y z. cbn [set_nth app]. rewrite Hs. reflexivity.
Qed.

Lemma Forall2_app_inv_l' {A B} (R : A -> B -> Prop) l1 l2 l' :
  Forall2 R (l1 ++ l2) l' -> exists l1' l2', Forall2 R l1 l1' /\ Forall2 R l2 l2' /\ l' = l1' ++ l2'.
Proof. apply Forall2_app_inv_l. Qed.

Lemma refines_nth op l1 c c' l2 :
  refines c c' -> refines (PNode op (l1 ++ c :: l2)) (PNode op (l1 ++ c' :: l2)).
Proof.
  intros Hr s H.
  assert (HF2 : forall ss, Forall2 padmits (l1 ++ c :: l2) ss -> Forall2 padmits (l1 ++ c' :: l2) ss).
  { intros ss HF. apply Forall2_app_inv_l in HF as (s1 & s2 & F1 & F2 & ->).
    inversion F2 as [|? sc ? s2' Hc F2']; subst. apply Forall2_app; [exact F1|constructor; auto]. }
  inversion H as [| |cs0 c0 s0 Hc Hp|cs0 ss s0 HF Hs|cs0 ss s0 HF Hs|]; subst.
  - apply in_app_or in Hc as [Hc|[<-|Hc]].
    + eapply pa_xor; eauto. apply in_or_app; auto.
    + eapply pa_xor; [|apply Hr; eauto]. apply in_or_app; right; left; auto.
    + eapply pa_xor; eauto. apply in_or_app; right; right; auto.
  - eapply pa_and; eauto.
  - eapply pa_seq; eauto.
  - apply or_elim_opt in H as (os & HF & Hne & ->).
    apply or_intro_opt; auto.
    apply Forall2_app_inv_l in HF as (o1 & o2 & F1 & F2 & ->).
    inversion F2 as [|? o ? o2' Hc F2']; subst. apply Forall2_app; [exact F1|constructor; [|exact F2']].
    destruct o; simpl in *; auto.
Qed.

Lemma refines_flatten l1 ncs l2 :
  refines (PNode POr (l1 ++ PNode POr ncs :: l2)) (PNode POr (l1 ++ l2 ++ ncs)).
Proof.
  intros s H. apply or_elim_opt in H as (os & HF & Hne & ->).
  apply Forall2_app_inv_l in HF as (o1 & o2 & F1 & F2 & ->).
  inversion F2 as [|? o ? o2' Hc F2']; subst.
  assert (Hon : exists on, Forall2 optadm ncs on /\
            (forall x, (exists s', In s' (somes on) /\ In x s') <->
                       match o with Some sc => In x sc | None => False end) /\
            (match o with Some _ => somes on <> [] | None => True end)).
  { destruct o as [sc|].
    - simpl in Hc. apply or_elim_opt in Hc as (on & Fn & Hn & ->). exists on; repeat split; auto.
      + intros (s' & Hs' & Hx). apply big_union_In; eauto.
      + intros Hx. apply big_union_In in Hx. exact Hx.
    - exists (map (fun _ => None) ncs). split; [|split; auto].
      + clear. induction ncs; simpl; constructor; simpl; auto.
      + assert (E : somes (map (fun _ : ptree => @None eset) ncs) = []) by (clear; induction ncs; auto).
        rewrite E. intros x; split; [intros (s' & [] & _)|intros []]. }
  destruct Hon as (on & Fn & Hiff & Hnn).
  set (os' := o1 ++ o2' ++ on).
  assert (E : big_union (somes (o1 ++ o :: o2')) = big_union (somes os')).
  { apply eq_big_union; [apply big_union_canonical|]. intros x. rewrite big_union_In.
    unfold os'. rewrite !somes_app. split.
    - intros (s' & Hs' & Hx). apply in_app_or in Hs' as [Hs'|Hs'].
      + exists s'; split; auto. apply in_or_app; auto.
      + destruct o as [sc|]; cbn [somes] in Hs'.
        * destruct Hs' as [<-|Hs'].
          -- destruct (proj2 (Hiff x) Hx) as (s'' & Hs'' & Hx'').
             exists s''; split; auto. apply in_or_app; right. apply in_or_app; auto.
          -- exists s'; split; auto. apply in_or_app; right. apply in_or_app; auto.
        * exists s'; split; auto. apply in_or_app; right. apply in_or_app; auto.
    - intros (s' & Hs' & Hx). apply in_app_or in Hs' as [Hs'|Hs'].
      + exists s'; split; auto. apply in_or_app; auto.
      + apply in_app_or in Hs' as [Hs'|Hs'].
        * exists s'; split; auto. apply in_or_app; right. destruct o; cbn [somes]; simpl; auto.
        * destruct o as [sc|].
          -- exists sc; split; [apply in_or_app; right; left; auto|]. apply Hiff; eauto.
          -- exfalso. apply (proj1 (Hiff x)). eauto. }
  rewrite E. apply or_intro_opt.
  - unfold os'. apply Forall2_app; auto. apply Forall2_app; auto.
  - unfold os'. rewrite !somes_app. intros H0.
    apply app_eq_nil in H0 as [H01 H0]. apply app_eq_nil in H0 as [H02 H03].
    destruct o as [sc|]; [auto|]. apply Hne. rewrite somes_app. cbn [somes]. rewrite H01, H02. reflexivity.
Qed.

Lemma erase_detach c : erase (detach c) = erase c.
Proof. destruct c as [| |[] op cs]; reflexivity. Qed.

Lemma labels_detach c : labels (detach c) = labels c.
Proof. destruct c as [| |[] op cs]; reflexivity. Qed.

Lemma map_erase_detach l : map erase (map detach l) = map erase l.
Proof. rewrite map_map. apply map_ext, erase_detach. Qed.

Lemma flat_labels_detach l : flat_map labels (map detach l) = flat_map labels l.
Proof. rewrite flat_map_map. apply flat_map_ext, labels_detach. Qed.

Lemma agood_node g op cs : agood (ANode g op cs) <-> is_nil (flat_map labels cs) = false /\ Forall agood cs.
Proof.
  unfold agood. cbn [erase]. rewrite pall_node. cbn [labelful_l pleaves].
  rewrite flat_labels_erase, negb_true_iff, Forall_map. tauto.
Qed.

Lemma agood_detach c : agood c -> agood (detach c).
Proof. unfold agood. rewrite erase_detach. auto. Qed.

Definition rec_spec (rec : atree -> fres atree) : Prop :=
  forall a a', rec a = FOk a' -> agood a -> NoDup (labels a) ->
    agood a' /\ Permutation (labels a') (labels a) /\ refines (erase a) (erase a').

Lemma lgood_replace l1 x y l2 :
  lgood (l1 ++ x :: l2) -> agood y -> Permutation (labels y) (labels x) -> lgood (l1 ++ y :: l2).
Proof.
  intros [Hnd Hall] Hy HP. split.
  - eapply Permutation_NoDup; [|exact Hnd]. rewrite !flat_map_app. cbn [flat_map].
    apply Permutation_app_head, Permutation_app_tail. symmetry; exact HP.
  - apply Forall_app in Hall as [H1 H2]. inversion H2; subst. apply Forall_app; split; auto.
Qed.

Lemma filter_loop_spec rec op : rec_spec rec ->
  forall n i L L', filter_loop n rec (pop_eqb op POr) i L = FOk L' -> lgood L ->
    lgood L' /\ Permutation (flat_map labels L') (flat_map labels L) /\
    refines (PNode op (map erase L)) (PNode op (map erase L')).
Proof.
  intros Hrec. induction n as [|n IH]; intros i L L' H HL; [discriminate|].
  cbn [filter_loop] in H. destruct (nth_error L i) as [node|] eqn:En.
  2:{ inversion H; subst. repeat split; try apply HL; auto. intros s Hs; exact Hs. }
  destruct (nth_split_set _ _ _ En) as (l1 & l2 & -> & Hset).
  destruct (rec node) as [node1| | |] eqn:Er; try discriminate.
  assert (Hnode : agood node /\ NoDup (labels node)).
  { destruct HL as [Hnd Hall]. apply Forall_app in Hall as [_ Hall]. inversion Hall; subst. split; auto.
    rewrite flat_map_app in Hnd. apply NoDup_app_r in Hnd. cbn [flat_map] in Hnd.
    eapply NoDup_app_l; eauto. }
  destruct (Hrec _ _ Er (proj1 Hnode) (proj2 Hnode)) as (Hg1 & HP1 & HR1).
  rewrite Hset in H.
  assert (HL1 : lgood (l1 ++ node1 :: l2)) by (eapply lgood_replace; eauto).
  assert (HP0 : Permutation (flat_map labels (l1 ++ node1 :: l2)) (flat_map labels (l1 ++ node :: l2))).
  { rewrite !flat_map_app. cbn [flat_map]. apply Permutation_app_head, Permutation_app_tail. exact HP1. }
  assert (HR0 : refines (PNode op (map erase (l1 ++ node :: l2))) (PNode op (map erase (l1 ++ node1 :: l2)))).
  { rewrite !map_app. cbn [map]. apply refines_nth. exact HR1. }
  assert (Hcont : forall Lx, lgood Lx ->
            Permutation (flat_map labels Lx) (flat_map labels (l1 ++ node1 :: l2)) ->
            refines (PNode op (map erase (l1 ++ node1 :: l2))) (PNode op (map erase Lx)) ->
            filter_loop n rec (pop_eqb op POr) (S i) Lx = FOk L' ->
            lgood L' /\ Permutation (flat_map labels L') (flat_map labels (l1 ++ node :: l2)) /\
            refines (PNode op (map erase (l1 ++ node :: l2))) (PNode op (map erase L'))).
  { intros Lx HLx HPx HRx Hx. destruct (IH _ _ _ Hx HLx) as (A1 & A2 & A3). split; auto. split.
    - etransitivity; [exact A2|]. etransitivity; [exact HPx|exact HP0].
    - intros s Hs. apply A3, HRx, HR0, Hs. }
  assert (Hsame : filter_loop n rec (pop_eqb op POr) (S i) (l1 ++ node1 :: l2) = FOk L' ->
            lgood L' /\ Permutation (flat_map labels L') (flat_map labels (l1 ++ node :: l2)) /\
            refines (PNode op (map erase (l1 ++ node :: l2))) (PNode op (map erase L'))).
  { apply Hcont; auto. intros s Hs; exact Hs. }
  destruct node1 as [e| |g op1 ncs]; auto.
  destruct op1; auto.
  destruct g; auto.
  - (* Own *)
    destruct (pop_eqb op POr) eqn:Eop; auto.
    assert (op = POr) by (destruct op; try discriminate; reflexivity). subst op.
    apply agood_node in Hg1 as [Hne1 Hch1].
    rewrite remove_first_unique in H.
    + revert H. apply Hcont.
      * destruct HL1 as [Hnd Hall]. split.
        -- eapply Permutation_NoDup; [|exact Hnd]. rewrite !flat_map_app, flat_labels_detach.
           cbn [flat_map labels]. rewrite <- app_assoc. apply Permutation_app_head. apply Permutation_app_comm.
        -- apply Forall_app in Hall as [H1 H2]. inversion H2; subst.
           apply Forall_app; split; [apply Forall_app; split; auto|].
           apply Forall_forall. intros c Hc. apply in_map_iff in Hc as (c' & <- & Hc').
           apply agood_detach. rewrite Forall_forall in Hch1. auto.
      * rewrite !flat_map_app, flat_labels_detach. cbn [flat_map labels]. rewrite <- app_assoc.
        apply Permutation_app_head. apply Permutation_app_comm.
      * rewrite !map_app, map_erase_detach. cbn [map erase]. rewrite <- app_assoc. apply refines_flatten.
    + apply HL1.
    + cbn [labels]. destruct (flat_map labels ncs); [discriminate|discriminate].
  - (* Det0 *)
    rewrite Hset in H. revert H. apply Hcont.
    + eapply lgood_replace; [exact HL1|exact Hg1|reflexivity].
    + rewrite !flat_map_app. reflexivity.
    + rewrite !map_app. cbn [map erase]. intros s Hs; exact Hs.
  - (* Det1 *) discriminate.
Qed.

Lemma filter_spec : forall n, rec_spec (filter_defunct_or_gates n).
Proof.
  induction n as [|n IH]; intros a a' H Hg Hnd; [discriminate|].
  cbn [filter_defunct_or_gates] in H. destruct a as [e| |g op cs].
  - inversion H; subst. repeat split; auto. intros s Hs; exact Hs.
  - inversion H; subst. repeat split; auto. intros s Hs; exact Hs.
  - destruct (filter_loop n (filter_defunct_or_gates n) (pop_eqb op POr) 0 cs) as [cs'| | |] eqn:E;
      try discriminate.
    inversion H; subst. apply agood_node in Hg as [Hne Hch].
    destruct (filter_loop_spec _ op IH _ _ _ _ E) as (A1 & A2 & A3); [split; auto|].
    split; [|split; [exact A2|exact A3]].
    apply agood_node. split; [|apply A1]. eapply perm_nonempty; eauto.
Qed.

Lemma process_or_gates_spec F t t1 :
  process_or_gates F t = FOk t1 ->
  pall gate_l t = true -> pall labelful_l t = true -> NoDup (pleaves t) ->
  Permutation (pleaves t1) (pleaves t) /\ refines (pext (psize t) F t) t1.
Proof.
  unfold process_or_gates. intros H Hg Hl Hnd.
  set (a := get_extended_or_gates_from_process_tree (psize t) F (annot t)) in *.
  destruct (filter_defunct_or_gates (S (S (asize a))) a) as [a'| | |] eqn:E; try discriminate.
  inversion H; subst t1.
  assert (Ea : erase a = pext (psize t) F t) by (unfold a; rewrite ext_erase, erase_annot; reflexivity).
  assert (HP : Permutation (labels a) (pleaves t)).
  { rewrite <- labels_erase, Ea. apply pext_leaves; auto. }
  destruct (filter_spec _ _ _ E) as (A1 & A2 & A3).
  - unfold agood. rewrite Ea. apply pext_labelful; auto.
  - eapply Permutation_NoDup; [symmetry; exact HP|exact Hnd].
  - split.
    + rewrite labels_erase. etransitivity; eauto.
    + rewrite <- Ea. exact A3.
Qed.

(** * Part G: [process_missing_and_gates] *)

Definition pm_list (ord : list (eset * list eset)) (F : list eset) : list ptree -> fres (list ptree) :=
  fix go (l : list ptree) : fres (list ptree) :=
    match l with
    | [] => FOk []
    | c :: r =>
        match process_missing_and_gates ord F c with
        | FOk c' => match go r with
                    | FOk r' => FOk (c' :: r')
                    | FValueError => FValueError
                    | FZeroDivisionError => FZeroDivisionError
                    | FFuel => FFuel
                    end
        | FValueError => FValueError
        | FZeroDivisionError => FZeroDivisionError
        | FFuel => FFuel
        end
    end.

Definition pm_recurse ord F op cs : fres ptree :=
  match pm_list ord F cs with
  | FOk cs' => FOk (PNode op cs')
  | FValueError => FValueError
  | FZeroDivisionError => FZeroDivisionError
  | FFuel => FFuel
  end.

Lemma pmag_node ord F op cs :
  process_missing_and_gates ord F (PNode op cs) =
  if pop_eqb op POr then
    match missing_and_children ord F cs with
    | FOk (Some cs') => FOk (PNode op cs')
    | FOk None => pm_recurse ord F op cs
    | FValueError => FValueError
    | FZeroDivisionError => FZeroDivisionError
    | FFuel => FFuel
    end
  else pm_recurse ord F op cs.
Proof. reflexivity. Qed.

Lemma pm_list_spec ord F cs : forall cs', pm_list ord F cs = FOk cs' ->
  Forall2 (fun c c' => process_missing_and_gates ord F c = FOk c') cs cs'.
Proof.
  induction cs as [|c cs IH]; intros cs' H; cbn [pm_list] in H.
  - inversion H; constructor.
  - destruct (process_missing_and_gates ord F c) eqn:Ec; try discriminate.
    fold (pm_list ord F) in H. destruct (pm_list ord F cs) eqn:Er; try discriminate.
    inversion H; subst. constructor; auto.
Qed.

Lemma Forall2_three {A B C} (R : A -> B -> Prop) (Q : A -> C -> Prop) (P : B -> C -> Prop) l l' l'' :
  Forall2 R l l' -> Forall2 Q l l'' ->
  (forall a b c, In a l -> R a b -> Q a c -> P b c) -> Forall2 P l' l''.
Proof.
  intros HR. revert l''. induction HR as [|a b l l' Hab HR IH]; intros l'' HQ HP.
  - inversion HQ; constructor.
  - inversion HQ; subst. constructor.
    + eapply HP; eauto. left; auto.
    + apply IH; auto. intros a' b' c' Ha'. apply HP. right; auto.
Qed.

Lemma cover_child_admits c : padmits (cover_child c) (norm c).
Proof.
  assert (Hand : padmits (PNode PAnd (map PLeaf c)) (norm c)).
  { eapply pa_and with (ss := map (fun e => [e]) c).
    - clear. induction c; simpl; constructor; auto. constructor.
    - symmetry. apply big_union_singletons. }
  destruct c as [|e [|e' c]]; auto. cbn [cover_child]. constructor.
Qed.

Lemma somes_cond_In {A} (p : A -> bool) (f : A -> eset) l s' :
  In s' (somes (map (fun c => if p c then Some (f c) else None) l)) <->
  exists c, In c l /\ p c = true /\ s' = f c.
Proof.
  rewrite somes_In, in_map_iff. split.
  - intros (c & E & Hc). destruct (p c) eqn:Ep; [|discriminate]. inversion E; eauto.
  - intros (c & Hc & Ep & ->). exists c. rewrite Ep. auto.
Qed.

Lemma leafish_leaves cs : forallb is_pleafish cs = true -> flat_map pleaves cs = flat_map plabel cs.
Proof.
  induction cs as [|c cs IH]; simpl; auto. intros H. apply andb_true_iff in H as [H1 H2].
  rewrite IH; auto. destruct c; try discriminate; reflexivity.
Qed.

Lemma has_set_iff s l : has_set s l = true <-> exists s', In s' l /\ (forall x, In x s <-> In x s').
Proof.
  unfold has_set. rewrite existsb_exists. split; intros (s' & H1 & H2); exists s'; split; auto;
    apply seteqb_iff; auto.
Qed.

Lemma recursive_event_set_spec ord F U :
  (forall e, In e (recursive_event_set ord F U) -> incl e U) /\
  (forall s1, In s1 F -> incl s1 U ->
     exists e, In e (recursive_event_set ord F U) /\ forall x, In x e <-> In x s1) /\
  (forall e, In e (recursive_event_set ord F U) -> exists s1, In s1 F /\ incl s1 U).
Proof.
  unfold recursive_event_set.
  set (base := filter (fun s => subsetb s U) (map norm F)).
  set (hint := match find (fun p => seteqb (fst p) U) ord with
               | Some p => map norm (snd p) | None => [] end).
  assert (Hbase : forall b, In b base -> incl b U).
  { intros b Hb. apply filter_In in Hb as [_ Hb]. exact (proj1 (subsetb_iff _ _) Hb). }
  assert (Hbase' : forall b, In b base -> exists s1, In s1 F /\ incl s1 U).
  { intros b Hb. pose proof (Hbase b Hb) as Hinc. apply filter_In in Hb as [Hb _].
    apply in_map_iff in Hb as (s1 & <- & Hs1). exists s1; split; auto.
    intros x Hx. apply Hinc. apply norm_In; exact Hx. }
  split; [|split].
  - intros e He. apply in_app_or in He as [He|He].
    + apply filter_In in He as [_ He]. apply has_set_iff in He as (b & Hb & Heq).
      intros x Hx. apply (Hbase b Hb). apply Heq; auto.
    + apply filter_In in He as [He _]. auto.
  - intros s1 Hs1 Hsub.
    assert (Hb : In (norm s1) base).
    { apply filter_In. split; [apply in_map; auto|]. apply (proj2 (subsetb_iff _ _)). intros x Hx.
      apply Hsub. exact (proj1 (norm_In _ _) Hx). }
    destruct (has_set (norm s1) hint) eqn:Eh.
    + apply has_set_iff in Eh as (h & Hh & Heq). exists h. split.
      * apply in_or_app; left. apply filter_In; split; auto. apply has_set_iff.
        exists (norm s1); split; auto. intros x. symmetry. apply Heq.
      * intros x. rewrite <- Heq. apply norm_In.
    + exists (norm s1). split; [|intros x; apply norm_In].
      apply in_or_app; right. apply filter_In; split; auto. rewrite Eh; reflexivity.
  - intros e He. apply in_app_or in He as [He|He].
    + apply filter_In in He as [_ He]. apply has_set_iff in He as (b & Hb & _). exact (Hbase' b Hb).
    + apply filter_In in He as [He _]. exact (Hbase' e He).
Qed.

Section Pass3.
  Variable ord : list (eset * list eset).
  Variable F : list eset.
  Variable s0 : eset.
  Hypothesis Hs0 : In s0 F.

  Lemma cover_step cs cs' s :
    missing_and_children ord F cs = FOk (Some cs') ->
    straddle_free_l F (PNode POr cs) = true ->
    padmits (PNode POr cs) s -> link s0 (PNode POr cs) s -> padmits (PNode POr cs') s.
  Proof.
    unfold missing_and_children. intros H Hsf Hp Hl.
    destruct (forallb is_pleafish cs) eqn:Elf; [|discriminate].
    destruct (existsb is_ptau cs) eqn:Etau; [destruct (existsb is_empty _); discriminate|].
    set (U := norm (flat_map plabel cs)) in *.
    set (E := recursive_event_set ord F U) in *.
    destruct (get_weighted_cover E U) as [| | |C] eqn:Ec; try discriminate.
    inversion H; subst cs'. clear H.
    assert (Hleaves : pleaves (PNode POr cs) = flat_map plabel cs) by (apply leafish_leaves; auto).
    (* the OR node contributes a non-empty set *)
    assert (Hne : s <> []).
    { apply or_elim_opt in Hp as (os & HF & Hso & ->).
      assert (Hex : exists sc, In sc (somes os) /\ sc <> []).
      { clear -HF Hso Elf Etau. revert Hso Elf Etau.
        induction HF as [|c o cs os Hc HF IH]; intros Hso Elf Etau; [exfalso; apply Hso; reflexivity|].
        cbn [forallb existsb] in *. apply andb_true_iff in Elf as [E1 E2].
        apply orb_false_iff in Etau as [T1 T2].
        destruct o as [sc|]; cbn [somes] in *.
        - exists sc; split; [left; auto|]. destruct c; try discriminate. inversion Hc; discriminate.
        - destruct (IH Hso E2 T2) as (sc & H1 & H2). eauto. }
      destruct Hex as (sc & H1 & H2). destruct sc as [|x sc]; [congruence|].
      intros H0. assert (Hx : In x (big_union (somes os))) by (apply big_union_In; exists (x :: sc); simpl; auto).
      rewrite H0 in Hx. destruct Hx. }
    (* hence the observed set lies inside the universe *)
    assert (Hsub : incl s0 U).
    { cbn [straddle_free_l] in Hsf. rewrite Elf in Hsf. cbn [implb] in Hsf.
      apply orb_true_iff in Hsf as [Hsf|Hsf].
      2:{ (* no observed set inside the universe: the cover is not even attempted *)
          exfalso. destruct (recursive_event_set_spec ord F U) as (_ & _ & HE3). fold E in HE3.
          destruct E as [|e0 E'] eqn:EE; [vm_compute in Ec; discriminate|].
          destruct (HE3 e0 (or_introl eq_refl)) as (s1 & Hs1 & Hinc).
          rewrite forallb_forall in Hsf. specialize (Hsf s1 Hs1). apply negb_true_iff in Hsf.
          assert (Hsb : subsetb s1 (flat_map plabel cs) = true).
          { apply (proj2 (subsetb_iff _ _)). intros x Hx. apply Hinc in Hx. unfold U in Hx.
            exact (proj1 (norm_In _ _) Hx). }
          congruence. }
      rewrite forallb_forall in Hsf. specialize (Hsf s0 Hs0).
      apply orb_true_iff in Hsf as [Hsf|Hsf].
      - exfalso. destruct (link_nonempty _ _ _ Hl Hne) as (x & Hx1 & Hx2). rewrite Hleaves in Hx2.
        assert (E0 : is_empty (inter s0 (flat_map plabel cs)) = false) by (apply inter_nonempty; eauto).
        congruence.
      - apply subsetb_iff in Hsf. intros x Hx. unfold U. apply norm_In. auto. }
    assert (Hsame : forall x, In x s <-> In x s0).
    { intros x. rewrite (Hl x). split; [tauto|]. intros Hx; split; auto.
      rewrite Hleaves. exact (proj1 (norm_In _ _) (Hsub x Hx)). }
    destruct (recursive_event_set_spec ord F U) as (HE1 & HE2 & _). fold E in HE1, HE2.
    destruct (HE2 s0 Hs0 Hsub) as (e & He & Hes).
    destruct (cover_partition_sub E U C HE1 Ec) as (_ & P2 & _).
    specialize (P2 e He). unfold union_of_contained in P2.
    set (os := map (fun c => if subsetb c s then Some (norm c) else None) C).
    assert (Hos : Forall2 optadm (map cover_child C) os).
    { unfold os. clear. induction C as [|c C IH]; simpl; constructor; auto.
      destruct (subsetb c s); simpl; auto. apply cover_child_admits. }
    assert (Hiff : forall x, In x s <-> exists s', In s' (somes os) /\ In x s').
    { intros x. rewrite Hsame, <- Hes, P2. unfold os. split.
      - intros (c & Hc & Hinc & Hx). exists (norm c). split; [|exact (proj2 (norm_In _ _) Hx)].
        apply somes_cond_In. exists c. split; [exact Hc|]. split; [|reflexivity].
        apply (proj2 (subsetb_iff _ _)). intros y Hy.
        apply (proj2 (Hsame y)), (proj1 (Hes y)), Hinc, Hy.
      - intros (s' & Hs' & Hx). apply somes_cond_In in Hs' as (c & Hc & Hsb & ->).
        exists c. split; [exact Hc|]. split; [|exact (proj1 (norm_In _ _) Hx)].
        pose proof (proj1 (subsetb_iff _ _) Hsb) as Hinc. intros y Hy.
        apply (proj2 (Hes y)), (proj1 (Hsame y)), Hinc, Hy. }
    assert (Es : s = big_union (somes os)).
    { apply eq_big_union; auto. eapply padmits_canonical; eauto. }
    rewrite Es. apply or_intro_opt; auto.
    destruct s as [|x s']; [congruence|]. destruct (proj1 (Hiff x) (or_introl eq_refl)) as (s'' & Hs'' & _).
    intros H0. rewrite H0 in Hs''. destruct Hs''.
  Qed.

  Lemma pmag_sound : forall t t',
    process_missing_and_gates ord F t = FOk t' ->
    straddle_free_b F t = true -> NoDup (pleaves t) ->
    forall s, padmits t s -> link s0 t s -> padmits t' s.
  Proof.
    induction t as [e| |op cs IH] using ptree_ind'; intros t' H Hsf Hnd s Hp Hl.
    - inversion H; subst; auto.
    - inversion H; subst; auto.
    - rewrite pmag_node in H. unfold straddle_free_b in Hsf. apply pall_node in Hsf as [Hsf1 Hsfc].
      rewrite Forall_forall in IH, Hsfc. cbn [pleaves] in Hnd.
      assert (Hrec : pm_recurse ord F op cs = FOk t' -> padmits t' s).
      { unfold pm_recurse. destruct (pm_list ord F cs) as [cs'| | |] eqn:El; try discriminate.
        intros E; inversion E; subst t'. apply pm_list_spec in El.
        assert (IH' : forall c c' sc, In c cs -> process_missing_and_gates ord F c = FOk c' ->
                        padmits c sc /\ link s0 c sc -> padmits c' sc).
        { intros c c' sc Hc Hcc [Hpc Hlc].
          exact (IH c Hc c' Hcc (Hsfc c Hc) (NoDup_flat_map_in _ _ _ Hnd Hc) sc Hpc Hlc). }
        inversion Hp as [| |cs0 c s1 Hc Hpc|cs0 ss s1 HF Hs|cs0 ss s1 HF Hs|cs0 sub ss s1 _ _ _ _]; subst.
        - destruct (Forall2_In_l _ _ _ _ El Hc) as (c' & Hc' & Hcc).
          eapply pa_xor; [exact Hc'|]. eapply IH'; eauto. split; auto. eapply link_child; eauto.
        - assert (HL : Forall2 (link s0) cs ss).
          { apply link_and; auto. }
          eapply pa_and; [|reflexivity].
          eapply Forall2_three; [exact El|exact (Forall2_conj _ _ _ _ HF HL)|]. exact IH'.
        - assert (HL : Forall2 (link s0) cs ss).
          { apply link_and; auto. }
          eapply pa_seq; [|reflexivity].
          eapply Forall2_three; [exact El|exact (Forall2_conj _ _ _ _ HF HL)|]. exact IH'.
        - apply or_elim_opt in Hp as (os & HF & Hso & ->).
          apply or_intro_opt; auto.
          assert (HL : Forall2 (olink s0) cs os).
          { apply link_opt; auto. intros x. rewrite <- big_union_In. apply Hl. }
          eapply Forall2_three; [exact El|exact (Forall2_conj _ _ _ _ HF HL)|].
          intros c c' o Hc Hcc [Ho1 Ho2]. destruct o as [sc|]; simpl in *; auto.
          eapply IH'; eauto. }
      destruct (pop_eqb op POr) eqn:Eop; auto.
      assert (op = POr) by (destruct op; try discriminate; reflexivity). subst op.
      destruct (missing_and_children ord F cs) as [[cs'|]| | |] eqn:Em; try discriminate; auto.
      inversion H; subst t'. eapply cover_step; eauto.
  Qed.
End Pass3.

(** * Part H: the partial soundness theorem *)

Lemma pall_and p q t : pall (fun u => p u && q u) t = true <-> pall p t = true /\ pall q t = true.
Proof.
  induction t as [e| |op cs IH] using ptree_ind'.
  - cbn. rewrite andb_true_r, andb_true_r, andb_true_r, andb_true_iff. tauto.
  - cbn. rewrite andb_true_r, andb_true_r, andb_true_r, andb_true_iff. tauto.
  - rewrite !pall_node, andb_true_iff. rewrite Forall_forall in IH.
    rewrite !Forall_forall. split.
    + intros [[H1 H2] H3]. split; split; auto; intros c Hc; apply (IH c Hc); auto.
    + intros [[H1 H2] [H3 H4]]. split; auto. intros c Hc. apply (IH c Hc). auto.
Qed.

Lemma norm_nil s : norm s = [] -> s = [].
Proof.
  intros H. destruct s as [|x s]; auto.
  assert (Hx : In x (norm (x :: s))) by (apply norm_In; left; auto). rewrite H in Hx. destruct Hx.
Qed.

Theorem post_sound_partial ord F t r :
  nonempty_sets_b F = true ->
  (forall s, In s F -> padmits t (norm s)) ->
  im_shape_b t = true ->
  im_tight_b F t = true ->
  cover_safe_b F t = true ->
  post_res ord F t = FOk r ->
  forall s, In s F -> padmits r (norm s).
Proof.
  intros Hne Hfit Hshape Htight Hcov Hres s Hs.
  unfold im_shape_b in Hshape. apply andb_true_iff in Hshape as [Hsh Hnd].
  unfold shape_l in Hsh. apply pall_and in Hsh as [Hgate Hlab].
  apply nodupb_spec in Hnd.
  unfold post_res in Hres. unfold cover_safe_b in Hcov.
  destruct (process_or_gates F t) as [t1| | |] eqn:E1; try discriminate.
  destruct (process_missing_and_gates ord F t1) as [t2| | |] eqn:E2; try discriminate.
  inversion Hres; subst r. rewrite calculate_repeats_in_tree_id.
  destruct (process_or_gates_spec _ _ _ E1 Hgate Hlab Hnd) as [HP HR].
  assert (Hl : link s t (norm s)).
  { intros x. rewrite norm_In. split; [|tauto]. intros Hx; split; auto.
    eapply padmits_leaves; [apply Hfit; exact Hs|]. apply norm_In; exact Hx. }
  assert (Hsn : norm s <> []).
  { intros H0. apply norm_nil in H0. subst s. unfold nonempty_sets_b in Hne.
    rewrite forallb_forall in Hne. specialize (Hne [] Hs). discriminate. }
  destruct (pext_sound F s Hs (psize t) t Hgate Htight Hnd (norm s) (Hfit s Hs) Hl) as [H0|H1];
    [congruence|].
  apply HR in H1.
  eapply (pmag_sound ord F s Hs t1 t2 E2 Hcov); auto.
  - eapply Permutation_NoDup; [symmetry; exact HP|exact Hnd].
  - intros x. rewrite (Hl x). split; intros [H2 H3]; split; auto.
    + eapply Permutation_in; [symmetry; exact HP|exact H3].
    + eapply Permutation_in; [exact HP|exact H3].
Qed.

(** the same for [post] (no recorded iteration orders), in boolean form *)
Corollary post_sound_partial_b F t :
  nonempty_sets_b F = true -> im_fits_b F t = true -> im_shape_b t = true ->
  im_tight_b F t = true -> cover_safe_b F t = true ->
  (exists r, post_res [] F t = FOk r) ->
  im_fits_b F (post F t) = true.
Proof.
  intros H1 H2 H3 H4 H5 (r & Hr). apply im_fits_b_spec.
  unfold post, post_with. rewrite Hr.
  eapply post_sound_partial; eauto. apply im_fits_b_spec; auto.
Qed.

(** non-vacuity: the hypotheses hold of a family and a miner tree for which all three passes act
    (OR conversion, and AND recovery by weighted cover) *)
Example post_sound_partial_example :
  let F := [[1; 2; 3]; [1]; [3; 2]]%positive in
  let t := PNode PAnd [PNode PXor [PTau; PLeaf 1]; PNode PXor [PTau; PLeaf 2];
                       PNode PXor [PTau; PLeaf 3]]%positive in
  nonempty_sets_b F = true /\ im_fits_b F t = true /\ im_shape_b t = true /\
  im_tight_b F t = true /\ cover_safe_b F t = true /\
  post_res [] F t = FOk (PNode POr [PLeaf 1; PNode PAnd [PLeaf 2; PLeaf 3]])%positive.
Proof. vm_compute. repeat split. Qed.

(** a second instance with a mandatory branch and a nested optional block *)
Example post_sound_partial_example2 :
  let F := [[1; 2]; [1; 3]; [1; 2; 3]; [4]]%positive in
  let t := PNode PXor [PNode PAnd [PLeaf 1; PNode PXor [PTau; PLeaf 2]; PNode PXor [PTau; PLeaf 3]];
                       PLeaf 4]%positive in
  nonempty_sets_b F = true /\ im_fits_b F t = true /\ im_shape_b t = true /\
  im_tight_b F t = true /\ cover_safe_b F t = true /\
  post_res [] F t = FOk (PNode PXor [PNode PAnd [PLeaf 1; PNode POr [PLeaf 2; PLeaf 3]]; PLeaf 4])%positive.
Proof. vm_compute. repeat split. Qed.

(** in terms of the gate-tree validator of GateTree.v (property C06, soundness half) *)
Corollary post_sound_partial_gtree ord F t r g :
  nonempty_sets_b F = true -> im_fits_b F t = true -> im_shape_b t = true ->
  im_tight_b F t = true -> cover_safe_b F t = true ->
  post_res ord F t = FOk r -> to_gtree r = Some g ->
  sound_b g F = true.
Proof.
  intros H1 H2 H3 H4 H5 Hr Hg. apply sound_b_spec. intros s Hs.
  apply (to_gtree_padmits r g Hg). eapply post_sound_partial; eauto. apply im_fits_b_spec; auto.
Qed.

Print Assumptions post_sound_refuted.
Print Assumptions post_sound_refuted_cover.
Print Assumptions post_sound_partial.
Print Assumptions post_sound_partial_b.
Print Assumptions to_gtree_padmits.
Print Assumptions remove_defunct_sequence_logic_id.
Print Assumptions post_sound_partial_gtree.
