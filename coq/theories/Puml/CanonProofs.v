(** Proofs about the canonical form of job graphs (Puml/Canon.v), the validators built on it
    (Puml/Accept.v) and the topological order of the graphs produced by the execution semantics
    (Puml/Exec.v). *)
From Coq Require Import List Bool PArith Arith Lia Permutation.
From V Require Import Store.Unique Store.UniqueSpec Store.UniqueProofs.
From V Require Import Puml.Ast Puml.Exec Puml.Canon Puml.Accept Puml.CanonSpec.
Import ListNotations.

(** * Generic list facts *)

Lemma existsb_eqb_In x l : existsb (Nat.eqb x) l = true <-> In x l.
Proof.
  rewrite existsb_exists. split.
  - intros [y [Hy E]]. apply Nat.eqb_eq in E. subst y. exact Hy.
  - intros H. exists x. split; [exact H | apply Nat.eqb_refl].
Qed.

Lemma in_combine_seq {A} (d : A) : forall (l : list A) s i x,
  In (i, x) (combine (seq s (length l)) l) <-> (s <= i < s + length l /\ nth (i - s) l d = x).
Proof.
  induction l as [|y l IH]; intros s i x; simpl.
  - split; [intros [] | intros [H _]; lia].
  - rewrite IH. split.
    + intros [E | [Hr Hn]].
      * inversion E; subst. split; [lia|]. rewrite Nat.sub_diag. reflexivity.
      * split; [lia|]. replace (i - s) with (S (i - S s)) by lia. exact Hn.
    + intros [Hr Hn]. destruct (Nat.eq_dec i s) as [E | NE].
      * left. subst i. rewrite Nat.sub_diag in Hn. subst x. reflexivity.
      * right. split; [lia|]. replace (i - s) with (S (i - S s)) in Hn by lia. exact Hn.
Qed.

Lemma in_combine_seq0 {A} (d : A) (l : list A) i x :
  In (i, x) (combine (seq 0 (length l)) l) <-> (i < length l /\ nth i l d = x).
Proof.
  rewrite (in_combine_seq d). rewrite Nat.sub_0_r. split; intros [H1 H2]; (split; [lia | exact H2]).
Qed.

Lemma map_fst_combine_seq {A} : forall (l : list A) s,
  map fst (combine (seq s (length l)) l) = seq s (length l).
Proof.
  induction l as [|y l IH]; intros s; simpl; [reflexivity|]. rewrite IH. reflexivity.
Qed.

Lemma in_combine_seq_ex {A} : forall (l : list A) s x,
  In x l -> exists i, In (i, x) (combine (seq s (length l)) l).
Proof.
  induction l as [|y l IH]; intros s x Hin; [destruct Hin|].
  simpl. destruct Hin as [E | Hin].
  - subst y. exists s. left. reflexivity.
  - destruct (IH (S s) x Hin) as [i Hi]. exists i. right. exact Hi.
Qed.

Lemma NoDup_map_filter {A B} (f : A -> B) (p : A -> bool) : forall l,
  NoDup (map f l) -> NoDup (map f (filter p l)).
Proof.
  induction l as [|a l IH]; intros Hnd; simpl; [constructor|].
  simpl in Hnd. inversion Hnd as [|a' l' Hni Hnd']; subst.
  destruct (p a); [|apply IH, Hnd'].
  simpl. constructor; [|apply IH, Hnd'].
  intros Hin. apply Hni. apply in_map_iff in Hin. destruct Hin as [b [Eb Hb]].
  apply filter_In in Hb. apply in_map_iff. exists b. split; [exact Eb | apply Hb].
Qed.

Lemma map_filter_nil {A B} (f : A -> B) (p : A -> bool) (l : list A) :
  map f (filter p l) = [] <-> forall a, In a l -> p a = false.
Proof.
  split.
  - intros E a Ha. destruct (p a) eqn:Ep; [|reflexivity].
    assert (Hin : In (f a) (map f (filter p l))) by (apply in_map, filter_In; auto).
    rewrite E in Hin. destruct Hin.
  - intros H. induction l as [|a l IH]; [reflexivity|]. simpl.
    rewrite (H a (or_introl eq_refl)). apply IH. intros b Hb. apply H. right. exact Hb.
Qed.

Lemma combine_nth_seq {A B} (da : A) (db : B) : forall (l1 : list A) (l2 : list B) n,
  length l1 = n -> length l2 = n ->
  combine l1 l2 = map (fun i => (nth i l1 da, nth i l2 db)) (seq 0 n).
Proof.
  induction l1 as [|a l1 IH]; intros [|b l2] [|n] H1 H2; simpl in *; try discriminate; try reflexivity.
  f_equal. rewrite <- seq_shift, map_map. apply IH; lia.
Qed.

(** * Target 1: [canon_eqb] decides equality *)

Theorem canon_eqb_eq : forall a b, canon_eqb a b = true <-> a = b.
Proof.
  induction a as [|x a IH]; intros [|y b]; simpl; split; intros H;
    try discriminate; try reflexivity.
  - apply andb_true_iff in H. destruct H as [H1 H2].
    apply ct_eqb_eq in H1. apply IH in H2. congruence.
  - inversion H; subst. apply andb_true_iff.
    split; [apply ct_eqb_eq; reflexivity | apply IH; reflexivity].
Qed.

Lemma mem_canon_In c l : mem_canon c l = true <-> In c l.
Proof.
  unfold mem_canon. rewrite existsb_exists. split.
  - intros [x [Hx E]]. apply canon_eqb_eq in E. subst x. exact Hx.
  - intros H. exists c. split; [exact H | apply canon_eqb_eq; reflexivity].
Qed.

(** * Target 5: the boolean validators mean what they say *)

Lemma in_lang k d c : In c (lang k d) <-> exists g, In g (jobs k d) /\ canon g = c.
Proof.
  unfold lang. rewrite in_map_iff. split; intros [g [H1 H2]]; exists g; auto.
Qed.

Theorem accepts_b_spec : forall k d j,
  accepts_b k d j = true <->
  topo_b j = true /\ exists g, In g (jobs k d) /\ canon g = canon j.
Proof.
  intros k d j. unfold accepts_b. rewrite andb_true_iff, mem_canon_In, in_lang. reflexivity.
Qed.

Theorem incl_b_spec : forall k1 k2 d1 d2,
  incl_b k1 k2 d1 d2 = true <->
  forall g1, In g1 (jobs k1 d1) -> exists g2, In g2 (jobs k2 d2) /\ canon g2 = canon g1.
Proof.
  intros k1 k2 d1 d2. unfold incl_b. rewrite forallb_forall. split.
  - intros H g1 Hg1. apply in_lang. apply mem_canon_In. apply H.
    apply in_lang. exists g1. auto.
  - intros H c Hc. apply in_lang in Hc. destruct Hc as [g1 [Hg1 E]]. subst c.
    apply mem_canon_In. apply in_lang. apply H, Hg1.
Qed.

Theorem rejected_spec : forall k d js,
  rejected k d js = [] <-> forall j, In j js -> accepts_b k d j = true.
Proof.
  intros k d js. unfold rejected. rewrite map_filter_nil. split.
  - intros H j Hj. destruct (in_combine_seq_ex js 0 j Hj) as [i Hi].
    specialize (H (i, j) Hi). simpl in H. apply negb_false_iff in H. exact H.
  - intros H [i j] Hin. simpl. apply negb_false_iff.
    apply in_combine_r in Hin. exact (H j Hin).
Qed.

Theorem not_included_spec : forall k1 k2 d1 d2,
  not_included k1 k2 d1 d2 = [] <-> incl_b k1 k2 d1 d2 = true.
Proof.
  intros k1 k2 d1 d2. unfold not_included, incl_b. rewrite map_filter_nil, forallb_forall. split.
  - intros H c Hc. destruct (in_combine_seq_ex (lang k1 d1) 0 c Hc) as [i Hi].
    specialize (H (i, c) Hi). simpl in H. apply negb_false_iff in H. exact H.
  - intros H [i c] Hin. simpl. apply negb_false_iff.
    apply in_combine_r in Hin. exact (H c Hin).
Qed.

(** * Target 4: every graph produced by the semantics is topologically ordered *)

Lemma blk_ind' (P : blk -> Prop)
  (HEv : forall e, P (Ev e))
  (HFork : forall k bs, Forall (Forall P) bs -> P (Fork k bs))
  (HLoop : forall body, Forall P body -> P (Loop body))
  (HBreak : P Break) (HDetach : P Detach) : forall b, P b.
Proof.
  fix IH 1. intros [e|k bs|body| |].
  - apply HEv.
  - apply HFork. induction bs as [|s bs IHbs]; constructor; [|exact IHbs].
    induction s as [|b s IHs]; constructor; [apply IH | exact IHs].
  - apply HLoop. induction body as [|b s IHs]; constructor; [apply IH | exact IHs].
  - exact HBreak.
  - exact HDetach.
Qed.

Lemma locs_lt_mono m m' rs : m <= m' -> locs_lt m rs -> locs_lt m' rs.
Proof. intros Hle H j Hj. specialize (H j Hj). lia. Qed.

Lemma locs_lt_app m rs rs' : locs_lt m rs -> locs_lt m rs' -> locs_lt m (rs ++ rs').
Proof. intros H H' j Hj. apply in_app_or in Hj. destruct Hj; auto. Qed.

Lemma shift_ok off fr q rs :
  locs_lt off fr -> locs_lt q rs -> locs_lt (off + q) (flat_map (shift off fr) rs).
Proof.
  intros Hfr Hrs j Hj. apply in_flat_map in Hj. destruct Hj as [r [Hr Hj]].
  destruct r as [|i]; simpl in Hj.
  - specialize (Hfr j Hj). lia.
  - destruct Hj as [E | []]. inversion E; subst. specialize (Hrs i Hr). lia.
Qed.

Lemma nodes_ok_app : forall l1 l2 off,
  nodes_ok off (l1 ++ l2) <-> nodes_ok off l1 /\ nodes_ok (off + length l1) l2.
Proof.
  induction l1 as [|n l1 IH]; intros l2 off; simpl.
  - rewrite Nat.add_0_r. tauto.
  - rewrite IH. rewrite Nat.add_succ_r. simpl. tauto.
Qed.

Lemma nodes_ok_shift off fr : locs_lt off fr -> forall l q,
  nodes_ok q l -> nodes_ok (off + q) (map (fun n => (fst n, flat_map (shift off fr) (snd n))) l).
Proof.
  intros Hfr. induction l as [|n l IH]; intros q Hok; simpl; [exact I|].
  destruct Hok as [H1 H2]. split.
  - apply shift_ok; assumption.
  - rewrite <- Nat.add_succ_r. apply IH, H2.
Qed.

Lemma nodes_ok_shift0 off fr l : locs_lt off fr -> nodes_ok 0 l ->
  nodes_ok off (map (fun n => (fst n, flat_map (shift off fr) (snd n))) l).
Proof.
  intros Hfr Hok. generalize (nodes_ok_shift off fr Hfr l 0 Hok). rewrite Nat.add_0_r. auto.
Qed.

Lemma wf_seq_frag a b : wf_frag a -> wf_frag b -> wf_frag (seq_frag a b).
Proof.
  intros [Ha1 Ha2] [Hb1 Hb2]. unfold wf_frag, seq_frag. simpl. split.
  - apply nodes_ok_app. split; [exact Ha1|]. simpl.
    apply nodes_ok_shift0; assumption.
  - rewrite app_length, map_length. apply shift_ok; assumption.
Qed.

Lemma locs_lt_RIn m : locs_lt m [RIn].
Proof. intros j [E | []]. discriminate. Qed.

Lemma wf_par_frag fs : Forall wf_frag fs -> wf_frag (par_frag fs).
Proof.
  induction 1 as [|a r [Ha1 Ha2] _ [Hp1 Hp2]]; simpl.
  - split; simpl; [exact I | intros j []].
  - unfold wf_frag. simpl. split.
    + apply nodes_ok_app. split; [exact Ha1|]. simpl.
      apply nodes_ok_shift0; [apply locs_lt_RIn | exact Hp1].
    + rewrite app_length, map_length. apply locs_lt_app.
      * eapply locs_lt_mono; [|exact Ha2]. lia.
      * apply shift_ok; [apply locs_lt_RIn | exact Hp2].
Qed.

Lemma wf_seq_all acc next :
  Forall wf_frag acc -> Forall wf_frag next -> Forall wf_frag (seq_all acc next).
Proof.
  rewrite !Forall_forall. intros Hacc Hnext f Hf. unfold seq_all in Hf.
  apply in_flat_map in Hf. destruct Hf as [a [Ha Hf]].
  destruct (live a).
  - apply in_map_iff in Hf. destruct Hf as [b [E Hb]]. subst f. apply wf_seq_frag; auto.
  - destruct Hf as [E | []]. subst f. auto.
Qed.

Lemma wf_loop_runs one : Forall wf_frag one -> forall k cur,
  Forall wf_frag cur -> Forall wf_frag (loop_runs k one cur).
Proof.
  intros Hone. induction k as [|k IH]; intros cur Hcur; simpl; [constructor|].
  assert (Hstep : Forall wf_frag (flat_map (fun a => map (seq_frag a) one) cur)).
  { rewrite Forall_forall in *. intros f Hf. apply in_flat_map in Hf. destruct Hf as [a [Ha Hf]].
    apply in_map_iff in Hf. destruct Hf as [b [E Hb]]. subst f. apply wf_seq_frag; auto. }
  assert (Hfil : forall p, Forall wf_frag (filter p (flat_map (fun a => map (seq_frag a) one) cur))).
  { intros p. rewrite Forall_forall in *. intros f Hf. apply filter_In in Hf. apply Hstep, Hf. }
  apply Forall_app. split; [|apply Forall_app; split].
  - rewrite Forall_forall. intros f Hf. apply in_map_iff in Hf. destruct Hf as [b [E Hb]]. subst f.
    specialize (Hfil (fun f => match fstat f with Broke => true | Normal => false end)).
    rewrite Forall_forall in Hfil. apply Hfil in Hb. exact Hb.
  - apply Hfil.
  - apply IH. rewrite Forall_forall. intros f Hf. apply filter_In in Hf. destruct Hf as [Hf _].
    specialize (Hfil (fun f => match fstat f with Broke => false | Normal => true end)).
    rewrite Forall_forall in Hfil. apply Hfil, Hf.
Qed.

Lemma product_Forall {A} (P : A -> Prop) : forall (ls : list (list A)) l,
  (forall xs, In xs ls -> Forall P xs) -> In l (product ls) -> Forall P l.
Proof.
  induction ls as [|xs ls IH]; intros l Hls Hl; simpl in Hl.
  - destruct Hl as [E | []]. subst l. constructor.
  - apply in_flat_map in Hl. destruct Hl as [x [Hx Hl]].
    apply in_map_iff in Hl. destruct Hl as [l' [E Hl']]. subst l. constructor.
    + specialize (Hls xs (or_introl eq_refl)). rewrite Forall_forall in Hls. apply Hls, Hx.
    + apply IH; [|exact Hl']. intros ys Hys. apply Hls. right. exact Hys.
Qed.

Lemma sublists_incl {A} : forall (l s : list A), In s (sublists l) -> incl s l.
Proof.
  induction l as [|x l IH]; intros s Hs; simpl in Hs.
  - destruct Hs as [E | []]. subst s. intros y [].
  - apply in_app_or in Hs. destruct Hs as [Hs | Hs].
    + apply in_map_iff in Hs. destruct Hs as [s' [E Hs']]. subst s.
      intros y [Ey | Hy]; [left; exact Ey | right; apply (IH s' Hs'), Hy].
    + intros y Hy. right. apply (IH s Hs), Hy.
Qed.

Lemma wf_fold_seq_all k s :
  Forall (fun b => Forall wf_frag (runs_blk k b)) s -> forall acc,
  Forall wf_frag acc ->
  Forall wf_frag (fold_left (fun acc b' => seq_all acc (runs_blk k b')) s acc).
Proof.
  induction 1 as [|b s Hb _ IH]; intros acc Hacc; simpl; [exact Hacc|].
  apply IH. apply wf_seq_all; assumption.
Qed.

Lemma wf_empty_frag : Forall wf_frag [empty_frag].
Proof.
  constructor; [|constructor]. split; simpl; [exact I | apply locs_lt_RIn].
Qed.

Lemma wf_runs_blk k : forall b, Forall wf_frag (runs_blk k b).
Proof.
  induction b as [e|kd bs IH|body IH| |] using blk_ind'.
  - simpl. constructor; [|constructor]. split; simpl.
    + split; [apply locs_lt_RIn | exact I].
    + intros j [E | []]. inversion E. lia.
  - assert (Hbrs : forall xs,
              In xs (map (fun s => fold_left (fun acc b' => seq_all acc (runs_blk k b')) s [empty_frag]) bs) ->
              Forall wf_frag xs).
    { intros xs Hxs. apply in_map_iff in Hxs. destruct Hxs as [s [E Hs]]. subst xs.
      apply wf_fold_seq_all; [|apply wf_empty_frag].
      rewrite Forall_forall in IH. apply IH, Hs. }
    cbn [runs_blk]. destruct kd.
    + rewrite Forall_forall. intros f Hf. apply in_map_iff in Hf. destruct Hf as [l [E Hl]]. subst f.
      apply wf_par_frag. eapply product_Forall; [exact Hbrs | exact Hl].
    + rewrite Forall_forall. intros f Hf. apply in_flat_map in Hf. destruct Hf as [sel [Hsel Hf]].
      apply in_map_iff in Hf. destruct Hf as [l [E Hl]]. subst f.
      apply wf_par_frag. eapply product_Forall; [|exact Hl].
      intros xs Hxs. apply Hbrs. unfold nonempty_sublists in Hsel. apply filter_In in Hsel.
      destruct Hsel as [Hsel _]. apply (sublists_incl _ _ Hsel), Hxs.
    + rewrite Forall_forall. intros f Hf. apply in_concat in Hf. destruct Hf as [xs [Hxs Hf]].
      specialize (Hbrs xs Hxs). rewrite Forall_forall in Hbrs. apply Hbrs, Hf.
  - cbn [runs_blk]. apply wf_loop_runs; [|apply wf_empty_frag].
    apply wf_fold_seq_all; [exact IH | apply wf_empty_frag].
  - simpl. constructor; [|constructor]. split; simpl; [exact I | apply locs_lt_RIn].
  - simpl. constructor; [|constructor]. split; simpl; [exact I | intros j []].
Qed.

Theorem runs_wf_frag : forall k d f, In f (runs_seq k d) -> wf_frag f.
Proof.
  intros k d f Hf. unfold runs_seq in Hf.
  assert (H : Forall wf_frag (fold_left (fun acc b => seq_all acc (runs_blk k b)) d [empty_frag])).
  { apply wf_fold_seq_all; [|apply wf_empty_frag].
    rewrite Forall_forall. intros b _. apply wf_runs_blk. }
  rewrite Forall_forall in H. apply H, Hf.
Qed.

Lemma nodes_ok_topo : forall l s,
  nodes_ok s l ->
  forallb (fun p => forallb (fun j => Nat.ltb j (fst p)) (snd (snd p)))
          (combine (seq s (length (map close_node l))) (map close_node l)) = true.
Proof.
  induction l as [|n l IH]; intros s Hok; simpl; [reflexivity|].
  destruct Hok as [H1 H2]. apply andb_true_iff. split; [|apply IH, H2].
  apply forallb_forall. intros j Hj. apply in_flat_map in Hj. destruct Hj as [r [Hr Hj]].
  destruct r as [|i]; [destruct Hj|]. destruct Hj as [E | []]. subst j.
  apply Nat.ltb_lt. apply H1, Hr.
Qed.

Theorem runs_topo : forall k d f, In f (runs_seq k d) -> topo_b (close f) = true.
Proof.
  intros k d f Hf. apply runs_wf_frag in Hf. destruct Hf as [Hok _].
  unfold topo_b. change (close f) with (map close_node (fnodes f)).
  apply nodes_ok_topo, Hok.
Qed.

Corollary jobs_topo : forall k d g, In g (jobs k d) -> topo_b g = true.
Proof.
  intros k d g Hg. unfold jobs in Hg. apply in_map_iff in Hg. destruct Hg as [f [E Hf]]. subst g.
  eapply runs_topo, Hf.
Qed.

(** * Target 2: recursive characterisation of the key tables *)

Lemma ksort_canon l l' : Permutation l l' -> ksort l = ksort l'.
Proof. apply (dsort_canon ctree ct_leb ct_leb_total ct_leb_antisym ct_leb_trans). Qed.

Lemma topo_b_topo g : topo_b g = true <-> topo g.
Proof.
  unfold topo_b, topo. rewrite forallb_forall. split.
  - intros H i j Hi Hj. specialize (H (i, nth i g dnode)).
    rewrite forallb_forall in H. apply Nat.ltb_lt. apply (H (proj2 (in_combine_seq0 dnode g i _) (conj Hi eq_refl)) j Hj).
  - intros H [i x] Hin. apply (in_combine_seq0 dnode) in Hin. destruct Hin as [Hi Hx].
    apply forallb_forall. intros j Hj. apply Nat.ltb_lt. simpl in *. apply (H i j Hi).
    unfold npreds. rewrite Hx. exact Hj.
Qed.

Lemma topo_lt_length g i j : topo g -> i < length g -> In j (npreds g i) -> j < length g.
Proof. intros Ht Hi Hj. specialize (Ht i j Hi Hj). lia. Qed.

Lemma ndedup_In x : forall l, In x (ndedup l) <-> In x l.
Proof.
  induction l as [|y l IH]; simpl; [tauto|].
  destruct (existsb (Nat.eqb y) l) eqn:E.
  - rewrite IH. apply existsb_eqb_In in E. split; [auto|]. intros [Ey | H]; [subst y; exact E | exact H].
  - simpl. rewrite IH. tauto.
Qed.

Lemma ndedup_NoDup : forall l, NoDup (ndedup l).
Proof.
  induction l as [|y l IH]; simpl; [constructor|].
  destruct (existsb (Nat.eqb y) l) eqn:E; [exact IH|].
  constructor; [|exact IH]. rewrite ndedup_In. intros Hin. apply existsb_eqb_In in Hin. congruence.
Qed.

Lemma succs_In g i j : In j (succs g i) <-> j < length g /\ In i (npreds g j).
Proof.
  unfold succs. rewrite in_map_iff. split.
  - intros [[j' x] [E Hin]]. simpl in E. subst j'. apply filter_In in Hin. destruct Hin as [Hin Hex].
    apply (in_combine_seq0 dnode) in Hin. destruct Hin as [Hj Hx]. simpl in Hex.
    apply existsb_eqb_In in Hex. split; [exact Hj|]. unfold npreds. rewrite Hx. exact Hex.
  - intros [Hj Hin]. exists (j, nth j g dnode). split; [reflexivity|]. apply filter_In. split.
    + apply (in_combine_seq0 dnode). auto.
    + simpl. apply existsb_eqb_In. exact Hin.
Qed.

Lemma succs_NoDup g i : NoDup (succs g i).
Proof.
  unfold succs. apply NoDup_map_filter. rewrite map_fst_combine_seq. apply seq_NoDup.
Qed.

Lemma succs_gt g i j : topo g -> In j (succs g i) -> i < j.
Proof. intros Ht Hj. apply succs_In in Hj. destruct Hj as [Hj Hi]. exact (Ht j i Hj Hi). Qed.

Lemma anc_keys_snoc g n : anc_keys (g ++ [n]) = astep (anc_keys g) n.
Proof. unfold anc_keys. rewrite fold_left_app. reflexivity. Qed.

Lemma anc_keys_spec : forall g,
  length (anc_keys g) = length g /\
  forall i, i < length g -> (forall j, In j (npreds g i) -> j < i) ->
    nth i (anc_keys g) dummy_key
    = CT (ntype g i) (ksort (map (fun j => nth j (anc_keys g) dummy_key) (ndedup (npreds g i)))).
Proof.
  induction g as [|x g [IHlen IH]] using rev_ind.
  - split; [reflexivity|]. intros i Hi. simpl in Hi. lia.
  - rewrite anc_keys_snoc. unfold astep. split.
    + rewrite !app_length. simpl. lia.
    + intros i Hi Hpre. rewrite app_length in Hi. simpl in Hi.
      destruct (Nat.lt_ge_cases i (length g)) as [Hlt | Hge].
      * assert (En : nth i (g ++ [x]) dnode = nth i g dnode) by (apply app_nth1; exact Hlt).
        unfold ntype, npreds in *. rewrite En in *.
        rewrite app_nth1 by lia. rewrite (IH i Hlt Hpre). f_equal. f_equal.
        apply map_ext_in. intros j Hj. rewrite ndedup_In in Hj. specialize (Hpre j Hj).
        rewrite app_nth1 by lia. reflexivity.
      * assert (Ei : i = length g) by lia. subst i.
        assert (En : nth (length g) (g ++ [x]) dnode = x)
          by (rewrite app_nth2 by lia; rewrite Nat.sub_diag; reflexivity).
        unfold ntype, npreds in *. rewrite En in *.
        rewrite app_nth2 by lia. rewrite IHlen, Nat.sub_diag. simpl. f_equal. f_equal.
        apply map_ext_in. intros j Hj. rewrite ndedup_In in Hj. specialize (Hpre j Hj).
        rewrite app_nth1 by lia. reflexivity.
Qed.

Lemma anc_keys_length g : length (anc_keys g) = length g.
Proof. apply anc_keys_spec. Qed.

Lemma anc_keys_nth g i : topo g -> i < length g ->
  nth i (anc_keys g) dummy_key
  = CT (ntype g i) (ksort (map (fun j => nth j (anc_keys g) dummy_key) (ndedup (npreds g i)))).
Proof. intros Ht Hi. apply anc_keys_spec; [exact Hi|]. intros j Hj. exact (Ht i j Hi Hj). Qed.

Lemma desc_keys_dk_from g : desc_keys g = dk_from g 0 g.
Proof. reflexivity. Qed.

Lemma dk_from_cons G s x g' : dk_from G s (x :: g') = dstep G (s, x) (dk_from G (S s) g').
Proof. reflexivity. Qed.

Lemma dk_from_length G : forall g' s, length (dk_from G s g') = length g'.
Proof.
  induction g' as [|x g' IH]; intros s; [reflexivity|].
  rewrite dk_from_cons. unfold dstep. simpl. rewrite IH. reflexivity.
Qed.

Lemma dk_from_spec G : forall g' pre s, G = pre ++ g' -> length pre = s ->
  forall t, t < length g' -> (forall j, In j (succs G (s + t)) -> s + t < j) ->
    nth t (dk_from G s g') dummy_key
    = CT (ntype G (s + t))
         (ksort (map (fun j => nth (j - s) (dk_from G s g') dummy_key) (succs G (s + t)))).
Proof.
  induction g' as [|x g' IH]; intros pre s EG Hs t Ht Hsucc; [simpl in Ht; lia|].
  rewrite dk_from_cons. unfold dstep. cbn [fst snd]. destruct t as [|t].
  - rewrite Nat.add_0_r in *. cbn [nth].
    assert (En : nth s G dnode = x).
    { rewrite EG. rewrite app_nth2 by lia. rewrite Hs, Nat.sub_diag. reflexivity. }
    unfold ntype. rewrite En. f_equal. f_equal. apply map_ext_in. intros j Hj.
    specialize (Hsucc j Hj). replace (j - s) with (S (j - S s)) by lia. reflexivity.
  - cbn [nth]. simpl in Ht.
    assert (EG' : G = (pre ++ [x]) ++ g') by (rewrite <- app_assoc; exact EG).
    assert (Hs' : length (pre ++ [x]) = S s) by (rewrite app_length; simpl; lia).
    replace (s + S t) with (S s + t) in * by lia.
    rewrite (IH (pre ++ [x]) (S s) EG' Hs' t) by (auto; lia).
    f_equal. f_equal. apply map_ext_in. intros j Hj.
    specialize (Hsucc j Hj). replace (j - s) with (S (j - S s)) by lia. reflexivity.
Qed.

Lemma desc_keys_length g : length (desc_keys g) = length g.
Proof. rewrite desc_keys_dk_from. apply dk_from_length. Qed.

Lemma desc_keys_nth g i : topo g -> i < length g ->
  nth i (desc_keys g) dummy_key
  = CT (ntype g i) (ksort (map (fun j => nth j (desc_keys g) dummy_key) (succs g i))).
Proof.
  intros Ht Hi. rewrite desc_keys_dk_from.
  rewrite (dk_from_spec g g [] 0 eq_refl eq_refl i Hi).
  - simpl. f_equal. f_equal. apply map_ext. intros j. rewrite Nat.sub_0_r. reflexivity.
  - simpl. intros j Hj. eapply succs_gt; eassumption.
Qed.

Lemma akey_f_table g : topo g -> forall fuel i, i < fuel -> i < length g ->
  akey_f fuel g i = nth i (anc_keys g) dummy_key.
Proof.
  intros Ht. induction fuel as [|fuel IH]; intros i Hf Hi; [lia|].
  rewrite (anc_keys_nth g i Ht Hi). simpl. f_equal. f_equal.
  apply map_ext_in. intros j Hj. rewrite ndedup_In in Hj. specialize (Ht i j Hi Hj).
  apply IH; lia.
Qed.

Lemma dkey_f_table g : topo g -> forall fuel i, length g - i <= fuel -> i < length g ->
  dkey_f fuel g i = nth i (desc_keys g) dummy_key.
Proof.
  intros Ht. induction fuel as [|fuel IH]; intros i Hf Hi; [lia|].
  rewrite (desc_keys_nth g i Ht Hi). simpl. f_equal. f_equal.
  apply map_ext_in. intros j Hj. pose proof (succs_gt g i j Ht Hj) as Hgt.
  apply succs_In in Hj. destruct Hj as [Hj _]. apply IH; lia.
Qed.

Theorem key_tables_spec : forall g, topo_b g = true ->
  length (anc_keys g) = length g /\ length (desc_keys g) = length g /\
  forall i, i < length g ->
    nth i (anc_keys g) dummy_key = akey g i /\ nth i (desc_keys g) dummy_key = dkey g i.
Proof.
  intros g Ht. apply topo_b_topo in Ht.
  split; [apply anc_keys_length|]. split; [apply desc_keys_length|].
  intros i Hi. split; symmetry.
  - apply akey_f_table; auto.
  - apply dkey_f_table; auto.
Qed.

(** the fuel-free recursive equations *)
Theorem akey_eq : forall g i, topo_b g = true -> i < length g ->
  akey g i = CT (ntype g i) (ksort (map (akey g) (ndedup (npreds g i)))).
Proof.
  intros g i Ht Hi. apply topo_b_topo in Ht.
  unfold akey at 1. rewrite (akey_f_table g Ht (S i) i) by lia.
  rewrite (anc_keys_nth g i Ht Hi). f_equal. f_equal. apply map_ext_in. intros j Hj.
  rewrite ndedup_In in Hj. pose proof (Ht i j Hi Hj). symmetry. apply akey_f_table; auto; lia.
Qed.

Theorem dkey_eq : forall g i, topo_b g = true -> i < length g ->
  dkey g i = CT (ntype g i) (ksort (map (dkey g) (succs g i))).
Proof.
  intros g i Ht Hi. apply topo_b_topo in Ht.
  unfold dkey at 1. rewrite (dkey_f_table g Ht (length g - i) i) by lia.
  rewrite (desc_keys_nth g i Ht Hi). f_equal. f_equal. apply map_ext_in. intros j Hj.
  apply succs_In in Hj. destruct Hj as [Hj _]. symmetry. apply dkey_f_table; auto; lia.
Qed.

(** * Target 3: the canonical form is invariant under isomorphism *)

Lemma NoDup_map_inj_on {A B} (f : A -> B) : forall l,
  (forall a b, In a l -> In b l -> f a = f b -> a = b) -> NoDup l -> NoDup (map f l).
Proof.
  induction l as [|x l IH]; intros Hinj Hnd; simpl; [constructor|].
  inversion Hnd as [|x' l' Hni Hnd']; subst. constructor.
  - intros Hin. apply in_map_iff in Hin. destruct Hin as [y [E Hy]].
    assert (y = x) by (apply Hinj; [right; exact Hy | left; reflexivity | exact E]).
    subst y. contradiction.
  - apply IH; [|exact Hnd']. intros a b Ha Hb. apply Hinj; right; assumption.
Qed.

Lemma inj_surj n f :
  (forall i, i < n -> f i < n) ->
  (forall i j, i < n -> j < n -> f i = f j -> i = j) ->
  forall y, y < n -> exists x, x < n /\ f x = y.
Proof.
  intros Hr Hinj y Hy.
  assert (Hnd : NoDup (map f (seq 0 n))).
  { apply NoDup_map_inj_on; [|apply seq_NoDup].
    intros a b Ha Hb. apply in_seq in Ha. apply in_seq in Hb. apply Hinj; lia. }
  assert (Hincl : incl (map f (seq 0 n)) (seq 0 n)).
  { intros z Hz. apply in_map_iff in Hz. destruct Hz as [x [E Hx]]. subst z.
    apply in_seq in Hx. apply in_seq. specialize (Hr x). lia. }
  assert (Hrev : incl (seq 0 n) (map f (seq 0 n))).
  { apply NoDup_length_incl; [exact Hnd | rewrite map_length; lia | exact Hincl]. }
  assert (Hin : In y (seq 0 n)) by (apply in_seq; lia).
  apply Hrev in Hin. apply in_map_iff in Hin. destruct Hin as [x [E Hx]].
  exists x. apply in_seq in Hx. split; [lia | exact E].
Qed.

Section IsoInvariance.
  Variables g1 g2 : jobgraph.
  Variable f : nat -> nat.
  Hypothesis Ht1 : topo g1.
  Hypothesis Ht2 : topo g2.
  Hypothesis Hlen : length g1 = length g2.
  Hypothesis Hrange : forall i, i < length g1 -> f i < length g2.
  Hypothesis Hinj : forall i j, i < length g1 -> j < length g1 -> f i = f j -> i = j.
  Hypothesis Htype : forall i, i < length g1 -> ntype g2 (f i) = ntype g1 i.
  Hypothesis Hpred : forall i j, i < length g1 -> j < length g1 ->
                       (In j (npreds g1 i) <-> In (f j) (npreds g2 (f i))).

  Lemma iso_surj : forall y, y < length g2 -> exists x, x < length g1 /\ f x = y.
  Proof.
    intros y Hy. rewrite <- Hlen in Hy.
    apply (inj_surj (length g1) f); [|exact Hinj | exact Hy].
    intros i Hi. rewrite Hlen. apply Hrange, Hi.
  Qed.

  Lemma iso_preds_onto i j' : i < length g1 -> In j' (npreds g2 (f i)) ->
    exists j, j < length g1 /\ In j (npreds g1 i) /\ f j = j'.
  Proof.
    intros Hi Hj'. pose proof (Ht2 (f i) j' (Hrange i Hi) Hj') as Hlt.
    destruct (iso_surj j') as [j [Hj E]]; [specialize (Hrange i Hi); lia|].
    exists j. split; [exact Hj|]. split; [|exact E]. apply Hpred; [exact Hi | exact Hj|].
    rewrite E. exact Hj'.
  Qed.

  Lemma iso_preds_perm i : i < length g1 ->
    Permutation (map f (ndedup (npreds g1 i))) (ndedup (npreds g2 (f i))).
  Proof.
    intros Hi. apply NoDup_Permutation.
    - apply NoDup_map_inj_on; [|apply ndedup_NoDup].
      intros a b Ha Hb. rewrite ndedup_In in Ha, Hb.
      pose proof (Ht1 i a Hi Ha). pose proof (Ht1 i b Hi Hb). apply Hinj; lia.
    - apply ndedup_NoDup.
    - intros y. rewrite ndedup_In, in_map_iff. split.
      + intros [j [E Hj]]. subst y. rewrite ndedup_In in Hj.
        pose proof (Ht1 i j Hi Hj). apply Hpred; [exact Hi | lia | exact Hj].
      + intros Hy. destruct (iso_preds_onto i y Hi Hy) as [j [Hj [Hin E]]].
        exists j. split; [exact E|]. apply ndedup_In. exact Hin.
  Qed.

  Lemma iso_succs_perm i : i < length g1 ->
    Permutation (map f (succs g1 i)) (succs g2 (f i)).
  Proof.
    intros Hi. apply NoDup_Permutation.
    - apply NoDup_map_inj_on; [|apply succs_NoDup].
      intros a b Ha Hb. apply succs_In in Ha. apply succs_In in Hb. apply Hinj; tauto.
    - apply succs_NoDup.
    - intros y. rewrite in_map_iff. split.
      + intros [j [E Hj]]. subst y. apply succs_In in Hj. destruct Hj as [Hj Hin].
        apply succs_In. split; [apply Hrange, Hj|]. apply Hpred; assumption.
      + intros Hy. apply succs_In in Hy. destruct Hy as [Hy Hin].
        destruct (iso_surj y Hy) as [j [Hj E]]. exists j. split; [exact E|].
        apply succs_In. split; [exact Hj|]. apply Hpred; [exact Hj | exact Hi|].
        rewrite E. exact Hin.
  Qed.

  Lemma iso_anc : forall i, i < length g1 ->
    nth (f i) (anc_keys g2) dummy_key = nth i (anc_keys g1) dummy_key.
  Proof.
    induction i as [i IH] using lt_wf_ind. intros Hi.
    rewrite (anc_keys_nth g2 (f i) Ht2 (Hrange i Hi)), (anc_keys_nth g1 i Ht1 Hi).
    rewrite (Htype i Hi). f_equal.
    rewrite <- (ksort_canon _ _ (Permutation_map _ (iso_preds_perm i Hi))).
    rewrite map_map. f_equal. apply map_ext_in. intros j Hj. rewrite ndedup_In in Hj.
    pose proof (Ht1 i j Hi Hj). apply IH; lia.
  Qed.

  Lemma iso_desc : forall m i, length g1 - i <= m -> i < length g1 ->
    nth (f i) (desc_keys g2) dummy_key = nth i (desc_keys g1) dummy_key.
  Proof.
    induction m as [|m IH]; intros i Hm Hi; [lia|].
    rewrite (desc_keys_nth g2 (f i) Ht2 (Hrange i Hi)), (desc_keys_nth g1 i Ht1 Hi).
    rewrite (Htype i Hi). f_equal.
    rewrite <- (ksort_canon _ _ (Permutation_map _ (iso_succs_perm i Hi))).
    rewrite map_map. f_equal. apply map_ext_in. intros j Hj.
    pose proof (succs_gt g1 i j Ht1 Hj). apply succs_In in Hj. destruct Hj as [Hj _].
    apply IH; lia.
  Qed.

  Lemma iso_seq_perm : Permutation (map f (seq 0 (length g1))) (seq 0 (length g1)).
  Proof.
    apply NoDup_Permutation.
    - apply NoDup_map_inj_on; [|apply seq_NoDup].
      intros a b Ha Hb. apply in_seq in Ha. apply in_seq in Hb. apply Hinj; lia.
    - apply seq_NoDup.
    - intros y. rewrite in_map_iff. split.
      + intros [x [E Hx]]. subst y. apply in_seq in Hx. apply in_seq.
        assert (Hx' : x < length g1) by lia. specialize (Hrange x Hx'). lia.
      + intros Hy. apply in_seq in Hy. destruct (iso_surj y) as [x [Hx E]]; [lia|].
        exists x. split; [exact E | apply in_seq; lia].
  Qed.

  Lemma iso_canon : canon g1 = canon g2.
  Proof.
    unfold canon.
    rewrite (combine_nth_seq dummy_key dummy_key (anc_keys g1) (desc_keys g1) (length g1)
               (anc_keys_length g1) (desc_keys_length g1)).
    rewrite (combine_nth_seq dummy_key dummy_key (anc_keys g2) (desc_keys g2) (length g1)) by
      (rewrite ?anc_keys_length, ?desc_keys_length; auto).
    rewrite !map_map. cbn [fst snd].
    rewrite <- (ksort_canon _ _ (Permutation_map
                  (fun i => CT 1 [nth i (anc_keys g2) dummy_key; nth i (desc_keys g2) dummy_key])
                  iso_seq_perm)).
    rewrite map_map. f_equal. apply map_ext_in. intros i Hi. apply in_seq in Hi.
    rewrite iso_anc by lia. rewrite (iso_desc (length g1) i) by lia. reflexivity.
  Qed.
End IsoInvariance.

Theorem canon_iso_invariant : forall g1 g2,
  topo_b g1 = true -> topo_b g2 = true -> Iso g1 g2 -> canon g1 = canon g2.
Proof.
  intros g1 g2 H1 H2 [Hlen [f [Hr [Hi [Hty Hp]]]]].
  apply topo_b_topo in H1. apply topo_b_topo in H2.
  exact (iso_canon g1 g2 f H1 H2 Hlen Hr Hi Hty Hp).
Qed.

(** what the definition of [Iso] leaves implicit: [f] is onto, and every predecessor of [f i]
    is the image of a predecessor of [i] *)
Theorem Iso_surj : forall (g1 g2 : jobgraph) f,
  length g1 = length g2 ->
  (forall i, i < length g1 -> f i < length g2) ->
  (forall i j, i < length g1 -> j < length g1 -> f i = f j -> i = j) ->
  forall y, y < length g2 -> exists x, x < length g1 /\ f x = y.
Proof. intros g1 g2 f Hlen Hr Hi. exact (iso_surj g1 g2 f Hlen Hr Hi). Qed.

Theorem Iso_preds_onto : forall (g1 g2 : jobgraph) f,
  topo_b g2 = true ->
  length g1 = length g2 ->
  (forall i, i < length g1 -> f i < length g2) ->
  (forall i j, i < length g1 -> j < length g1 -> f i = f j -> i = j) ->
  (forall i j, i < length g1 -> j < length g1 ->
               (In j (npreds g1 i) <-> In (f j) (npreds g2 (f i)))) ->
  forall i j', i < length g1 -> In j' (npreds g2 (f i)) ->
    exists j, j < length g1 /\ In j (npreds g1 i) /\ f j = j'.
Proof.
  intros g1 g2 f Ht Hlen Hr Hi Hp. apply topo_b_topo in Ht.
  exact (iso_preds_onto g1 g2 f Ht Hlen Hr Hi Hp).
Qed.

(** * Target 6: no false alarm *)

Theorem accepts_iso : forall k d g j,
  In g (jobs k d) -> topo_b j = true -> Iso g j -> accepts_b k d j = true.
Proof.
  intros k d g j Hg Hj Hiso. apply accepts_b_spec. split; [exact Hj|].
  exists g. split; [exact Hg|]. apply canon_iso_invariant; [|exact Hj | exact Hiso].
  eapply jobs_topo, Hg.
Qed.

(** * Target 8: non-vacuity *)

Example ex_diamond_topo : topo_b ex_diamond1 = true /\ topo_b ex_diamond2 = true.
Proof. split; vm_compute; reflexivity. Qed.

(** two differently ordered presentations of the diamond (the second one also lists a
    predecessor twice) are isomorphic ... *)
Example ex_diamond_iso : Iso ex_diamond1 ex_diamond2.
Proof.
  split; [reflexivity|]. exists ex_swap12. simpl. repeat split.
  - intros i Hi. do 4 (destruct i as [|i]; [simpl; lia|]). lia.
  - intros i j Hi Hj. do 4 (destruct i as [|i]; [do 4 (destruct j as [|j]; [simpl; lia|]); lia|]). lia.
  - intros i Hi. do 4 (destruct i as [|i]; [reflexivity|]). lia.
  - do 4 (destruct i as [|i]; [do 4 (destruct j as [|j]; [simpl; intuition lia|]); lia|]). lia.
  - do 4 (destruct i as [|i]; [do 4 (destruct j as [|j]; [simpl; intuition lia|]); lia|]). lia.
Qed.

(** ... and have the same canonical form (by computation, and by the theorem) *)
Example ex_diamond_canon : canon ex_diamond1 = canon ex_diamond2.
Proof. vm_compute. reflexivity. Qed.

Example ex_diamond_canon' : canon ex_diamond1 = canon ex_diamond2.
Proof.
  apply canon_iso_invariant; [apply ex_diamond_topo | apply ex_diamond_topo | apply ex_diamond_iso].
Qed.

(** the diagram 1; fork {2 | 3}; 4 has exactly one run, the diamond; the reordered presentation
    is accepted (by computation and by [accepts_iso]); a different graph is rejected *)
Example ex_diag_jobs : jobs 1 ex_diag = [ex_diamond1].
Proof. vm_compute. reflexivity. Qed.

Example ex_diag_accepts : accepts_b 1 ex_diag ex_diamond2 = true.
Proof. vm_compute. reflexivity. Qed.

Example ex_diag_accepts' : accepts_b 1 ex_diag ex_diamond2 = true.
Proof.
  apply (accepts_iso 1 ex_diag ex_diamond1);
    [rewrite ex_diag_jobs; left; reflexivity | apply ex_diamond_topo | apply ex_diamond_iso].
Qed.

Example ex_diag_rejects :
  accepts_b 1 ex_diag [(1%positive, []); (2%positive, [0]); (3%positive, [1]); (4%positive, [2])] = false
  /\ rejected 1 ex_diag [ex_diamond2; ex_twoA; ex_diamond1] = [1].
Proof. split; vm_compute; reflexivity. Qed.

Example ex_incl : incl_b 1 1 ex_diag ex_diag = true /\ not_included 1 1 ex_diag ex_diag = []
  /\ incl_b 1 1 ex_diag [Ev 1%positive] = false.
Proof. repeat split; vm_compute; reflexivity. Qed.

(** [runs_topo] on a diagram with a loop, a break, an OR fork and a detach: 12 runs for k = 2 *)
Example ex_loop_runs_topo :
  length (runs_seq 2 ex_loop_diag) = 12 /\ forallb (fun f => topo_b (close f)) (runs_seq 2 ex_loop_diag) = true.
Proof. split; vm_compute; reflexivity. Qed.

(** the key equations on a concrete node *)
Example ex_keys :
  akey ex_diamond1 3 = CT 4 [CT 2 [CT 1 []]; CT 3 [CT 1 []]] /\
  dkey ex_diamond1 0 = CT 1 [CT 2 [CT 4 []]; CT 3 [CT 4 []]].
Proof. split; vm_compute; reflexivity. Qed.

(** * Target 7: the canonical form is NOT complete *)

(** [ex_twoA] and [ex_twoB] (CanonSpec.v) are both topologically ordered, have the same canonical
    form, and are not isomorphic: in A the node with two successors (X1) shares the successor Y1
    with X2; in B the two successors of X1 have no other predecessor. *)
Example canon_not_complete :
  topo_b ex_twoA = true /\ topo_b ex_twoB = true /\
  canon ex_twoA = canon ex_twoB /\ ~ Iso ex_twoA ex_twoB.
Proof.
  split; [vm_compute; reflexivity|]. split; [vm_compute; reflexivity|].
  split; [vm_compute; reflexivity|].
  intros [_ [f [Hr [Hinj [_ Hp]]]]]. simpl in Hr, Hinj, Hp.
  assert (H3 : f 3 < 6) by (apply Hr; lia).
  assert (H4 : f 4 < 6) by (apply Hr; lia).
  assert (N01 : f 0 <> f 1) by (intros E; apply Hinj in E; lia).
  assert (N34 : f 3 <> f 4) by (intros E; apply Hinj in E; lia).
  assert (H03 : In (f 0) (npreds ex_twoB (f 3))) by (apply Hp; [lia | lia | simpl; auto]).
  assert (H13 : In (f 1) (npreds ex_twoB (f 3))) by (apply Hp; [lia | lia | simpl; auto]).
  assert (H04 : In (f 0) (npreds ex_twoB (f 4))) by (apply Hp; [lia | lia | simpl; auto]).
  clear Hr Hinj Hp.
  destruct (f 3) as [|[|[|[|[|[|a]]]]]]; try lia; simpl in H03, H13; try tauto;
    destruct (f 4) as [|[|[|[|[|[|b]]]]]]; try lia; simpl in H04; try tauto; lia.
Qed.

(** * Assumptions *)
Print Assumptions canon_eqb_eq.
Print Assumptions key_tables_spec.
Print Assumptions akey_eq.
Print Assumptions dkey_eq.
Print Assumptions canon_iso_invariant.
Print Assumptions Iso_surj.
Print Assumptions Iso_preds_onto.
Print Assumptions runs_topo.
Print Assumptions accepts_b_spec.
Print Assumptions incl_b_spec.
Print Assumptions rejected_spec.
Print Assumptions not_included_spec.
Print Assumptions accepts_iso.
Print Assumptions canon_not_complete.
Print Assumptions ex_diamond_iso.
Print Assumptions ex_diag_accepts'.
