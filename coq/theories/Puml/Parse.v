(** Recursive-descent parser for the token grammar of [Puml.Syntax] (the inverse of [print] on
    well-formed diagrams).  Fuel-driven: every recursive call consumes at least one token, so
    [S (length ts)] units of fuel always suffice.  No proofs in this file. *)
From Coq Require Import List Bool PArith.
From V Require Import Puml.Ast Puml.Syntax.
Import ListNotations.

Definition nonempty {A : Type} (l : list A) : bool := match l with [] => false | _ :: _ => true end.

Definition is_separator (k : kind) (t : token) : bool :=
  match k, t with
  | AND, TForkAgain | OR, TSplitAgain | XOR, TCase => true
  | _, _ => false
  end.

Definition is_closer (k : kind) (t : token) : bool :=
  match k, t with
  | AND, TEndFork | OR, TEndSplit | XOR, TEndSwitch => true
  | _, _ => false
  end.

(** Result of looking at the first token of a sequence. *)
Inductive item :=
| IErr                                 (* malformed block *)
| IStop                                (* the token does not start an item: the sequence ends here *)
| ILast (b : blk) (rest : list token)  (* break / detach: must be the last item of the sequence *)
| IBlk (b : blk) (rest : list token).  (* an event, fork or loop; the sequence may go on *)

Section Item.
  (** open recursion: [pseq] parses a maximal sequence, [pbr k] parses
      [(separator k · non-empty sequence)* · closer k] *)
  Variable pseq : list token -> option (list blk * list token).
  Variable pbr : kind -> list token -> option (list (list blk) * list token).

  Definition parse_fork (k : kind) (r : list token) : item :=
    match k with
    | XOR =>
        (* switch: every branch, the first included, is introduced by [TCase] *)
        match pbr XOR r with
        | Some (bs, r') => if nonempty bs then IBlk (Fork XOR bs) r' else IErr
        | None => IErr
        end
    | _ =>
        (* fork / split: first branch follows the opener directly *)
        match pseq r with
        | Some (s, r1) =>
            if nonempty s then
              match pbr k r1 with
              | Some (bs, r') => IBlk (Fork k (s :: bs)) r'
              | None => IErr
              end
            else IErr
        | None => IErr
        end
    end.

  Definition parse_item (t : token) (r : list token) : item :=
    match t with
    | TEvent e => IBlk (Ev e) r
    | TBreak => ILast Break r
    | TDetach => ILast Detach r
    | TRepeat =>
        match pseq r with
        | Some (body, r1) =>
            if nonempty body then
              match r1 with
              | TRepeatWhile :: r2 => IBlk (Loop body) r2
              | _ => IErr
              end
            else IErr
        | None => IErr
        end
    | TFork => parse_fork AND r
    | TSplit => parse_fork OR r
    | TSwitch => parse_fork XOR r
    | _ => IStop
    end.
End Item.

(** [parse_seq fuel ts]: the longest sequence of items at the front of [ts] and what follows it
    (a token that starts no item, or the end of input).  After [break]/[detach] the sequence is
    closed at once, so a following item makes the enclosing construct fail on its closer check. *)
Fixpoint parse_seq (fuel : nat) (ts : list token) {struct fuel}
  : option (list blk * list token) :=
  match fuel with
  | O => None
  | S f =>
      match ts with
      | [] => Some ([], [])
      | t :: r =>
          match parse_item (parse_seq f) (parse_branches f) t r with
          | IErr => None
          | IStop => Some ([], ts)
          | ILast b r' => Some ([b], r')
          | IBlk b r' =>
              match parse_seq f r' with
              | Some (s, r'') => Some (b :: s, r'')
              | None => None
              end
          end
      end
  end

with parse_branches (fuel : nat) (k : kind) (ts : list token) {struct fuel}
  : option (list (list blk) * list token) :=
  match fuel with
  | O => None
  | S f =>
      match ts with
      | [] => None
      | t :: r =>
          if is_closer k t then Some ([], r)
          else if is_separator k t then
            match parse_seq f r with
            | Some (s, r1) =>
                if nonempty s then
                  match parse_branches f k r1 with
                  | Some (bs, r2) => Some (s :: bs, r2)
                  | None => None
                  end
                else None
            | None => None
            end
          else None
      end
  end.

Definition is_footer (ts : list token) : bool :=
  match ts with
  | [TEndGroup; TClose; TEndUml] => true
  | _ => false
  end.

(** Whole file: [@startuml], [partition "n" {], [group "n"] (same name), a sequence,
    [end group], [}], [@enduml], nothing after. *)
Definition parse (ts : list token) : option (positive * diagram) :=
  match ts with
  | TStartUml :: TPartition n :: TGroup n' :: r =>
      if Pos.eqb n n' then
        match parse_seq (S (length r)) r with
        | Some (d, r') => if is_footer r' then Some (n, d) else None
        | None => None
        end
      else None
  | _ => None
  end.
