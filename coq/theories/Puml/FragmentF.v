(** The supported fragment F of block-structured job definitions (quantifier text of C01/C02),
    as a boolean predicate.  Every pool definition is certified [inF_b d = true] by the checks.
    Where the text leaves room, this predicate takes the narrower reading (so pool members are in F
    under any reading).  No proofs in this file. *)
From Coq Require Import List Bool PArith Arith.
From V Require Import Puml.Ast.
Import ListNotations.

Definition is_block (b : blk) : bool := match b with Fork _ _ | Loop _ => true | _ => false end.
Definition is_ev (b : blk) : bool := match b with Ev _ => true | _ => false end.

(** shape of a sequence: begins with an event; a fork/loop and a break/detach are each directly
    preceded by an event (hence consecutive forks/loops are separated by an event) *)
Fixpoint seq_shape (prev_ev : bool) (s : list blk) : bool :=
  match s with
  | [] => true
  | b :: r => (is_ev b || prev_ev) && seq_shape (is_ev b) r
  end.
Definition begins_with_event (s : list blk) : bool :=
  match s with Ev _ :: _ => true | _ => false end.

Definition is_break_branch (s : list blk) : bool :=
  match s with [Ev _; Break] => true | _ => false end.
Definition has_break (s : list blk) : bool := existsb (fun b => match b with Break => true | _ => false end) s.
Definition ends_detach (s : list blk) : bool :=
  match rev s with Detach :: _ => true | _ => false end.
Definition has_detach (s : list blk) : bool := existsb (fun b => match b with Detach => true | _ => false end) s.

(** [okb depth loops top b]: b is allowed at fork/loop nesting [depth], inside [loops] enclosing
    loops; [top] = we are directly in the top-level sequence (depth 0, outside loops).
    [brk] says whether break branches are allowed in an XOR here (directly in a loop body). *)
Fixpoint okb (fuel : nat) (depth loops : nat) (top brk : bool) (b : blk) {struct fuel} : bool :=
  match fuel with
  | O => false
  | S f =>
      let oks := fun (d l : nat) (tp bk : bool) (s : list blk) =>
                   begins_with_event s && seq_shape false s && forallb (okb f d l tp bk) s in
      match b with
      | Ev _ => true
      | Break | Detach => true        (* placement is checked by the enclosing fork *)
      | Fork k bs =>
          Nat.ltb depth 3
          && (Nat.leb 2 (length bs) && Nat.leb (length bs) 3)
          && (let nbreak := length (filter is_break_branch bs) in
              let plain := filter (fun s => negb (is_break_branch s)) bs in
              (* break branches: only in an XOR directly in a loop body, [Ev; Break], at most one when
                 the loop is nested, and at least one ordinary branch remains *)
              (if Nat.ltb 0 nbreak
               then kind_eqb k XOR && brk && Nat.leb nbreak (if Nat.ltb 1 loops then 1 else 2)
                    && Nat.leb 1 (length plain)
               else true)
              && forallb (fun s => negb (has_break s)) plain
              (* detach: only the last item of a branch of a top-level AND/OR fork, not in every branch *)
              && forallb (fun s => if has_detach s
                                   then top && negb (kind_eqb k XOR) && ends_detach s
                                        && Nat.eqb (length (filter (fun b => match b with Detach => true | _ => false end) s)) 1
                                   else true) plain
              && existsb (fun s => negb (has_detach s)) plain
              && forallb (fun s => oks (S depth) loops false false s) plain)
      | Loop body =>
          Nat.ltb depth 3
          && negb (has_break body) && negb (has_detach body)
          && oks (S depth) (S loops) false true body
      end
  end.

Fixpoint size_blk (b : blk) : nat :=
  match b with
  | Fork _ bs => S (fold_right (fun s acc => fold_right (fun b' a => size_blk b' + a) acc s) 0 bs)
  | Loop body => S (fold_right (fun b' a => size_blk b' + a) 0 body)
  | _ => 1
  end.

Fixpoint pos_nodup (l : list positive) : bool :=
  match l with [] => true | x :: r => negb (existsb (Pos.eqb x) r) && pos_nodup r end.

Definition inF_b (d : diagram) : bool :=
  let fuel := S (fold_right (fun b a => size_blk b + a) 0 d) in
  pos_nodup (events_of d)
  && begins_with_event d && seq_shape false d
  && negb (has_break d) && negb (has_detach d)
  && forallb (okb fuel 0 0 true false) d.
