(** Executable interface between the harness and [Puml.Linearise]: compare the text really emitted
    by [PUMLGraph.write_puml_string] with the model, and certify one exported graph.
    No proofs in this file (soundness: LineariseProofs.lin_agrees_sound, lin_check_block).

    * Term conventions (how the harness writes an exported PUMLGraph as a Coq term)

    A graph is [PGraph nodes succ head]:
    - [nodes]: one pair [(i, payload)] per element of [list(graph.nodes)], [i] = its position
      (0-based, a [nat]) -- any injective numbering works, the printer only looks ids up;
    - [succ]: one pair [(i, [j1; ...; jk])] per node, [j1 .. jk] = [list(graph.succ[node])] in
      that (insertion) order: the DFS follows it;
    - [head]: position of [list(networkx.topological_sort(graph))[0]]; [0] for an empty graph.
      ([heads_ok g] recomputes it as the first node of in-degree 0 and compares, recursively.)
    Payloads:
    - PUMLEventNode without sub graph: [PEvent e brk], [e : positive] = interned label, i.e. the
      text between ':' and ';' that [_write_event_blocks] prints (the node_type, plus
      [",BCNT,user=<type>,name=BC<n>"] for a branch event), [brk] = [PUMLEvent.BREAK in event_types];
    - PUMLEventNode with sub graph: [PLoop g brk] if [PUMLEvent.LOOP in event_types] else [PSub g brk],
      [g] the exported sub graph;
    - PUMLOperatorNode: [POp o k], [o] = OStart | OPath | OEnd, [k] = KGate XOR | KGate AND |
      KGate OR | KLoop, from [operator_type.value];
    - PUMLKillNode: [PKill].
    Tokens are those of harness/pumllib.tokenize with the same interner: [TEvent e], [TPartition n],
    [TGroup n] ([n] = interned diagram name, the [name] argument of [lin_agrees]), and the
    constant tokens of [Puml.Syntax].  With the [Arguments] declarations below plain numerals
    can be used for positives inside [PEvent]/[TEvent]/[TPartition]/[TGroup] while [nat_scope]
    stays the default for ids. *)
From Coq Require Import List Bool PArith Arith.
From V Require Import Puml.Ast Puml.Syntax Puml.Parse Puml.Linearise.
Import ListNotations.

Arguments TEvent e%positive.
Arguments TPartition name%positive.
Arguments TGroup name%positive.
Arguments Ev e%positive.

Definition tok_eqb (a b : token) : bool :=
  match a, b with
  | TEvent x, TEvent y | TPartition x, TPartition y | TGroup x, TGroup y => Pos.eqb x y
  | TStartUml, TStartUml | TSwitch, TSwitch | TCase, TCase | TEndSwitch, TEndSwitch
  | TFork, TFork | TForkAgain, TForkAgain | TEndFork, TEndFork
  | TSplit, TSplit | TSplitAgain, TSplitAgain | TEndSplit, TEndSplit
  | TRepeat, TRepeat | TRepeatWhile, TRepeatWhile | TBreak, TBreak | TDetach, TDetach
  | TEndGroup, TEndGroup | TClose, TClose | TEndUml, TEndUml => true
  | _, _ => false
  end.

Fixpoint toks_eqb (a b : list token) : bool :=
  match a, b with
  | [], [] => true
  | x :: r, y :: s => tok_eqb x y && toks_eqb r s
  | _, _ => false
  end.

(** the model reproduces the emitted text *)
Definition lin_agrees (name : positive) (g : pgraph) (ts : list token) : bool :=
  match linearise name g with Some l => toks_eqb l ts | None => false end.

Inductive verdict :=
| VModelMismatch                       (* model and code disagree: a bug in the model or the export *)
| VBadHead                             (* exported head is not what topo_head computes *)
| VBlock (d : diagram) (wf_d : bool)   (* block shaped: the text is [print name d] *)
| VNotBlock (parses : bool).           (* the DFS tree is not block shaped (malformed output) *)

Definition lin_check (name : positive) (g : pgraph) (ts : list token) : verdict :=
  if negb (lin_agrees name g ts) then VModelMismatch
  else if negb (heads_ok g) then VBadHead
  else match is_block_graph g with
       | Some d => VBlock d (wf d)
       | None => VNotBlock (match parse ts with Some _ => true | None => false end)
       end.

(** indices of the cases on which model and code disagree / whose output is malformed *)
Definition lin_failures (cases : list (nat * positive * pgraph * list token)) : list nat :=
  map (fun c => fst (fst (fst c)))
      (filter (fun c => negb (lin_agrees (snd (fst (fst c))) (snd (fst c)) (snd c))) cases).

Definition lin_malformed (cases : list (nat * positive * pgraph * list token)) : list nat :=
  map (fun c => fst (fst (fst c)))
      (filter (fun c => match lin_check (snd (fst (fst c))) (snd (fst c)) (snd c) with
                        | VBlock _ true => false
                        | _ => true
                        end) cases).
