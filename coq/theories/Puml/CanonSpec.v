(** Specification-side definitions for the canonical form of job graphs (Puml/Canon.v) and the
    validators built on it (Puml/Accept.v): node accessors, the recursive ancestor / descendant
    keys, graph isomorphism, the propositional reading of [topo_b] and the fragment invariant of
    the execution semantics.  Definitions only, no proofs (CanonProofs.v). *)
From Coq Require Import List Bool PArith Arith.
From V Require Import Puml.Ast Puml.Exec Store.Unique Puml.Canon.
Import ListNotations.

(** node accessors (out of range: type 1, no predecessors) *)
Definition dnode : evt * list nat := (1%positive, []).
Definition ntype (g : jobgraph) (i : nat) : evt := fst (nth i g dnode).
Definition npreds (g : jobgraph) (i : nat) : list nat := snd (nth i g dnode).

(** propositional reading of [topo_b]: every predecessor index is smaller than the node's own
    index (hence also < length g: no dangling references) *)
Definition topo (g : jobgraph) : Prop :=
  forall i j, i < length g -> In j (npreds g i) -> j < i.

(** Recursive ancestor key: (type, sorted keys of the distinct predecessors).  Recursion on fuel;
    [akey] gives node i the fuel [S i], which is enough when predecessors point backwards
    ([akey_eq] in CanonProofs.v is the fuel-free recursive equation). *)
Fixpoint akey_f (fuel : nat) (g : jobgraph) (i : nat) : ctree :=
  match fuel with
  | O => dummy_key
  | S f => CT (ntype g i) (ksort (map (akey_f f g) (ndedup (npreds g i))))
  end.
Definition akey (g : jobgraph) (i : nat) : ctree := akey_f (S i) g i.

(** Recursive descendant key: (type, sorted keys of the successors); node i gets fuel
    [length g - i] ([dkey_eq] is the fuel-free equation). *)
Fixpoint dkey_f (fuel : nat) (g : jobgraph) (i : nat) : ctree :=
  match fuel with
  | O => dummy_key
  | S f => CT (ntype g i) (ksort (map (dkey_f f g) (succs g i)))
  end.
Definition dkey (g : jobgraph) (i : nat) : ctree := dkey_f (length g - i) g i.

(** Graph isomorphism: same number of nodes and a map [f] of the node indices of [g1] into those
    of [g2], injective (hence, the index sets being finite of equal size, bijective:
    [Iso_surj]), preserving the event types and the predecessor SETS (multiplicity and order of
    the predecessor lists are irrelevant).  The predecessor clause quantifies over the node
    indices of [g1] only; on graphs without dangling predecessor references (in particular when
    [topo g2]) every predecessor of [f i] in [g2] is then the image of a predecessor of [i]
    ([Iso_preds_onto]). *)
Definition Iso (g1 g2 : jobgraph) : Prop :=
  length g1 = length g2 /\
  exists f : nat -> nat,
    (forall i, i < length g1 -> f i < length g2) /\
    (forall i j, i < length g1 -> j < length g1 -> f i = f j -> i = j) /\
    (forall i, i < length g1 -> ntype g2 (f i) = ntype g1 i) /\
    (forall i j, i < length g1 -> j < length g1 ->
                 (In j (npreds g1 i) <-> In (f j) (npreds g2 (f i)))).

(** Invariant of run fragments: local references point strictly backwards, frontier references
    point at existing local nodes. *)
Definition locs_lt (m : nat) (rs : list ref) : Prop := forall j, In (RLoc j) rs -> j < m.

Fixpoint nodes_ok (off : nat) (ns : list (evt * list ref)) : Prop :=
  match ns with
  | [] => True
  | n :: r => locs_lt off (snd n) /\ nodes_ok (S off) r
  end.

Definition wf_frag (f : frag) : Prop :=
  nodes_ok 0 (fnodes f) /\ locs_lt (length (fnodes f)) (ffront f).

(** the closing map of [close] on one node *)
Definition close_node (n : evt * list ref) : evt * list nat :=
  (fst n, flat_map (fun r => match r with RIn => [] | RLoc j => [j] end) (snd n)).

(** the step functions of the two table constructions, named *)
Definition astep (tbl : list ctree) (n : evt * list nat) : list ctree :=
  tbl ++ [CT (fst n) (ksort (map (fun j => nth j tbl dummy_key) (ndedup (snd n))))].

Definition dstep (G : jobgraph) (p : nat * (evt * list nat)) (tbl : list ctree) : list ctree :=
  CT (fst (snd p)) (ksort (map (fun j => nth (j - S (fst p)) tbl dummy_key) (succs G (fst p)))) :: tbl.

(** descendant table of the suffix [g'] of [G] starting at index [s] *)
Definition dk_from (G : jobgraph) (s : nat) (g' : jobgraph) : list ctree :=
  fold_right (dstep G) [] (combine (seq s (length g')) g').

(** Witnesses for the examples in CanonProofs.v. *)

(** a diamond A -> (B, C) -> D in two presentations *)
Definition ex_diamond1 : jobgraph :=
  [(1%positive, []); (2%positive, [0]); (3%positive, [0]); (4%positive, [1; 2])].
Definition ex_diamond2 : jobgraph :=
  [(1%positive, []); (3%positive, [0]); (2%positive, [0]); (4%positive, [2; 1; 2])].
Definition ex_swap12 (i : nat) : nat := match i with 1 => 2 | 2 => 1 | _ => i end.

Definition ex_diag : diagram := [Ev 1; Fork AND [[Ev 2]; [Ev 3]]; Ev 4]%positive.

(** a loop with a conditional break followed by an OR fork with a detaching branch *)
Definition ex_loop_diag : diagram :=
  [Ev 1; Loop [Ev 2; Fork XOR [[Break]; [Ev 3]]]; Fork OR [[Ev 4]; [Ev 5; Detach]]]%positive.

(** incompleteness witnesses: X1 X2 X3 (type 1), Y1 Y2 Y3 (type 2);
    A: X1->Y1, X2->Y1, X1->Y2, X3->Y3  (components of sizes 4 and 2)
    B: X2->Y1, X3->Y1, X1->Y2, X1->Y3  (components of sizes 3 and 3) *)
Definition ex_twoA : jobgraph :=
  [(1%positive, []); (1%positive, []); (1%positive, []);
   (2%positive, [0; 1]); (2%positive, [0]); (2%positive, [2])].
Definition ex_twoB : jobgraph :=
  [(1%positive, []); (1%positive, []); (1%positive, []);
   (2%positive, [1; 2]); (2%positive, [0]); (2%positive, [0])].
