(** Canonical form of a PV job graph: the sorted multiset of (ancestor key, descendant key) per
    node, where the ancestor key of a node is (type, sorted ancestor keys of its predecessors) and
    dually for descendants.  Invariant under isomorphism (CanonProofs.v).  No proofs in this file. *)
From Coq Require Import List Bool PArith Arith.
From V Require Import Puml.Ast Puml.Exec Store.Unique.
Import ListNotations.

Definition ksort : list ctree -> list ctree := dsort ctree ct_leb.

Fixpoint ndedup (l : list nat) : list nat :=
  match l with
  | [] => []
  | x :: r => if existsb (Nat.eqb x) r then ndedup r else x :: ndedup r
  end.

(** predecessors point backwards (true of every graph produced by [jobs]; the harness sorts
    implementation-side jobs topologically before handing them over) *)
Definition topo_b (g : jobgraph) : bool :=
  forallb (fun p => forallb (fun j => Nat.ltb j (fst p)) (snd (snd p))) (combine (seq 0 (length g)) g).

Definition dummy_key : ctree := CT 1 [].

(** ancestor keys, left to right: table position i = key of node i *)
Definition anc_keys (g : jobgraph) : list ctree :=
  fold_left (fun tbl n => tbl ++ [CT (fst n) (ksort (map (fun j => nth j tbl dummy_key) (ndedup (snd n))))]) g [].

Definition succs (g : jobgraph) (i : nat) : list nat :=
  map fst (filter (fun p => existsb (Nat.eqb i) (snd (snd p))) (combine (seq 0 (length g)) g)).

(** descendant keys, right to left: after processing node i the table holds the keys of nodes
    i .. n-1 in order *)
Definition desc_keys (g : jobgraph) : list ctree :=
  fold_right (fun p tbl =>
                let i := fst p in
                CT (fst (snd p)) (ksort (map (fun j => nth (j - S i) tbl dummy_key) (succs g i))) :: tbl)
             [] (combine (seq 0 (length g)) g).

Definition canon (g : jobgraph) : list ctree :=
  ksort (map (fun p => CT 1 [fst p; snd p]) (combine (anc_keys g) (desc_keys g))).

Fixpoint canon_eqb (a b : list ctree) : bool :=
  match a, b with
  | [], [] => true
  | x :: a', y :: b' => ct_eqb x y && canon_eqb a' b'
  | _, _ => false
  end.

(** the event types occurring in a job *)
Definition types_of (g : jobgraph) : list evt := map fst g.
