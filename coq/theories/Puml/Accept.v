(** Decision procedures used as validators: membership of a job in the language of a diagram and
    language inclusion, both with loops bounded by k.  No proofs in this file. *)
From Coq Require Import List Bool PArith Arith.
From V Require Import Puml.Ast Puml.Exec Puml.Canon Store.Unique.
Import ListNotations.

(** the language of a diagram up to k iterations, as canonical forms *)
Definition lang (k : nat) (d : diagram) : list (list ctree) := map canon (jobs k d).

Definition mem_canon (c : list ctree) (l : list (list ctree)) : bool := existsb (canon_eqb c) l.

(** [accepts_b k d j]: some run of d with <= k iterations denotes a job graph with the canonical
    form of j *)
Definition accepts_b (k : nat) (d : diagram) (j : jobgraph) : bool :=
  topo_b j && mem_canon (canon j) (lang k d).

(** every run of d1 (<= k1 iterations) is accepted by d2 (<= k2 iterations) *)
Definition incl_b (k1 k2 : nat) (d1 d2 : diagram) : bool :=
  let l2 := lang k2 d2 in forallb (fun c => mem_canon c l2) (lang k1 d1).

(** indices of the jobs NOT accepted (what the harness prints) *)
Definition rejected (k : nat) (d : diagram) (js : list jobgraph) : list nat :=
  let l := lang k d in
  map fst (filter (fun p => negb (topo_b (snd p) && mem_canon (canon (snd p)) l)) (combine (seq 0 (length js)) js)).

Definition not_included (k1 k2 : nat) (d1 d2 : diagram) : list nat :=
  let l2 := lang k2 d2 in
  map fst (filter (fun p => negb (mem_canon (snd p) l2)) (combine (seq 0 (length (lang k1 d1))) (lang k1 d1))).

Definition nat_subset (a b : list evt) : bool := forallb (fun x => existsb (Pos.eqb x) b) a.
Definition same_events (a b : list evt) : bool := nat_subset a b && nat_subset b a.
