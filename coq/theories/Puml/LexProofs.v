(** The line lexer inverts the line renderer:  lex (unlines (map render_token ts)) = Some ts
    (also with arbitrary indentation of every line). *)
From Coq Require Import List Bool String Ascii Lia.
From V Require Import Puml.Lex.
Import ListNotations.
Local Open Scope string_scope.

Lemma app_assoc_s (a b c : string) : (a ++ b) ++ c = a ++ b ++ c.
Proof. induction a as [|x a IH]; cbn; [reflexivity|now rewrite IH]. Qed.

Lemma has_char_app c a b : has_char c (a ++ b) = has_char c a || has_char c b.
Proof.
  induction a as [|x a IH]; cbn [append has_char]; [reflexivity|].
  now rewrite IH, orb_assoc.
Qed.

Lemma has_char_spaces c i : c <> space -> has_char c (spaces i) = false.
Proof.
  intros Hc. induction i as [|i IH]; cbn [spaces has_char]; [reflexivity|].
  rewrite IH, orb_false_r. apply Ascii.eqb_neq. congruence.
Qed.

Lemma strip_spaces_spaces i s : strip_spaces (spaces i ++ s) = strip_spaces s.
Proof.
  induction i as [|i IH]; cbn [spaces append strip_spaces]; [reflexivity|].
  now rewrite Ascii.eqb_refl.
Qed.

Lemma strip_prefix_app p s : strip_prefix p (p ++ s) = Some s.
Proof.
  induction p as [|a p IH]; cbn [append strip_prefix]; [reflexivity|].
  now rewrite Ascii.eqb_refl.
Qed.

Lemma until_char_app c n rest :
  has_char c n = false -> until_char c (n ++ String c rest) = Some (n, rest).
Proof.
  induction n as [|a n IH]; cbn [append until_char has_char]; intros H.
  - now rewrite Ascii.eqb_refl.
  - apply orb_false_iff in H. destruct H as [Ha Hn].
    rewrite Ha, (IH Hn). reflexivity.
Qed.

Lemma lex_named_app prefix delim suffix n :
  has_char delim n = false ->
  lex_named prefix delim suffix (prefix ++ n ++ String delim suffix) = Some n.
Proof.
  intros H. unfold lex_named.
  rewrite strip_prefix_app, (until_char_app _ _ _ H), String.eqb_refl. reflexivity.
Qed.

(** ** One line *)

Lemma lex_line_render t :
  token_ok t = true -> lex_line (render_token t) = Some (Some t).
Proof.
  intros Hok. destruct t as [ |n|n|n| | | | | | | | | | | | | | | | ];
    try (vm_compute; reflexivity).
  - (* partition *)
    cbn [token_ok] in Hok. apply andb_true_iff in Hok. destruct Hok as [_ Hq].
    apply negb_true_iff in Hq.
    assert (E : lex_named ("partition " ++ dq) dquote " {" (render_token (LPartition n)) = Some n).
    { cbn [render_token]. unfold dq at 3.
      rewrite <- (lex_named_app ("partition " ++ dq) dquote " {" n Hq).
      f_equal. }
    unfold lex_line.
    replace (strip_spaces (render_token (LPartition n))) with (render_token (LPartition n))
      by reflexivity.
    rewrite E. reflexivity.
  - (* group *)
    cbn [token_ok] in Hok. apply andb_true_iff in Hok. destruct Hok as [_ Hq].
    apply negb_true_iff in Hq.
    assert (E : lex_named ("group " ++ dq) dquote "" (render_token (LGroup n)) = Some n).
    { cbn [render_token]. unfold dq at 3.
      rewrite <- (lex_named_app ("group " ++ dq) dquote "" n Hq).
      f_equal. }
    unfold lex_line.
    replace (strip_spaces (render_token (LGroup n))) with (render_token (LGroup n))
      by reflexivity.
    rewrite E. reflexivity.
  - (* event *)
    cbn [token_ok] in Hok. apply andb_true_iff in Hok. destruct Hok as [_ Hq].
    apply negb_true_iff in Hq.
    assert (E : lex_named ":" semicolon "" (render_token (LEvent n)) = Some n).
    { exact (lex_named_app ":" semicolon "" n Hq). }
    unfold lex_line.
    replace (strip_spaces (render_token (LEvent n))) with (render_token (LEvent n))
      by reflexivity.
    rewrite E. reflexivity.
Qed.

Lemma render_token_first t : exists a r, render_token t = String a r /\ a <> space.
Proof.
  destruct t; cbn; eexists; eexists; (split; [reflexivity|discriminate]).
Qed.

Lemma strip_spaces_render t : strip_spaces (render_token t) = render_token t.
Proof.
  destruct (render_token_first t) as [a [r [-> Ha]]]. cbn [strip_spaces].
  apply Ascii.eqb_neq in Ha. now rewrite Ha.
Qed.

Lemma lex_line_indent i t :
  token_ok t = true -> lex_line (spaces i ++ render_token t) = Some (Some t).
Proof.
  intros Hok. rewrite <- (lex_line_render t Hok). unfold lex_line.
  now rewrite strip_spaces_spaces.
Qed.

Lemma render_token_no_nl t : token_ok t = true -> has_char nl (render_token t) = false.
Proof.
  intros Hok. destruct t as [ |n|n|n| | | | | | | | | | | | | | | | ];
    try (vm_compute; reflexivity);
    cbn [token_ok] in Hok; apply andb_true_iff in Hok; destruct Hok as [Hn _];
    apply negb_true_iff in Hn; cbn [render_token];
    rewrite ?has_char_app, Hn; reflexivity.
Qed.

(** ** Lines *)

Lemma split_lines_no_nl l : has_char nl l = false -> split_lines l = [l].
Proof.
  induction l as [|a l IH]; cbn [split_lines has_char]; intros H; [reflexivity|].
  apply orb_false_iff in H. destruct H as [Ha Hl].
  now rewrite Ha, (IH Hl).
Qed.

Lemma split_lines_app l r :
  has_char nl l = false -> split_lines (l ++ String nl r) = l :: split_lines r.
Proof.
  induction l as [|a l IH]; cbn [append split_lines has_char]; intros H.
  - now rewrite Ascii.eqb_refl.
  - apply orb_false_iff in H. destruct H as [Ha Hl].
    now rewrite Ha, (IH Hl).
Qed.

Lemma split_lines_unlines ls :
  ls <> [] -> Forall (fun l => has_char nl l = false) ls -> split_lines (unlines ls) = ls.
Proof.
  intros Hne H. induction H as [|l ls Hl Hls IH]; [congruence|].
  destruct ls as [|l2 ls].
  - cbn [unlines]. now apply split_lines_no_nl.
  - change (unlines (l :: l2 :: ls)) with (l ++ String nl (unlines (l2 :: ls))).
    rewrite (split_lines_app _ _ Hl), IH; [reflexivity|discriminate].
Qed.

Definition render_line (p : nat * token') : string := spaces (fst p) ++ render_token (snd p).

Lemma lex_lines_render its :
  Forall (fun p => token_ok (snd p) = true) its ->
  lex_lines (map render_line its) = Some (map snd its).
Proof.
  induction 1 as [|[i t] its Hok _ IH]; [reflexivity|].
  cbn [map lex_lines snd] in *.
  change (render_line (i, t)) with (spaces i ++ render_token t).
  now rewrite (lex_line_indent i t Hok), IH.
Qed.

(** every line indented by its own amount (as the Python producer does) *)
Theorem lex_render_indented :
  forall its : list (nat * token'),
    Forall (fun p => token_ok (snd p) = true) its ->
    lex (unlines (map render_line its)) = Some (map snd its).
Proof.
  intros its H. unfold lex.
  destruct its as [|p its]; [reflexivity|].
  rewrite split_lines_unlines.
  - now apply lex_lines_render.
  - discriminate.
  - apply Forall_forall. intros l Hl. apply in_map_iff in Hl.
    destruct Hl as [[i t] [<- Hin]].
    rewrite Forall_forall in H. specialize (H _ Hin). cbn [snd] in H.
    unfold render_line. cbn [fst snd].
    rewrite has_char_app, (render_token_no_nl t H), has_char_spaces; [reflexivity|discriminate].
Qed.

Theorem lex_render :
  forall ts : list token',
    Forall (fun t => token_ok t = true) ts ->
    lex (unlines (map render_token ts)) = Some ts.
Proof.
  intros ts H.
  pose proof (lex_render_indented (map (fun t => (0, t)) ts)) as L.
  rewrite !map_map in L. cbn [snd] in L. rewrite map_id in L.
  unfold render_line in L. cbn [fst snd spaces append] in L.
  apply L. apply Forall_forall. intros p Hp. apply in_map_iff in Hp.
  destruct Hp as [t [<- Hin]]. rewrite Forall_forall in H. exact (H _ Hin).
Qed.

(** the hypothesis in the form "names contain no newline, no double quote, no semicolon" *)
Definition name_plain (n : string) : bool :=
  negb (has_char nl n) && negb (has_char dquote n) && negb (has_char semicolon n).

Lemma name_plain_token_ok t :
  match t with LPartition n | LGroup n | LEvent n => name_plain n = true | _ => True end ->
  token_ok t = true.
Proof.
  destruct t; try reflexivity; unfold name_plain; cbn [token_ok]; intros H;
    apply andb_true_iff in H; destruct H as [H H3];
    apply andb_true_iff in H; destruct H as [H1 H2];
    now rewrite H1, ?H2, ?H3.
Qed.

(** ** Examples *)

Example ex_lex_text :
  lex ("@startuml" ++ String nl
       ("    partition " ++ dq ++ "job" ++ dq ++ " {" ++ String nl
       ("        group " ++ dq ++ "job" ++ dq ++ String nl
       ("            :A;" ++ String nl
       ("            switch (XOR)" ++ String nl
       ("                case (" ++ dq ++ dq ++ ")" ++ String nl
       ("                    :B C;" ++ String nl
       ("                    break" ++ String nl
       ("            endswitch" ++ String nl
       ("" ++ String nl
       ("        end group" ++ String nl
       ("    }" ++ String nl
        "@enduml"))))))))))))
  = Some [LStartUml; LPartition "job"; LGroup "job"; LEvent "A"; LSwitch; LCase; LEvent "B C";
          LBreak; LEndSwitch; LEndGroup; LClose; LEndUml].
Proof. vm_compute. reflexivity. Qed.

Example ex_lex_reject_unknown : lex ("@startuml" ++ String nl "forkagain") = None.
Proof. vm_compute. reflexivity. Qed.

Example ex_lex_reject_event_without_semicolon : lex_line "    :A" = None.
Proof. vm_compute. reflexivity. Qed.

Example ex_lex_reject_trailing_garbage : lex_line ":A; x" = None.
Proof. vm_compute. reflexivity. Qed.

Example ex_lex_reject_partition_without_brace : lex_line ("partition " ++ dq ++ "p" ++ dq) = None.
Proof. vm_compute. reflexivity. Qed.

Example ex_lex_blank : lex_line "      " = Some None.
Proof. vm_compute. reflexivity. Qed.

Example ex_lex_render_nonvacuous :
  Forall (fun t => token_ok t = true) [LStartUml; LPartition "a b"; LGroup "a b"; LEvent " x:y"; LEndUml].
Proof. repeat constructor. Qed.

Print Assumptions lex_render_indented.
Print Assumptions lex_render.
