(** Proofs about the executable glue of Puml/Check.v: what a POSITIVE verdict of the adaptive
    checks ([rejected_adaptive], [incl_adaptive] returning ([], [])) and of [c05_ok] means.
    Negative verdicts are only ever used to raise alarms; for them we prove that [sort_k] sorts
    and that [diff_k] on sorted inputs only keeps genuinely unmatched forms. *)
From Coq Require Import List Bool PArith Arith Lia Permutation Sorted.
From V Require Import Store.Unique Store.UniqueProofs.
From V Require Import Puml.Ast Puml.Exec Puml.Canon Puml.Accept Puml.CanonSpec Puml.CanonProofs.
From V Require Import Puml.Syntax Puml.Parse Puml.ParseProofs Puml.Check.
Import ListNotations.

(* ------------------------------------------------------------------------------------------ *)
(** * (a) [lc_cmp] is a total order on canonical forms *)

Lemma lc_cmp_refl : forall a, lc_cmp a a = Eq.
Proof.
  induction a as [|x a IH]; simpl; [reflexivity|]. rewrite ct_cmp_refl. exact IH.
Qed.

Lemma lc_cmp_Eq_eq : forall a b, lc_cmp a b = Eq -> a = b.
Proof.
  induction a as [|x a IH]; intros [|y b] E; simpl in E; try discriminate; [reflexivity|].
  destruct (ct_cmp x y) eqn:Exy; try discriminate.
  f_equal; [apply ct_cmp_eq, Exy | apply IH, E].
Qed.

Theorem lc_cmp_eq : forall a b, lc_cmp a b = Eq <-> a = b.
Proof.
  intros a b. split; [apply lc_cmp_Eq_eq | intros ->; apply lc_cmp_refl].
Qed.

Lemma lc_cmp_opp : forall a b, lc_cmp b a = CompOpp (lc_cmp a b).
Proof.
  induction a as [|x a IH]; intros [|y b]; simpl; try reflexivity.
  rewrite (ct_cmp_opp x y). destruct (ct_cmp x y); simpl; try reflexivity. apply IH.
Qed.

Lemma lc_cmp_lt_trans : forall a b c, lc_cmp a b = Lt -> lc_cmp b c = Lt -> lc_cmp a c = Lt.
Proof.
  induction a as [|x a IH]; intros [|y b] [|z c]; simpl; try discriminate; try reflexivity.
  destruct (ct_cmp x y) eqn:Exy; try discriminate.
  - apply ct_cmp_eq in Exy. subst y. destruct (ct_cmp x z); try discriminate; [|reflexivity].
    apply IH.
  - intros _. destruct (ct_cmp y z) eqn:Eyz; try discriminate.
    + apply ct_cmp_eq in Eyz. subst z. rewrite Exy. reflexivity.
    + intros _. rewrite (ct_cmp_lt_trans x y z Exy Eyz). reflexivity.
Qed.

(** the order on keyed entries: by canonical form only *)
Definition k_le (x y : keyed) : Prop := lc_cmp (kc x) (kc y) <> Gt.

Lemma k_le_trans x y z : k_le x y -> k_le y z -> k_le x z.
Proof.
  unfold k_le. intros Hxy Hyz.
  destruct (lc_cmp (kc x) (kc y)) eqn:Exy; [| |congruence].
  - apply lc_cmp_Eq_eq in Exy. rewrite Exy. exact Hyz.
  - destruct (lc_cmp (kc y) (kc z)) eqn:Eyz; [| |congruence].
    + apply lc_cmp_Eq_eq in Eyz. rewrite <- Eyz, Exy. discriminate.
    + rewrite (lc_cmp_lt_trans _ _ _ Exy Eyz). discriminate.
Qed.

Lemma lc_lt_le_trans a b c : lc_cmp a b = Lt -> lc_cmp b c <> Gt -> lc_cmp a c = Lt.
Proof.
  intros Hab Hbc. destruct (lc_cmp b c) eqn:Ebc; [| |congruence].
  - apply lc_cmp_Eq_eq in Ebc. subst c. exact Hab.
  - apply (lc_cmp_lt_trans a b c Hab Ebc).
Qed.

Lemma lc_gt_lt a b : lc_cmp a b = Gt -> lc_cmp b a = Lt.
Proof. intros H. rewrite lc_cmp_opp, H. reflexivity. Qed.

(* ------------------------------------------------------------------------------------------ *)
(** * (b) [sort_k] is a permutation, and sorts *)

Lemma merge_k_nil_r a : merge_k a [] = a.
Proof. destruct a; reflexivity. Qed.

Lemma merge_k_cons x a' y b' :
  merge_k (x :: a') (y :: b') =
  match lc_cmp (kc x) (kc y) with
  | Gt => y :: merge_k (x :: a') b'
  | _ => x :: merge_k a' (y :: b')
  end.
Proof. reflexivity. Qed.

Lemma merge_k_perm : forall a b, Permutation (merge_k a b) (a ++ b).
Proof.
  induction a as [|x a' IHa]; intros b; [apply Permutation_refl|].
  induction b as [|y b' IHb].
  - rewrite merge_k_nil_r, app_nil_r. apply Permutation_refl.
  - rewrite merge_k_cons. destruct (lc_cmp (kc x) (kc y)).
    + simpl. apply perm_skip. apply IHa.
    + simpl. apply perm_skip. apply IHa.
    + eapply Permutation_trans; [apply perm_skip, IHb|]. apply Permutation_middle.
Qed.

Lemma list_ind2 {A} (P : list A -> Prop) :
  P [] -> (forall a, P [a]) -> (forall a b r, P r -> P (a :: b :: r)) -> forall l, P l.
Proof.
  intros H0 H1 H2. fix IH 1. intros [|a [|b r]]; [exact H0 | apply H1 | apply H2, IH].
Qed.

Lemma merge_pairs_perm : forall l, Permutation (concat (merge_pairs l)) (concat l).
Proof.
  induction l as [|a|a b r IH] using list_ind2; try apply Permutation_refl.
  cbn [merge_pairs concat]. rewrite app_assoc.
  apply Permutation_app; [apply merge_k_perm | exact IH].
Qed.

Lemma merge_pairs_length : forall l, 2 * length (merge_pairs l) <= length l + 1.
Proof.
  induction l as [|a|a b r IH] using list_ind2; cbn [merge_pairs length]; lia.
Qed.

Lemma merge_all_perm : forall fuel l, Permutation (merge_all fuel l) (concat l).
Proof.
  induction fuel as [|f IH]; intros l; [apply Permutation_refl|].
  destruct l as [|a [|b r]].
  - apply Permutation_refl.
  - cbn [merge_all concat]. rewrite app_nil_r. apply Permutation_refl.
  - change (merge_all (S f) (a :: b :: r)) with (merge_all f (merge_pairs (a :: b :: r))).
    eapply Permutation_trans; [apply IH | apply merge_pairs_perm].
Qed.

Lemma concat_singletons {A} : forall l : list A, concat (map (fun x => [x]) l) = l.
Proof. induction l as [|x l IH]; simpl; [reflexivity | rewrite IH; reflexivity]. Qed.

Theorem sort_k_perm : forall l, Permutation (sort_k l) l.
Proof.
  intros l. unfold sort_k.
  eapply Permutation_trans; [apply merge_all_perm|]. rewrite concat_singletons. apply Permutation_refl.
Qed.

Corollary sort_k_In : forall l x, In x (sort_k l) <-> In x l.
Proof.
  intros l x. split; apply Permutation_in; [|apply Permutation_sym]; apply sort_k_perm.
Qed.

Corollary sort_k_length : forall l, length (sort_k l) = length l.
Proof. intros l. apply Permutation_length, sort_k_perm. Qed.

(** sortedness *)

Lemma HdRel_merge_k z : forall a b, HdRel k_le z a -> HdRel k_le z b -> HdRel k_le z (merge_k a b).
Proof.
  intros [|x a'] b Ha Hb; [exact Hb|].
  destruct b as [|y b']; [rewrite merge_k_nil_r; exact Ha|].
  rewrite merge_k_cons. inversion Ha; subst. inversion Hb; subst.
  destruct (lc_cmp (kc x) (kc y)); constructor; assumption.
Qed.

Lemma merge_k_sorted : forall a b, Sorted k_le a -> Sorted k_le b -> Sorted k_le (merge_k a b).
Proof.
  induction a as [|x a' IHa]; intros b Ha Hb; [exact Hb|].
  induction b as [|y b' IHb]; [rewrite merge_k_nil_r; exact Ha|].
  rewrite merge_k_cons.
  inversion Ha as [|x0 a0 Ha' Hhx]; subst. inversion Hb as [|y0 b0 Hb' Hhy]; subst.
  destruct (lc_cmp (kc x) (kc y)) eqn:E.
  - constructor; [apply IHa; assumption|]. apply HdRel_merge_k; [exact Hhx|].
    constructor. unfold k_le. rewrite E. discriminate.
  - constructor; [apply IHa; assumption|]. apply HdRel_merge_k; [exact Hhx|].
    constructor. unfold k_le. rewrite E. discriminate.
  - constructor; [apply IHb; assumption|]. apply HdRel_merge_k; [|exact Hhy].
    constructor. unfold k_le. rewrite (lc_gt_lt _ _ E). discriminate.
Qed.

Lemma merge_pairs_sorted : forall l, Forall (Sorted k_le) l -> Forall (Sorted k_le) (merge_pairs l).
Proof.
  induction l as [|a|a b r IH] using list_ind2; intros H; try exact H.
  cbn [merge_pairs]. inversion H as [|? ? Ha H']; subst. inversion H' as [|? ? Hb Hr]; subst.
  constructor; [apply merge_k_sorted; assumption | apply IH, Hr].
Qed.

Lemma merge_all_sorted : forall fuel l, length l <= fuel -> Forall (Sorted k_le) l ->
  Sorted k_le (merge_all fuel l).
Proof.
  induction fuel as [|f IH]; intros l Hlen Hs.
  - destruct l; [constructor | simpl in Hlen; lia].
  - destruct l as [|a [|b r]].
    + constructor.
    + inversion Hs; subst. assumption.
    + change (merge_all (S f) (a :: b :: r)) with (merge_all f (merge_pairs (a :: b :: r))).
      apply IH; [|apply merge_pairs_sorted, Hs].
      pose proof (merge_pairs_length (a :: b :: r)) as Hl. cbn [length] in *. lia.
Qed.

Theorem sort_k_sorted : forall l, Sorted k_le (sort_k l).
Proof.
  intros l. unfold sort_k. apply merge_all_sorted.
  - rewrite map_length. lia.
  - apply Forall_forall. intros s Hs. apply in_map_iff in Hs. destruct Hs as [x [<- _]].
    repeat constructor.
Qed.

Corollary sort_k_strongly_sorted : forall l, StronglySorted k_le (sort_k l).
Proof.
  intros l. apply Sorted_StronglySorted; [|apply sort_k_sorted].
  intros x y z. apply k_le_trans.
Qed.

(* ------------------------------------------------------------------------------------------ *)
(** * (c) [diff_k] *)

Lemma diff_k_nil_r a : diff_k a [] = a.
Proof. destruct a; reflexivity. Qed.

Lemma diff_k_cons x a' y b' :
  diff_k (x :: a') (y :: b') =
  match lc_cmp (kc x) (kc y) with
  | Lt => x :: diff_k a' (y :: b')
  | Eq => diff_k a' (y :: b')
  | Gt => diff_k (x :: a') b'
  end.
Proof. reflexivity. Qed.

(** what is left is part of the input ... *)
Theorem diff_k_incl : forall a b x, In x (diff_k a b) -> In x a.
Proof.
  induction a as [|x0 a' IHa]; intros b x Hx; [destruct Hx|].
  induction b as [|y b' IHb]; [rewrite diff_k_nil_r in Hx; exact Hx|].
  rewrite diff_k_cons in Hx. destruct (lc_cmp (kc x0) (kc y)).
  - right. eapply IHa, Hx.
  - destruct Hx as [E | Hx]; [left; exact E | right; eapply IHa, Hx].
  - apply IHb, Hx.
Qed.

(** ... and what disappears was matched (constructive form; no sortedness needed) *)
Lemma diff_k_cases : forall a b x, In x a ->
  In x (diff_k a b) \/ exists y, In y b /\ kc y = kc x.
Proof.
  induction a as [|x0 a' IHa]; intros b x Hx; [destruct Hx|].
  induction b as [|y b' IHb]; [left; rewrite diff_k_nil_r; exact Hx|].
  rewrite diff_k_cons. destruct (lc_cmp (kc x0) (kc y)) eqn:E.
  - destruct Hx as [<- | Hx].
    + right. exists y. split; [left; reflexivity|]. symmetry. apply lc_cmp_Eq_eq, E.
    + apply IHa, Hx.
  - destruct Hx as [<- | Hx]; [left; left; reflexivity|].
    destruct (IHa (y :: b') x Hx) as [H | H]; [left; right; exact H | right; exact H].
  - destruct IHb as [H | [y' [Hy' Ey']]]; [left; exact H|].
    right. exists y'. split; [right; exact Hy' | exact Ey'].
Qed.

Theorem diff_k_matched : forall a b x, In x a -> ~ In x (diff_k a b) ->
  exists y, In y b /\ kc y = kc x.
Proof.
  intros a b x Hx Hn. destruct (diff_k_cases a b x Hx) as [H | H]; [contradiction | exact H].
Qed.

Theorem diff_k_spec : forall a b x,
  (In x (diff_k a b) -> In x a) /\
  (In x a -> ~ In x (diff_k a b) -> exists y, In y b /\ kc y = kc x).
Proof.
  intros a b x. split; [apply diff_k_incl | apply diff_k_matched].
Qed.

(** on sorted inputs nothing that has a match is kept (so a reported form is really absent) *)
Theorem diff_k_complete : forall a b, StronglySorted k_le a -> StronglySorted k_le b ->
  forall x, In x (diff_k a b) -> forall y, In y b -> kc y <> kc x.
Proof.
  induction a as [|x0 a' IHa]; intros b Ha Hb x Hx; [destruct Hx|].
  induction b as [|y0 b' IHb]; [intros y []|].
  inversion Ha as [|? ? Ha' Hfa]; subst. inversion Hb as [|? ? Hb' Hfb]; subst.
  rewrite diff_k_cons in Hx. destruct (lc_cmp (kc x0) (kc y0)) eqn:E.
  - apply (IHa (y0 :: b') Ha' Hb x Hx).
  - destruct Hx as [<- | Hx]; [|apply (IHa (y0 :: b') Ha' Hb x Hx)].
    intros y Hy Ey.
    assert (Hlt : lc_cmp (kc x0) (kc y) = Lt).
    { destruct Hy as [<- | Hy]; [exact E|].
      apply (lc_lt_le_trans _ (kc y0)); [exact E|].
      rewrite Forall_forall in Hfb. apply (Hfb y Hy). }
    rewrite Ey, lc_cmp_refl in Hlt. discriminate.
  - intros y [<- | Hy]; [|apply (IHb Hb' Hx y Hy)].
    intros Ey.
    assert (Hin : In x (x0 :: a')) by (eapply diff_k_incl, Hx).
    assert (Hlt : lc_cmp (kc y0) (kc x) = Lt).
    { apply lc_gt_lt in E. destruct Hin as [<- | Hin]; [exact E|].
      apply (lc_lt_le_trans _ (kc x0)); [exact E|].
      rewrite Forall_forall in Hfa. apply (Hfa x Hin). }
    rewrite Ey, lc_cmp_refl in Hlt. discriminate.
Qed.

(* ------------------------------------------------------------------------------------------ *)
(** * (d) iterative deepening *)

Lemma in_sorted_lang k d y : In y (sorted_lang k d) -> exists g, In g (jobs k d) /\ canon g = kc y.
Proof.
  unfold sorted_lang. rewrite sort_k_In, in_map_iff. intros [g [<- Hg]].
  exists g. split; [exact Hg | reflexivity].
Qed.

Lemma deepen_O k kmax cap d todo :
  deepen 0 k kmax cap d todo = ([], map (fun t => fst (fst t)) todo).
Proof. destruct todo; reflexivity. Qed.

Lemma deepen_S f k kmax cap d todo : todo <> [] ->
  deepen (S f) k kmax cap d todo =
  if Nat.ltb kmax k then
    (map (fun t => fst (fst t)) (filter (fun t => Nat.leb (snd t) kmax) todo),
     map (fun t => fst (fst t)) (filter (fun t => negb (Nat.leb (snd t) kmax)) todo))
  else if negb (Nat.leb (nruns k d) cap) then ([], map (fun t => fst (fst t)) todo)
  else deepen f (S k) kmax cap d (diff_k todo (sorted_lang k d)).
Proof. destruct todo; [congruence | reflexivity]. Qed.

(** every todo entry whose index is reported neither bad nor undecided is the canonical form of
    a run of [d] for some loop bound between the starting bound and kmax, whose enumeration was
    within the cap.  No distinctness of the indices is needed: an entry that is never matched
    ends in one of the two reported lists. *)
Theorem deepen_sound_bounds : forall fuel k kmax cap d todo bad und,
  deepen fuel k kmax cap d todo = (bad, und) ->
  forall x, In x todo -> ~ In (fst (fst x)) bad -> ~ In (fst (fst x)) und ->
  exists k' g, k <= k' <= kmax /\ nruns k' d <= cap /\ In g (jobs k' d) /\ canon g = kc x.
Proof.
  induction fuel as [|f IH]; intros k kmax cap d todo bad und H x Hx Hb Hu.
  - rewrite deepen_O in H. inversion H; subst. exfalso. apply Hu.
    apply (in_map (fun t => fst (fst t))), Hx.
  - rewrite deepen_S in H by (intros ->; destruct Hx).
    destruct (Nat.ltb kmax k) eqn:E1.
    { inversion H; subst. exfalso. destruct (Nat.leb (snd x) kmax) eqn:E2.
      - apply Hb. apply (in_map (fun t => fst (fst t))). apply filter_In. split; [exact Hx | exact E2].
      - apply Hu. apply (in_map (fun t => fst (fst t))). apply filter_In. split; [exact Hx|].
        rewrite E2. reflexivity. }
    apply Nat.ltb_ge in E1.
    destruct (Nat.leb (nruns k d) cap) eqn:E2; cbn [negb] in H.
    2:{ inversion H; subst. exfalso. apply Hu. apply (in_map (fun t => fst (fst t))), Hx. }
    apply Nat.leb_le in E2.
    destruct (diff_k_cases todo (sorted_lang k d) x Hx) as [Hd | [y [Hy Ey]]].
    + destruct (IH (S k) kmax cap d _ bad und H x Hd Hb Hu) as [k' [g [Hk [Hc [Hg Eg]]]]].
      exists k', g. repeat split; try assumption; lia.
    + destruct (in_sorted_lang k d y Hy) as [g [Hg Eg]].
      exists k, g. repeat split; try assumption; try lia. rewrite Eg. exact Ey.
Qed.

Theorem deepen_sound : forall fuel k kmax cap d todo bad und,
  deepen fuel k kmax cap d todo = (bad, und) ->
  forall x, In x todo -> ~ In (fst (fst x)) bad -> ~ In (fst (fst x)) und ->
  exists k', exists g, In g (jobs k' d) /\ canon g = kc x.
Proof.
  intros fuel k kmax cap d todo bad und H x Hx Hb Hu.
  destruct (deepen_sound_bounds fuel k kmax cap d todo bad und H x Hx Hb Hu)
    as [k' [g [_ [_ [Hg Eg]]]]].
  exists k', g. split; assumption.
Qed.

(** the alarm side, for the record: on a sorted todo list an index reported bad belongs to an
    entry that matches no run of [d] for any loop bound from the starting bound up to kmax (all of
    which were enumerated), and whose largest event multiplicity is <= kmax *)
Lemma diff_k_strongly_sorted : forall a b, StronglySorted k_le a -> StronglySorted k_le (diff_k a b).
Proof.
  induction a as [|x0 a' IHa]; intros b Ha; [constructor|].
  induction b as [|y b' IHb]; [rewrite diff_k_nil_r; exact Ha|].
  inversion Ha as [|? ? Ha' Hfa]; subst.
  rewrite diff_k_cons. destruct (lc_cmp (kc x0) (kc y)).
  - apply IHa, Ha'.
  - constructor; [apply IHa, Ha'|]. rewrite Forall_forall in *. intros z Hz.
    apply Hfa. eapply diff_k_incl, Hz.
  - exact IHb.
Qed.

Theorem deepen_bad_complete : forall fuel k kmax cap d todo bad und,
  StronglySorted k_le todo ->
  deepen fuel k kmax cap d todo = (bad, und) ->
  forall i, In i bad ->
  exists x, In x todo /\ fst (fst x) = i /\ snd x <= kmax /\
            forall k', k <= k' <= kmax -> forall g, In g (jobs k' d) -> canon g <> kc x.
Proof.
  induction fuel as [|f IH]; intros k kmax cap d todo bad und Hs H i Hi.
  - rewrite deepen_O in H. inversion H; subst. destruct Hi.
  - destruct todo as [|t0 todo']; [inversion H; subst; destruct Hi|].
    assert (Hnil : t0 :: todo' <> []) by discriminate.
    remember (t0 :: todo') as todo eqn:Etodo. clear Etodo.
    rewrite deepen_S in H by exact Hnil.
    destruct (Nat.ltb kmax k) eqn:E1.
    { inversion H; subst. apply in_map_iff in Hi. destruct Hi as [x [Ex Hx]].
      apply filter_In in Hx. destruct Hx as [Hx Hm]. apply Nat.leb_le in Hm. apply Nat.ltb_lt in E1.
      exists x. repeat split; try assumption. intros k' Hk'. lia. }
    apply Nat.ltb_ge in E1.
    destruct (Nat.leb (nruns k d) cap) eqn:E2; cbn [negb] in H.
    2:{ inversion H; subst. destruct Hi. }
    destruct (IH (S k) kmax cap d _ bad und (diff_k_strongly_sorted _ (sorted_lang k d) Hs) H i Hi)
      as [x [Hx [Ex [Hm Hno]]]].
    exists x. split; [eapply diff_k_incl, Hx|]. split; [exact Ex|]. split; [exact Hm|].
    intros k' Hk' g Hg. destruct (Nat.eq_dec k' k) as [-> | Hne]; [|apply (Hno k'); [lia | exact Hg]].
    apply (diff_k_complete _ _ Hs (sort_k_strongly_sorted _) x Hx (0, canon g, 0)).
    unfold sorted_lang. apply sort_k_In. apply (in_map (fun g => (0, canon g, 0))), Hg.
Qed.

(* ------------------------------------------------------------------------------------------ *)
(** * (e) the adaptive checks *)

Lemma in_with_meta gs j : In j gs -> exists i, In (i, canon j, max_mult j) (with_meta gs).
Proof.
  intros Hj. destruct (in_combine_seq_ex gs 0 j Hj) as [i Hi]. exists i.
  unfold with_meta. apply sort_k_In.
  apply (in_map (fun p => (fst p, canon (snd p), max_mult (snd p))) _ (i, j)), Hi.
Qed.

Lemma with_meta_In gs x : In x (with_meta gs) ->
  exists j, In j gs /\ fst (fst x) < length gs /\ kc x = canon j /\ snd x = max_mult j
            /\ nth_error gs (fst (fst x)) = Some j.
Proof.
  unfold with_meta. rewrite sort_k_In, in_map_iff. intros [[i j] [<- Hin]]. cbn [fst snd kc].
  exists j. pose proof (in_combine_r _ _ _ _ Hin) as Hj.
  apply (in_combine_seq0 j) in Hin. destruct Hin as [Hlt Hn].
  repeat split; try assumption; try reflexivity.
  rewrite (nth_error_nth' gs j Hlt), Hn. reflexivity.
Qed.

Theorem rejected_adaptive_sound_bounds : forall kmax cap d js,
  rejected_adaptive kmax cap d js = ([], []) ->
  forall j, In j js -> exists k', 2 <= k' <= kmax /\ nruns k' d <= cap /\ accepts_b k' d j = true.
Proof.
  intros kmax cap d js H j Hj. unfold rejected_adaptive in H.
  destruct (map fst (filter (fun p => negb (topo_b (snd p))) (combine (seq 0 (length js)) js))) eqn:Eb.
  2:{ cbn [app] in H. discriminate H. }
  assert (Ht : topo_b j = true).
  { rewrite map_filter_nil in Eb. destruct (in_combine_seq_ex js 0 j Hj) as [i Hi].
    specialize (Eb (i, j) Hi). cbn [snd] in Eb. apply negb_false_iff in Eb. exact Eb. }
  assert (Hf : In j (filter topo_b js)) by (apply filter_In; split; assumption).
  destruct (in_with_meta _ j Hf) as [i Hi].
  destruct (deepen_sound_bounds _ _ _ _ _ _ _ _ H _ Hi (fun F => F) (fun F => F))
    as [k' [g [Hk [Hc [Hg Eg]]]]].
  exists k'. split; [exact Hk|]. split; [exact Hc|].
  apply accepts_b_spec. split; [exact Ht|]. exists g. split; [exact Hg | exact Eg].
Qed.

Theorem rejected_adaptive_sound : forall kmax cap d js,
  rejected_adaptive kmax cap d js = ([], []) ->
  forall j, In j js -> exists k', accepts_b k' d j = true.
Proof.
  intros kmax cap d js H j Hj.
  destruct (rejected_adaptive_sound_bounds kmax cap d js H j Hj) as [k' [_ [_ Ha]]].
  exists k'. exact Ha.
Qed.

Theorem incl_adaptive_sound_bounds : forall kmax cap k1 d1 d2,
  incl_adaptive kmax cap k1 d1 d2 = ([], []) ->
  forall g1, In g1 (jobs k1 d1) ->
  exists k2 g2, 2 <= k2 <= kmax /\ nruns k2 d2 <= cap /\ In g2 (jobs k2 d2) /\ canon g2 = canon g1.
Proof.
  intros kmax cap k1 d1 d2 H g1 Hg1. unfold incl_adaptive in H.
  destruct (Nat.leb (nruns k1 d1) cap); [|discriminate H].
  destruct (in_with_meta _ g1 Hg1) as [i Hi].
  exact (deepen_sound_bounds _ _ _ _ _ _ _ _ H _ Hi (fun F => F) (fun F => F)).
Qed.

Theorem incl_adaptive_sound : forall kmax cap k1 d1 d2,
  incl_adaptive kmax cap k1 d1 d2 = ([], []) ->
  forall g1, In g1 (jobs k1 d1) -> exists k2 g2, In g2 (jobs k2 d2) /\ canon g2 = canon g1.
Proof.
  intros kmax cap k1 d1 d2 H g1 Hg1.
  destruct (incl_adaptive_sound_bounds kmax cap k1 d1 d2 H g1 Hg1) as [k2 [g2 [_ [_ [Hg Eg]]]]].
  exists k2, g2. split; assumption.
Qed.

(** in terms of the plain validators of Accept.v *)
Corollary incl_adaptive_incl_b : forall kmax cap k1 d1 d2,
  incl_adaptive kmax cap k1 d1 d2 = ([], []) ->
  forall g1, In g1 (jobs k1 d1) -> exists k2, accepts_b k2 d2 g1 = true.
Proof.
  intros kmax cap k1 d1 d2 H g1 Hg1.
  destruct (incl_adaptive_sound kmax cap k1 d1 d2 H g1 Hg1) as [k2 [g2 [Hg Eg]]].
  exists k2. apply accepts_b_spec. split; [eapply jobs_topo, Hg1|]. exists g2. split; assumption.
Qed.

(* ------------------------------------------------------------------------------------------ *)
(** * (f) the C05 certificate *)

Theorem c05_ok_spec : forall name obs ts,
  c05_ok name obs ts = true <->
  exists d, parse ts = Some (name, d) /\ same_events (events_of d) obs = true.
Proof.
  intros name obs ts. unfold c05_ok. split.
  - destruct (parse ts) as [[n d]|]; [|discriminate].
    intros H. apply andb_true_iff in H. destruct H as [Hn Hs].
    apply Pos.eqb_eq in Hn. subst n. exists d. split; [reflexivity | exact Hs].
  - intros [d [Hp Hs]]. rewrite Hp, Pos.eqb_refl, Hs. reflexivity.
Qed.

Lemma nat_subset_spec a b : nat_subset a b = true <-> incl a b.
Proof.
  unfold nat_subset. rewrite forallb_forall. split.
  - intros H x Hx. specialize (H x Hx). apply existsb_exists in H. destruct H as [y [Hy E]].
    apply Pos.eqb_eq in E. subst y. exact Hy.
  - intros H x Hx. apply existsb_exists. exists x. split; [apply H, Hx | apply Pos.eqb_refl].
Qed.

Lemma same_events_spec a b : same_events a b = true <-> (forall e, In e a <-> In e b).
Proof.
  unfold same_events. rewrite andb_true_iff, !nat_subset_spec. split.
  - intros [H1 H2] e. split; [apply H1 | apply H2].
  - intros H. split; intros e He; apply H, He.
Qed.

Corollary c05_ok_sound : forall name obs ts,
  c05_ok name obs ts = true ->
  exists d, ts = print name d /\ wf d = true /\ (forall e, In e (events_of d) <-> In e obs).
Proof.
  intros name obs ts H. apply c05_ok_spec in H. destruct H as [d [Hp Hs]].
  apply parse_sound in Hp. destruct Hp as [Hp Hw].
  exists d. split; [exact Hp|]. split; [exact Hw|]. apply same_events_spec, Hs.
Qed.

Corollary c05_ok_complete : forall name obs d,
  wf d = true -> (forall e, In e (events_of d) <-> In e obs) -> c05_ok name obs (print name d) = true.
Proof.
  intros name obs d Hw Hs. apply c05_ok_spec. exists d.
  split; [apply parse_print, Hw | apply same_events_spec, Hs].
Qed.

Lemma parsed_spec ts n d : parse ts = Some (n, d) -> parsed ts = d.
Proof. intros H. unfold parsed. rewrite H. reflexivity. Qed.

(* ------------------------------------------------------------------------------------------ *)
(** * Non-vacuity *)

Example ex_lc_cmp : lc_cmp (canon ex_diamond1) (canon ex_diamond2) = Eq
  /\ lc_cmp (canon ex_diamond1) (canon ex_twoA) <> Eq.
Proof. split; vm_compute; [reflexivity | discriminate]. Qed.

Example ex_rejected_adaptive :
  rejected_adaptive 3 100 ex_diag [ex_diamond2; ex_diamond1] = ([], [])
  /\ rejected_adaptive 3 100 ex_diag [ex_diamond2; ex_twoA; ex_diamond1] = ([1], []).
Proof. split; vm_compute; reflexivity. Qed.

Example ex_incl_adaptive :
  incl_adaptive 3 100 1 ex_diag ex_diag = ([], [])
  /\ incl_adaptive 3 1000 2 ex_loop_diag ex_loop_diag = ([], [])
  /\ incl_adaptive 3 100 1 ex_diag [Ev 1%positive] = ([0], []).
Proof. repeat split; vm_compute; reflexivity. Qed.

Example ex_c05_ok :
  c05_ok 42 [13; 12; 11; 10; 9; 8; 7; 6; 5; 4; 3; 2; 1; 1]%positive (print 42 ex_diagram) = true
  /\ c05_ok 42 [1; 2]%positive (print 42 ex_diagram) = false
  /\ c05_ok 41 (events_of ex_diagram) (print 42 ex_diagram) = false.
Proof. repeat split; vm_compute; reflexivity. Qed.

Example ex_sort_diff :
  let a := with_meta [ex_diamond2; ex_twoA; ex_diamond1] in
  map (fun t => fst (fst t)) (diff_k a (sorted_lang 1 ex_diag)) = [1].
Proof. vm_compute. reflexivity. Qed.

Print Assumptions lc_cmp_eq.
Print Assumptions sort_k_perm.
Print Assumptions sort_k_sorted.
Print Assumptions diff_k_spec.
Print Assumptions diff_k_complete.
Print Assumptions deepen_sound_bounds.
Print Assumptions deepen_sound.
Print Assumptions deepen_bad_complete.
Print Assumptions rejected_adaptive_sound_bounds.
Print Assumptions rejected_adaptive_sound.
Print Assumptions incl_adaptive_sound_bounds.
Print Assumptions incl_adaptive_sound.
Print Assumptions c05_ok_spec.
Print Assumptions c05_ok_sound.
