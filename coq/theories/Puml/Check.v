(** Executable glue used by the harness to certify learner outputs (C01-C05, C14): one record per
    (source definition, job set, emitted token list).  No proofs in this file. *)
From Coq Require Import List Bool PArith Arith.
From V Require Import Puml.Ast Puml.Exec Puml.Canon Puml.Accept Puml.Syntax Puml.Parse Puml.FragmentF Store.Unique.
Import ListNotations.

Fixpoint count_pos (x : positive) (l : list positive) : nat :=
  match l with [] => 0 | y :: r => (if Pos.eqb x y then 1 else 0) + count_pos x r end.
(** the largest multiplicity of an event type in a job: no run denoting this job iterates a loop
    more often than this, because every loop body begins with an event *)
Definition max_mult (g : jobgraph) : nat :=
  fold_right (fun t m => Nat.max (count_pos t (types_of g)) m) 0 (types_of g).

(** cheap upper bound on the number of runs (to refuse hopeless enumerations) *)
Fixpoint nruns_blk (fuel : nat) (k : nat) (b : blk) {struct fuel} : nat :=
  match fuel with
  | O => 1
  | S f =>
      let nseq := fun s => fold_left (fun a b' => a * nruns_blk f k b') s 1 in
      match b with
      | Ev _ | Break | Detach => 1
      | Fork XOR bs => fold_right (fun s a => nseq s + a) 0 bs
      | Fork AND bs => fold_right (fun s a => nseq s * a) 1 bs
      | Fork OR bs => fold_right (fun s a => (nseq s + 1) * a) 1 bs
      | Loop body => let n := nseq body in fold_right (fun i a => Nat.pow n i + a) 0 (seq 1 k)
      end
  end.
Definition nruns (k : nat) (d : diagram) : nat :=
  let fuel := S (fold_right (fun b a => size_blk b + a) 0 d) in
  fold_left (fun a b => a * nruns_blk fuel k b) d 1.

(** membership of each run of d1 (loops <= k1) in the language of d2, with the loop bound on the
    d2 side chosen per run as its largest event multiplicity (capped at kmax, and refused when the
    enumeration of d2 would exceed [cap] runs).
    Result: (indices of runs definitely not in d2, indices undecided because of the caps). *)
Definition incl_adaptive (kmax cap k1 : nat) (d1 d2 : diagram) : list nat * list nat :=
  let l1 := jobs k1 d1 in
  let langs := map (fun k => if Nat.leb (nruns k d2) cap then Some (lang k d2) else None) (seq 1 kmax) in
  let verdict := fun g =>
      let k := max_mult g in
      if Nat.ltb kmax k then 2 else
      match nth (k - 1) langs None with
      | Some l => if mem_canon (canon g) l then 0 else
                    (* try the larger bounds too before giving a definite no *)
                    if existsb (fun o => match o with Some l' => mem_canon (canon g) l' | None => false end) langs then 0
                    else if forallb (fun o => match o with Some _ => true | None => false end) langs then 1 else 2
      | None => 2
      end in
  let vs := map verdict l1 in
  let idxs := combine (seq 0 (length vs)) vs in
  (map fst (filter (fun p => Nat.eqb (snd p) 1) idxs), map fst (filter (fun p => Nat.eqb (snd p) 2) idxs)).

(** jobs (given explicitly) rejected by d under the same adaptive bound *)
Definition rejected_adaptive (kmax cap : nat) (d : diagram) (js : list jobgraph) : list nat * list nat :=
  let langs := map (fun k => if Nat.leb (nruns k d) cap then Some (lang k d) else None) (seq 1 kmax) in
  let verdict := fun g =>
      if negb (topo_b g) then 1 else
      if existsb (fun o => match o with Some l' => mem_canon (canon g) l' | None => false end) langs then 0
      else if forallb (fun o => match o with Some _ => true | None => false end) langs
              && Nat.leb (max_mult g) kmax then 1 else 2 in
  let vs := map verdict js in
  let idxs := combine (seq 0 (length vs)) vs in
  (map fst (filter (fun p => Nat.eqb (snd p) 1) idxs), map fst (filter (fun p => Nat.eqb (snd p) 2) idxs)).

(** C05 certificate for one emitted token list: parses (grammar membership, by parse_sound),
    group name as requested, event set equal to the observed event types *)
Definition c05_ok (name : positive) (observed : list evt) (ts : list token) : bool :=
  match parse ts with
  | Some (n, d) => Pos.eqb n name && same_events (events_of d) observed
  | None => false
  end.

Definition parsed (ts : list token) : diagram :=
  match parse ts with Some (_, d) => d | None => [] end.
