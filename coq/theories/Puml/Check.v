(** Executable glue used by the harness to certify learner outputs (C01-C05, C14): one record per
    (source definition, job set, emitted token list).  No proofs in this file. *)
From Coq Require Import List Bool PArith Arith.
From V Require Import Puml.Ast Puml.Exec Puml.Canon Puml.Accept Puml.Syntax Puml.Parse Puml.FragmentF Store.Unique.
Import ListNotations.

Fixpoint count_pos (x : positive) (l : list positive) : nat :=
  match l with [] => 0 | y :: r => (if Pos.eqb x y then 1 else 0) + count_pos x r end.
(** the largest multiplicity of an event type in a job: no run denoting this job iterates a loop
    more often than this, because every loop body begins with an event *)
Definition max_mult (g : jobgraph) : nat :=
  fold_right (fun t m => Nat.max (count_pos t (types_of g)) m) 0 (types_of g).

(** cheap upper bound on the number of runs (to refuse hopeless enumerations) *)
Fixpoint nruns_blk (fuel : nat) (k : nat) (b : blk) {struct fuel} : nat :=
  match fuel with
  | O => 1
  | S f =>
      let nseq := fun s => fold_left (fun a b' => a * nruns_blk f k b') s 1 in
      match b with
      | Ev _ | Break | Detach => 1
      | Fork XOR bs => fold_right (fun s a => nseq s + a) 0 bs
      | Fork AND bs => fold_right (fun s a => nseq s * a) 1 bs
      | Fork OR bs => fold_right (fun s a => (nseq s + 1) * a) 1 bs
      | Loop body => let n := nseq body in fold_right (fun i a => Nat.pow n i + a) 0 (seq 1 k)
      end
  end.
Definition nruns (k : nat) (d : diagram) : nat :=
  let fuel := S (fold_right (fun b a => size_blk b + a) 0 d) in
  fold_left (fun a b => a * nruns_blk fuel k b) d 1.

(** lexicographic order on canonical forms, merge sort with de-duplication, and linear-time
    difference of sorted lists: language comparison is O(n log n) instead of O(n^2) *)
Fixpoint lc_cmp (a b : list ctree) : comparison :=
  match a, b with
  | [], [] => Eq
  | [], _ :: _ => Lt
  | _ :: _, [] => Gt
  | x :: a', y :: b' => match ct_cmp x y with Eq => lc_cmp a' b' | c => c end
  end.

Definition keyed := (nat * list ctree * nat)%type.      (* index, canonical form, largest multiplicity *)
Definition kc (t : keyed) : list ctree := snd (fst t).

Fixpoint merge_k (a : list keyed) : list keyed -> list keyed :=
  match a with
  | [] => fun b => b
  | x :: a' =>
      fix inner (b : list keyed) : list keyed :=
        match b with
        | [] => a
        | y :: b' => match lc_cmp (kc x) (kc y) with
                     | Gt => y :: inner b'
                     | _ => x :: merge_k a' b
                     end
        end
  end.
Fixpoint merge_pairs (l : list (list keyed)) : list (list keyed) :=
  match l with a :: b :: r => merge_k a b :: merge_pairs r | _ => l end.
Fixpoint merge_all (fuel : nat) (l : list (list keyed)) : list keyed :=
  match fuel with
  | O => concat l
  | S f => match l with [] => [] | [a] => a | _ => merge_all f (merge_pairs l) end
  end.
Definition sort_k (l : list keyed) : list keyed := merge_all (S (length l)) (map (fun x => [x]) l).

(** elements of the sorted list [a] whose form does not occur in the sorted list [b] *)
Fixpoint diff_k (a : list keyed) : list keyed -> list keyed :=
  match a with
  | [] => fun _ => []
  | x :: a' =>
      fix inner (b : list keyed) : list keyed :=
        match b with
        | [] => a
        | y :: b' => match lc_cmp (kc x) (kc y) with
                     | Lt => x :: diff_k a' b
                     | Eq => diff_k a' b
                     | Gt => inner b'
                     end
        end
  end.

Definition sorted_lang (k : nat) (d : diagram) : list keyed :=
  sort_k (map (fun g => (0, canon g, 0)) (jobs k d)).

(** iterative deepening on the loop bound of the accepting diagram [d]: forms in [todo] (sorted)
    still unmatched are tried against lang k d for k = k0, k0+1, ... as long as k <= kmax and the
    enumeration stays under [cap] runs.
    Result: (definitely not in the language, undecided because of the caps). *)
Fixpoint deepen (fuel k kmax cap : nat) (d : diagram) (todo : list keyed) : list nat * list nat :=
  match todo with
  | [] => ([], [])
  | _ =>
    match fuel with
    | O => ([], map (fun t => fst (fst t)) todo)
    | S f =>
        if Nat.ltb kmax k then
          (map (fun t => fst (fst t)) (filter (fun t => Nat.leb (snd t) kmax) todo),
           map (fun t => fst (fst t)) (filter (fun t => negb (Nat.leb (snd t) kmax)) todo))
        else if negb (Nat.leb (nruns k d) cap) then ([], map (fun t => fst (fst t)) todo)
        else deepen f (S k) kmax cap d (diff_k todo (sorted_lang k d))
    end
  end.

Definition with_meta (gs : list jobgraph) : list keyed :=
  sort_k (map (fun p => (fst p, canon (snd p), max_mult (snd p))) (combine (seq 0 (length gs)) gs)).

(** membership of each run of d1 (loops <= k1) in the language of d2 *)
Definition incl_adaptive (kmax cap k1 : nat) (d1 d2 : diagram) : list nat * list nat :=
  if Nat.leb (nruns k1 d1) cap
  then deepen (S kmax) 2 kmax cap d2 (with_meta (jobs k1 d1))
  else ([], [0]).     (* too many runs to enumerate: undecided *)

(** jobs (given explicitly) rejected by d *)
Definition rejected_adaptive (kmax cap : nat) (d : diagram) (js : list jobgraph) : list nat * list nat :=
  let bad := map fst (filter (fun p => negb (topo_b (snd p))) (combine (seq 0 (length js)) js)) in
  let r := deepen (S kmax) 2 kmax cap d (with_meta (filter topo_b js)) in
  match bad with [] => r | _ => (bad ++ fst r, snd r) end.

(** C05 certificate for one emitted token list: parses (grammar membership, by parse_sound),
    group name as requested, event set equal to the observed event types *)
Definition c05_ok (name : positive) (observed : list evt) (ts : list token) : bool :=
  match parse ts with
  | Some (n, d) => Pos.eqb n name && same_events (events_of d) observed
  | None => false
  end.

Definition parsed (ts : list token) : diagram :=
  match parse ts with Some (_, d) => d | None => [] end.
